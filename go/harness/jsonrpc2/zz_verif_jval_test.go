// JSON value helper of the E2 (wire) harnesses: the canonical JVal token form of DESIGN.md
// Appendix C, a JSON-text renderer for generated values, and generators.
// The same file is kept in go/harness/jsonrpc2 and go/harness/mcp (only the package clause differs).
package jsonrpc2

import (
	"bytes"
	"encoding/hex"
	"encoding/json"
	"fmt"
	"io"
	"math/big"
	"math/rand"
	"sort"
	"strings"
	"unicode/utf8"
)

// jv is a JSON value. k: 'z' null, 't'/'f' bool, 'i' integer literal (n = decimal digits),
// 'd' fractional/exponent form (n = "<mantissa>e<exp>", mantissa without trailing zeros),
// 's' string, 'a' array, 'o' object.
// Token form: strings are s<hex of the string>, or q<hex of the literal's body> when the value carries
// a spelling; member names likewise <hex> or q<hex of body>.
type jv struct {
	k byte
	n string
	s string
	a []jv
	o []jmem
	// spelling (wire text level): q, when set, is the body of the string literal as a foreign peer
	// wrote it (any mix of raw characters, short escapes, \uXXXX, surrogate pairs) and s the string it
	// denotes; oq[i], when it belongs to o[i] (same key), is the spelled body of that member name.
	q  *string
	oq []jkq
}

type jkq struct{ k, body string }

type jmem struct {
	k string
	v jv
}

func jNull() jv          { return jv{k: 'z'} }
func jBool(b bool) jv    { if b { return jv{k: 't'} }; return jv{k: 'f'} }
func jInt(n int64) jv    { return jv{k: 'i', n: fmt.Sprint(n)} }
func jBig(s string) jv   { return jv{k: 'i', n: s} }
func jDec(m string, e int) jv {
	v := canonNumber(fmt.Sprintf("%se%d", m, e))
	return jv{k: 'd', n: strings.TrimPrefix(v.tok(), "d")}
}
func jStr(s string) jv   { return jv{k: 's', s: s} }
func jArr(a ...jv) jv    { return jv{k: 'a', a: a} }
func jObj(m ...jmem) jv  { return jv{k: 'o', o: m} }

func (v jv) get(k string) (jv, bool) {
	for i := len(v.o) - 1; i >= 0; i-- {
		if v.o[i].k == k {
			return v.o[i].v, true
		}
	}
	return jv{}, false
}

// keyBody returns the spelled body of member i's name, if it has one.
func (v jv) keyBody(i int) (string, bool) {
	if len(v.oq) == len(v.o) && v.oq[i].k == v.o[i].k && v.oq[i].body != "" {
		return v.oq[i].body, true
	}
	return "", false
}

// denoteBody: the string a literal body denotes, by Go's decoder (used for sorting and lookups in
// the harness only; the model has its own `unquote`).
func denoteBody(body string) (string, bool) {
	var s string
	if err := json.Unmarshal([]byte("\""+body+"\""), &s); err != nil {
		return "", false
	}
	return s, true
}

// tok prints the canonical token form: object members sorted by key, last duplicate wins.
func (v jv) tok() string {
	var b strings.Builder
	v.tokTo(&b)
	return b.String()
}

func (v jv) tokTo(b *strings.Builder) {
	switch v.k {
	case 'z', 't', 'f':
		b.WriteByte(v.k)
	case 'i':
		b.WriteString("i" + v.n)
	case 'd':
		b.WriteString("d" + v.n)
	case 's':
		if v.q != nil {
			b.WriteString("q" + hex.EncodeToString([]byte(*v.q)))
		} else {
			b.WriteString("s" + hex.EncodeToString([]byte(v.s)))
		}
	case 'a':
		b.WriteString("a[")
		for _, x := range v.a {
			b.WriteByte(' ')
			x.tokTo(b)
		}
		b.WriteString(" ]")
	case 'o':
		last := map[string]int{}
		for i, m := range v.o {
			last[m.k] = i
		}
		keys := make([]string, 0, len(last))
		for k := range last {
			keys = append(keys, k)
		}
		sort.Strings(keys)
		b.WriteString("o{")
		for _, k := range keys {
			b.WriteByte(' ')
			if body, ok := v.keyBody(last[k]); ok {
				b.WriteString("q" + hex.EncodeToString([]byte(body)))
			} else {
				b.WriteString(hex.EncodeToString([]byte(k)))
			}
			b.WriteByte(' ')
			v.o[last[k]].v.tokTo(b)
		}
		b.WriteString(" }")
	default:
		b.WriteString("?")
	}
}

// text renders compact JSON text (members in the order held).
func (v jv) text() string {
	var b bytes.Buffer
	v.textTo(&b)
	return b.String()
}

func jsonString(s string) []byte {
	var b bytes.Buffer
	enc := json.NewEncoder(&b)
	enc.SetEscapeHTML(false)
	enc.Encode(s)
	return bytes.TrimRight(b.Bytes(), "\n")
}

func (v jv) textTo(b *bytes.Buffer) {
	switch v.k {
	case 'z':
		b.WriteString("null")
	case 't':
		b.WriteString("true")
	case 'f':
		b.WriteString("false")
	case 'i':
		b.WriteString(v.n)
	case 'd':
		// "<m>e<x>": print positionally when that is short, else with an exponent
		var m string
		var x int
		if i := strings.IndexByte(v.n, 'e'); i >= 0 {
			m = v.n[:i]
			fmt.Sscanf(v.n[i+1:], "%d", &x)
		}
		neg := strings.HasPrefix(m, "-")
		m = strings.TrimPrefix(m, "-")
		if neg {
			b.WriteByte('-')
		}
		switch {
		case x < 0 && -x <= 20:
			for len(m) <= -x {
				m = "0" + m
			}
			b.WriteString(m[:len(m)+x] + "." + m[len(m)+x:])
		case x >= 0 && x <= 3 && len(v.n)%2 == 0:
			b.WriteString(m + strings.Repeat("0", x) + ".0")
		default:
			fmt.Fprintf(b, "%se%d", m, x)
		}
	case 's':
		if v.q != nil {
			b.WriteString("\"" + *v.q + "\"")
		} else {
			b.Write(jsonString(v.s))
		}
	case 'a':
		b.WriteByte('[')
		for i, x := range v.a {
			if i > 0 {
				b.WriteByte(',')
			}
			x.textTo(b)
		}
		b.WriteByte(']')
	case 'o':
		b.WriteByte('{')
		for i, m := range v.o {
			if i > 0 {
				b.WriteByte(',')
			}
			if body, ok := v.keyBody(i); ok {
				b.WriteString("\"" + body + "\"")
			} else {
				b.Write(jsonString(m.k))
			}
			b.WriteByte(':')
			m.v.textTo(b)
		}
		b.WriteByte('}')
	}
}

// canonNumber turns a JSON number token into the canonical jv.
func canonNumber(s string) jv {
	if !strings.ContainsAny(s, ".eE") {
		n, ok := new(big.Int).SetString(s, 10)
		if !ok {
			return jv{k: '?'}
		}
		return jv{k: 'i', n: n.String()}
	}
	mant, exp := s, 0
	if i := strings.IndexAny(s, "eE"); i >= 0 {
		mant = s[:i]
		fmt.Sscanf(s[i+1:], "%d", &exp)
	}
	neg := strings.HasPrefix(mant, "-")
	mant = strings.TrimPrefix(mant, "-")
	if i := strings.IndexByte(mant, '.'); i >= 0 {
		exp -= len(mant) - i - 1
		mant = mant[:i] + mant[i+1:]
	}
	mant = strings.TrimLeft(mant, "0")
	for strings.HasSuffix(mant, "0") {
		mant = mant[:len(mant)-1]
		exp++
	}
	if mant == "" {
		return jv{k: 'd', n: "0e0"}
	}
	if neg {
		mant = "-" + mant
	}
	return jv{k: 'd', n: fmt.Sprintf("%se%d", mant, exp)}
}

// parseJSON parses JSON text (one value, trailing blanks allowed) with Go's decoder (trusted) into jv.
func parseJSON(data []byte) (jv, error) {
	dec := json.NewDecoder(bytes.NewReader(data))
	dec.UseNumber()
	v, err := parseTok(dec)
	if err != nil {
		return jv{}, err
	}
	if _, err := dec.Token(); err != io.EOF {
		return jv{}, fmt.Errorf("trailing data")
	}
	return v, nil
}

func parseTok(dec *json.Decoder) (jv, error) {
	t, err := dec.Token()
	if err != nil {
		return jv{}, err
	}
	switch x := t.(type) {
	case nil:
		return jNull(), nil
	case bool:
		return jBool(x), nil
	case json.Number:
		return canonNumber(string(x)), nil
	case string:
		return jStr(x), nil
	case json.Delim:
		switch x {
		case '[':
			out := jv{k: 'a'}
			for dec.More() {
				e, err := parseTok(dec)
				if err != nil {
					return jv{}, err
				}
				out.a = append(out.a, e)
			}
			_, err := dec.Token()
			return out, err
		case '{':
			out := jv{k: 'o'}
			for dec.More() {
				kt, err := dec.Token()
				if err != nil {
					return jv{}, err
				}
				k, _ := kt.(string)
				e, err := parseTok(dec)
				if err != nil {
					return jv{}, err
				}
				out.o = append(out.o, jmem{k, e})
			}
			_, err := dec.Token()
			return out, err
		}
	}
	return jv{}, fmt.Errorf("unexpected token %v", t)
}

// tokJSON is parseJSON + tok; "unparsable" when Go's decoder rejects the text.
func tokJSON(data []byte) string {
	v, err := parseJSON(data)
	if err != nil {
		return "unparsable"
	}
	return v.tok()
}

// ---- token-form parser (for ops read back from replay/corpus files and from the generators)

type tokStream struct {
	t []string
	i int
}

func newToks(s string) *tokStream { return &tokStream{t: strings.Fields(s)} }
func (p *tokStream) peek() string {
	if p.i < len(p.t) {
		return p.t[p.i]
	}
	return ""
}
func (p *tokStream) next() string { s := p.peek(); p.i++; return s }
func (p *tokStream) done() bool   { return p.i >= len(p.t) }

func unhex(s string) (string, bool) {
	b, err := hex.DecodeString(s)
	return string(b), err == nil
}

func (p *tokStream) jv() (jv, bool) {
	t := p.next()
	switch {
	case t == "z" || t == "t" || t == "f":
		return jv{k: t[0]}, true
	case t == "a[":
		out := jv{k: 'a'}
		for p.peek() != "]" {
			if p.done() {
				return jv{}, false
			}
			e, ok := p.jv()
			if !ok {
				return jv{}, false
			}
			out.a = append(out.a, e)
		}
		p.next()
		return out, true
	case t == "o{":
		out := jv{k: 'o'}
		for p.peek() != "}" {
			if p.done() {
				return jv{}, false
			}
			kt := p.next()
			var kq jkq
			if strings.HasPrefix(kt, "q") {
				body, ok := unhex(kt[1:])
				if !ok {
					return jv{}, false
				}
				k, ok := denoteBody(body)
				if !ok {
					return jv{}, false
				}
				kq = jkq{k, body}
			}
			k, ok := kq.k, true
			if kq.body == "" {
				k, ok = unhex(kt)
			}
			if !ok {
				return jv{}, false
			}
			e, ok := p.jv()
			if !ok {
				return jv{}, false
			}
			out.o = append(out.o, jmem{k, e})
			out.oq = append(out.oq, kq)
		}
		p.next()
		return out, true
	case strings.HasPrefix(t, "i"):
		return jv{k: 'i', n: t[1:]}, true
	case strings.HasPrefix(t, "d"):
		return jv{k: 'd', n: t[1:]}, true
	case strings.HasPrefix(t, "s"):
		s, ok := unhex(t[1:])
		return jStr(s), ok
	case strings.HasPrefix(t, "q"):
		body, ok := unhex(t[1:])
		if !ok {
			return jv{}, false
		}
		s, ok := denoteBody(body)
		return jv{k: 's', s: s, q: &body}, ok
	}
	return jv{}, false
}

// ojv parses "-" (absent) or a value.
func (p *tokStream) ojv() (*jv, bool) {
	if p.peek() == "-" {
		p.next()
		return nil, true
	}
	v, ok := p.jv()
	return &v, ok
}

func (p *tokStream) str() (string, bool) {
	t := p.next()
	if !strings.HasPrefix(t, "s") {
		return "", false
	}
	return unhex(t[1:])
}

func otok(v *jv) string {
	if v == nil {
		return "-"
	}
	return v.tok()
}

// ---- generators

var genStrings = []string{"", "a", "ping", "x y", "é", "日本語", " ", "q\"uote", "back\\slash", "nl\nin", "tab\t", "\u0001", "\U0001F600", "null", "0", " lead", "trail ", "résumé/名前",
	"a/b", "req/1", "</x>&", "\b\f\r", "\u007f", "\u2028\u2029", "\ud7ff\ue000", "\uffff", "\U00010000", "\U0010FFFF", "x\U0001F600/\U0001F601y", "\\u0041", "\\/"}

// strings a wrapper or codec could alter without anyone noticing on lower-case ASCII: upper and mixed case,
// letters whose case mapping changes their length or is context dependent (İ ı ß ſ Σ ς ǅ), text that looks
// like an escape or like a number, long strings
var genStringsCase = []string{"MixedCase", "UPPER", "Title Case", "camelCaseID", "X", "Content-Type", "İstanbul", "ıI", "STRASSE ß ẞ", "ſ",
	"ΣΊΣΥΦΟΣ ς", "ǅǆǄ", "ÀÉÎÕÜ àéîõü", "Ａ１", "\\u00C9", "%41%c3%A9", "9223372036854775807", "1E400", "-0", "TRUE", "Null", "日本語テキスト ＡＢＣ"}

var genAlphabet = []rune("aAbBcCxXyYzZ019_-./: \"éÉßİıΣσςǅ日本ÿŸ\\")

func genStr(r *rand.Rand) string {
	switch c := r.Intn(20); {
	case c < 4:
		n := r.Intn(6)
		b := make([]byte, n)
		for i := range b {
			b[i] = byte('a' + r.Intn(26))
		}
		return string(b)
	case c < 8: // mixed case and non-ASCII letters, any length up to 12
		n := r.Intn(13)
		b := make([]rune, n)
		for i := range b {
			b[i] = genAlphabet[r.Intn(len(genAlphabet))]
		}
		return string(b)
	case c < 11:
		return genStringsCase[r.Intn(len(genStringsCase))]
	case c == 11: // long: 200-1200 bytes of a mixed-case chunk
		chunk := []string{"Payload-Éß/", "0123456789ABCDEFabcdef", "日本語 Text ", "q\"Q\\"}[r.Intn(4)]
		return strings.Repeat(chunk, 1+(200+r.Intn(1000))/len(chunk))
	}
	return genStrings[r.Intn(len(genStrings))]
}

// ---- spellings of string literals (what a foreign peer may put on the wire)

var shortEscOf = map[rune]byte{'"': '"', '\\': '\\', '/': '/', '\b': 'b', '\f': 'f', '\n': 'n', '\r': 'r', '\t': 't'}

func hex4(r *rand.Rand, v rune) string {
	const lo, up = "0123456789abcdef", "0123456789ABCDEF"
	var b [4]byte
	for i := 0; i < 4; i++ {
		d := (v >> uint(12-4*i)) & 15
		if r.Intn(2) == 0 {
			b[i] = lo[d]
		} else {
			b[i] = up[d]
		}
	}
	return "\\u" + string(b[:])
}

// spellBody writes s as the body of a JSON string literal, choosing for every character at random
// among the spellings RFC 8259 allows for it: raw (not for controls, quote, backslash), the short
// escape (for the eight characters that have one, '/' included), \uXXXX with digits of either case
// (basic plane), a UTF-16 surrogate pair (beyond it). esc = percentage of characters that are
// escaped although they could stand raw. s must be valid UTF-8.
func spellBody(r *rand.Rand, s string, esc int) string {
	var b strings.Builder
	for _, c := range s {
		mustEsc := c < 0x20 || c == '"' || c == '\\'
		if !mustEsc && r.Intn(100) >= esc {
			b.WriteRune(c)
			continue
		}
		if e, ok := shortEscOf[c]; ok && r.Intn(3) > 0 {
			b.WriteByte('\\')
			b.WriteByte(e)
			continue
		}
		if c >= 0x10000 {
			c -= 0x10000
			b.WriteString(hex4(r, 0xD800+(c>>10)))
			b.WriteString(hex4(r, 0xDC00+(c&0x3ff)))
			continue
		}
		b.WriteString(hex4(r, c))
	}
	return b.String()
}

// spellTags names the escape forms used by the spelled tokens (q…) of an op, for the evidence histograms.
func spellTags(op string) []string {
	seen := map[string]bool{}
	for _, t := range strings.Fields(op) {
		if !strings.HasPrefix(t, "q") {
			continue
		}
		body, ok := unhex(t[1:])
		if !ok {
			continue
		}
		seen["spelled"] = true
		for i := 0; i+1 < len(body); i++ {
			if body[i] != '\\' {
				continue
			}
			switch e := body[i+1]; {
			case e == '/':
				seen["esc:solidus"] = true
			case e == 'u' && i+3 < len(body) && (body[i+2] == 'd' || body[i+2] == 'D') && strings.ContainsRune("89abAB", rune(body[i+3])):
				seen["esc:surrogate-pair"] = true
				i += 10
			case e == 'u':
				seen["esc:u4"] = true
			default:
				seen["esc:short"] = true
			}
			i++
		}
	}
	var out []string
	for k := range seen {
		out = append(out, k)
	}
	sort.Strings(out)
	return out
}

func jSpelled(r *rand.Rand, s string) jv {
	if !utf8.ValidString(s) {
		return jStr(s)
	}
	body := spellBody(r, s, []int{10, 40, 100}[r.Intn(3)])
	return jv{k: 's', s: s, q: &body}
}

// spellJ returns v with each string value and member name given a random spelling with
// probability pct/100 (the others stay as Go's encoder writes them).
func spellJ(r *rand.Rand, v jv, pct int) jv {
	switch v.k {
	case 's':
		if v.q == nil && r.Intn(100) < pct {
			return jSpelled(r, v.s)
		}
	case 'a':
		out := jv{k: 'a'}
		for _, x := range v.a {
			out.a = append(out.a, spellJ(r, x, pct))
		}
		return out
	case 'o':
		out := jv{k: 'o'}
		for i, m := range v.o {
			kq := jkq{}
			if body, ok := v.keyBody(i); ok {
				kq = jkq{m.k, body}
			} else if r.Intn(100) < pct && utf8.ValidString(m.k) && m.k != "" {
				kq = jkq{m.k, spellBody(r, m.k, []int{10, 40, 100}[r.Intn(3)])}
			}
			out.o = append(out.o, jmem{m.k, spellJ(r, m.v, pct)})
			out.oq = append(out.oq, kq)
		}
		return out
	}
	return v
}

// genNum: integers of all sizes and fractional/exponent forms (for raw pass-through positions).
// the ends of the int64 range, of float64's exact integers and of float64 itself, and beyond each
var genNumEdges = []jv{jBig("9223372036854775807"), jBig("-9223372036854775808"), jBig("9223372036854775808"), jBig("-9223372036854775809"),
	jBig("18446744073709551615"), jBig("18446744073709551616"), jBig("9007199254740991"), jBig("-9007199254740993"),
	jDec("17976931348623157", 292), jDec("-17976931348623157", 292), jDec("17976931348623159", 292), jDec("1", 400), jDec("5", -324), jDec("4", -324), jDec("1", -400),
	jDec("22250738585072014", -324), jDec("9007199254740993", -1), jDec("1", 22), jDec("1", 23), jDec("123456789012345678901234567890", -15)}

func genNum(r *rand.Rand) jv {
	switch r.Intn(10) {
	case 0:
		return jInt(int64(r.Intn(5)))
	case 1:
		return jInt(r.Int63n(1<<31) - 1<<30)
	case 2:
		return jBig(new(big.Int).Add(big.NewInt(1<<53), big.NewInt(int64(r.Intn(9)-4))).String())
	case 3:
		return jBig("123456789012345678901234567890")
	case 4:
		return jDec(fmt.Sprint(1+r.Intn(999)), -1-r.Intn(3))
	case 5:
		return jDec(fmt.Sprint(1+r.Intn(9)), r.Intn(30))
	case 6:
		return jDec("-25", -1)
	case 7, 8:
		return genNumEdges[r.Intn(len(genNumEdges))]
	default:
		return jInt(-int64(r.Intn(1000)))
	}
}

// genJ: arbitrary JSON value; object keys are distinct.
func genJ(r *rand.Rand, depth int) jv {
	n := 8
	if depth <= 0 {
		n = 6
	}
	switch r.Intn(n) {
	case 0:
		return jNull()
	case 1:
		return jBool(r.Intn(2) == 0)
	case 2, 3:
		return genNum(r)
	case 4, 5:
		return jStr(genStr(r))
	case 6:
		out := jv{k: 'a'}
		for i, k := 0, r.Intn(4); i < k; i++ {
			out.a = append(out.a, genJ(r, depth-1))
		}
		return out
	default:
		return genObj(r, depth-1, r.Intn(4))
	}
}

func genObj(r *rand.Rand, depth, n int) jv {
	out := jv{k: 'o'}
	seen := map[string]bool{}
	for i := 0; i < n; i++ {
		k := genStr(r)
		if seen[k] {
			continue
		}
		seen[k] = true
		out.o = append(out.o, jmem{k, genJ(r, depth)})
	}
	return out
}

// genSafeJ: values that survive Go's `any` (float64) round trip unchanged in canonical form:
// integers with |n| <= 2^53 and short decimals; used for _meta, input, structuredContent.
func genSafeJ(r *rand.Rand, depth int) jv {
	n := 7
	if depth <= 0 {
		n = 5
	}
	switch r.Intn(n) {
	case 0:
		return jNull()
	case 1:
		return jBool(r.Intn(2) == 0)
	case 2:
		switch r.Intn(4) {
		case 0:
			return jInt(int64(r.Intn(100)) - 50)
		case 1:
			return jInt(1<<53 - int64(r.Intn(3)))
		case 2:
			return jDec(fmt.Sprint(2*r.Intn(50)+1), -1) // odd/10: x.1 … x.9
		default:
			return jDec("25", -2)
		}
	case 3, 4:
		return jStr(genStr(r))
	case 5:
		out := jv{k: 'a'}
		for i, k := 0, r.Intn(3); i < k; i++ {
			out.a = append(out.a, genSafeJ(r, depth-1))
		}
		return out
	default:
		return genSafeObj(r, depth-1, r.Intn(3))
	}
}

func genSafeObj(r *rand.Rand, depth, n int) jv {
	out := jv{k: 'o'}
	seen := map[string]bool{}
	for i := 0; i < n; i++ {
		k := genStr(r)
		if seen[k] {
			continue
		}
		seen[k] = true
		out.o = append(out.o, jmem{k, genSafeJ(r, depth)})
	}
	return out
}

// mutateBytes applies a few byte-level mutations (for the "never panics" fuzz streams).
func mutateBytes(r *rand.Rand, in []byte) []byte {
	b := append([]byte(nil), in...)
	for k := 0; k < 1+r.Intn(4); k++ {
		switch r.Intn(6) {
		case 0: // flip
			if len(b) > 0 {
				b[r.Intn(len(b))] ^= byte(1 << r.Intn(8))
			}
		case 1: // delete a span
			if len(b) > 1 {
				i := r.Intn(len(b))
				j := i + 1 + r.Intn(min(4, len(b)-i))
				b = append(b[:i], b[j:]...)
			}
		case 2: // insert structural bytes
			ins := []string{"{", "}", "[", "]", ":", ",", "\"", "\\", "null", "1e999", "-", "\x00", "\xff", "\n", "\r\n", " ", "\"type\":\"tool_result\"", "\"content\":[null]", "\"id\":{}", "\"method\":"}
			s := ins[r.Intn(len(ins))]
			i := r.Intn(len(b) + 1)
			b = append(b[:i], append([]byte(s), b[i:]...)...)
		case 3: // truncate
			if len(b) > 0 {
				b = b[:r.Intn(len(b))]
			}
		case 4: // duplicate a span
			if len(b) > 2 {
				i := r.Intn(len(b) - 1)
				j := i + 1 + r.Intn(len(b)-i-1)
				b = append(b[:j], append(append([]byte(nil), b[i:j]...), b[j:]...)...)
			}
		default: // random byte
			if len(b) > 0 {
				b[r.Intn(len(b))] = byte(r.Intn(256))
			}
		}
	}
	return b
}

func randomBytes(r *rand.Rand) []byte {
	b := make([]byte, r.Intn(40))
	for i := range b {
		b[i] = byte(r.Intn(256))
	}
	return b
}
