// Shared helpers for the /verif correspondence harnesses grafted into package mcp by -overlay.
// Not part of the repository; lives in /verif/go/harness/mcp.
package jsonrpc2

import (
	"bufio"
	"encoding/hex"
	"fmt"
	"math/rand"
	"os"
	"strconv"
	"strings"
	"sync"
	"testing"
)

type verifOut struct {
	mu sync.Mutex
	w  *bufio.Writer
	f  *os.File
}

// verifOpen opens $VERIF_OUT (or skips the test when the harness is not driven by ./check).
func verifOpen(t *testing.T) *verifOut {
	p := os.Getenv("VERIF_OUT")
	if p == "" {
		t.Skip("VERIF_OUT not set: harness is driven by /verif/check")
	}
	f, err := os.Create(p)
	if err != nil {
		t.Fatal(err)
	}
	return &verifOut{w: bufio.NewWriterSize(f, 1<<20), f: f}
}

// line writes one protocol record: case, ops, implementation observation, tags.
func (o *verifOut) line(cs string, op string, obs string, tags ...string) {
	o.mu.Lock()
	defer o.mu.Unlock()
	fmt.Fprintf(o.w, "%s\t%s\t%s\t%s\n", cs, op, obs, strings.Join(tags, ","))
}

func (o *verifOut) close() {
	o.mu.Lock()
	defer o.mu.Unlock()
	o.w.Flush()
	o.f.Close()
}

func verifSeed() int64 {
	n, err := strconv.ParseInt(os.Getenv("VERIF_SEED"), 10, 64)
	if err != nil {
		return 1
	}
	return n
}

func verifThorough() bool { return os.Getenv("VERIF_TIER") == "thorough" }

// verifN scales a case count: quick, thorough, or $VERIF_CASES when set.
func verifN(quick, thorough int) int {
	if s := os.Getenv("VERIF_CASES"); s != "" {
		if n, err := strconv.Atoi(s); err == nil {
			return n
		}
	}
	if verifThorough() {
		return thorough
	}
	return quick
}

func verifRng(salt int64) *rand.Rand { return rand.New(rand.NewSource(verifSeed()*1000003 + salt)) }

func hx(b []byte) string  { return hex.EncodeToString(b) }
func hxs(s string) string { return hex.EncodeToString([]byte(s)) }
