// E2 (wire) correspondence harness, package jsonrpc2: the real EncodeMessage / DecodeMessage /
// toWireError on generated messages, wire values, error chains and arbitrary bytes.
// Streams: TestVerifWireMsg (C19), TestVerifWireIds (C02: id echo exactness).
package jsonrpc2

import (
	"bufio"
	"encoding/json"
	"errors"
	"fmt"
	"math/big"
	"math/rand"
	"os"
	"path/filepath"
	"sort"
	"strconv"
	"strings"
	"testing"
)

// ---- message tokens

type wmsg struct {
	req    bool
	id     any // nil | int64-as-*big.Int | string
	method string
	params *jv
	result *jv
	err    *werr
}

type werr struct {
	code string // decimal
	msg  string
	data *jv
}

func idTok(id any) string {
	switch x := id.(type) {
	case nil:
		return "-"
	case string:
		return "s" + hxs(x)
	case *big.Int:
		return "i" + x.String()
	case int64:
		return fmt.Sprintf("i%d", x)
	}
	return "?"
}

func (e *werr) tok() string {
	if e == nil {
		return "-"
	}
	return fmt.Sprintf("e%s s%s %s", e.code, hxs(e.msg), otok(e.data))
}

func (m wmsg) tok() string {
	if m.req {
		return fmt.Sprintf("req %s s%s %s", idTok(m.id), hxs(m.method), otok(m.params))
	}
	return fmt.Sprintf("resp %s %s %s", idTok(m.id), otok(m.result), m.err.tok())
}

func (p *tokStream) id() (any, bool) {
	t := p.next()
	switch {
	case t == "-":
		return nil, true
	case strings.HasPrefix(t, "i"):
		n, ok := new(big.Int).SetString(t[1:], 10)
		return n, ok
	case strings.HasPrefix(t, "s"):
		s, ok := unhex(t[1:])
		return s, ok
	}
	return nil, false
}

func (p *tokStream) werr() (*werr, bool) {
	if p.peek() == "-" {
		p.next()
		return nil, true
	}
	t := p.next()
	if !strings.HasPrefix(t, "e") {
		return nil, false
	}
	msg, ok := p.str()
	if !ok {
		return nil, false
	}
	d, ok := p.ojv()
	return &werr{code: t[1:], msg: msg, data: d}, ok
}

func (p *tokStream) msg() (wmsg, bool) {
	switch p.next() {
	case "req":
		id, ok1 := p.id()
		m, ok2 := p.str()
		ps, ok3 := p.ojv()
		return wmsg{req: true, id: id, method: m, params: ps}, ok1 && ok2 && ok3
	case "resp":
		id, ok1 := p.id()
		res, ok2 := p.ojv()
		e, ok3 := p.werr()
		return wmsg{id: id, result: res, err: e}, ok1 && ok2 && ok3
	}
	return wmsg{}, false
}

func rawOf(v *jv) json.RawMessage {
	if v == nil {
		return nil
	}
	return json.RawMessage(v.text())
}

func goID(id any) (ID, bool) {
	switch x := id.(type) {
	case nil:
		return ID{}, true
	case string:
		return StringID(x), true
	case *big.Int:
		if !x.IsInt64() {
			return ID{}, false
		}
		return Int64ID(x.Int64()), true
	}
	return ID{}, false
}

// toMessage builds the real message value; false when the token form has no Go counterpart
// (an id outside int64).
func (m wmsg) toMessage() (Message, bool) {
	id, ok := goID(m.id)
	if !ok {
		return nil, false
	}
	if m.req {
		return &Request{ID: id, Method: m.method, Params: rawOf(m.params)}, true
	}
	resp := &Response{ID: id, Result: rawOf(m.result)}
	if m.err != nil {
		c, ok := new(big.Int).SetString(m.err.code, 10)
		if !ok || !c.IsInt64() {
			return nil, false
		}
		resp.Error = &WireError{Code: c.Int64(), Message: m.err.msg, Data: rawOf(m.err.data)}
	}
	return resp, true
}

func rawTok(r json.RawMessage) string {
	if len(r) == 0 {
		return "-"
	}
	return tokJSON(r)
}

func fromMessage(msg Message) string {
	idt := func(id ID) string {
		switch x := id.Raw().(type) {
		case nil:
			return "-"
		case int64:
			return fmt.Sprintf("i%d", x)
		case string:
			return "s" + hxs(x)
		}
		return "?"
	}
	switch m := msg.(type) {
	case *Request:
		return fmt.Sprintf("req %s s%s %s", idt(m.ID), hxs(m.Method), rawTok(m.Params))
	case *Response:
		et := "-"
		if m.Error != nil {
			var we *WireError
			if errors.As(m.Error, &we) && we == m.Error {
				et = fmt.Sprintf("e%d s%s %s", we.Code, hxs(we.Message), rawTok(we.Data))
			} else {
				et = "e? s" + hxs(m.Error.Error()) + " -"
			}
		}
		return fmt.Sprintf("resp %s %s %s", idt(m.ID), rawTok(m.Result), et)
	}
	return "?"
}

// classify a DecodeMessage error as the model does: wire code + class.
func decErrTok(err error) string {
	code := toWireError(err).Code
	cls := "unmarshal"
	switch {
	case errors.Is(err, ErrInvalidRequest):
		cls = "noid"
	case errors.Is(err, ErrParse):
		cls = "idtype"
	case strings.HasPrefix(err.Error(), "invalid message version tag"):
		cls = "version"
	}
	return fmt.Sprintf("err %d %s", code, cls)
}

func decTok(data []byte) (string, Message) {
	m, err := DecodeMessage(data)
	if err != nil {
		return decErrTok(err), nil
	}
	return "ok " + fromMessage(m), m
}

// ---- Go error chains for toWireError

type gerr struct {
	wire *werr
	msg  string
	kids []*gerr
}

func (g *gerr) tok() string {
	if g.wire != nil {
		return "W " + g.wire.tok()
	}
	parts := []string{"E", "s" + hxs(g.build().Error()), "("}
	for _, k := range g.kids {
		parts = append(parts, k.tok())
	}
	return strings.Join(append(parts, ")"), " ")
}

// build makes the real error value: *WireError, errors.New, or fmt.Errorf with one or two %w.
func (g *gerr) build() error {
	if g.wire != nil {
		c, _ := new(big.Int).SetString(g.wire.code, 10)
		return &WireError{Code: c.Int64(), Message: g.wire.msg, Data: rawOf(g.wire.data)}
	}
	switch len(g.kids) {
	case 0:
		return errors.New(g.msg)
	case 1:
		return fmt.Errorf("%s: %w", g.msg, g.kids[0].build())
	case 2:
		return fmt.Errorf("%s: %w and %w", g.msg, g.kids[0].build(), g.kids[1].build())
	default:
		errs := make([]error, len(g.kids))
		for i, k := range g.kids {
			errs[i] = k.build()
		}
		return errors.Join(errs...)
	}
}

func (p *tokStream) gerr() (*gerr, bool) {
	switch p.next() {
	case "W":
		w, ok := p.werr()
		return &gerr{wire: w}, ok && w != nil
	case "E":
		full, ok := p.str()
		if !ok || p.next() != "(" {
			return nil, false
		}
		g := &gerr{msg: full}
		for p.peek() != ")" {
			if p.done() {
				return nil, false
			}
			k, ok := p.gerr()
			if !ok {
				return nil, false
			}
			g.kids = append(g.kids, k)
		}
		p.next()
		// msg holds the FULL text on the wire form; recover the own prefix so that build() reproduces it
		switch len(g.kids) {
		case 1:
			g.msg = strings.TrimSuffix(full, ": "+g.kids[0].build().Error())
		case 2:
			g.msg = strings.TrimSuffix(full, ": "+g.kids[0].build().Error()+" and "+g.kids[1].build().Error())
		}
		return g, true
	}
	return nil, false
}

// ---- applying one op to the real code

// rev: the optional flag `rev` in front of the value of a decenc / casedec / casedec.err op.  The token
// form of an object lists its members sorted by name (it is a map: the model does not see member order),
// so the text rendered from it has them in that order; with `rev` the text has the members of EVERY object
// in the reverse order.  Names that differ in case only sort next to each other, upper case first: without
// the flag "Code" stands before "code" in the text, with it after.
func (p *tokStream) rev() bool {
	if p.peek() == "rev" {
		p.next()
		return true
	}
	return false
}

func reverseMembers(v jv) jv {
	switch v.k {
	case 'a':
		out := v
		out.a = make([]jv, len(v.a))
		for i, x := range v.a {
			out.a[i] = reverseMembers(x)
		}
		return out
	case 'o':
		out := v
		n := len(v.o)
		out.o = make([]jmem, n)
		for i, m := range v.o {
			out.o[n-1-i] = jmem{m.k, reverseMembers(m.v)}
		}
		if len(v.oq) == n {
			out.oq = make([]jkq, n)
			for i := range v.oq {
				out.oq[n-1-i] = v.oq[i]
			}
		}
		return out
	}
	return v
}

func wireApply(op string) (obs string) {
	defer func() {
		if r := recover(); r != nil {
			obs = "panic"
		}
	}()
	p := newToks(op)
	switch p.next() {
	case "encdec":
		m, ok := p.msg()
		if !ok {
			return "bad-op"
		}
		msg, ok := m.toMessage()
		if !ok {
			return "bad-op"
		}
		data, err := EncodeMessage(msg)
		if err != nil {
			return "encode-error"
		}
		back, _ := decTok(data)
		return tokJSON(data) + " | " + back
	case "encind":
		// EncodeIndent: the same message, laid out with a prefix and an indent (insignificant white
		// space only): it must denote the value EncodeMessage writes, and decode to the message
		lay := [][2]string{{"", "  "}, {"", "\t"}, {" ", " "}, {"\t", ""}, {"", ""}}
		k, err := strconv.Atoi(p.next())
		if err != nil || k < 0 || k >= len(lay) {
			return "bad-op"
		}
		m, ok := p.msg()
		if !ok {
			return "bad-op"
		}
		msg, ok := m.toMessage()
		if !ok {
			return "bad-op"
		}
		data, err := EncodeIndent(msg, lay[k][0], lay[k][1])
		if err != nil {
			return "encode-error"
		}
		if len(data) == 0 || data[len(data)-1] == '\n' {
			return "badlayout"
		}
		back, _ := decTok(data)
		return tokJSON(data) + " | " + back
	case "decenc":
		rev := p.rev()
		w, ok := p.jv()
		if !ok {
			return "bad-op"
		}
		if rev {
			w = reverseMembers(w)
		}
		res, msg := decTok([]byte(w.text()))
		if msg == nil {
			return res + " | -"
		}
		data, err := EncodeMessage(msg)
		if err != nil {
			return res + " | encode-error"
		}
		return res + " | " + tokJSON(data)
	case "casedec":
		// the member named <name> differs from a struct member name in case only: decoding must
		// treat it like an unknown member, i.e. like the same object without it
		rev := p.rev()
		name, ok1 := p.str()
		w, ok2 := p.jv()
		if !ok1 || !ok2 {
			return "bad-op"
		}
		if rev {
			w = reverseMembers(w)
		}
		res, _ := decTok([]byte(w.text()))
		without := jv{k: 'o'}
		for _, m := range w.o {
			if m.k != name {
				without.o = append(without.o, m)
			}
		}
		res2, _ := decTok([]byte(without.text()))
		return res + " | " + res2
	case "casedec.err":
		// the member named <name> INSIDE the error object differs from a WireError member name (code,
		// message, data) in case only: decoding must treat it like an unknown member, i.e. like the same
		// message whose error object does not have it
		rev := p.rev()
		name, ok1 := p.str()
		w, ok2 := p.jv()
		if !ok1 || !ok2 {
			return "bad-op"
		}
		if rev {
			w = reverseMembers(w)
		}
		res, _ := decTok([]byte(w.text()))
		without := jv{k: 'o'}
		for _, m := range w.o {
			if m.k == "error" && m.v.k == 'o' {
				e := jv{k: 'o'}
				for _, em := range m.v.o {
					if em.k != name {
						e.o = append(e.o, em)
					}
				}
				m.v = e
			}
			without.o = append(without.o, m)
		}
		res2, _ := decTok([]byte(without.text()))
		return res + " | " + res2
	case "werr":
		g, ok := p.gerr()
		if !ok {
			return "bad-op"
		}
		data, err := EncodeMessage(&Response{ID: Int64ID(1), Error: g.build()})
		if err != nil {
			return "encode-error"
		}
		v, err := parseJSON(data)
		if err != nil {
			return "unparsable"
		}
		e, _ := v.get("error")
		return e.tok()
	case "fuzzdec":
		t := p.next()
		b, ok := unhex(strings.TrimPrefix(t, "x"))
		if !ok {
			return "bad-op"
		}
		m, err := DecodeMessage([]byte(b))
		if err == nil {
			// whatever decodes must encode again, and decode to the same message
			data, err := EncodeMessage(m)
			if err == nil {
				DecodeMessage(data)
			}
		}
		return "nopanic"
	case "idecho":
		idv, ok := p.jv()
		if !ok {
			return "bad-op"
		}
		// a call carrying this id, answered the way the connection answers it
		req := jObj(jmem{"jsonrpc", jStr("2.0")}, jmem{"id", idv}, jmem{"method", jStr("ping")})
		m, err := DecodeMessage([]byte(req.text()))
		if err != nil {
			return decErrTok(err)
		}
		r, ok := m.(*Request)
		if !ok {
			return "not-a-request"
		}
		resp, err := NewResponse(r.ID, struct{}{}, nil)
		if err != nil {
			return "encode-error"
		}
		data, err := EncodeMessage(resp)
		if err != nil {
			return "encode-error"
		}
		v, err := parseJSON(data)
		if err != nil {
			return "unparsable"
		}
		if id, ok := v.get("id"); ok {
			return id.tok()
		}
		return "-"
	}
	return "bad-op"
}

// ---- generators

func genID(r *rand.Rand) any {
	switch x := r.Intn(100); {
	case x < 25:
		return genStr(r)
	case x < 50:
		return big.NewInt(r.Int63n(1<<32) - 1<<31)
	case x < 75:
		base := new(big.Int).Lsh(big.NewInt(1), 53)
		if r.Intn(2) == 0 {
			base.Neg(base)
		}
		return base.Add(base, big.NewInt(int64(r.Intn(9)-4)))
	case x < 90:
		base := new(big.Int).Lsh(big.NewInt(1), 63)
		if r.Intn(2) == 0 {
			base.Neg(base)
			return base.Add(base, big.NewInt(int64(r.Intn(5)))) // ≥ -2^63
		}
		return base.Sub(base, big.NewInt(int64(1+r.Intn(5)))) // ≤ 2^63-1
	default:
		return big.NewInt(int64(r.Intn(3)))
	}
}

// genIDValue: the id as a JSON value, including the forms outside the property's domain
// (fractional, exponent, beyond int64, null, wrong kinds) on which model and code must still agree.
func genIDValue(r *rand.Rand) jv {
	if r.Intn(10) == 0 {
		switch r.Intn(12) {
		case 0:
			return jDec("15", -1)
		case 1:
			return jDec("1", 3)
		case 2:
			return jDec("9007199254740993", 0) // 9007199254740993.0: float path
		case 3:
			return jDec("99999999999999999", -17)
		case 4:
			return jDec("1", 400)
		case 5:
			return jBig("9223372036854775808")
		case 6:
			return jBig("-9223372036854775809")
		case 7:
			return jDec("-5", -1)
		case 8:
			return jDec("92233720368547758", 2)
		case 9:
			return jDec(fmt.Sprint(1+r.Intn(99999)), r.Intn(25)-12)
		case 10:
			return jBig("18446744073709551616")
		default:
			return jDec("-1", 19)
		}
	}
	switch id := genID(r).(type) {
	case string:
		if r.Intn(2) == 0 {
			return jSpelled(r, id) // as a foreign peer may spell it: \/ , \uXXXX, surrogate pairs …
		}
		return jStr(id)
	case *big.Int:
		return jBig(id.String())
	}
	return jNull()
}

func optJ(r *rand.Rand, depth int) *jv {
	if r.Intn(3) == 0 {
		return nil
	}
	v := genJ(r, depth)
	return &v
}

func genWErr(r *rand.Rand) *werr {
	codes := []string{"0", "1", "-32600", "-32601", "-32602", "-32603", "-32700", "-32001", "9223372036854775807", "-9223372036854775808", fmt.Sprint(r.Intn(100000) - 50000)}
	return &werr{code: codes[r.Intn(len(codes))], msg: genStr(r), data: optJ(r, 2)}
}

func genMsg(r *rand.Rand) wmsg {
	switch r.Intn(10) {
	case 0, 1, 2:
		return wmsg{req: true, id: genID(r), method: genMethod(r), params: optJ(r, 3)}
	case 3, 4:
		return wmsg{req: true, method: genMethod(r), params: optJ(r, 3)}
	case 5, 6, 7:
		return wmsg{id: genID(r), result: optJ(r, 3)}
	case 8:
		return wmsg{id: genID(r), err: genWErr(r)}
	default:
		return wmsg{id: genID(r), result: optJ(r, 2), err: genWErr(r)}
	}
}

func revTok(r *rand.Rand) string {
	if r.Intn(2) == 0 {
		return "rev "
	}
	return ""
}

func genMethod(r *rand.Rand) string {
	ms := []string{"ping", "tools/call", "notifications/progress", "initialize", "x", "é/ü", "a b", "M"}
	if r.Intn(40) == 0 {
		return "" // not well-formed: encodes without "method"
	}
	return ms[r.Intn(len(ms))]
}

// genWire: a wire object; mostly valid, then mutated with some probability.
func genWire(r *rand.Rand) jv {
	m := genMsg(r)
	var mem []jmem
	add := func(k string, v jv) { mem = append(mem, jmem{k, v}) }
	add("jsonrpc", jStr("2.0"))
	if m.id != nil || (!m.req) {
		if r.Intn(6) == 0 || m.id == nil {
			add("id", genIDValue(r))
		} else {
			switch x := m.id.(type) {
			case string:
				if r.Intn(3) == 0 {
					add("id", jSpelled(r, x))
				} else {
					add("id", jStr(x))
				}
			case *big.Int:
				add("id", jBig(x.String()))
			}
		}
	}
	if m.req {
		add("method", jStr(m.method))
		if m.params != nil {
			add("params", *m.params)
		}
	} else {
		if m.result != nil {
			add("result", *m.result)
		}
		if m.err != nil {
			e := []jmem{{"code", jBig(m.err.code)}, {"message", jStr(m.err.msg)}}
			if m.err.data != nil {
				e = append(e, jmem{"data", *m.err.data})
			}
			add("error", jObj(e...))
		}
	}
	if r.Intn(4) == 0 {
		add(genStr(r)+"_x", genJ(r, 1)) // unknown member
	}
	r.Shuffle(len(mem), func(i, j int) { mem[i], mem[j] = mem[j], mem[i] })
	w := jObj(mem...)
	if r.Intn(100) < 30 {
		w = mutateWire(r, w)
	}
	// the text level: half of the wire values carry strings / member names in a foreign spelling
	if r.Intn(2) == 0 {
		w = spellJ(r, w, []int{15, 50, 100}[r.Intn(3)])
	}
	return w
}

// caseVariant: a name that differs from s in letter case only.
func caseVariant(r *rand.Rand, s string) string {
	switch r.Intn(4) {
	case 0:
		return strings.ToUpper(s)
	case 1:
		return strings.ToUpper(s[:1]) + s[1:]
	default:
		return flipCase(r, s)
	}
}

// errDecoy: a member for the error object whose name differs from the WireError member `name` in case
// only, holding a value of the kind the real member holds (so that a decoder that matches names without
// regard to case takes it).
func errDecoy(r *rand.Rand, name string) jmem {
	var v jv
	switch name {
	case "code":
		v = jInt(int64(r.Intn(200000) - 100000))
	case "message":
		v = jStr("decoy-" + genStr(r))
	default:
		v = genJ(r, 1)
	}
	return jmem{caseVariant(r, name), v}
}

// genErrObj: the error object of a response as a peer may send it.  Mostly exactly code, message and
// optional data; 30% carry what a foreign peer may add and the codec must not be confused by: members
// whose names differ from code / message / data in case only (the real members stay; the op's `rev` flag
// decides whether they come before or after them in the text), unknown members; 4% spell an integral code as a
// fractional or exponent number (-32601.0, -32e3: outside the property's domain, the id rule applies:
// model and code must agree, the monitors do not judge).
func genErrObj(r *rand.Rand, we *werr) jv {
	code := jBig(we.code)
	if r.Intn(25) == 0 {
		code = []jv{jDec("-32601", 0), jDec("-32", 3), jDec("7", 0), jDec("1", 2), jDec("-326", 2)}[r.Intn(5)]
	}
	e := []jmem{{"code", code}, {"message", jStr(we.msg)}}
	if we.data != nil {
		e = append(e, jmem{"data", *we.data})
	}
	if r.Intn(100) < 30 {
		names := []string{"code", "message", "data"}
		for n := 1 + r.Intn(3); n > 0; n-- {
			switch r.Intn(5) {
			case 0:
				e = append(e, jmem{genStr(r) + "_y", genJ(r, 1)})
			default:
				e = append(e, errDecoy(r, names[r.Intn(3)]))
			}
		}
		r.Shuffle(len(e), func(i, j int) { e[i], e[j] = e[j], e[i] })
	}
	return jObj(e...)
}

func mutateWire(r *rand.Rand, w jv) jv {
	names := []string{"jsonrpc", "id", "method", "params", "result", "error"}
	bad := []jv{jNull(), jBool(true), jInt(2), jDec("15", -1), jStr(""), jStr("2.0"), jStr("1.0"), jArr(), jArr(jInt(1)), jObj(), jObj(jmem{"code", jStr("x")}), jObj(jmem{"code", jDec("15", -1)}), jObj(jmem{"code", jBig("9223372036854775808")}, jmem{"message", jStr("m")}), jObj(jmem{"message", jInt(3)}), jObj(jmem{"code", jNull()}, jmem{"message", jNull()}, jmem{"data", jNull()}), jBig("9223372036854775808"), jDec("1", 400)}
	switch r.Intn(6) {
	case 0: // not an object at all
		return []jv{jNull(), jArr(w), jStr("x"), jInt(5), jBool(false), jArr()}[r.Intn(6)]
	case 1: // drop a member
		if len(w.o) > 0 {
			i := r.Intn(len(w.o))
			w.o = append(append([]jmem{}, w.o[:i]...), w.o[i+1:]...)
		}
		return w
	default: // set a member to a value of another kind
		k := names[r.Intn(len(names))]
		v := bad[r.Intn(len(bad))]
		out := jv{k: 'o'}
		done := false
		for _, m := range w.o {
			if m.k == k {
				out.o = append(out.o, jmem{k, v})
				done = true
			} else {
				out.o = append(out.o, m)
			}
		}
		if !done {
			out.o = append(out.o, jmem{k, v})
		}
		return out
	}
}

func flipCase(r *rand.Rand, s string) string {
	b := []byte(s)
	for try := 0; try < 8; try++ {
		i := r.Intn(len(b))
		switch {
		case b[i] >= 'a' && b[i] <= 'z':
			b[i] -= 32
			return string(b)
		case b[i] >= 'A' && b[i] <= 'Z':
			b[i] += 32
			return string(b)
		}
	}
	return strings.ToUpper(s)
}

func genGErr(r *rand.Rand, depth int) *gerr {
	if depth <= 0 || r.Intn(3) == 0 {
		if r.Intn(2) == 0 {
			w := genWErr(r)
			if len(w.code) > 12 {
				w.code = "-32602"
			}
			return &gerr{wire: w}
		}
		return &gerr{msg: genStr(r)}
	}
	g := &gerr{msg: genStr(r)}
	for i, n := 0, 1+r.Intn(2); i < n; i++ {
		g.kids = append(g.kids, genGErr(r, depth-1))
	}
	return g
}

// ---- the streams

type wireCase struct {
	name string
	ops  []string
	tags [][]string
}

func runCases(t *testing.T, out *verifOut, stream string, apply func(string) string, tagOf func(op, obs string) []string, gen func(emit func(cs string, ops []string))) {
	emitCase := func(cs string, ops []string) {
		out.line(cs, "reset", "ok", "reset")
		for _, op := range ops {
			obs := apply(op)
			out.line(cs, op, obs, tagOf(op, obs)...)
		}
	}
	if rp := os.Getenv("VERIF_REPLAY"); rp != "" {
		// a replay file may belong to another stream of this engine: keep the ops this harness knows
		var mine []string
		for _, op := range readOps(t, rp) {
			switch k := strings.Fields(op)[0]; {
			case stream == "ids" && k == "idecho", stream == "msg" && (k == "encdec" || k == "encind" || k == "decenc" || k == "casedec" || k == "casedec.err" || k == "werr" || k == "fuzzdec"):
				mine = append(mine, op)
			}
		}
		emitCase("replay", mine)
		return
	}
	if dir := os.Getenv("VERIF_CORPUS"); dir != "" {
		// corpus files are named <stream>-<what>.ops
		files, _ := filepath.Glob(filepath.Join(dir, stream+"-*.ops"))
		sort.Strings(files)
		for _, f := range files {
			emitCase("corpus-"+filepath.Base(f), readOps(t, f))
		}
	}
	gen(emitCase)
}

func readOps(t *testing.T, path string) []string {
	f, err := os.Open(path)
	if err != nil {
		t.Fatal(err)
	}
	defer f.Close()
	var ops []string
	sc := bufio.NewScanner(f)
	sc.Buffer(make([]byte, 1<<20), 1<<26)
	for sc.Scan() {
		l := strings.TrimSpace(sc.Text())
		if l == "" || strings.HasPrefix(l, "#") || l == "reset" {
			continue
		}
		ops = append(ops, l)
	}
	return ops
}

func msgTags(op, obs string) []string {
	kind := strings.Fields(op)[0]
	tags := []string{kind}
	switch kind {
	case "encdec":
		f := strings.Fields(op)
		tags = append(tags, "msg:"+f[1])
		if len(f) > 2 {
			tags = append(tags, "id:"+idClass(f[2]))
		}
	case "encind":
		f := strings.Fields(op)
		tags = append(tags, "layout:"+f[1], "msg:"+f[2])
	case "decenc", "casedec", "casedec.err":
		if strings.HasPrefix(obs, "ok req") {
			tags = append(tags, "dec:request")
		} else if strings.HasPrefix(obs, "ok resp") {
			tags = append(tags, "dec:response")
		} else {
			f := strings.Fields(obs)
			if len(f) >= 3 {
				tags = append(tags, "dec:err-"+f[2])
			}
		}
	case "idecho":
		tags = append(tags, "id:"+idClass(strings.Fields(op)[1]))
	}
	if obs == "panic" {
		tags = append(tags, "panic")
	}
	if kind == "decenc" || kind == "casedec" || kind == "casedec.err" || kind == "idecho" {
		tags = append(tags, spellTags(op)...)
	}
	return tags
}

func idClass(t string) string {
	switch {
	case t == "-":
		return "none"
	case strings.HasPrefix(t, "s"):
		if t == "s" {
			return "string-empty"
		}
		return "string"
	case strings.HasPrefix(t, "q"):
		return "string-spelled"
	case strings.HasPrefix(t, "d"):
		return "fractional-or-exponent"
	case strings.HasPrefix(t, "i"):
		n, ok := new(big.Int).SetString(t[1:], 10)
		if !ok {
			return "?"
		}
		a := new(big.Int).Abs(n)
		switch {
		case !n.IsInt64():
			return "beyond-int64"
		case a.Cmp(new(big.Int).Lsh(big.NewInt(1), 62)) > 0:
			return "near-2^63"
		case a.Cmp(new(big.Int).Lsh(big.NewInt(1), 53)) > 0:
			return "above-2^53"
		case a.Cmp(new(big.Int).Sub(new(big.Int).Lsh(big.NewInt(1), 53), big.NewInt(5))) >= 0:
			return "at-2^53"
		default:
			return "small"
		}
	}
	return "other"
}

func TestVerifWireMsg(t *testing.T) {
	out := verifOpen(t)
	defer out.close()
	r := verifRng(19)
	runCases(t, out, "msg", wireApply, msgTags, func(emit func(string, []string)) {
		// values that are well-formed JSON but no message — null, arrays (empty, of blanks, nested,
		// with null members), bare scalars, objects without the members of a message — as JSON values
		// against the model, and as texts in several white-space layouts under recover
		{
			deg := []jv{jNull(), jArr(), jArr(jArr()), jArr(jArr(), jArr()), jArr(jNull()), jArr(jNull(), jNull()), jArr(jArr(jNull())), jArr(jObj()), jObj(),
				jInt(0), jStr(""), jBool(true), jBool(false), jArr(jInt(0)), jArr(jStr("a")), jDec("15", -1), jObj(jmem{"jsonrpc", jNull()}),
				jObj(jmem{"jsonrpc", jStr("2.0")}, jmem{"id", jNull()}), jObj(jmem{"jsonrpc", jStr("2.0")}, jmem{"id", jArr()}, jmem{"method", jStr("m")}),
				jObj(jmem{"jsonrpc", jStr("2.0")}, jmem{"method", jNull()}), jObj(jmem{"jsonrpc", jStr("2.0")}, jmem{"id", jInt(1)}, jmem{"error", jNull()}),
				jObj(jmem{"jsonrpc", jStr("2.0")}, jmem{"id", jInt(1)}, jmem{"error", jArr()}), jObj(jmem{"jsonrpc", jStr("2.0")}, jmem{"id", jInt(1)}, jmem{"params", jNull()}, jmem{"method", jStr("m")})}
			var ops []string
			for _, v := range deg {
				ops = append(ops, "decenc "+v.tok())
				t := v.text()
				for _, txt := range []string{t, " " + t + " ", "\t" + t + "\r\n", strings.NewReplacer("[", "[ ", "]", " ]", "{", "{\n", "}", "\n}", ",", " , ").Replace(t), t + t, t + ",", "[" + t, t + "]"} {
					ops = append(ops, "fuzzdec x"+hx([]byte(txt)))
				}
			}
			emit("no-message", ops)
		}
		n := verifN(4000, 40000)
		for c := 0; c < n; c++ {
			var ops []string
			for i := 0; i < 4; i++ {
				ops = append(ops, "encdec "+genMsg(r).tok())
				if r.Intn(2) == 0 {
					ops = append(ops, fmt.Sprintf("encind %d ", r.Intn(5))+genMsg(r).tok())
				}
			}
			for i := 0; i < 5; i++ {
				ops = append(ops, "decenc "+revTok(r)+genWire(r).tok())
			}
			// case sensitivity: one member name of a valid message changed in case
			{
				w := genWire(r)
				if w.k == 'o' && len(w.o) > 0 {
					i := r.Intn(len(w.o))
					w.o[i].k = flipCase(r, w.o[i].k)
					ops = append(ops, "casedec s"+hxs(w.o[i].k)+" "+w.tok())
				}
			}
			// case sensitivity INSIDE the error object: a response whose error object has a member differing
			// from code / message / data in case only — in addition to the real member (before or after it) or
			// instead of it
			{
				we := genWErr(r)
				e := []jmem{{"code", jBig(we.code)}, {"message", jStr(we.msg)}}
				if we.data != nil {
					e = append(e, jmem{"data", *we.data})
				}
				var name string
				if r.Intn(3) == 0 { // instead of the real member
					i := r.Intn(len(e))
					e[i].k = caseVariant(r, e[i].k)
					name = e[i].k
				} else {
					base := []string{"code", "message", "data"}[r.Intn(3)]
					d := errDecoy(r, base)
					name = d.k
					e = append(e, d)
					r.Shuffle(len(e), func(i, j int) { e[i], e[j] = e[j], e[i] })
				}
				mem := []jmem{{"jsonrpc", jStr("2.0")}, {"id", genIDValue(r)}, {"error", jObj(e...)}}
				if r.Intn(3) == 0 {
					mem = append(mem, jmem{"result", genJ(r, 1)})
				}
				r.Shuffle(len(mem), func(i, j int) { mem[i], mem[j] = mem[j], mem[i] })
				ops = append(ops, "casedec.err "+revTok(r)+"s"+hxs(name)+" "+jObj(mem...).tok())
			}
			ops = append(ops, "werr "+genGErr(r, 3).tok())
			// byte-level fuzz of DecodeMessage
			for i := 0; i < 6; i++ {
				var b []byte
				if r.Intn(4) == 0 {
					b = randomBytes(r)
				} else {
					b = mutateBytes(r, []byte(genWire(r).text()))
				}
				ops = append(ops, "fuzzdec x"+hx(b))
			}
			emit(fmt.Sprintf("m%d", c), ops)
		}
	})
}

func TestVerifWireIds(t *testing.T) {
	out := verifOpen(t)
	defer out.close()
	r := verifRng(2)
	runCases(t, out, "ids", wireApply, msgTags, func(emit func(string, []string)) {
		// fixed boundary sweep first
		var sweep []string
		for _, base := range []int64{0, 1 << 31, 1 << 53} {
			for d := int64(-4); d <= 4; d++ {
				sweep = append(sweep, "idecho "+jInt(base+d).tok(), "idecho "+jInt(-(base + d)).tok())
			}
		}
		max := new(big.Int).Lsh(big.NewInt(1), 63)
		for d := int64(-4); d <= 4; d++ {
			sweep = append(sweep, "idecho "+jBig(new(big.Int).Add(max, big.NewInt(d)).String()).tok())
			sweep = append(sweep, "idecho "+jBig(new(big.Int).Neg(new(big.Int).Add(max, big.NewInt(d))).String()).tok())
		}
		emit("sweep", sweep)
		n := verifN(8000, 60000)
		for c := 0; c < n; c++ {
			var ops []string
			for i := 0; i < 8; i++ {
				ops = append(ops, "idecho "+genIDValue(r).tok())
			}
			emit(fmt.Sprintf("i%d", c), ops)
		}
	})
}
