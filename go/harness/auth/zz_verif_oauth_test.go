// E11 (C15) correspondence harness: runs the REAL AuthorizationCodeHandler.Authorize against a
// scripted world (an http.RoundTripper that records every URL and follows no redirects — the
// redirect policy belongs to the injected http.Client and is out of scope — plus a scripted
// authorization-code fetcher), and the real oauthex.ParseWWWAuthenticate against generated and
// mutated header strings. One record per world; the world travels in the op tokens so that the
// Lean driver runs `authorize` on exactly the same world and a replay reproduces the case.
// Not part of the repository; grafted into package auth by -overlay.
package auth

import (
	"bufio"
	"context"
	"encoding/hex"
	"encoding/json"
	"errors"
	"fmt"
	"io"
	"math/rand"
	"net/http"
	"net/url"
	"os"
	"path/filepath"
	"sort"
	"strconv"
	"strings"
	"testing"

	"github.com/modelcontextprotocol/go-sdk/internal/util"
	"github.com/modelcontextprotocol/go-sdk/oauthex"
	"golang.org/x/oauth2"
)

// ---------------------------------------------------------------------------------------------
// structured URLs (the same algebra as McpModel/OAuth/Model.lean `Url`)

type vURL struct {
	kind    byte // 'e' empty, 'b' bad, 'a' at
	n       int  // bad: which unparsable string
	scheme  string
	loop    bool
	host    int
	seg     int
	slashes int
	ds      []string
}

var (
	vLoopHosts = []string{"localhost", "localhost:8080", "127.0.0.1:9000", "[::1]:3000", "127.0.0.2"}
	// index 0 is the OPAQUE form (no authority): scheme:alert(<seg>)
	vFarHosts  = []string{"", "mcp.example", "as.example", "evil.example:8443", "localhost.evil.example", "10.0.0.7", "localhost@evil.example", "[2001:db8::1]", "as2.example", "127.0.0.1.evil.example"}
	vBadStrs   = []string{"https://%zz.example/x", "http://[::1/x", "https://as.example/\x7f"}
	vScripts   = []string{"javascript", "data", "vbscript"}
	vAllDerivs = []string{"pp", "pr", "ao", "ai", "aoi", "aii", "aia", "fa", "ft", "fr"}
)

func vEmpty() vURL    { return vURL{kind: 'e'} }
func vBad(n int) vURL { return vURL{kind: 'b', n: n} }
func vAt(scheme string, loop bool, host, seg, slashes int) vURL {
	return vURL{kind: 'a', scheme: scheme, loop: loop, host: host, seg: seg, slashes: slashes}
}

func (v vURL) tok() string {
	switch v.kind {
	case 'e':
		return "-"
	case 'b':
		return "!" + strconv.Itoa(v.n)
	}
	sch := v.scheme
	if sch == "" {
		sch = "_"
	}
	l := "N"
	if v.loop {
		l = "L"
	}
	s := fmt.Sprintf("%s~%s%d~%d~%d", sch, l, v.host, v.seg, v.slashes)
	if len(v.ds) > 0 {
		s += "~" + strings.Join(v.ds, ".")
	}
	return s
}

func vParse(t string) (vURL, error) {
	if t == "-" {
		return vEmpty(), nil
	}
	if strings.HasPrefix(t, "!") {
		n, err := strconv.Atoi(t[1:])
		return vBad(n), err
	}
	f := strings.Split(t, "~")
	if len(f) < 4 || len(f) > 5 || len(f[1]) < 2 {
		return vURL{}, fmt.Errorf("bad url token %q", t)
	}
	v := vURL{kind: 'a', scheme: f[0], loop: f[1][0] == 'L'}
	if v.scheme == "_" {
		v.scheme = ""
	}
	var err error
	if v.host, err = strconv.Atoi(f[1][1:]); err != nil {
		return v, err
	}
	if v.seg, err = strconv.Atoi(f[2]); err != nil {
		return v, err
	}
	if v.slashes, err = strconv.Atoi(f[3]); err != nil {
		return v, err
	}
	if len(f) == 5 {
		v.ds = strings.Split(f[4], ".")
	}
	return v, nil
}

func (v vURL) derive(d string) vURL {
	w := v
	w.ds = append(append([]string{}, v.ds...), d)
	return w
}

func (v vURL) root() vURL {
	if v.kind != 'a' {
		return v
	}
	return vAt(v.scheme, v.loop, v.host, 0, 0)
}

func (v vURL) hasPath() bool { return v.kind == 'a' && (v.seg != 0 || v.slashes != 0 || len(v.ds) > 0) }

func (v vURL) opaque() bool { return v.kind == 'a' && !v.loop && v.host == 0 }

// authority and path of the base (before derivations)
func (v vURL) authority() string {
	if v.loop {
		return vLoopHosts[v.host%len(vLoopHosts)]
	}
	return vFarHosts[v.host%len(vFarHosts)]
}

func (v vURL) path() string {
	p := ""
	if v.seg > 0 {
		p = "/p" + strconv.Itoa(v.seg)
	}
	return p + strings.Repeat("/", v.slashes)
}

// render gives the concrete string. upper: write the scheme of a raw (underived) URL in mixed case.
func (v vURL) render(upper bool) string {
	switch v.kind {
	case 'e':
		return ""
	case 'b':
		return vBadStrs[v.n%len(vBadStrs)]
	}
	if v.opaque() {
		s := v.scheme + ":alert(" + strconv.Itoa(v.seg) + ")" + strings.Repeat("/", v.slashes)
		for _, d := range v.ds {
			s += "#underivable-" + d
		}
		return s
	}
	sch := v.scheme
	if upper && len(v.ds) == 0 && sch != "" {
		sch = strings.ToUpper(sch[:1]) + sch[1:]
	}
	pre := "//"
	if sch != "" {
		pre = sch + "://"
	}
	s := pre + v.authority() + v.path()
	for _, d := range v.ds {
		s = deriveString(s, d)
	}
	return s
}

// deriveString is the harness's own statement of the string operations of
// protectedResourceMetadataURLs / authorizationServerMetadataURLs / the 2025-03-26 fall-back.
func deriveString(raw, d string) string {
	switch d {
	case "fa":
		return raw + "/authorize"
	case "ft":
		return raw + "/token"
	case "fr":
		return raw + "/register"
	}
	pre, rest := "", raw
	if i := strings.Index(raw, "://"); i >= 0 {
		pre, rest = strings.ToLower(raw[:i])+":", raw[i+1:]
	}
	rest = strings.TrimPrefix(rest, "//")
	auth, path := rest, ""
	if i := strings.Index(rest, "/"); i >= 0 {
		auth, path = rest[:i], rest[i:]
	}
	b := pre + "//" + auth
	switch d {
	case "pp":
		return b + "/.well-known/oauth-protected-resource/" + strings.TrimLeft(path, "/")
	case "pr":
		return b + "/.well-known/oauth-protected-resource"
	case "ao":
		return b + "/.well-known/oauth-authorization-server"
	case "ai":
		return b + "/.well-known/openid-configuration"
	case "aoi":
		return b + "/.well-known/oauth-authorization-server/" + strings.TrimLeft(path, "/")
	case "aii":
		return b + "/.well-known/openid-configuration/" + strings.TrimLeft(path, "/")
	case "aia":
		return b + "/" + strings.Trim(path, "/") + "/.well-known/openid-configuration"
	}
	return raw + "#unknown-derivation"
}

// ---------------------------------------------------------------------------------------------
// the world

type vPrmDoc struct {
	resource vURL
	as       []vURL
}

type vAsmDoc struct {
	issuer, authz, token, reg, intro vURL
	others                           []vURL
	flags                            string // k pkce, c cimd, i iss parameter, p post, b basic
}

type vResp struct {
	code string // T S4 S5 S3 S2 C J D | reg: FT F5 F4 FJ F3 R
	prm  *vPrmDoc
	asm  *vAsmDoc
	// registration document
	regHasID  bool
	regURLs   []vURL
	regMethod string
}

type vChallenge struct {
	bearer bool
	rm     vURL
	err    string // n i o
	rmHex  string
}

type vWorld struct {
	status   int
	cimd     bool
	pre      *vURL // nil: not configured
	dcr      bool
	init     bool
	sf       string   // configuration: ScopeFilter variant (n none, d drop all, r keep *:read, x append extra:scope)
	rr       bool     // configuration: RequestRefreshToken
	ps       []string // scopes_supported of the protected-resource documents of the round
	as       []string // scopes_supported of the authorization-server documents of the round
	ts       []string // scope member of the token responses of the round
	tsAbsent bool     // ... absent
	nts      bool // configuration: NewTokenSource is set (its source wraps the default one)
	ntFail   bool // this round: NewTokenSource returns an error
	u        vURL
	hm       bool
	ch       []vChallenge
	hdr      []string // rendered header values
	prm, asm map[string]vResp
	reg      map[string]vResp
	tok      map[string][]string
	fetch    string // "E" or "R"
	fState   string // g f e
	fIss     vURL
	sty      int
	order    map[string][]string // insertion order per table, for a stable encoding
	// histories: a round after the first one on the same handler (op `again`: the handler
	// configuration cimd/pre/dcr/init is the one of the case's `auth` record)
	again     bool
	dup       []string // names of the challenge parameters that were given a decoy duplicate (tags only)
	begin     bool // op `begin`: as `again`, but the call is left in flight (finished by a later `end <k>`)
	round     int  // 0-based number of the attempt in its case (start order)
	asChanged bool // this round asks another authorization server for metadata than the last round that got that far
	afterOK   bool // an earlier round of the case installed a token source
}

func joinURLs(l []vURL) string {
	if len(l) == 0 {
		return "."
	}
	t := make([]string, len(l))
	for i, u := range l {
		t[i] = u.tok()
	}
	return strings.Join(t, ",")
}

func parseURLs(s string) ([]vURL, error) {
	if s == "." {
		return nil, nil
	}
	var out []vURL
	for _, t := range strings.Split(s, ",") {
		u, err := vParse(t)
		if err != nil {
			return nil, err
		}
		out = append(out, u)
	}
	return out, nil
}

func (r vResp) tok() string {
	switch {
	case r.code == "D" && r.prm != nil:
		return "D|" + r.prm.resource.tok() + "|" + joinURLs(r.prm.as)
	case r.code == "D" && r.asm != nil:
		a := r.asm
		fl := a.flags
		if fl == "" {
			fl = "."
		}
		return strings.Join([]string{"D", a.issuer.tok(), a.authz.tok(), a.token.tok(), a.reg.tok(), a.intro.tok(), joinURLs(a.others), fl}, "|")
	case r.code == "R":
		id := "0"
		if r.regHasID {
			id = "1"
		}
		return "R|" + id + "|" + joinURLs(r.regURLs) + "|" + r.regMethod
	}
	return r.code
}

func bit(b bool) string {
	if b {
		return "1"
	}
	return "0"
}

func (w *vWorld) encodeMap(name string, m map[string]vResp) string {
	keys := w.order[name]
	if len(keys) == 0 {
		return "."
	}
	var parts []string
	for _, k := range keys {
		parts = append(parts, k+">"+m[k].tok())
	}
	return strings.Join(parts, ";")
}

// encode: the op of the world; `dup=` (names of challenge parameters with a decoy duplicate) is for the tags only.
func (w *vWorld) encode() string {
	if len(w.dup) == 0 {
		return w.encode0()
	}
	return w.encode0() + " dup=" + strings.Join(w.dup, ",")
}

func (w *vWorld) encode0() string {
	pre := "none"
	if w.pre != nil {
		pre = w.pre.tok()
	}
	ch := "."
	if len(w.ch) > 0 {
		var p []string
		for _, c := range w.ch {
			b := "o"
			if c.bearer {
				b = "b"
			}
			p = append(p, b+":"+c.rm.tok()+":"+c.err+":"+c.rmHex)
		}
		ch = strings.Join(p, "/")
	}
	hdr := "."
	if len(w.hdr) > 0 {
		var p []string
		for _, h := range w.hdr {
			p = append(p, hxs(h))
		}
		hdr = strings.Join(p, ",")
	}
	tok := "."
	if keys := w.order["tok"]; len(keys) > 0 {
		var p []string
		for _, k := range keys {
			p = append(p, k+">"+strings.Join(w.tok[k], ","))
		}
		tok = strings.Join(p, ";")
	}
	f := "E"
	if w.fetch == "R" {
		f = "R|" + w.fState + "|" + w.fIss.tok()
	}
	tsTok := scTok(w.ts)
	if w.tsAbsent {
		tsTok = "-"
	}
	if w.sf == "" {
		w.sf = "n"
	}
	nt := "S"
	if w.ntFail {
		nt = "E"
	}
	if w.again {
		kw := "again"
		if w.begin {
			kw = "begin"
		}
		return fmt.Sprintf(kw+" st=%d u=%s hm=%s ch=%s hdr=%s prm=%s asm=%s reg=%s tok=%s f=%s sty=%d nt=%s ps=%s as=%s ts=%s",
			w.status, w.u.tok(), bit(w.hm), ch, hdr,
			w.encodeMap("prm", w.prm), w.encodeMap("asm", w.asm), w.encodeMap("reg", w.reg), tok, f, w.sty, nt, scTok(w.ps), scTok(w.as), tsTok)
	}
	return fmt.Sprintf("auth st=%d cimd=%s pre=%s dcr=%s init=%s u=%s hm=%s ch=%s hdr=%s prm=%s asm=%s reg=%s tok=%s f=%s sty=%d nts=%s nt=%s ps=%s as=%s ts=%s sf=%s rr=%s",
		w.status, bit(w.cimd), pre, bit(w.dcr), bit(w.init), w.u.tok(), bit(w.hm), ch, hdr,
		w.encodeMap("prm", w.prm), w.encodeMap("asm", w.asm), w.encodeMap("reg", w.reg), tok, f, w.sty, bit(w.nts), nt, scTok(w.ps), scTok(w.as), tsTok, w.sf, bit(w.rr))
}

func decodeResp(kind, s string) (vResp, error) {
	f := strings.Split(s, "|")
	switch {
	case f[0] == "D" && kind == "prm" && len(f) == 3:
		res, err := vParse(f[1])
		if err != nil {
			return vResp{}, err
		}
		as, err := parseURLs(f[2])
		return vResp{code: "D", prm: &vPrmDoc{resource: res, as: as}}, err
	case f[0] == "D" && kind == "asm" && len(f) == 8:
		var u [5]vURL
		for i := 0; i < 5; i++ {
			x, err := vParse(f[1+i])
			if err != nil {
				return vResp{}, err
			}
			u[i] = x
		}
		others, err := parseURLs(f[6])
		fl := f[7]
		if fl == "." {
			fl = ""
		}
		return vResp{code: "D", asm: &vAsmDoc{issuer: u[0], authz: u[1], token: u[2], reg: u[3], intro: u[4], others: others, flags: fl}}, err
	case f[0] == "R" && kind == "reg" && len(f) == 4:
		urls, err := parseURLs(f[2])
		return vResp{code: "R", regHasID: f[1] == "1", regURLs: urls, regMethod: f[3]}, err
	case len(f) == 1:
		return vResp{code: f[0]}, nil
	}
	return vResp{}, fmt.Errorf("bad response token %q", s)
}

func scTok(l []string) string {
	if len(l) == 0 {
		return "."
	}
	return strings.Join(l, ",")
}

func scList(t string) []string {
	if t == "." || t == "" {
		return nil
	}
	return strings.Split(t, ",")
}

// canonScopes: sorted, without duplicates (scope SETS are compared).
func canonScopes(l []string) []string {
	out := append([]string{}, l...)
	sort.Strings(out)
	k := 0
	for i, x := range out {
		if i == 0 || x != out[i-1] {
			out[k] = x
			k++
		}
	}
	return out[:k]
}

func decodeWorld(op string) (*vWorld, error) {
	toks := strings.Fields(op)
	if len(toks) == 0 || (toks[0] != "auth" && toks[0] != "again" && toks[0] != "begin") {
		return nil, fmt.Errorf("not an auth op")
	}
	kv := map[string]string{}
	for _, t := range toks[1:] {
		k, v, ok := strings.Cut(t, "=")
		if !ok {
			return nil, fmt.Errorf("bad token %q", t)
		}
		kv[k] = v
	}
	w := &vWorld{prm: map[string]vResp{}, asm: map[string]vResp{}, reg: map[string]vResp{}, tok: map[string][]string{}, order: map[string][]string{}}
	var err error
	w.again = toks[0] == "again" || toks[0] == "begin"
	w.begin = toks[0] == "begin"
	w.status, _ = strconv.Atoi(kv["st"])
	w.cimd, w.dcr, w.init, w.hm = kv["cimd"] == "1", kv["dcr"] == "1", kv["init"] == "1", kv["hm"] == "1"
	w.nts, w.ntFail = kv["nts"] == "1", kv["nt"] == "E"
	if d := kv["dup"]; d != "" {
		w.dup = strings.Split(d, ",")
	}
	w.sf, w.rr = kv["sf"], kv["rr"] == "1"
	if w.sf == "" {
		w.sf = "n"
	}
	w.ps, w.as, w.ts, w.tsAbsent = []string{"mcp:read"}, nil, nil, true
	if t, ok := kv["ps"]; ok {
		w.ps = scList(t)
	}
	if t, ok := kv["as"]; ok {
		w.as = scList(t)
	}
	if t, ok := kv["ts"]; ok && t != "-" {
		w.ts, w.tsAbsent = scList(t), false
	}
	if !w.again && kv["pre"] != "none" {
		p, err := vParse(kv["pre"])
		if err != nil {
			return nil, err
		}
		w.pre = &p
	}
	if w.u, err = vParse(kv["u"]); err != nil {
		return nil, err
	}
	if kv["ch"] != "." && kv["ch"] != "" {
		for _, c := range strings.Split(kv["ch"], "/") {
			f := strings.Split(c, ":")
			if len(f) != 4 {
				return nil, fmt.Errorf("bad challenge %q", c)
			}
			rm, err := vParse(f[1])
			if err != nil {
				return nil, err
			}
			w.ch = append(w.ch, vChallenge{bearer: f[0] == "b", rm: rm, err: f[2], rmHex: f[3]})
		}
	}
	if kv["hdr"] != "." && kv["hdr"] != "" {
		for _, h := range strings.Split(kv["hdr"], ",") {
			b, err := hex.DecodeString(h)
			if err != nil {
				return nil, err
			}
			w.hdr = append(w.hdr, string(b))
		}
	}
	for _, name := range []string{"prm", "asm", "reg"} {
		if kv[name] == "." || kv[name] == "" {
			continue
		}
		m := map[string]map[string]vResp{"prm": w.prm, "asm": w.asm, "reg": w.reg}[name]
		for _, e := range strings.Split(kv[name], ";") {
			k, v, ok := strings.Cut(e, ">")
			if !ok {
				return nil, fmt.Errorf("bad entry %q", e)
			}
			r, err := decodeResp(name, v)
			if err != nil {
				return nil, err
			}
			if _, dup := m[k]; !dup {
				w.order[name] = append(w.order[name], k)
				m[k] = r
			}
		}
	}
	if kv["tok"] != "." && kv["tok"] != "" {
		for _, e := range strings.Split(kv["tok"], ";") {
			k, v, ok := strings.Cut(e, ">")
			if !ok {
				return nil, fmt.Errorf("bad entry %q", e)
			}
			if _, dup := w.tok[k]; !dup {
				w.order["tok"] = append(w.order["tok"], k)
				w.tok[k] = strings.Split(v, ",")
			}
		}
	}
	f := strings.Split(kv["f"], "|")
	w.fetch = f[0]
	w.fIss = vEmpty()
	if f[0] == "R" && len(f) == 3 {
		w.fState = f[1]
		if w.fIss, err = vParse(f[2]); err != nil {
			return nil, err
		}
	}
	w.sty, _ = strconv.Atoi(kv["sty"])
	return w, nil
}

// ---------------------------------------------------------------------------------------------
// running one world against the real handler

const (
	vPreID, vPreSecret = "pre-client", "pre-secret"
	vDcrID, vDcrSecret = "dcr-client", "dcr-secret"
	vCimdURL           = "https://client.example/cimd.json"
)

type vRun struct {
	sc      string // " sc=<scope set of the authorization URL>" once the fetcher was called
	onToken func() // called before a token request is answered (the attempt may be held here)
	w      *vWorld
	rev    map[string]string // concrete string -> url token
	events []string
	upper  bool
}

// reg records the concrete spellings of one URL value (as written, and as net/url re-serialises it).
// The first value registered for a string wins.
func (r *vRun) reg(x vURL) {
	for _, up := range []bool{false, true} {
		s := x.render(up)
		if _, ok := r.rev[s]; !ok {
			r.rev[s] = x.tok()
		}
		if pu, err := url.Parse(s); err == nil {
			if n := pu.String(); n != s {
				if _, ok := r.rev[n]; !ok {
					r.rev[n] = x.tok()
				}
			}
		}
	}
}

// asBases lists the authorization-server URLs the flow can continue with in this world: the first
// entry of every scripted protected-resource document (valid or not) and the 2025-03-26 fall-back.
func (w *vWorld) asBases() []vURL {
	var out []vURL
	for _, k := range w.order["prm"] {
		if d := w.prm[k].prm; d != nil && len(d.as) > 0 {
			out = append(out, d.as[0])
		}
	}
	return append(out, w.u.root())
}

// addAll builds the reverse table: the server URL and its well-known locations, every
// authorization-server base with the locations and fall-back endpoints derived from it (exactly
// the derivations the model can produce, so that tokens are canonical), then every URL value that
// occurs in the world.
func (r *vRun) addAll() {
	w := r.w
	r.rev = map[string]string{"": "-"}
	r.reg(w.u)
	r.reg(w.u.derive("pp"))
	r.reg(w.u.derive("pr"))
	for _, a := range w.asBases() {
		if a.kind != 'a' || a.opaque() {
			continue
		}
		r.reg(a)
		for _, m := range asmCands(a) {
			r.reg(m)
		}
		for _, d := range []string{"fa", "ft", "fr"} {
			r.reg(a.derive(d))
		}
	}
	if w.pre != nil {
		r.reg(*w.pre)
	}
	r.reg(w.fIss)
	for _, c := range w.ch {
		r.reg(c.rm)
	}
	for _, name := range []string{"prm", "asm", "reg"} {
		m := map[string]map[string]vResp{"prm": w.prm, "asm": w.asm, "reg": w.reg}[name]
		for _, k := range w.order[name] {
			resp := m[k]
			if v, err := vParse(k); err == nil {
				r.reg(v)
			}
			if resp.prm != nil {
				r.reg(resp.prm.resource)
				for _, a := range resp.prm.as {
					r.reg(a)
				}
			}
			if resp.asm != nil {
				a := resp.asm
				for _, x := range append([]vURL{a.issuer, a.authz, a.token, a.reg, a.intro}, a.others...) {
					r.reg(x)
				}
			}
			for _, x := range resp.regURLs {
				r.reg(x)
			}
		}
	}
	for _, k := range w.order["tok"] {
		if v, err := vParse(k); err == nil {
			r.reg(v)
		}
	}
}

// classify maps a concrete URL string back to its token, checking scheme and loopback class with
// net/url and util.IsLoopback on the concrete string.
func (r *vRun) classify(s string) string {
	sch, loop := "_", "N"
	if pu, err := url.Parse(s); err == nil {
		if pu.Scheme != "" {
			sch = pu.Scheme
		}
		if util.IsLoopback(pu.Host) {
			loop = "L"
		}
	}
	unknown := "?" + sch + "~" + loop + "~" + hxs(s)
	t, ok := r.rev[s]
	if !ok {
		return unknown
	}
	if t == "-" || strings.HasPrefix(t, "!") {
		return t
	}
	f := strings.Split(t, "~")
	if f[0] != sch || f[1][:1] != loop {
		return unknown
	}
	return t
}

func credOf(id string) string {
	switch id {
	case vPreID:
		return "p"
	case vDcrID:
		return "d"
	case vCimdURL:
		return "c"
	case "":
		return "n"
	}
	return "?"
}

var vPad = strings.Repeat("a", 1<<20)

type vErrReader struct{}

func (vErrReader) Read([]byte) (int, error) { return 0, errors.New("scripted body error") }

type vErrTransport struct{}

func (vErrTransport) Error() string { return "scripted transport error" }

func vHTTP(code int, ct, body string) *http.Response {
	h := http.Header{}
	if ct != "" {
		h.Set("Content-Type", ct)
	}
	if code/100 == 3 {
		h.Set("Location", "https://evil.example:8443/redirected")
	}
	return &http.Response{StatusCode: code, Status: strconv.Itoa(code) + " " + http.StatusText(code), Header: h,
		Body: io.NopCloser(strings.NewReader(body)), ContentLength: int64(len(body)), Proto: "HTTP/1.1", ProtoMajor: 1, ProtoMinor: 1}
}

func (r *vRun) pick(codes ...int) int { return codes[r.w.sty%len(codes)] }

func (r *vRun) prmJSON(d *vPrmDoc) string {
	m := map[string]any{"resource": d.resource.render(false)}
	if len(r.w.ps) > 0 {
		m["scopes_supported"] = r.w.ps
	}
	if d.as != nil {
		l := []string{}
		for _, a := range d.as {
			l = append(l, a.render(false))
		}
		m["authorization_servers"] = l
	}
	b, _ := json.Marshal(m)
	return string(b)
}

func (r *vRun) asmJSON(a *vAsmDoc) string {
	m := map[string]any{"issuer": a.issuer.render(false), "response_types_supported": []string{"code"}}
	put := func(k string, v vURL) {
		if v.kind != 'e' {
			m[k] = v.render(r.upper)
		}
	}
	put("authorization_endpoint", a.authz)
	put("token_endpoint", a.token)
	put("registration_endpoint", a.reg)
	put("introspection_endpoint", a.intro)
	names := []string{"jwks_uri", "service_documentation", "op_policy_uri", "op_tos_uri", "revocation_endpoint"}
	for i, o := range a.others {
		if i < len(names) {
			put(names[i], o)
		}
	}
	if strings.Contains(a.flags, "k") {
		m["code_challenge_methods_supported"] = []string{"S256"}
	}
	if len(r.w.as) > 0 {
		m["scopes_supported"] = r.w.as
	}
	if strings.Contains(a.flags, "c") {
		m["client_id_metadata_document_supported"] = true
	}
	if strings.Contains(a.flags, "i") {
		m["authorization_response_iss_parameter_supported"] = true
	}
	var meth []string
	if strings.Contains(a.flags, "p") {
		meth = append(meth, "client_secret_post")
	}
	if strings.Contains(a.flags, "b") {
		meth = append(meth, "client_secret_basic")
	}
	if meth == nil && r.w.sty%3 == 0 {
		meth = []string{"private_key_jwt"}
	}
	if meth != nil {
		m["token_endpoint_auth_methods_supported"] = meth
	}
	b, _ := json.Marshal(m)
	return string(b)
}

func (r *vRun) regJSON(x vResp) string {
	m := map[string]any{"client_secret": vDcrSecret}
	if x.regHasID {
		m["client_id"] = vDcrID
	}
	names := []string{"client_uri", "logo_uri", "tos_uri", "policy_uri", "jwks_uri"}
	red := []string{"http://localhost:7777/callback"}
	for i, u := range x.regURLs {
		if i == 0 {
			red = []string{u.render(r.upper)}
		} else if i-1 < len(names) {
			m[names[i-1]] = u.render(r.upper)
		}
	}
	m["redirect_uris"] = red
	if r.w.sty%2 == 0 {
		m["client_id_issued_at"] = 1700000000
		m["client_secret_expires_at"] = 1800000000
	}
	switch x.regMethod {
	case "n":
		m["token_endpoint_auth_method"] = "none"
	case "p":
		m["token_endpoint_auth_method"] = "client_secret_post"
	case "b":
		m["token_endpoint_auth_method"] = "client_secret_basic"
	case "x":
		m["token_endpoint_auth_method"] = "private_key_jwt"
	}
	b, _ := json.Marshal(m)
	return string(b)
}

func (r *vRun) getResp(x vResp, body func() string) (*http.Response, error) {
	switch x.code {
	case "T":
		return nil, vErrTransport{}
	case "S4":
		return vHTTP(r.pick(404, 400, 410, 401), "application/json", `{"error":"not_found"}`), nil
	case "S5":
		return vHTTP(r.pick(500, 503), "text/plain", "boom"), nil
	case "S3":
		return vHTTP(r.pick(302, 301, 307), "", ""), nil
	case "S2":
		return vHTTP(r.pick(204, 201), "application/json", body()), nil
	case "C":
		return vHTTP(200, []string{"text/html", "", "application/jsonx; charset=utf-8"}[r.w.sty%3], body()), nil
	case "J":
		return vHTTP(200, "application/json", `{"issuer": [`), nil
	case "L":
		b := strings.TrimSpace(body())
		return vHTTP(200, "application/json", b[:len(b)-1]+`,"zzpad":"`+vPad+`"}`), nil
	case "D":
		return vHTTP(200, []string{"application/json", "application/json; charset=utf-8"}[r.w.sty%2], body()), nil
	}
	return vHTTP(404, "", ""), nil
}

func (r *vRun) RoundTrip(req *http.Request) (*http.Response, error) {
	s := req.URL.String()
	t := r.classify(s)
	switch {
	case req.Method == http.MethodGet:
		r.events = append(r.events, "G:"+t)
		if x, ok := r.w.prm[t]; ok {
			return r.getResp(x, func() string {
				if x.prm != nil {
					return r.prmJSON(x.prm)
				}
				return `{"resource":"https://mcp.example/never"}`
			})
		}
		if x, ok := r.w.asm[t]; ok {
			return r.getResp(x, func() string {
				if x.asm != nil {
					return r.asmJSON(x.asm)
				}
				return `{"issuer":"https://as.example/never"}`
			})
		}
		return vHTTP(404, "", ""), nil
	case req.Method == http.MethodPost && strings.HasPrefix(req.Header.Get("Content-Type"), "application/json"):
		r.events = append(r.events, "R:"+t)
		io.Copy(io.Discard, req.Body)
		x, ok := r.w.reg[t]
		if !ok {
			return vHTTP(500, "", "no registration here"), nil
		}
		switch x.code {
		case "FT":
			return nil, vErrTransport{}
		case "F5":
			return vHTTP(r.pick(500, 503, 404), "text/plain", "boom"), nil
		case "F4":
			return vHTTP(400, "application/json", `{"error":"invalid_redirect_uri","error_description":"no"}`), nil
		case "F3":
			return vHTTP(302, "", ""), nil
		case "F4J": // 400 whose error document cannot be decoded
			return vHTTP(400, "application/json", `{"error": `), nil
		case "FB": // the body cannot be read
			resp := vHTTP(r.pick(201, 200, 400), "application/json", "")
			resp.Body = io.NopCloser(vErrReader{})
			resp.ContentLength = -1
			return resp, nil
		case "FJ":
			return vHTTP(r.pick(201, 200), "application/json", `{"client_id": `), nil
		case "R":
			return vHTTP(r.pick(201, 200), "application/json", r.regJSON(x)), nil
		}
		return vHTTP(500, "", ""), nil
	case req.Method == http.MethodPost:
		body, _ := io.ReadAll(req.Body)
		form, _ := url.ParseQuery(string(body))
		id := form.Get("client_id")
		if id == "" {
			if u, _, ok := req.BasicAuth(); ok {
				if dec, err := url.QueryUnescape(u); err == nil {
					u = dec
				}
				if u == vPreID || u == vDcrID || u == vCimdURL {
					id = u
				}
			}
		}
		n := 0
		for _, e := range r.events {
			if strings.HasPrefix(e, "T:"+t+":") {
				n++
			}
		}
		r.events = append(r.events, "T:"+t+":"+credOf(id))
		if r.onToken != nil {
			r.onToken()
		}
		l, ok := r.w.tok[t]
		if !ok || n >= len(l) {
			// the Lean world answers `fail` for anything unscripted
			return vHTTP(400, "application/json", `{"error":"invalid_request"}`), nil
		}
		code := l[n]
		switch code {
		case "G", "X":
			m := map[string]any{"access_token": "at-1", "token_type": "Bearer"}
			if code == "X" {
				m["expires_in"] = 1
			}
			if !r.w.tsAbsent {
				m["scope"] = strings.Join(r.w.ts, " ")
			}
			b, _ := json.Marshal(m)
			return vHTTP(200, "application/json", string(b)), nil
		case "FT":
			return nil, vErrTransport{}
		case "F4":
			return vHTTP(r.pick(400, 401), "application/json", `{"error":"invalid_client"}`), nil
		case "F5":
			return vHTTP(r.pick(500, 502), "text/plain", "boom"), nil
		case "FE":
			return vHTTP(200, "application/json", `{"error":"invalid_grant","access_token":"at-evil"}`), nil
		case "FN":
			return vHTTP(200, "application/json", `{"token_type":"Bearer"}`), nil
		case "FJ":
			return vHTTP(200, "application/json", `{{`), nil
		}
		return vHTTP(400, "", ""), nil
	}
	r.events = append(r.events, "?:"+t)
	return vHTTP(405, "", ""), nil
}

var vFetchErr = errors.New("scripted fetcher error")

// fetcher is the AuthorizationCodeFetcher of one attempt: it records the authorization URL, parks until
// the harness lets the attempt go on (`end`), and answers as the world says. stateOf resolves the state
// generated for another attempt of the handler ("" if that attempt never reached its fetcher).
func (r *vRun) fetcher(ctx context.Context, args *AuthorizationArgs, park func(state string), stateOf func(k int) string) (*AuthorizationResult, error) {
	ep, q, _ := strings.Cut(args.URL, "?")
	vals, _ := url.ParseQuery(q)
	r.events = append(r.events, "F:"+r.classify(ep)+":"+credOf(vals.Get("client_id"))+":"+r.classify(vals.Get("resource")))
	r.sc = " sc=" + scTok(canonScopes(strings.Fields(vals.Get("scope"))))
	park(vals.Get("state"))
	if r.w.fetch != "R" {
		return nil, vFetchErr
	}
	res := &AuthorizationResult{Code: "code-1", Iss: r.w.fIss.render(false)}
	switch {
	case r.w.fState == "g":
		res.State = vals.Get("state")
	case r.w.fState == "f":
		res.State = "forged" + vals.Get("state")
	case r.w.fState == "e":
		res.State = ""
	case strings.HasPrefix(r.w.fState, "s"):
		// the state generated for attempt k of this handler (in flight, finished, or this one)
		k, err := strconv.Atoi(r.w.fState[1:])
		if st := stateOf(k); err == nil && st != "" {
			res.State = st
		} else {
			res.State = "state-of-nobody-" + r.w.fState[1:]
		}
	}
	return res, nil
}

type vSentinelTS struct{}

func (vSentinelTS) Token() (*oauth2.Token, error) { return &oauth2.Token{AccessToken: "initial"}, nil }

func classifyErr(err error) string {
	if err == nil {
		return "ok"
	}
	s := err.Error()
	has := func(x string) bool { return strings.Contains(s, x) }
	switch {
	case errors.Is(err, vFetchErr):
		return "fetch"
	case has("failed to parse WWW-Authenticate header"):
		return "hdr"
	case has("has no authorization servers specified"):
		return "noas"
	case has("failed to get authorization server metadata"):
		switch {
		case has("metadataURL:"):
			return "asm-url"
		case has("does not match issuer URL"):
			return "asm-issuer"
		case has("does not implement PKCE"):
			return "asm-pkce"
		case has("_endpoint: ") || has("_uri: ") || has("service_documentation: "):
			return "asm-field"
		}
		return "asm-fetch"
	case has("does not match pre-registered credentials issuer"):
		return "pre-iss"
	case has("failed to register client"):
		return "reg"
	case has("no configured client registration methods"):
		return "no-reg"
	case s == "state mismatch":
		return "state"
	case has("but none was received in the authorization response"):
		return "iss-missing"
	case has("authorization response issuer") && has("does not match expected issuer"):
		return "iss-mismatch"
	case has("does not advertise RFC 9207 iss parameter support but iss was received"):
		return "iss-unexpected"
	case has("token exchange failed"):
		return "exch"
	case errors.Is(err, vNtsErr) && has("constructing token source failed"):
		return "ts-err"
	case has("token expired and refresh token is not set"):
		return "post"
	}
	return "other:" + hxs(s)
}

// vHandler is ONE AuthorizationCodeHandler and what the harness remembers of its attempts. The injected
// http.Client and fetcher are fixed when the handler is created; they delegate to the scripted world
// of the attempt the request belongs to (the attempt travels in the context given to Authorize).
type vHandler struct {
	h         *AuthorizationCodeHandler
	cfgW      *vWorld // the world of the `auth` record: the handler configuration
	initial   oauth2.TokenSource
	att       []*vAttempt // every Authorize call of the case, in start order
	installed []vInstalled
	cur       *vRun
	finishing *vAttempt // the attempt whose Authorize call is running right now (one at a time)
	lastAS    string // the authorization server the last round that reached one asked for metadata
}

type vInstalled struct {
	ts oauth2.TokenSource
	k  int // the attempt during whose finish this source first appeared
}

// vAttempt is one Authorize call: it runs in its own goroutine, parks in the fetcher, and goes on when
// the harness says so. All hand-overs are by channel: no timing.
type vAttempt struct {
	k        int
	w        *vWorld
	run      *vRun
	parked   chan string   // fetcher -> harness: the state generated for this attempt
	release  chan struct{} // harness -> fetcher
	done     chan struct{}
	state    string
	isParked bool
	ended    bool // its `end` record was printed
	holdTok    bool          // hold the attempt at its first token request
	tokParked  chan struct{} // RoundTrip -> harness
	tokRelease chan struct{} // harness -> RoundTrip
	held       bool
	holdCtor    bool          // hold the attempt inside the configured NewTokenSource (after the exchange, before `h.tokenSource = ts`)
	ctorParked  chan struct{} // constructor -> harness
	ctorRelease chan struct{} // harness -> constructor
	inCtor      bool
	before   oauth2.TokenSource
	err      error
	panicked bool
	obs      string // set when the attempt could not be started
	inst     string // "" until the call has returned: did TokenSource() change while it finished
}

type vAttKey struct{}

var vNtsErr = errors.New("scripted NewTokenSource error")

// vWrappedTS is what the configured NewTokenSource returns: the default source, wrapped.
type vWrappedTS struct{ oauth2.TokenSource }

// newTokenSource is the configured constructor. It is called with a context derived from
// context.Background() (not the attempt's), so it answers for the attempt that is finishing.
func (hs *vHandler) newTokenSource(ctx context.Context, cfg *oauth2.Config, tok *oauth2.Token) (oauth2.TokenSource, error) {
	if a := hs.finishing; a != nil {
		if a.holdCtor {
			a.holdCtor = false
			a.ctorParked <- struct{}{}
			<-a.ctorRelease
		}
		if a.w.ntFail {
			return nil, vNtsErr
		}
	}
	return &vWrappedTS{cfg.TokenSource(ctx, tok)}, nil
}

// contactedAS returns the token of the authorization-server URL whose metadata locations the
// observation's log asks for ("" if the round did not get that far).
func contactedAS(obs string) string {
	_, lg, ok := strings.Cut(obs, " log=")
	if !ok {
		return ""
	}
	as := ""
	for _, e := range strings.Split(lg, ",") {
		if !strings.HasPrefix(e, "G:") {
			continue
		}
		f := strings.Split(e[2:], "~")
		if len(f) != 5 {
			continue
		}
		ds := strings.Split(f[4], ".")
		switch ds[len(ds)-1] {
		case "ao", "ai", "aoi", "aii", "aia":
			as = strings.Join(f[:4], "~")
			if len(ds) > 1 {
				as += "~" + strings.Join(ds[:len(ds)-1], ".")
			}
		}
	}
	return as
}

func (hs *vHandler) RoundTrip(req *http.Request) (*http.Response, error) {
	if a, ok := req.Context().Value(vAttKey{}).(*vAttempt); ok {
		return a.run.RoundTrip(req)
	}
	return hs.cur.RoundTrip(req) // a request that lost its context: booked on the attempt started last
}

func (hs *vHandler) fetcher(ctx context.Context, args *AuthorizationArgs) (*AuthorizationResult, error) {
	a, ok := ctx.Value(vAttKey{}).(*vAttempt)
	if !ok {
		return nil, errors.New("fetcher called without the attempt's context")
	}
	return a.run.fetcher(ctx, args, func(st string) {
		a.parked <- st
		<-a.release
	}, func(k int) string {
		if k < 0 || k >= len(hs.att) {
			return ""
		}
		return hs.att[k].state
	})
}

// newHandler creates the handler an `auth` record describes.
func newHandler(w *vWorld) (hs *vHandler, obs string) {
	defer func() {
		if p := recover(); p != nil {
			hs, obs = nil, "panic"
		}
	}()
	hs = &vHandler{cfgW: w}
	cfg := &AuthorizationCodeHandlerConfig{
		RedirectURL:              "http://localhost:7777/callback",
		AuthorizationCodeFetcher: hs.fetcher,
		Client: &http.Client{Transport: hs, CheckRedirect: func(*http.Request, []*http.Request) error {
			return http.ErrUseLastResponse // no redirects: the policy of the injected client is out of scope
		}},
	}
	if w.cimd {
		cfg.ClientIDMetadataDocumentConfig = &ClientIDMetadataDocumentConfig{URL: vCimdURL}
	}
	if w.pre != nil {
		cfg.PreregisteredClient = &oauthex.ClientCredentials{ClientID: vPreID, ClientSecretAuth: &oauthex.ClientSecretAuth{ClientSecret: vPreSecret}, Issuer: w.pre.render(false)}
		if w.sty%4 == 3 {
			cfg.PreregisteredClient.ClientSecretAuth = nil
		}
	}
	if w.dcr {
		cfg.DynamicClientRegistrationConfig = &DynamicClientRegistrationConfig{Metadata: &oauthex.ClientRegistrationMetadata{
			RedirectURIs: []string{"http://localhost:7777/callback"}, ClientName: "verif"}}
	}
	if w.nts {
		cfg.NewTokenSource = hs.newTokenSource
	}
	cfg.RequestRefreshToken = w.rr
	switch w.sf {
	case "d":
		cfg.ScopeFilter = func([]string) []string { return nil }
	case "r":
		cfg.ScopeFilter = func(l []string) []string {
			var out []string
			for _, x := range l {
				if strings.HasSuffix(x, ":read") {
					out = append(out, x)
				}
			}
			return out
		}
	case "x":
		cfg.ScopeFilter = func(l []string) []string { return append(append([]string{}, l...), "extra:scope") }
	}
	if w.init {
		hs.initial = vSentinelTS{}
		cfg.InitialTokenSource = hs.initial
	}
	h, err := NewAuthorizationCodeHandler(cfg)
	if err != nil {
		return nil, "config:" + hxs(err.Error())
	}
	hs.h = h
	return hs, ""
}

// begin starts one Authorize call of the handler against the world w and returns when it is parked in
// the fetcher ("parked") or has ended ("done").
func (hs *vHandler) begin(w *vWorld) (a *vAttempt, obs string) {
	if w.again {
		c := hs.cfgW
		w.cimd, w.pre, w.dcr, w.init, w.nts, w.sf, w.rr = c.cimd, c.pre, c.dcr, c.init, c.nts, c.sf, c.rr
	}
	w.round = len(hs.att)
	r := &vRun{w: w, upper: w.sty%5 == 1} // mixed-case schemes only in fields that are not compared as strings
	r.addAll()
	hs.cur = r
	a = &vAttempt{k: len(hs.att), w: w, run: r, parked: make(chan string), release: make(chan struct{}), done: make(chan struct{}),
		tokParked: make(chan struct{}), tokRelease: make(chan struct{}), ctorParked: make(chan struct{}), ctorRelease: make(chan struct{})}
	first := true
	r.onToken = func() {
		if a.holdTok && first {
			first = false
			a.tokParked <- struct{}{}
			<-a.tokRelease
		}
	}
	hs.att = append(hs.att, a)
	ctx := context.WithValue(context.Background(), vAttKey{}, a)
	req, err := http.NewRequestWithContext(ctx, http.MethodPost, w.u.render(false), nil)
	if err != nil {
		a.obs = "badurl"
		close(a.done)
		return a, "done"
	}
	hd := http.Header{}
	for _, v := range w.hdr {
		hd.Add("WWW-Authenticate", v)
	}
	a.before, _ = hs.h.TokenSource(context.Background())
	resp := &http.Response{StatusCode: w.status, Header: hd, Body: io.NopCloser(strings.NewReader("")), Request: req}
	hs.finishing = a
	go func() {
		defer close(a.done)
		defer func() {
			if p := recover(); p != nil {
				a.panicked = true
			}
		}()
		a.err = hs.h.Authorize(ctx, req, resp)
	}()
	select {
	case a.state = <-a.parked:
		a.isParked = true
		return a, "parked"
	case <-a.done:
		hs.observe(a) // books `inst` now: the call has returned; what is served is read again at its `end` record
		return a, "done"
	}
}

// observe prints what attempt a did, once it has returned.
func (hs *vHandler) observe(a *vAttempt) string {
	if a.panicked {
		return "panic"
	}
	ts, _ := hs.h.TokenSource(context.Background())
	if a.inst == "" {
		a.inst = "0"
		if ts != a.before {
			a.inst = "1"
		}
	}
	inst := a.inst
	cur, found := "i", false
	for _, x := range hs.installed {
		if x.ts == ts {
			cur, found = strconv.Itoa(x.k), true
			break
		}
	}
	if !found && ts != hs.initial {
		// a source not seen before: it appeared while this attempt finished
		hs.installed = append(hs.installed, vInstalled{ts, a.k})
		cur = strconv.Itoa(a.k)
	}
	lg := "."
	if len(a.run.events) > 0 {
		lg = strings.Join(a.run.events, ",")
	}
	return "out=" + classifyErr(a.err) + " inst=" + inst + " cur=" + cur + " log=" + lg + a.run.sc
}

// answer lets the fetcher of attempt k return and holds the attempt at its first token request ("held");
// "done" if its Authorize call returned without one (what it did is reported by its `end` record).
func (hs *vHandler) answer(k int) string {
	if k < 0 || k >= len(hs.att) || hs.att[k].ended {
		return "no-such-attempt"
	}
	a := hs.att[k]
	if !a.isParked || a.held || a.inst != "" {
		return "done"
	}
	a.holdTok = true
	a.before, _ = hs.h.TokenSource(context.Background())
	hs.finishing = a
	close(a.release)
	a.isParked = false
	select {
	case <-a.tokParked:
		a.held = true
		return "held"
	case <-a.done:
		hs.observe(a)
		return "done"
	}
}

// ctor lets attempt k go on (from the fetcher or the token request it is held at) up to the configured
// NewTokenSource and holds it INSIDE the constructor: the code was exchanged, the next statement of the attempt is
// `h.tokenSource = ts`. "ctor" = held there; "done" = its Authorize call returned without reaching it.
func (hs *vHandler) ctor(k int) string {
	if k < 0 || k >= len(hs.att) || hs.att[k].ended {
		return "no-such-attempt"
	}
	a := hs.att[k]
	if a.inCtor || a.inst != "" || !(a.held || a.isParked) {
		return "done"
	}
	a.holdCtor = true
	a.before, _ = hs.h.TokenSource(context.Background())
	hs.finishing = a
	if a.held {
		a.held = false
		close(a.tokRelease)
	} else {
		a.isParked = false
		close(a.release)
	}
	select {
	case <-a.ctorParked:
		a.inCtor = true
		return "ctor"
	case <-a.done:
		hs.observe(a)
		return "done"
	}
}

// end lets attempt k run to its end (from the fetcher, or from the token request it is held at) and waits
// until its Authorize call has returned.
func (hs *vHandler) end(k int) (a *vAttempt, obs string) {
	if k < 0 || k >= len(hs.att) || hs.att[k].ended {
		return nil, "no-such-attempt"
	}
	a = hs.att[k]
	a.ended = true
	if a.obs != "" {
		return a, a.obs
	}
	switch {
	case a.inCtor:
		a.before, _ = hs.h.TokenSource(context.Background())
		close(a.ctorRelease)
		<-a.done
	case a.held:
		a.before, _ = hs.h.TokenSource(context.Background())
		hs.finishing = a
		close(a.tokRelease)
		<-a.done
	case a.isParked:
		a.before, _ = hs.h.TokenSource(context.Background())
		hs.finishing = a
		close(a.release)
		<-a.done
	}
	return a, hs.observe(a)
}

// abandon ends every attempt still in flight (a case must not leave goroutines behind).
func (hs *vHandler) abandon() {
	if hs == nil {
		return
	}
	for k := range hs.att {
		if !hs.att[k].ended {
			hs.end(k)
		}
	}
}

// round runs one Authorize call of the handler against the world w from start to end.
func (hs *vHandler) round(w *vWorld) (obs string) {
	a, _ := hs.begin(w)
	_, obs = hs.end(a.k)
	return obs
}

// ---------------------------------------------------------------------------------------------
// generator

type vGen struct {
	rng *rand.Rand
	w   *vWorld
	// histories
	honest bool    // this round is drawn from a mostly well-behaved network (so that whole flows complete)
	base   *vWorld // the first round of the history (handler configuration, usual server URL); nil while drawing it
	prevAS *vURL   // the authorization server the honest documents of the previous round named
}

func (g *vGen) p(pct int) bool { return g.rng.Intn(100) < pct }

// hp: probability pct in a hostile round, honestPct in an honest one.
func (g *vGen) hp(pct, honestPct int) bool {
	if g.honest {
		return g.p(honestPct)
	}
	return g.p(pct)
}

func (g *vGen) farHost() int { return 1 + g.rng.Intn(len(vFarHosts)-1) }

// unsafeURL draws from the variants a hostile document would use.
func (g *vGen) unsafeURL() vURL {
	seg := 20 + g.rng.Intn(5)
	switch g.rng.Intn(10) {
	case 0, 1:
		return vAt("http", false, g.farHost(), seg, 0) // plain http, not loopback
	case 2:
		return vAt(vScripts[g.rng.Intn(3)], true, g.rng.Intn(len(vLoopHosts)), seg, 0) // script scheme on a loopback host
	case 3:
		return vAt(vScripts[g.rng.Intn(3)], false, 0, seg, 0) // opaque javascript:alert(n)
	case 4:
		return vAt(vScripts[g.rng.Intn(3)], false, g.farHost(), seg, 0)
	case 5:
		return vBad(g.rng.Intn(len(vBadStrs)))
	case 6:
		return vAt("ftp", false, g.farHost(), seg, 0)
	case 7:
		return vAt("", false, g.farHost(), seg, 0) // scheme-less //host/path
	case 8:
		return vAt("ftp", true, g.rng.Intn(len(vLoopHosts)), seg, 0) // passes the code's check: loopback
	}
	return vAt("", true, g.rng.Intn(len(vLoopHosts)), seg, 0)
}

func (g *vGen) safeBase() vURL {
	var v vURL
	if g.p(70) {
		v = vAt("https", false, g.farHost(), 0, 0)
	} else if g.p(70) {
		v = vAt("http", true, g.rng.Intn(len(vLoopHosts)), 0, 0)
	} else {
		v = vAt("https", true, g.rng.Intn(len(vLoopHosts)), 0, 0)
	}
	if g.p(40) {
		v.seg = 1 + g.rng.Intn(4)
	}
	if g.p(12) {
		v.slashes = 1 + g.rng.Intn(2)
	}
	return v
}

func (g *vGen) set(name string, m map[string]vResp, k vURL, r vResp) {
	t := k.tok()
	if _, dup := m[t]; dup {
		return
	}
	m[t] = r
	g.w.order[name] = append(g.w.order[name], t)
}

var vScopePool = []string{"mcp:read", "mcp:write", "files:read", "files:write", "offline_access", "admin"}

// scopeSet draws a subset of the pool (each member with probability pct), in pool order.
func (g *vGen) scopeSet(pct int) []string {
	var out []string
	for _, x := range vScopePool {
		if g.p(pct) {
			out = append(out, x)
		}
	}
	return out
}

func (g *vGen) failCode() string {
	if g.rng.Intn(40) == 0 {
		return "L" // a document larger than getJSON's 1 MiB limit
	}
	return []string{"S4", "S4", "S4", "S5", "S3", "S2", "C", "J", "T"}[g.rng.Intn(9)]
}

func (g *vGen) prmCandidates() [][2]vURL {
	w := g.w
	var out [][2]vURL
	rm := vEmpty()
	for _, c := range w.ch {
		if c.rm.kind != 'e' {
			rm = c.rm
			break
		}
	}
	if rm.kind != 'e' {
		out = append(out, [2]vURL{rm, w.u})
	}
	out = append(out, [2]vURL{w.u.derive("pp"), w.u}, [2]vURL{w.u.derive("pr"), w.u.root()})
	return out
}

func asmCands(i vURL) []vURL {
	if i.kind == 'b' {
		return nil
	}
	if i.kind == 'e' {
		i = vAt("", false, 0, 0, 0) // never requested: fails the https-or-loopback check
	}
	ds := []string{"ao", "ai"}
	if i.hasPath() {
		ds = []string{"aoi", "aii", "aia"}
	}
	var out []vURL
	for _, d := range ds {
		out = append(out, i.derive(d))
	}
	return out
}

func (g *vGen) asmDoc(issuer vURL, pValid int) *vAsmDoc {
	o := issuer
	if o.kind != 'a' || o.opaque() {
		o = vAt("https", false, 2, 0, 0)
	}
	ep := func(seg int) vURL { return vAt(o.scheme, o.loop, o.host, seg, 0) }
	d := &vAsmDoc{issuer: issuer, authz: ep(11), token: ep(12), reg: ep(13), intro: vEmpty()}
	if g.p(30) {
		d.reg = vEmpty()
	}
	if g.p(30) {
		d.intro = ep(14)
	}
	if g.p(30) {
		d.others = []vURL{ep(15), vEmpty(), ep(16)}
	}
	if g.p(15) {
		// endpoints on another (safe) origin are legitimate
		d.token = vAt("https", false, g.farHost(), 12, 0)
	}
	fl := "k"
	for _, c := range "cipb" {
		if g.p(45) {
			fl += string(c)
		}
	}
	d.flags = fl
	// issuer spelling: same, ± one trailing slash
	if g.p(15) {
		if issuer.kind == 'a' && issuer.slashes > 0 && g.p(50) {
			d.issuer.slashes--
		} else if issuer.kind == 'a' {
			d.issuer.slashes++
		}
	}
	if g.p(pValid) {
		return d
	}
	// one hostile change
	switch g.rng.Intn(12) {
	case 0:
		d.issuer = vAt("https", false, g.farHost(), 0, 0) // foreign issuer
	case 1:
		if issuer.kind == 'a' {
			d.issuer = issuer
			d.issuer.seg = 30 + g.rng.Intn(3) // same origin, other path: a string that EXTENDS the expected one when it had no path
		}
	case 2:
		if issuer.kind == 'a' {
			d.issuer = issuer
			d.issuer.slashes = issuer.slashes + 2
		}
	case 3:
		d.issuer = vEmpty()
	case 4:
		d.flags = strings.ReplaceAll(d.flags, "k", "") // no PKCE
	case 5:
		d.authz = g.unsafeURL()
	case 6:
		d.token = g.unsafeURL()
	case 7:
		d.reg = g.unsafeURL()
	case 8:
		d.intro = g.unsafeURL()
	case 9:
		d.others = []vURL{ep(15), g.unsafeURL()}
	case 10:
		d.token = vEmpty() // REQUIRED endpoint missing
	case 11:
		d.authz = vEmpty()
	}
	return d
}

func (g *vGen) world() *vWorld {
	w := &vWorld{prm: map[string]vResp{}, asm: map[string]vResp{}, reg: map[string]vResp{}, tok: map[string][]string{}, order: map[string][]string{}}
	g.w = w
	w.sty = g.rng.Intn(60)
	w.status = 401
	if g.p(20) || (g.base != nil && g.p(45)) {
		w.status = 403 // later rounds are often step-ups
	}
	// handler configuration
	cfgDraw := g.rng.Intn(10)
	if g.base != nil {
		cfgDraw = -1
		w.cimd, w.pre, w.dcr, w.init, w.nts, w.sf, w.rr = g.base.cimd, g.base.pre, g.base.dcr, g.base.init, g.base.nts, g.base.sf, g.base.rr
	}
	switch cfgDraw {
	case -1:
	case 0, 1, 2:
		w.pre = &vURL{}
	case 3, 4, 5:
		w.dcr = true
	case 6:
		w.cimd = true
	case 7:
		w.cimd, w.dcr = true, true
	case 8:
		w.cimd = true
		w.pre = &vURL{}
	default:
		w.cimd, w.dcr = g.p(50), true
		w.pre = &vURL{}
	}
	if g.base == nil {
		w.init = g.p(30)
		w.nts = g.p(25)
		w.sf = []string{"n", "n", "n", "n", "n", "n", "n", "d", "r", "x"}[g.rng.Intn(10)]
		w.rr = g.p(35)
	}
	// the MCP server URL
	switch {
	case g.p(80):
		w.u = vAt("https", g.p(15), 0, 0, 0)
	case g.p(70):
		w.u = vAt("http", g.p(75), 0, 0, 0)
	case g.p(50):
		w.u = vAt("ftp", g.p(50), 0, 0, 0)
	default:
		w.u = vAt(vScripts[g.rng.Intn(3)], g.p(70), 0, 0, 0)
	}
	if w.u.loop {
		w.u.host = g.rng.Intn(len(vLoopHosts))
	} else {
		w.u.host = g.farHost()
	}
	if g.p(75) {
		w.u.seg = 1 + g.rng.Intn(3)
	}
	if g.p(10) {
		w.u.slashes = 1 + g.rng.Intn(2)
	}
	if g.base != nil && g.p(85) {
		w.u = g.base.u // the same MCP server as in the first round
	}
	// the authorization server the honest documents name: in a later round the same as before, or
	// another one (the resource moved, or somebody answers in its place)
	as := g.safeBase()
	if g.prevAS != nil {
		if g.p(45) {
			as = *g.prevAS
		}
	}
	defer func(a vURL) { g.prevAS = &a }(as)
	// challenges
	n := []int{0, 1, 1, 1, 2, 3}[g.rng.Intn(6)]
	if g.honest && w.status == 403 && n == 0 {
		n = 1
	}
	for i := 0; i < n; i++ {
		c := vChallenge{bearer: g.hp(75, 95), rm: vEmpty(), err: "n"}
		if g.p(55) {
			switch {
			case g.hp(70, 95):
				c.rm = vAt(w.u.scheme, w.u.loop, w.u.host, 40+g.rng.Intn(3), 0)
				if !g.p(85) {
					c.rm = vAt("https", false, g.farHost(), 40, 0)
				}
			case g.p(30):
				c.rm = w.u.derive([]string{"pp", "pr"}[g.rng.Intn(2)]) // coincides with a well-known location
			default:
				c.rm = g.unsafeURL()
			}
		}
		switch {
		case g.p(25) || (w.status == 403 && g.hp(60, 97)):
			c.err = "i"
		case g.p(15):
			c.err = "o"
		}
		w.ch = append(w.ch, c)
	}
	w.hm = g.hp(3, 0)
	g.renderHeader()
	// protected-resource metadata at each candidate
	firstAS := []vURL{}
	for _, c := range g.prmCandidates() {
		var r vResp
		switch {
		case g.hp(45, 80):
			d := &vPrmDoc{resource: c[1], as: []vURL{as}}
			if g.p(15) {
				d.as = append(d.as, vAt("https", false, g.farHost(), 0, 0))
			}
			r = vResp{code: "D", prm: d}
		case g.hp(35, 8):
			d := &vPrmDoc{resource: c[1], as: []vURL{as}}
			switch g.rng.Intn(11) {
			case 0:
				d.resource = vAt("https", false, g.farHost(), 50, 0) // foreign resource
				d.as = []vURL{vAt("https", false, 3, 0, 0)}
			case 1:
				if c[1].tok() == w.u.tok() {
					d.resource = w.u.root()
				} else {
					d.resource = w.u
				}
				d.as = []vURL{vAt("https", false, 3, 0, 0)}
			case 2:
				d.resource = c[1]
				if d.resource.kind == 'a' {
					d.resource.slashes++
				}
			case 3:
				d.resource = vEmpty()
			case 4:
				d.as = nil
			case 5:
				d.as = []vURL{vEmpty()}
			case 6:
				d.as = []vURL{g.unsafeURL()}
			case 7:
				d.as = []vURL{as, g.unsafeURL()}
			case 8:
				d.as = []vURL{g.unsafeURL(), as}
			case 9:
				d.as = []vURL{}
			case 10:
				d.resource = vAt("https", false, g.farHost(), 50, 0)
			}
			r = vResp{code: "D", prm: d}
		default:
			r = vResp{code: g.failCode()}
		}
		g.set("prm", w.prm, c[0], r)
		if r.prm != nil && len(r.prm.as) > 0 {
			firstAS = append(firstAS, r.prm.as[0])
		}
	}
	firstAS = append(firstAS, w.u.root())
	// authorization-server metadata for every server a document names (valid or not) and the fall-back
	var docs []*vAsmDoc
	for _, a := range firstAS {
		if a.kind != 'a' || a.opaque() {
			continue
		}
		cands := asmCands(a)
		hit := g.rng.Intn(len(cands) + 1) // the location that answers with a document (len = none: fall-back)
		if g.hp(25, 70) {
			hit = 0
		}
		for i, m := range cands {
			var r vResp
			switch {
			case i == hit:
				r = vResp{code: "D", asm: g.asmDoc(a, map[bool]int{false: 75, true: 97}[g.honest])}
			case i < hit && g.p(85):
				r = vResp{code: "S4"}
			case g.p(50):
				r = vResp{code: g.failCode()}
			default:
				r = vResp{code: "D", asm: g.asmDoc(a, 60)}
			}
			g.set("asm", w.asm, m, r)
			if r.asm != nil {
				docs = append(docs, r.asm)
			}
		}
		docs = append(docs, &vAsmDoc{issuer: a, authz: a.derive("fa"), token: a.derive("ft"), reg: a.derive("fr"), intro: vEmpty()})
	}
	// registration and token endpoints of every document
	for _, d := range docs {
		if d.reg.kind != 'e' {
			var r vResp
			switch {
			case g.hp(65, 92):
				r = vResp{code: "R", regHasID: true, regMethod: []string{"n", "p", "b", "x", "."}[g.rng.Intn(5)]}
				if g.p(30) {
					r.regURLs = []vURL{vAt("http", true, 0, 60, 0), vAt("https", false, 1, 61, 0)}
				}
			case g.p(30):
				r = vResp{code: "R", regHasID: false, regMethod: "."}
			case g.p(40):
				r = vResp{code: "R", regHasID: true, regMethod: "n", regURLs: []vURL{vAt("http", true, 0, 60, 0), g.unsafeURL()}}
				if g.p(50) {
					r.regURLs = []vURL{g.unsafeURL()}
				}
			default:
				r = vResp{code: []string{"FT", "F5", "F4", "FJ", "F3", "F4J", "FB"}[g.rng.Intn(7)]}
			}
			g.set("reg", w.reg, d.reg, r)
		}
		t := d.token.tok()
		if _, dup := w.tok[t]; !dup && d.token.kind != 'b' {
			fails := []string{"FT", "F4", "F5", "FE", "FN", "FJ"}
			var l []string
			switch {
			case g.hp(60, 90):
				l = []string{"G"}
			case g.p(30):
				l = []string{fails[g.rng.Intn(6)], "G"}
			case g.p(30):
				l = []string{fails[g.rng.Intn(6)], fails[g.rng.Intn(6)]}
			case g.p(30):
				l = []string{"X"}
			case g.p(50):
				l = []string{fails[g.rng.Intn(6)], "X"}
			default:
				l = []string{fails[g.rng.Intn(6)]}
			}
			w.tok[t] = l
			w.order["tok"] = append(w.order["tok"], t)
		}
	}
	// the issuer pre-registered credentials are bound to
	if w.pre != nil && g.base == nil {
		switch {
		case g.hp(35, 20):
			*w.pre = vEmpty()
		case g.hp(60, 90):
			*w.pre = as
			if g.p(25) {
				if w.pre.slashes > 0 {
					w.pre.slashes--
				} else {
					w.pre.slashes++
				}
			}
		case g.p(35):
			*w.pre = w.u.root()
		case g.p(50):
			*w.pre = as
			w.pre.seg = 30 + g.rng.Intn(3) // same origin, other path
		default:
			*w.pre = vAt("https", false, g.farHost(), 0, 0)
		}
	}
	// the fetcher
	w.fIss = vEmpty()
	switch {
	case g.hp(6, 1):
		w.fetch = "E"
	default:
		w.fetch = "R"
		w.fState = "g"
		if g.hp(10, 2) {
			w.fState = []string{"f", "e"}[g.rng.Intn(2)]
		}
		switch {
		case g.hp(70, 95) && len(docs) > 0:
			// what an honest server of the first scripted document would send
			if strings.Contains(docs[0].flags, "i") {
				w.fIss = docs[0].issuer
			}
		case g.p(30):
		case g.p(60) && len(docs) > 0:
			w.fIss = docs[g.rng.Intn(len(docs))].issuer
		case g.p(40):
			w.fIss = as
			w.fIss.slashes++
		case g.p(50):
			w.fIss = vAt("https", false, g.farHost(), 0, 0) // attacker's issuer
		default:
			w.fIss = as
		}
	}
	return w
}

// renderHeader turns the structural challenges into WWW-Authenticate header values.
func (g *vGen) renderHeader() {
	w := g.w
	upper := false
	if w.hm {
		w.hdr = []string{[]string{`Bearer resource_metadata="https://mcp.example/unterminated`, `"Bearer" realm="x"`, `Bearer =x`, `Bearer realm=`, `Bearer realm="a" scope="b"`}[g.rng.Intn(5)]}
		if len(w.ch) > 0 && g.p(50) {
			w.hdr = append([]string{"Basic realm=\"ok\""}, w.hdr...)
		}
		for i := range w.ch {
			w.ch[i].rmHex = hxs(w.ch[i].rm.render(upper))
		}
		return
	}
	var parts []string
	for i := range w.ch {
		c := &w.ch[i]
		s := c.rm.render(upper)
		c.rmHex = hxs(s)
		name := []string{"Basic", "DPoP", "Negotiate"}[g.rng.Intn(3)]
		if c.bearer {
			name = []string{"Bearer", "bearer", "BEARER"}[g.rng.Intn(3)]
		}
		var ps []string
		q := func(v string) string {
			return `"` + strings.NewReplacer(`\`, `\\`, `"`, `\"`).Replace(v) + `"`
		}
		if g.p(40) {
			ps = append(ps, `realm="mcp, main"`)
		}
		if s != "" {
			k := []string{"resource_metadata", "Resource_Metadata"}[g.rng.Intn(2)]
			if g.p(15) && !strings.ContainsAny(s, "\", \\\x7f") {
				ps = append(ps, k+"="+s)
			} else {
				ps = append(ps, k+"="+q(s))
			}
		}
		switch c.err {
		case "i":
			ps = append(ps, []string{`error="insufficient_scope"`, `error=insufficient_scope`}[g.rng.Intn(2)])
		case "o":
			ps = append(ps, `error="invalid_token"`)
		}
		if g.p(40) {
			sc := `scope="mcp:read mcp:write"`
			switch {
			case g.p(35):
				// (an empty value would make the header malformed: `no value for auth param`)
				if set := g.scopeSet(35); len(set) > 0 {
					sc = `scope="` + strings.Join(set, []string{" ", "  ", "\t"}[g.rng.Intn(3)]) + `"`
				}
			case g.p(10):
				sc = `scope=files:write`
			}
			ps = append(ps, sc)
		}
		g.rng.Shuffle(len(ps), func(a, b int) { ps[a], ps[b] = ps[b], ps[a] })
		// duplicate parameters: the LAST one of a name counts (`params[strings.ToLower(key)] = value`). A decoy of the
		// same name (any case) is put somewhere BEFORE the parameter the structure of the case stands for: a foreign /
		// unsafe / script resource_metadata URL (one with a quoted comma), another error code, another scope.
		if g.p(25) {
			for _, d := range [][2]string{
				{"resource_metadata=", []string{`resource_metadata="http://evil.example/decoy"`, `RESOURCE_METADATA="javascript:alert(1)"`,
					`resource_metadata="https://evil.example:8443/decoy, \"x\""`, `Resource_metadata=https://evil.example:8443/decoy`}[g.rng.Intn(4)]},
				{"error=", []string{`error="invalid_token"`, `ERROR=insufficient_scope`, `Error="a, b"`}[g.rng.Intn(3)]},
				{"scope=", []string{`scope="admin offline_access"`, `SCOPE=admin`}[g.rng.Intn(2)]},
			} {
				if !g.p(50) {
					continue
				}
				for i, x := range ps {
					if strings.HasPrefix(strings.ToLower(x), d[0]) {
						j := g.rng.Intn(i + 1)
						ps = append(ps[:j], append([]string{d[1]}, ps[j:]...)...)
						w.dup = append(w.dup, strings.TrimSuffix(d[0], "="))
						break
					}
				}
			}
		}
		if g.p(10) {
			ps = append(ps, `realm2="a \"quoted\", part"`)
		}
		sep := []string{", ", ",", " , "}[g.rng.Intn(3)]
		if len(ps) == 0 {
			parts = append(parts, name)
		} else {
			parts = append(parts, name+" "+strings.Join(ps, sep))
		}
	}
	w.hdr = nil
	cur := ""
	for _, p := range parts {
		if cur == "" {
			cur = p
		} else if g.p(50) {
			cur += ", " + p
		} else {
			w.hdr = append(w.hdr, cur)
			cur = p
		}
	}
	if cur != "" {
		w.hdr = append(w.hdr, cur)
	}
}

// ---------------------------------------------------------------------------------------------
// handler construction (`new` records): NewAuthorizationCodeHandler, isNonRootHTTPSURL,
// inferApplicationType, ClientCredentials.Validate against McpModel/OAuth/NewHandler.lean

var vRedirKinds = []string{"x", "l", "r", "c"}

// redirString renders redirect URI `id`; its kind is fixed by the id (kind = id mod 4), so that equal
// ids are equal strings.
func redirString(id int) string {
	switch vRedirKinds[id%4] {
	case "x":
		return fmt.Sprintf("://bad%d", id)
	case "l":
		return fmt.Sprintf([]string{"http://localhost:%d/cb", "http://127.0.0.1:%d/cb", "https://[::1]:%d/cb"}[(id/4)%3], 7000+id)
	case "r":
		return fmt.Sprintf([]string{"https://app%d.example.com/cb", "http://app%d.example.com/cb"}[(id/4)%2], id)
	}
	return fmt.Sprintf([]string{"com.example.app%d:/cb", "app%d.example/cb"}[(id/4)%2], id)
}

// redirKindOf classifies a concrete string the way the property's reading does (net/url + IsLoopback).
func redirKindOf(s string) string {
	u, err := url.Parse(s)
	if err != nil {
		return "x"
	}
	if u.Scheme == "http" || u.Scheme == "https" {
		if util.IsLoopback(u.Hostname()) {
			return "l"
		}
		return "r"
	}
	return "c"
}

func appTypeString(t string) string {
	switch {
	case t == "u":
		return ""
	case t == "n":
		return "native"
	case t == "w":
		return "web"
	}
	return "service-" + t[1:]
}

func appTypeTok(s string) string {
	switch {
	case s == "":
		return "u"
	case s == "native":
		return "n"
	case s == "web":
		return "w"
	case strings.HasPrefix(s, "service-"):
		return "o" + s[len("service-"):]
	}
	return "?" + hxs(s)
}

func newRun(op string) (obs string) {
	defer func() {
		if p := recover(); p != nil {
			obs = "panic"
		}
	}()
	kv := map[string]string{}
	for _, t := range strings.Fields(op)[1:] {
		k, v, _ := strings.Cut(t, "=")
		kv[k] = v
	}
	if kv["nil"] == "1" {
		_, err := NewAuthorizationCodeHandler(nil)
		return classifyNewErr(err)
	}
	cfg := &AuthorizationCodeHandlerConfig{}
	if kv["fetcher"] == "1" {
		cfg.AuthorizationCodeFetcher = func(context.Context, *AuthorizationArgs) (*AuthorizationResult, error) { return nil, vFetchErr }
	}
	if c := kv["cimd"]; c != "-" {
		if len(c) != 3 {
			return "bad-op"
		}
		u := map[string]string{"111": "https://client.example/cimd.json", "110": "https://client.example", "101": "http://client.example/cimd.json",
			"100": "ftp://client.example", "011": "://bad/https", "010": "://bad", "001": "://bad/x", "000": "://"}[c]
		// the string must have the class the token claims
		pu, err := url.Parse(u)
		if (err == nil) != (c[0] == '1') || (err == nil && ((pu.Scheme == "https") != (c[1] == '1') || (pu.Path != "") != (c[2] == '1'))) {
			return "pool-wrong:" + hxs(u)
		}
		cfg.ClientIDMetadataDocumentConfig = &ClientIDMetadataDocumentConfig{URL: u}
	}
	if p := kv["pre"]; p != "-" {
		if len(p) != 2 {
			return "bad-op"
		}
		cc := &oauthex.ClientCredentials{ClientID: vPreID}
		if p[0] == '1' {
			cc.ClientID = ""
		}
		switch p[1] {
		case '0':
			cc.ClientSecretAuth = &oauthex.ClientSecretAuth{ClientSecret: vPreSecret}
		case '1':
			cc.ClientSecretAuth = &oauthex.ClientSecretAuth{}
		}
		cfg.PreregisteredClient = cc
	}
	var meta *oauthex.ClientRegistrationMetadata
	if d := kv["dcr"]; d != "-" {
		f := strings.Split(d, ":")
		if len(f) != 3 {
			return "bad-op"
		}
		dc := &DynamicClientRegistrationConfig{}
		if f[0] != "1" {
			meta = &oauthex.ClientRegistrationMetadata{ClientName: "verif", ApplicationType: appTypeString(f[1])}
			if f[2] != "." {
				for _, r := range strings.Split(f[2], ",") {
					ids, kind, _ := strings.Cut(r, ".")
					id, err := strconv.Atoi(ids)
					if err != nil || redirKindOf(redirString(id)) != kind {
						return "pool-wrong:" + hxs(r)
					}
					meta.RedirectURIs = append(meta.RedirectURIs, redirString(id))
				}
			}
			dc.Metadata = meta
		}
		cfg.DynamicClientRegistrationConfig = dc
	}
	if rd := kv["rd"]; rd != "-" {
		id, err := strconv.Atoi(rd)
		if err != nil {
			return "bad-op"
		}
		cfg.RedirectURL = redirString(id)
	}
	h, err := NewAuthorizationCodeHandler(cfg)
	if err != nil {
		return classifyNewErr(err)
	}
	rdTok := "?" + hxs(h.config.RedirectURL)
	for id := 0; id < 48; id++ {
		if redirString(id) == h.config.RedirectURL {
			rdTok = strconv.Itoa(id)
			break
		}
	}
	at := "-"
	if meta != nil {
		at = appTypeTok(meta.ApplicationType)
	}
	return "ok rd=" + rdTok + " at=" + at
}

func classifyNewErr(err error) string {
	if err == nil {
		return "ok-nil-config"
	}
	s := err.Error()
	for _, c := range [][2]string{
		{"config must be provided", "nil-config"}, {"at least one client registration configuration", "no-registration"},
		{"AuthorizationCodeFetcher is required", "no-fetcher"}, {"client ID metadata document URL must be", "cimd-url"},
		{"invalid PreregisteredClient configuration", "pre-invalid"}, {"requires non-nil Metadata", "dcr-no-metadata"},
		{"Metadata.RedirectURIs is required", "dcr-no-redirects"}, {"is not in the list of allowed redirect URIs", "redirect-not-allowed"},
		{"conflicts with the application type inferred", "app-type-conflict"}, {"RedirectURL is required", "no-redirect"}} {
		if strings.Contains(s, c[0]) {
			return "err=" + c[1]
		}
	}
	return "err=other:" + hxs(s)
}

// genNew draws a configuration: mostly usable ones with one defect, some with several.
func genNew(rng *rand.Rand) string {
	p := func(pct int) bool { return rng.Intn(100) < pct }
	nilc, cimd, pre, dcr, fetcher, rd := "0", "-", "-", "-", "1", "-"
	if p(2) {
		nilc = "1"
	}
	if p(40) {
		cimd = "111"
		if p(35) {
			cimd = []string{"110", "101", "100", "011", "010", "001", "000"}[rng.Intn(7)]
		}
	}
	if p(40) {
		pre = "00"
		if p(35) {
			pre = []string{"0n", "01", "10", "1n", "11"}[rng.Intn(5)]
		}
	}
	if p(55) {
		n := rng.Intn(5)
		if p(10) {
			n = 0
		}
		// mostly one family of redirect URIs (so that a type can be inferred), sometimes mixed / unparsable
		fam := []int{1, 2, 3}[rng.Intn(3)]
		var rs []string
		var ids []int
		for i := 0; i < n; i++ {
			k := fam
			if p(15) {
				k = rng.Intn(4)
			} else if fam != 2 && p(30) {
				k = []int{1, 3}[rng.Intn(2)]
			}
			id := k + 4*rng.Intn(6)
			ids = append(ids, id)
			rs = append(rs, fmt.Sprintf("%d.%s", id, vRedirKinds[id%4]))
		}
		at := "u"
		if p(50) {
			at = []string{"n", "w", "n", "w", "o1"}[rng.Intn(5)]
		}
		l := "."
		if len(rs) > 0 {
			l = strings.Join(rs, ",")
		}
		dcr = bit(p(6)) + ":" + at + ":" + l
		if len(ids) > 0 && p(45) {
			rd = strconv.Itoa(ids[rng.Intn(len(ids))])
		} else if p(25) {
			rd = strconv.Itoa(rng.Intn(24))
		}
	} else if p(85) {
		rd = strconv.Itoa(rng.Intn(24))
	}
	if p(7) {
		fetcher = "0"
	}
	return fmt.Sprintf("new nil=%s cimd=%s pre=%s dcr=%s fetcher=%s rd=%s", nilc, cimd, pre, dcr, fetcher, rd)
}

// ---------------------------------------------------------------------------------------------
// the flow test

func flowTags(w *vWorld, obs string) []string {
	tags := []string{}
	f := strings.Fields(obs)
	for _, t := range f {
		if strings.HasPrefix(t, "out=") {
			tags = append(tags, t)
		}
		if strings.HasPrefix(t, "log=") {
			n := 0
			if t != "log=." {
				n = strings.Count(t, ",") + 1
			}
			tags = append(tags, fmt.Sprintf("steps=%d", n))
			if strings.Contains(t, "~fa") || strings.Contains(t, "~ft") {
				tags = append(tags, "fallback-endpoints")
			}
			if strings.Count(t, "T:") == 2 {
				tags = append(tags, "style-probe")
			}
		}
	}
	mode := ""
	if w.cimd {
		mode += "c"
	}
	if w.pre != nil {
		mode += "p"
	}
	if w.dcr {
		mode += "d"
	}
	tags = append(tags, "mode="+mode, fmt.Sprintf("st=%d", w.status))
	if strings.Contains(obs, "inst=1") {
		tags = append(tags, "installed")
	}
	for _, d := range w.dup {
		tags = append(tags, "duplicate-param:"+d)
	}
	if w.hm {
		tags = append(tags, "malformed-header")
	}
	if w.fetch == "R" && strings.HasPrefix(w.fState, "s") {
		switch k, _ := strconv.Atoi(w.fState[1:]); {
		case k == w.round:
			tags = append(tags, "own-state-by-number")
		case k < w.round:
			tags = append(tags, "state-of-earlier-attempt")
		default:
			tags = append(tags, "state-of-later-attempt")
		}
		if strings.Contains(obs, "T:") {
			tags = append(tags, "exchanged-on-numbered-state")
		}
	} else if w.fetch == "R" && w.fState != "g" {
		tags = append(tags, "forged-state")
	}
	if w.init {
		tags = append(tags, "initial-ts")
	}
	if _, sc, ok := strings.Cut(obs, " sc="); ok {
		tags = append(tags, "scope-filter="+w.sf)
		switch {
		case sc == ".":
			tags = append(tags, "scopes-none")
		case strings.Contains(sc, "offline_access"):
			tags = append(tags, "scopes-offline-access")
		}
		if strings.Contains(sc, "extra:scope") {
			tags = append(tags, "scopes-added-by-filter")
		}
		if w.afterOK {
			tags = append(tags, "scopes-after-a-grant")
		}
		if !w.tsAbsent && strings.Contains(obs, "out=ok") {
			tags = append(tags, "granted-scopes-from-token-response")
		}
	}
	if w.nts {
		tags = append(tags, "custom-token-source")
		if w.ntFail && strings.Contains(obs, "T:") {
			tags = append(tags, "constructor-error-after-exchange")
		}
	}
	switch {
	case w.round == 1:
		tags = append(tags, "round=2")
	case w.round > 1:
		tags = append(tags, "round=3+")
	}
	if w.asChanged {
		tags = append(tags, "as-changed")
	}
	if w.afterOK {
		tags = append(tags, "after-install")
		if strings.Contains(obs, "inst=1") {
			tags = append(tags, "reinstalled")
		}
		if strings.Contains(obs, "out=pre-iss") {
			tags = append(tags, "pre-iss-after-install")
		}
	}
	return tags
}

func readOpsFile(p string) ([]string, error) {
	f, err := os.Open(p)
	if err != nil {
		return nil, err
	}
	defer f.Close()
	var out []string
	sc := bufio.NewScanner(f)
	sc.Buffer(make([]byte, 1<<20), 1<<24)
	for sc.Scan() {
		l := strings.TrimSpace(sc.Text())
		if l == "" || strings.HasPrefix(l, "#") {
			continue
		}
		out = append(out, l)
	}
	return out, sc.Err()
}

func runOps(out *verifOut, cs string, ops []string, tag string) {
	out.line(cs, "reset", "ok", "reset")
	var hs *vHandler // the handler of the case: created by `auth`, used again by `again` / `begin` / `end`
	defer func() { hs.abandon() }()
	book := func(w *vWorld, obs string) {
		if as := contactedAS(obs); as != "" {
			w.asChanged = hs.lastAS != "" && hs.lastAS != as
			hs.lastAS = as
		}
	}
	for _, op := range ops {
		switch {
		case op == "reset":
		case strings.HasPrefix(op, "auth ") || strings.HasPrefix(op, "again ") || strings.HasPrefix(op, "begin "):
			w, err := decodeWorld(op)
			if err != nil {
				out.line(cs, op, "bad-op", tag)
				continue
			}
			var obs string
			if !w.again {
				hs.abandon()
				hs, obs = newHandler(w)
			} else if hs == nil {
				obs = "no-handler"
			}
			if obs != "" {
				out.line(cs, op, obs, append(flowTags(w, obs), tag)...)
				continue
			}
			w.afterOK = len(hs.installed) > 0
			if w.begin {
				_, obs = hs.begin(w)
				out.line(cs, op, obs, tag, "begin", "begin-"+obs)
				continue
			}
			obs = hs.round(w)
			book(w, obs)
			out.line(cs, op, obs, append(flowTags(w, obs), tag)...)
		case strings.HasPrefix(op, "answer "):
			k, err := strconv.Atoi(strings.TrimSpace(op[7:]))
			if err != nil || hs == nil {
				out.line(cs, op, "bad-op", tag)
				continue
			}
			obs := hs.answer(k)
			out.line(cs, op, obs, tag, "answer", "answer-"+obs)
		case strings.HasPrefix(op, "ctor "):
			k, err := strconv.Atoi(strings.TrimSpace(op[5:]))
			if err != nil || hs == nil {
				out.line(cs, op, "bad-op", tag)
				continue
			}
			obs := hs.ctor(k)
			out.line(cs, op, obs, tag, "ctor", "ctor-"+obs)
		case strings.HasPrefix(op, "end "):
			k, err := strconv.Atoi(strings.TrimSpace(op[4:]))
			if err != nil || hs == nil {
				out.line(cs, op, "bad-op", tag)
				continue
			}
			inFlight, heldOthers, ctorOthers := 0, 0, 0
			for _, x := range hs.att {
				if !x.ended && (x.isParked || x.held || x.inCtor) {
					inFlight++
					if x.held && x.k != k {
						heldOthers++
					}
					if x.inCtor && x.k != k {
						ctorOthers++
					}
				}
			}
			selfCtor := k >= 0 && k < len(hs.att) && hs.att[k].inCtor
			a, obs := hs.end(k)
			if a == nil {
				out.line(cs, op, obs, tag)
				continue
			}
			book(a.w, obs)
			tags := append(flowTags(a.w, obs), tag, "end")
			if selfCtor && ctorOthers > 0 && strings.Contains(obs, "inst=1") {
				tags = append(tags, "installed-while-another-attempt-is-about-to-install")
			}
			if selfCtor && strings.Contains(obs, "inst=1") && len(hs.installed) > 1 {
				tags = append(tags, "racing-finishes-both-installed")
			}
			if heldOthers > 0 && strings.Contains(obs, "inst=1") {
				tags = append(tags, "installed-while-a-token-request-of-another-attempt-is-under-way")
			}
			if a.held && strings.Contains(obs, "inst=1") {
				tags = append(tags, "installed-after-being-held-at-the-token-endpoint")
			}
			if (a.isParked || a.held || a.inCtor) && inFlight > 1 {
				tags = append(tags, fmt.Sprintf("in-flight=%d", inFlight))
				if strings.Contains(obs, "inst=1") {
					tags = append(tags, "installed-while-others-in-flight")
				}
			}
			out.line(cs, op, obs, tags...)
		case strings.HasPrefix(op, "new "):
			obs := newRun(op)
			out.line(cs, op, obs, tag, "new", "new:"+strings.Fields(obs+" .")[0])
		case strings.HasPrefix(op, "www ") || op == "www":
			out.line(cs, op, wwwRun(strings.Fields(op)[1:]), tag, "www")
		case strings.HasPrefix(op, "wwwfuzz "):
			out.line(cs, op, wwwFuzz(strings.Fields(op)[1]), tag, "wwwfuzz")
		default:
			out.line(cs, op, "bad-op", tag)
		}
	}
}

func runCorpusAndReplay(out *verifOut, prefixes ...string) (replayed bool) {
	if rp := os.Getenv("VERIF_REPLAY"); rp != "" {
		ops, err := readOpsFile(rp)
		if err != nil {
			out.line("replay", "reset", "cannot-read-replay", "reset")
			return true
		}
		runOps(out, "replay", ops, "replay")
		return true
	}
	if dir := os.Getenv("VERIF_CORPUS"); dir != "" {
		files, _ := filepath.Glob(filepath.Join(dir, "*.ops"))
		sort.Strings(files)
		for i, f := range files {
			ops, err := readOpsFile(f)
			if err != nil {
				continue
			}
			keep := ops[:0]
			for _, op := range ops {
				for _, prefix := range prefixes {
					if op == "reset" || strings.HasPrefix(op, prefix) {
						keep = append(keep, op)
						break
					}
				}
			}
			if len(keep) > 1 || (len(keep) == 1 && keep[0] != "reset") {
				runOps(out, fmt.Sprintf("corpus%d", i), keep, "corpus")
			}
		}
	}
	return false
}

func TestVerifOAuthFlow(t *testing.T) {
	out := verifOpen(t)
	defer out.close()
	// the host pools must have the loopback class the tokens claim
	for _, h := range vLoopHosts {
		if !util.IsLoopback(h) {
			out.line("pool", "reset", "loopback-pool-wrong:"+hxs(h), "reset")
		}
	}
	for _, h := range vFarHosts {
		pu, err := url.Parse("https://" + h + "/x")
		if err != nil || util.IsLoopback(pu.Host) {
			out.line("pool", "reset", "far-pool-wrong:"+hxs(h), "reset")
		}
	}
	for _, s := range vBadStrs {
		if _, err := url.Parse(s); err == nil {
			out.line("pool", "reset", "bad-pool-parses:"+hxs(s), "reset")
		}
	}
	if runCorpusAndReplay(out, "auth ", "again ", "begin ", "end ", "answer ", "ctor ", "new ") {
		return
	}
	// handler construction: which configurations become a handler, with which redirect URL / application type
	nrng := verifRng(151)
	for i, nn := 0, verifN(1500, 20000); i < nn; i++ {
		runOps(out, fmt.Sprintf("n%d", i), []string{genNew(nrng)}, "gen")
	}
	n := verifN(10000, 60000)
	rng := verifRng(15)
	for i := 0; i < n; i++ {
		// a history: 1-4 Authorize rounds on ONE handler, each against its own network (the
		// authorization server named, every document and the fetcher's answer may change in between)
		g := &vGen{rng: rng}
		rounds := []int{1, 1, 1, 1, 1, 1, 1, 1, 1, 1, 1, 2, 2, 2, 2, 2, 2, 3, 3, 4}[rng.Intn(20)]
		// attempts IN FLIGHT TOGETHER (1 history in 6): after 0-1 sequential rounds, 2-3 further Authorize calls are
		// started (`begin`) before any of them is finished, then finished (`end`) in a random order, possibly with one
		// more sequential round in between; the fetcher of such an attempt is answered with its own state, with the
		// state generated for ANOTHER attempt of the handler (in flight or finished: `s<k>`), or a forged / empty one.
		conc := 0
		if rng.Intn(6) == 0 {
			conc = 2 + rng.Intn(2)
			rounds = 1 + rng.Intn(2) + conc
		}
		var ops []string
		var open []int
		bad := false
		flush := func() {
			rng.Shuffle(len(open), func(a, b int) { open[a], open[b] = open[b], open[a] })
			// the fetcher of some of them returns first: their token request is under way (held) while the others finish
			for _, k := range open {
				if rng.Intn(100) < 35 {
					ops = append(ops, fmt.Sprintf("answer %d", k))
				}
			}
			// with NewTokenSource configured: some are taken up to the LAST statement (held inside the constructor, the
			// code exchanged, `h.tokenSource = ts` next) — two or three of them race for the installation
			if g.base != nil && g.base.nts {
				for _, k := range open {
					if rng.Intn(100) < 60 {
						ops = append(ops, fmt.Sprintf("ctor %d", k))
					}
				}
			}
			rng.Shuffle(len(open), func(a, b int) { open[a], open[b] = open[b], open[a] })
			for _, k := range open {
				ops = append(ops, fmt.Sprintf("end %d", k))
			}
			open = nil
		}
		for k := 0; k < rounds && !bad; k++ {
			g.honest = (rounds > 1 && g.p(map[bool]int{true: 65, false: 50}[k == 0])) || (conc > 0 && g.p(60))
			w := g.world()
			w.again = k > 0
			w.ntFail = w.nts && g.hp(30, 12)
			w.ps, w.as, w.ts, w.tsAbsent = []string{"mcp:read"}, nil, nil, true
			if g.p(40) {
				w.ps = g.scopeSet(35)
			}
			if g.p(60) {
				w.as = g.scopeSet(40)
			}
			if g.p(40) {
				w.ts, w.tsAbsent = g.scopeSet(40), false
			}
			w.begin = conc > 0 && k >= rounds-conc
			if k == 0 {
				g.base = w
			}
			if w.fetch == "R" && k > 0 {
				switch {
				case w.begin && g.p(45):
					w.fState = fmt.Sprintf("s%d", rounds-conc+rng.Intn(conc)) // one of the attempts in flight together (may be this one)
				case w.begin && g.p(10), !w.begin && g.p(4):
					w.fState = fmt.Sprintf("s%d", rng.Intn(rounds)) // any attempt of the history: earlier, this, later
				}
			}
			op := w.encode()
			// always run what a replay would run
			if _, err := decodeWorld(op); err != nil {
				out.line(fmt.Sprintf("f%d", i), "reset", "encode-decode:"+hxs(err.Error()), "reset")
				bad = true
			}
			ops = append(ops, op)
			if w.begin {
				open = append(open, k)
				if len(open) >= 2 && g.p(15) {
					// finish one of them while the others stay in flight, before the next one starts
					j := rng.Intn(len(open))
					ops = append(ops, fmt.Sprintf("end %d", open[j]))
					open = append(open[:j], open[j+1:]...)
				}
			}
		}
		flush()
		if !bad {
			runOps(out, fmt.Sprintf("f%d", i), ops, "gen")
		}
	}
}

// ---------------------------------------------------------------------------------------------
// ParseWWWAuthenticate against the model's parser

func wwwRun(hexes []string) (obs string) {
	defer func() {
		if p := recover(); p != nil {
			obs = "panic"
		}
	}()
	var hs []string
	for _, h := range hexes {
		b, err := hex.DecodeString(h)
		if err != nil {
			return "bad-op"
		}
		hs = append(hs, string(b))
	}
	cs, err := oauthex.ParseWWWAuthenticate(hs)
	if err != nil {
		return "err"
	}
	parts := []string{"ok"}
	for _, c := range cs {
		keys := make([]string, 0, len(c.Params))
		for k := range c.Params {
			keys = append(keys, k)
		}
		sort.Strings(keys)
		var kv []string
		for _, k := range keys {
			kv = append(kv, hxs(k)+"="+hxs(c.Params[k]))
		}
		parts = append(parts, hxs(c.Scheme)+":"+strings.Join(kv, ","))
	}
	return strings.Join(parts, " ")
}

func wwwFuzz(h string) (obs string) {
	defer func() {
		if p := recover(); p != nil {
			obs = "panic"
		}
	}()
	b, err := hex.DecodeString(h)
	if err != nil {
		return "bad-op"
	}
	oauthex.ParseWWWAuthenticate([]string{string(b)})
	oauthex.ParseWWWAuthenticate([]string{string(b), string(b)})
	return "nopanic"
}

// alphabet of the mutated stream: every character class the parser distinguishes, ASCII letters in
// both cases, and a few non-ASCII characters without case mapping (two of them Unicode spaces).
var vAlphabet = []rune{'"', '"', '\\', ',', ',', '=', '=', ' ', ' ', '\t', 'a', 'B', 'e', 'R', 'x', '1', '/', ':', '-', '_', '.', '~', '+', '\u00a0', '\u3000', '\u00e9', '\u20ac', ';', '*', '%'}

func genChallengeString(rng *rand.Rand) string {
	schemes := []string{"Bearer", "bearer", "BASIC", "DPoP", "Negotiate", "x"}
	keys := []string{"realm", "resource_metadata", "Error", "scope", "error_description", "a", "k1"}
	vals := []string{"mcp", "https://mcp.example/.well-known/oauth-protected-resource", "insufficient_scope", "a b c", "x, y", `q"uote`, `back\slash`, "\u00e9\u20ac", "v=1", "t68=="}
	n := 1 + rng.Intn(3)
	var cs []string
	for i := 0; i < n; i++ {
		s := schemes[rng.Intn(len(schemes))]
		np := rng.Intn(5)
		var ps []string
		for j := 0; j < np; j++ {
			k, v := keys[rng.Intn(len(keys))], vals[rng.Intn(len(vals))]
			if j > 0 && rng.Intn(4) == 0 {
				// a duplicate of an earlier parameter of this challenge, in another case: the last one counts
				prev, _, _ := strings.Cut(ps[rng.Intn(len(ps))], "=")
				prev = strings.TrimSpace(prev)
				k = []string{strings.ToUpper(prev), strings.ToLower(prev), prev}[rng.Intn(3)]
			}
			if rng.Intn(4) == 0 && !strings.ContainsAny(v, "\", \\") {
				ps = append(ps, k+"="+v)
			} else {
				ps = append(ps, k+[]string{"=", " = ", "= "}[rng.Intn(3)]+`"`+strings.NewReplacer(`\`, `\\`, `"`, `\"`).Replace(v)+`"`)
			}
		}
		if len(ps) > 0 {
			s += " " + strings.Join(ps, []string{", ", ",", " ,  "}[rng.Intn(3)])
		}
		cs = append(cs, s)
	}
	return strings.Join(cs, []string{", ", ",", " , "}[rng.Intn(3)])
}

func mutate(rng *rand.Rand, s string) string {
	r := []rune(s)
	k := 1 + rng.Intn(3)
	for i := 0; i < k; i++ {
		c := vAlphabet[rng.Intn(len(vAlphabet))]
		switch op := rng.Intn(4); {
		case op == 0 && len(r) > 0:
			p := rng.Intn(len(r))
			r = append(r[:p], r[p+1:]...)
		case op == 1 && len(r) > 0:
			r[rng.Intn(len(r))] = c
		case op == 2 && len(r) > 1:
			p := rng.Intn(len(r) - 1)
			r = r[:p+1]
		default:
			p := rng.Intn(len(r) + 1)
			r = append(r[:p], append([]rune{c}, r[p:]...)...)
		}
	}
	return string(r)
}

func TestVerifOAuthChallenge(t *testing.T) {
	out := verifOpen(t)
	defer out.close()
	if runCorpusAndReplay(out, "www") {
		return
	}
	n := verifN(10000, 150000)
	rng := verifRng(16)
	for i := 0; i < n; i++ {
		cs := fmt.Sprintf("w%d", i)
		var ops []string
		switch rng.Intn(10) {
		case 0, 1, 2:
			ops = []string{"www " + hxs(genChallengeString(rng))}
			if rng.Intn(3) == 0 {
				ops[0] += " " + hxs(genChallengeString(rng))
			}
		case 3, 4, 5, 6:
			ops = []string{"www " + hxs(mutate(rng, genChallengeString(rng)))}
		case 7:
			l := rng.Intn(12)
			r := make([]rune, l)
			for j := range r {
				r[j] = vAlphabet[rng.Intn(len(vAlphabet))]
			}
			ops = []string{"www " + hxs(string(r))}
			if l == 0 {
				ops = []string{"www"}
			}
		default:
			b := make([]byte, rng.Intn(40))
			rng.Read(b)
			if rng.Intn(2) == 0 {
				// arbitrary bytes spliced into a valid header
				s := genChallengeString(rng)
				p := rng.Intn(len(s) + 1)
				b = append([]byte(s[:p]), append(b, s[p:]...)...)
			}
			if len(b) == 0 {
				b = []byte{0xff}
			}
			ops = []string{"wwwfuzz " + hx(b)}
		}
		runOps(out, cs, ops, "gen")
	}
}
