// E10 (C14) sessions: ONE value mw := RequireBearerToken(verifier, opts) over its life: applied to
// several handlers (a := mw(h0); b := mw(h1); later again ...), and HISTORIES of requests through the
// wrappers, one after the other and concurrently (goroutines inside a testing/synctest bubble: a
// request enters at a scripted virtual instant and its verifier returns at another, so that requests
// overlap inside the verifier in every order). The verifier is request-bound, as its signature
// allows ("The HTTP request is provided in case verifying the token involves checking it"): it finds
// its script through a marker header of the request it is given, returns a TokenInfo of its own for
// every request, and counts its calls per request.
//
// Records of a session case:
//
//	reset
//	mw   op=<s|n> rm= rs= am= sk= nh=<number of handlers that exist>
//	wrap hd=<j>                      the next wrapper: mw(h_j)   (wrappers are numbered in creation order)
//	sreq w=<wrapper> g=<group> at=<ns> h=<Authorization> + the keys of one middleware (zz_verif_bearer_test.go;
//	     op/rm/rs/am/sk repeat the mw record's and are ignored), now=<ns after the group started at which
//	     the verifier returns>. Consecutive sreq with the same g > 0 run concurrently; at = entry instant.
//	     cx=<ns | -> the request's context is cancelled then; me= pa= dc=: method, path+query, decoy headers
//	     (not read by the driver: the model's request has no such parts, the property quantifies over them).
//
// Observation of a sreq: that of a req with one middleware (info: L0 = the info the verifier built for
// THIS request, R<k> = the one it built for request k of the session) plus hr=<per handler: how often
// it ran for this request>; ran = the count of the handler this wrapper was made for.
package auth

import (
	"context"
	"fmt"
	"io"
	"math/rand"
	"net/http"
	"net/http/httptest"
	"reflect"
	"strconv"
	"strings"
	"sync"
	"time"
)

type bsReq struct {
	w, g int
	at   int64
	cx   *int64 // the client goes away: the request's context is cancelled cx ns after the group started
	me   string // method ("" = GET)
	pa   string // path and query ("" = /mcp)
	dc   bool   // decoys: the token also travels where the middleware must not look (Proxy-Authorization, Cookie, X-Api-Key)
	hdr  []string
	brLayer
}

type bsEv struct {
	wrap bool
	hd   int
	mv   int // wrap: which middleware value is applied (0 = the case's first)
	r    *bsReq
}

// bsVal: the options of one middleware value.
type bsVal struct {
	optsNil bool
	rm      string
	req     []string
	allow   bool
	skew    int64
}

// bsCase: the first middleware value (embedded), further values (more), the handlers, the history.
type bsCase struct {
	bsVal
	more  []bsVal
	nh    int
	evs   []bsEv
	label string
}

func (c *bsCase) val(k int) *bsVal {
	if k == 0 {
		return &c.bsVal
	}
	return &c.more[k-1]
}

func (c *bsCase) mwOp(k int) string {
	v := c.val(k)
	op := "s"
	if v.optsNil {
		op = "n"
	}
	return fmt.Sprintf("mw op=%s rm=%s rs=%s am=%s sk=%d nh=%d", op, brX(v.rm), brXL(v.req), brB(v.allow), v.skew, c.nh)
}

// valueOf: the middleware value behind wrapper w (0 if there is no such wrapper).
func (c *bsCase) valueOf(w int) int {
	n := 0
	for _, e := range c.evs {
		if e.wrap {
			if n == w {
				return e.mv
			}
			n++
		}
	}
	return 0
}

func (c *bsCase) reqOp(r *bsReq) string {
	l := r.brLayer
	v := c.val(c.valueOf(r.w))
	l.optsNil, l.rm, l.req, l.allow, l.skew = v.optsNil, v.rm, v.req, v.allow, v.skew
	h := "-"
	if r.hdr != nil {
		h = brXL(r.hdr)
	}
	cx := "-"
	if r.cx != nil {
		cx = strconv.FormatInt(*r.cx, 10)
	}
	return fmt.Sprintf("sreq w=%d g=%d at=%d cx=%s me=%s pa=%s dc=%s h=%s %s", r.w, r.g, r.at, cx, brX(r.me), brX(r.pa), brB(r.dc), h, l.opToks(""))
}

func bsKV(ln string) map[string]string {
	kv := map[string]string{}
	for _, t := range strings.Fields(ln)[1:] {
		if i := strings.IndexByte(t, '='); i > 0 {
			kv[t[:i]] = t[i+1:]
		}
	}
	return kv
}

// bsParse reads the op lines of a session case back (replay / corpus).
func bsParse(lines []string) (*bsCase, bool) {
	c := &bsCase{label: "corpus"}
	seenMW := false
	for _, ln := range lines {
		f := strings.Fields(ln)
		if len(f) == 0 || f[0] == "reset" {
			continue
		}
		kv := bsKV(ln)
		switch f[0] {
		case "mw":
			var o1, o2 bool
			var v bsVal
			v.optsNil = kv["op"] == "n"
			v.rm, o1 = brUnX(kv["rm"])
			v.req, o2 = brUnXL(kv["rs"])
			v.allow = kv["am"] == "1"
			v.skew, _ = strconv.ParseInt(kv["sk"], 10, 64)
			n, err := strconv.Atoi(kv["nh"])
			if !o1 || !o2 || err != nil || n < 1 || n > 16 || len(c.evs) > 0 {
				return nil, false // all values are made before the history starts
			}
			if !seenMW {
				c.bsVal, c.nh, seenMW = v, n, true
			} else {
				c.more = append(c.more, v)
			}
		case "wrap":
			j, err := strconv.Atoi(kv["hd"])
			mv, _ := strconv.Atoi(kv["mv"])
			if err != nil || j < 0 || j >= c.nh || mv < 0 || mv > len(c.more) {
				return nil, false
			}
			c.evs = append(c.evs, bsEv{wrap: true, hd: j, mv: mv})
		case "sreq":
			bc, ok := brParse("req " + strings.Join(f[1:], " "))
			if !ok {
				return nil, false
			}
			r := &bsReq{hdr: bc.hdr, brLayer: bc.brLayer}
			r.w, _ = strconv.Atoi(kv["w"])
			r.g, _ = strconv.Atoi(kv["g"])
			r.at, _ = strconv.ParseInt(kv["at"], 10, 64)
			if n, err := strconv.ParseInt(kv["cx"], 10, 64); err == nil {
				r.cx = &n
			}
			r.me, _ = brUnX(kv["me"])
			r.pa, _ = brUnX(kv["pa"])
			r.dc = kv["dc"] == "1"
			c.evs = append(c.evs, bsEv{r: r})
		default:
			return nil, false
		}
	}
	return c, seenMW
}

// bsRT is what the harness keeps per request of a session.
type bsRT struct {
	r     *bsReq
	t0    time.Time
	info  *TokenInfo
	snap  TokenInfo
	verr  error
	calls int
	tok   string
	hr    []int
	seen  string
	obs   string
}

const bsMarker = "X-Verif-Req"

// bsRun runs one session inside a synctest bubble and emits its records.
func bsRun(c *bsCase, emit func(op, obs string, tags ...string)) {
	var mu sync.Mutex
	var rts []*bsRT
	for _, e := range c.evs {
		if !e.wrap {
			rts = append(rts, &bsRT{r: e.r, hr: make([]int, c.nh), seen: "-"})
		}
	}
	rtOf := func(req *http.Request) *bsRT {
		q, err := strconv.Atoi(req.Header.Get(bsMarker))
		if err != nil || q < 0 || q >= len(rts) {
			return nil
		}
		return rts[q]
	}
	verifier := func(ctx context.Context, token string, req *http.Request) (*TokenInfo, error) {
		rt := rtOf(req)
		if rt == nil {
			return nil, fmt.Errorf("harness: unmarked request")
		}
		mu.Lock()
		rt.calls++
		rt.tok = token
		mu.Unlock()
		// the verifier works until `now` (virtual) and honours its context meanwhile
		if d := time.Until(rt.t0.Add(time.Duration(rt.r.now))); d > 0 {
			tm := time.NewTimer(d)
			select {
			case <-tm.C:
			case <-ctx.Done():
				tm.Stop()
				return nil, ctx.Err()
			}
		}
		return rt.info, rt.verr
	}
	// the middleware values of the session: each made ONCE, before the history starts
	mws := make([]func(http.Handler) http.Handler, 1+len(c.more))
	for k := range mws {
		v := c.val(k)
		var opts *RequireBearerTokenOptions
		if !v.optsNil {
			opts = &RequireBearerTokenOptions{ResourceMetadataURL: v.rm, Scopes: append([]string(nil), v.req...), AllowMissingExpiration: v.allow, ClockSkew: time.Duration(v.skew)}
		}
		mws[k] = RequireBearerToken(verifier, opts)
	}
	hs := make([]http.Handler, c.nh)
	for j := range hs {
		j := j
		hs[j] = http.HandlerFunc(func(w http.ResponseWriter, r *http.Request) {
			if rt := rtOf(r); rt != nil {
				ti := TokenInfoFromContext(r.Context())
				s := "other"
				switch {
				case ti == nil:
					s = "nil"
				case ti == rt.info:
					s = "changed0"
					if reflect.DeepEqual(*ti, rt.snap) {
						s = "L0"
					}
				default:
					for k, o := range rts {
						if o.info != nil && o.info == ti {
							s = fmt.Sprintf("R%d", k)
						}
					}
				}
				mu.Lock()
				rt.hr[j]++
				rt.seen = s
				mu.Unlock()
			}
			w.WriteHeader(299)
			fmt.Fprint(w, "inner")
		})
	}
	var wrappers []http.Handler
	var made []int // handler each wrapper was made for
	one := func(q int, rt *bsRT) {
		defer func() {
			if p := recover(); p != nil {
				rt.obs = "panic"
			}
		}()
		r := rt.r
		if r.w < 0 || r.w >= len(wrappers) {
			rt.obs = "bad-op"
			return
		}
		ctx, cancel := context.WithCancel(context.Background())
		defer cancel()
		if r.cx != nil {
			tm := time.AfterFunc(time.Until(rt.t0.Add(time.Duration(*r.cx))), cancel)
			defer tm.Stop()
		}
		if d := time.Duration(r.at); d > 0 {
			time.Sleep(d)
		}
		me, pa := r.me, r.pa
		if me == "" {
			me = "GET"
		}
		if pa == "" {
			pa = "/mcp"
		}
		var body io.Reader
		if me == "POST" || me == "PUT" {
			body = strings.NewReader("access_token=tok&x=1")
		}
		req := httptest.NewRequest(me, "http://rs.example"+pa, body).WithContext(ctx)
		if body != nil {
			req.Header.Set("Content-Type", "application/x-www-form-urlencoded")
		}
		if r.dc {
			req.Header.Set("Proxy-Authorization", "Bearer tok")
			req.Header.Set("Cookie", "access_token=tok; Authorization=Bearer tok")
			req.Header.Set("X-Api-Key", "tok")
			req.Header.Set("X-Forwarded-Authorization", "Bearer tok")
		}
		if r.hdr != nil {
			req.Header["Authorization"] = r.hdr
		}
		req.Header.Set(bsMarker, strconv.Itoa(q))
		rec := httptest.NewRecorder()
		wrappers[r.w].ServeHTTP(rec, req)
		res := rec.Result()
		sent := res.Header.Values("WWW-Authenticate")
		left := append([]string(nil), sent...)
		var late []string
		for _, v := range rec.Header().Values("WWW-Authenticate") {
			found := false
			for i, s := range left {
				if s == v {
					left = append(left[:i], left[i+1:]...)
					found = true
					break
				}
			}
			if !found {
				late = append(late, v)
			}
		}
		mu.Lock()
		defer mu.Unlock()
		hr := make([]string, len(rt.hr))
		for j, n := range rt.hr {
			hr[j] = strconv.Itoa(n)
		}
		vt := "-"
		if rt.calls > 0 {
			vt = brX(rt.tok)
		}
		rt.obs = fmt.Sprintf("st=%d ran=%d info=%s vc=%d vt=%s www=%s late=%s body=%s hr=%s", res.StatusCode, rt.hr[made[r.w]],
			rt.seen, rt.calls, vt, brXL(sent), brXL(late), brX(rec.Body.String()), strings.Join(hr, ","))
	}
	emit("reset", "ok", "reset")
	for k := range mws {
		emit(c.mwOp(k), "ok", "sess:mw")
	}
	q := 0
	for i := 0; i < len(c.evs); {
		e := c.evs[i]
		if e.wrap {
			wrappers = append(wrappers, mws[e.mv](hs[e.hd]))
			made = append(made, e.hd)
			emit(fmt.Sprintf("wrap hd=%d mv=%d", e.hd, e.mv), "ok", "sess:wrap")
			i++
			continue
		}
		j := i + 1
		for e.r.g > 0 && j < len(c.evs) && !c.evs[j].wrap && c.evs[j].r.g == e.r.g {
			j++
		}
		// the group [i, j): one instant zero, every request's info is built before any of them starts
		t0 := time.Now()
		for k := i; k < j; k++ {
			rt, l := rts[q+k-i], &c.evs[k].r.brLayer
			rt.t0, rt.verr = t0, l.err()
			if l.vi {
				rt.info = &TokenInfo{Scopes: append([]string(nil), l.granted...), UserID: fmt.Sprintf("user-%d", q+k-i), Extra: map[string]any{"k": "v", "request": q + k - i}}
				if !l.expZero {
					ex := t0.Add(time.Duration(l.exp))
					switch l.mono {
					case 0:
						ex = ex.Round(0)
					case 2:
						ex = ex.Round(0).In(time.FixedZone("east", 5*3600+1800))
					}
					rt.info.Expiration = ex
				}
				rt.snap = brCloneInfo(rt.info)
			}
		}
		var wg sync.WaitGroup
		for k := i; k < j; k++ {
			qq := q + k - i
			wg.Add(1)
			go func() {
				defer wg.Done()
				one(qq, rts[qq])
			}()
		}
		wg.Wait()
		for k := i; k < j; k++ {
			rt := rts[q+k-i]
			emit(c.reqOp(rt.r), rt.obs, bsTags(c, i, j, k, rt)...)
		}
		q += j - i
		i = j
	}
}

func bsTags(c *bsCase, i, j, k int, rt *bsRT) []string {
	tags := []string{"sess"}
	if f := strings.Fields(rt.obs); len(f) > 1 {
		tags = append(tags, f[0])
	}
	if rt.r.cx != nil {
		tags = append(tags, "sess:client-gone")
	}
	if rt.r.me != "" {
		tags = append(tags, "method:"+rt.r.me)
	}
	if rt.r.pa != "" || rt.r.dc {
		tags = append(tags, "sess:other-request-parts")
	}
	if j-i > 1 {
		tags = append(tags, "sess:concurrent")
		// does another request of the group carrying the same Authorization value overlap this one inside the verifier?
		a0, a1 := rt.r.at, max(rt.r.at, rt.r.now)
		for m := i; m < j; m++ {
			o := c.evs[m].r
			if m != k && reflect.DeepEqual(o.hdr, rt.r.hdr) && o.at < a1 && max(o.at, o.now) > a0 {
				tags = append(tags, "sess:same-token-overlap")
				break
			}
		}
	} else {
		tags = append(tags, "sess:sequential")
	}
	nw := 0
	for _, e := range c.evs {
		if e.wrap {
			nw++
		}
	}
	if nw > 1 {
		tags = append(tags, "sess:several-wrappers")
	}
	if c.val(c.valueOf(rt.r.w)).optsNil {
		tags = append(tags, "opts:nil")
	}
	if len(c.more) > 0 {
		tags = append(tags, "sess:several-values")
	}
	if c.label != "" {
		tags = append(tags, "sess:"+c.label)
	}
	return tags
}

// ---- generators ----

var bsMethods = []string{"", "POST", "DELETE", "OPTIONS", "HEAD", "PUT", "PATCH", "TRACE", "PROPFIND"}
var bsPaths = []string{"", "/", "/mcp?access_token=tok", "/.well-known/oauth-protected-resource", "/health", "/mcp/../public", "/mcp?token=tok&authorization=Bearer%20tok"}

func bsGood(granted []string) brLayer {
	return brLayer{ve: "-", ek: "bare", vi: true, granted: granted, exp: int64(time.Hour), mono: 1}
}

// bsEnumerate: small tables of histories for every option record.
func bsEnumerate(emit func(*bsCase)) {
	type o struct {
		isNil bool
		rm    string
		req   []string
		allow bool
		skew  int64
	}
	const rmA = "https://rs.example/.well-known/oauth-protected-resource"
	os := []o{{isNil: true}, {rm: rmA, req: []string{"a", "b"}}, {req: []string{"read", "write", "admin"}, allow: true}, {rm: rmA, skew: int64(30 * time.Second)}, {req: []string{"a"}, skew: -1}}
	bad := brLayer{ve: "10", ek: "wrap", ed: "signature mismatch"}
	hGood, hBad := []string{"Bearer tok"}, []string{"Basic tok"}
	for _, op := range os {
		mk := func(label string, nh int) *bsCase {
			return &bsCase{bsVal: bsVal{optsNil: op.isNil, rm: op.rm, req: op.req, allow: op.allow, skew: op.skew}, nh: nh, label: label}
		}
		rq := func(c *bsCase, w, g int, at int64, hdr []string, l brLayer) {
			c.evs = append(c.evs, bsEv{r: &bsReq{w: w, g: g, at: at, hdr: hdr, brLayer: l}})
		}
		wr := func(c *bsCase, hd int) { c.evs = append(c.evs, bsEv{wrap: true, hd: hd}) }
		full := append([]string{"x"}, op.req...)
		// (1) one middleware value applied to several handlers, requests through every wrapper between the applications
		c := mk("wrappers", 3)
		wr(c, 0)
		rq(c, 0, 0, 0, hGood, bsGood(full))
		wr(c, 1)
		rq(c, 0, 0, 0, hGood, bsGood(full))
		rq(c, 1, 0, 0, hGood, bsGood(full))
		rq(c, 0, 0, 0, hGood, bad)
		wr(c, 2)
		wr(c, 0)
		for w := 0; w < 4; w++ {
			rq(c, w, 0, 0, hGood, bsGood(full))
			rq(c, w, 0, 0, hBad, bsGood(full))
		}
		emit(c)
		// (2) scope histories: every order of fully scoped / partially scoped / unscoped tokens
		var subsets [][]string
		for m := 0; m < 1<<len(op.req) && m < 8; m++ {
			var s []string
			for i, x := range op.req {
				if m>>i&1 == 1 {
					s = append(s, x)
				}
			}
			subsets = append(subsets, s)
		}
		for a := range subsets {
			for b := range subsets {
				c := mk("scope-history", 2)
				wr(c, 0)
				wr(c, 1)
				rq(c, 0, 0, 0, hGood, bsGood(subsets[a]))
				rq(c, 1, 0, 0, hGood, bsGood(subsets[b]))
				rq(c, 0, 0, 0, hGood, bsGood(subsets[a]))
				rq(c, 1, 0, 0, hGood, bsGood(nil))
				rq(c, 0, 0, 0, hGood, bsGood(full))
				emit(c)
			}
		}
		// (3) expiry / error histories: an outcome must not stick
		c = mk("outcome-history", 1)
		wr(c, 0)
		exp := bsGood(full)
		exp.exp = -int64(time.Hour)
		noexp := bsGood(full)
		noexp.expZero = true
		nilinfo := brLayer{ve: "-", ek: "bare"}
		for _, l := range []brLayer{bsGood(full), exp, bsGood(full), bad, bsGood(full), noexp, nilinfo, bsGood(full), {ve: "01", ek: "bare"}, {ve: "00", ek: "bare", ed: "backend down"}, bsGood(full)} {
			rq(c, 0, 0, 0, hGood, l)
		}
		emit(c)
		// (7) several middleware VALUES side by side (a gateway-wide one and route-level ones with other options): what
		// one was made with, and what went through it, must not show in another
		for _, op2 := range os {
			c := mk("values", 2)
			c.more = []bsVal{{optsNil: op2.isNil, rm: op2.rm, req: op2.req, allow: op2.allow, skew: op2.skew}, {rm: "https://other.example/prm", req: []string{"zz"}}}
			for v := 0; v < 3; v++ {
				c.evs = append(c.evs, bsEv{wrap: true, hd: v % 2, mv: v})
			}
			full2 := append([]string{"x"}, op2.req...)
			noexp := bsGood(append(append([]string{"zz"}, full...), full2...))
			noexp.expZero = true
			skewed := bsGood(append(append([]string{"zz"}, full...), full2...))
			skewed.exp = -int64(time.Second)
			for _, l := range []brLayer{bsGood(full), bsGood(full2), bsGood(nil), bsGood([]string{"zz"}), noexp, skewed, bad} {
				for w := 0; w < 3; w++ {
					rq(c, w, 0, 0, hGood, l)
				}
				for w := 0; w < 3; w++ {
					rq(c, 2-w, 7, int64(w), hGood, l)
				}
			}
			emit(c)
		}
		// (6) the rest of the request is not the middleware's business: every method, paths and queries that look
		// special, the token in places other than the Authorization header; with and without a credential
		c = mk("request-shape", 1)
		wr(c, 0)
		for _, me := range bsMethods {
			for _, pa := range bsPaths {
				for _, dc := range []bool{false, true} {
					for _, h := range [][]string{hGood, nil, hBad} {
						c.evs = append(c.evs, bsEv{r: &bsReq{me: me, pa: pa, dc: dc, hdr: h, brLayer: bsGood(full)}})
					}
				}
			}
		}
		emit(c)
		// (5) a client goes away while its request is inside the verifier (which honours its context): that request is
		// answered for the verifier's error; the others in flight with the same Authorization value are not concerned
		{
			s := int64(time.Second)
			for w2 := 0; w2 < 2; w2++ {
				for _, gone := range []int64{2 * s, s / 2, 0} {
					c := mk("client-gone", 2)
					wr(c, 0)
					wr(c, 1)
					a, b, d, e := bsGood(full), bsGood(full), bsGood(full), bsGood(full)
					a.now, b.now, d.now, e.now = 5*s, 6*s, 3*s, 4*s
					c.evs = append(c.evs, bsEv{r: &bsReq{w: 0, g: 1, at: 0, cx: &gone, hdr: hGood, brLayer: a}})
					rq(c, w2, 1, s, hGood, b)
					rq(c, 1-w2, 1, s, hGood, d)
					early := s
					c.evs = append(c.evs, bsEv{r: &bsReq{w: w2, g: 1, at: 3 * s, cx: &early, hdr: hGood, brLayer: e}})
					rq(c, 0, 0, 0, hGood, bsGood(full))
					emit(c)
				}
			}
		}
		// (4) concurrent requests through the one value: the same Authorization value, verdicts and infos of their
		// own, every overlap order (second enters while the first is inside the verifier and leaves before / after
		// it; both enter at the same instant), through the same wrapper and through two wrappers
		s := int64(time.Second)
		outcomes := []brLayer{bsGood(full), bad, bsGood(nil), exp, {ve: "00", ek: "bare", ed: "backend down"}}
		for _, tm := range [][4]int64{{0, 5 * s, 1 * s, 2 * s}, {0, 5 * s, 1 * s, 7 * s}, {0, 3 * s, 0, 3 * s}, {0, 3 * s, 0, 0}, {2 * s, 4 * s, 0, 3 * s}} {
			for ai, a := range outcomes {
				for bi, b := range outcomes {
					if len(op.req) == 0 && (ai == 2 || bi == 2) {
						continue
					}
					for w2 := 0; w2 < 2; w2++ {
						c := mk("overlap", 2)
						wr(c, 0)
						wr(c, 1)
						a.now, b.now = tm[1], tm[3]
						rq(c, 0, 1, tm[0], hGood, a)
						rq(c, w2, 1, tm[2], hGood, b)
						rq(c, w2, 1, tm[2], []string{"Bearer other"}, b)
						// an expiry that falls between the two verifiers' returns
						e := bsGood(full)
						e.now = tm[3]
						e.exp = (tm[1]+max(tm[3], tm[2]))/2 - op.skew
						rq(c, 1-w2, 1, tm[2], hGood, e)
						rq(c, 0, 0, 0, hGood, bsGood(full))
						emit(c)
					}
				}
			}
		}
	}
}

// bsRandom draws a session: options, 1-3 handlers, a history of applications and requests
// (sequential and in concurrent groups). Tokens come from a small set so that equal
// Authorization values meet; scopes are drawn around the required set.
func bsRandom(rng *rand.Rand) *bsCase {
	c := &bsCase{label: "random", nh: 1 + rng.Intn(3)}
	randVal := func() bsVal {
		var v bsVal
		v.optsNil = rng.Intn(8) == 0
		v.rm = []string{"", "https://rs.example/meta", "https://rs.example/m?x=\"1\"&y=\\"}[rng.Intn(3)]
		if rng.Intn(4) > 0 {
			v.req = brPick(rng, 4)
		}
		v.allow = rng.Intn(3) == 0
		if rng.Intn(3) == 0 {
			v.skew = brMag(rng)
		}
		return v
	}
	c.bsVal = randVal()
	if rng.Intn(3) == 0 { // a second (third) middleware value next to the first
		for n := 1 + rng.Intn(2); n > 0; n-- {
			c.more = append(c.more, randVal())
		}
	}
	nw := 0
	wrap := func() {
		c.evs = append(c.evs, bsEv{wrap: true, hd: rng.Intn(c.nh), mv: rng.Intn(1 + len(c.more))})
		nw++
	}
	wrap()
	hdrs := [][]string{{"Bearer tok"}, {"Bearer tok"}, {"bearer  tok"}, {"Bearer t2"}, {"Bearer tok extra"}, {"Basic tok"}, nil, {"BEARER\ttok"}}
	s := int64(time.Second)
	times := []int64{0, 0, 1, s, 2 * s, 3 * s, 5 * s}
	g := 0
	for n := 2 + rng.Intn(9); n > 0; n-- {
		if rng.Intn(4) == 0 {
			wrap()
			continue
		}
		k, gid := 1, 0
		if rng.Intn(2) == 0 {
			k = 2 + rng.Intn(3)
			g++
			gid = g
		}
		for ; k > 0; k-- {
			r := &bsReq{w: rng.Intn(nw), g: gid, hdr: hdrs[rng.Intn(len(hdrs))]}
			l := brLayer{ek: "bare", mono: rng.Intn(3)}
			val := c.val(c.valueOf(r.w))
			skewEff, reqEff := val.skew, val.req
			if val.optsNil {
				skewEff, reqEff = 0, nil
			}
			if rng.Intn(5) == 0 {
				v := brVerifiers[rng.Intn(len(brVerifiers))]
				l.ve, l.ek, l.ed, l.vi = v.ve, v.ek, v.ed, v.vi
			} else {
				l.ve, l.vi = "-", true
			}
			switch rng.Intn(4) {
			case 0, 1: // superset
				l.granted = append(append([]string{}, reqEff...), brPick(rng, 2)...)
				rng.Shuffle(len(l.granted), func(i, j int) { l.granted[i], l.granted[j] = l.granted[j], l.granted[i] })
			case 2: // one required scope removed
				if len(val.req) > 0 {
					drop := val.req[rng.Intn(len(val.req))]
					for _, x := range val.req {
						if x != drop {
							l.granted = append(l.granted, x)
						}
					}
				}
			default:
				l.granted = brPick(rng, 3)
			}
			if gid > 0 {
				r.at = times[rng.Intn(len(times))]
			}
			l.now = r.at + times[rng.Intn(len(times))]
			if rng.Intn(3) == 0 {
				l.now = times[rng.Intn(len(times))]
			}
			eff := max(l.now, r.at)
			switch x := rng.Intn(10); {
			case x == 0:
				l.expZero = true
			case x < 4:
				l.exp = eff - skewEff + int64(rng.Intn(5)) - 2
			case x < 8:
				l.exp = eff + int64(time.Hour)
			default:
				l.exp = eff + brMag(rng)
			}
			if gid > 0 && rng.Intn(6) == 0 {
				if cx := times[rng.Intn(len(times))] + int64(rng.Intn(3)) - 1; cx != l.now {
					r.cx = &cx
				}
			}
			if rng.Intn(3) == 0 {
				r.me, r.pa, r.dc = bsMethods[rng.Intn(len(bsMethods))], bsPaths[rng.Intn(len(bsPaths))], rng.Intn(2) == 0
			}
			r.brLayer = l
			c.evs = append(c.evs, bsEv{r: r})
		}
	}
	return c
}
