// E10 (C14) correspondence harness: requests through the real RequireBearerToken closure with a
// scripted TokenVerifier and a recording inner handler, inside testing/synctest so that time.Now()
// is the bubble's virtual clock and expirations can be placed at exact nanoseconds around it.
package auth

import (
	"context"
	"errors"
	"fmt"
	"io"
	"math/rand"
	"net/http"
	"net/http/httptest"
	"os"
	"reflect"
	"strconv"
	"strings"
	"sync/atomic"
	"testing"
	"testing/synctest"
	"time"
)

// brCase is one request. Its canonical text form (op) is what travels to the Lean driver and what a
// replay file holds; brParse(op) gives the case back.
// brLayer is one RequireBearerToken(verifier, opts): the scripted verifier's answer and the options.
type brLayer struct {
	ve      string // "-" no error; else two bits: errors.Is(ErrInvalidToken), errors.Is(ErrOAuth)
	ek      string // how the error is built: bare | wrap | join | custom
	ed      string // detail text
	vi      bool   // verifier returns non-nil info
	granted []string
	expZero bool
	exp     int64 // ns after the request started
	mono    int   // 0 wall-clock only, 1 with monotonic reading, 2 wall-clock in another zone
	optsNil bool
	rm      string
	req     []string
	allow   bool
	skew    int64
	now     int64 // ns after the request started at which the verifier returns (virtual): time.Now() at the expiry check
}

// brCase is one request through a chain of middlewares: the embedded layer is the outermost one,
// more[k-1] the k-th behind it. up: the incoming request context already carries a TokenInfo.
// wire: the response is observed by a real client of a real net/http server instead of a recorder.
type brCase struct {
	hdr []string // Authorization values; nil = header absent
	brLayer
	more      []brLayer
	up        bool
	upGranted []string
	upExpZero bool
	upExp     int64
	wire      bool
	label     string
}

func (c *brCase) layers() []*brLayer {
	out := []*brLayer{&c.brLayer}
	for i := range c.more {
		out = append(out, &c.more[i])
	}
	return out
}

type brErr struct {
	msg     string
	inv, oa bool
}

func (e *brErr) Error() string { return e.msg }
func (e *brErr) Is(t error) bool {
	return e.inv && t == ErrInvalidToken || e.oa && t == ErrOAuth
}

func (c *brLayer) err() error {
	if c.ve == "-" {
		return nil
	}
	inv, oa := c.ve[0] == '1', c.ve[1] == '1'
	switch c.ek {
	case "custom":
		return &brErr{msg: c.ed, inv: inv, oa: oa}
	case "wrap":
		switch {
		case inv && oa:
			return fmt.Errorf("%s: %w, %w", c.ed, ErrInvalidToken, ErrOAuth)
		case inv:
			return fmt.Errorf("%w: %s", ErrInvalidToken, c.ed)
		case oa:
			return fmt.Errorf("%w: %s", ErrOAuth, c.ed)
		}
		return fmt.Errorf("wrapped: %w", errors.New(c.ed))
	case "join":
		switch {
		case inv && oa:
			return errors.Join(ErrOAuth, ErrInvalidToken) // order of the join must not matter
		case inv:
			return errors.Join(errors.New(c.ed), ErrInvalidToken)
		case oa:
			return errors.Join(errors.New(c.ed), ErrOAuth)
		}
		return errors.Join(errors.New(c.ed), errors.New("second"))
	}
	switch {
	case inv && oa:
		return &brErr{msg: c.ed, inv: true, oa: true}
	case inv:
		return ErrInvalidToken
	case oa:
		return ErrOAuth
	}
	return errors.New(c.ed)
}

func brX(s string) string { return "x" + hxs(s) }
func brXL(l []string) string {
	if len(l) == 0 {
		return "-"
	}
	q := make([]string, len(l))
	for i, s := range l {
		q[i] = brX(s)
	}
	return strings.Join(q, ",")
}
func brB(b bool) string {
	if b {
		return "1"
	}
	return "0"
}

func (c *brLayer) opToks(sfx string) string {
	vm := ""
	if e := c.err(); e != nil {
		vm = e.Error()
	}
	ex := "z"
	if !c.expZero {
		ex = strconv.FormatInt(c.exp, 10)
	}
	op := "s"
	if c.optsNil {
		op = "n"
	}
	f := "ve%[1]s=%[2]s vm%[1]s=%[3]s vi%[1]s=%[4]s gs%[1]s=%[5]s ex%[1]s=%[6]s op%[1]s=%[7]s rm%[1]s=%[8]s rs%[1]s=%[9]s am%[1]s=%[10]s sk%[1]s=%[11]d now%[1]s=%[12]d ek%[1]s=%[13]s ed%[1]s=%[14]s mo%[1]s=%[15]d"
	return fmt.Sprintf(f, sfx, c.ve, brX(vm), brB(c.vi), brXL(c.granted), ex, op, brX(c.rm), brXL(c.req), brB(c.allow), c.skew, c.now, c.ek, brX(c.ed), c.mono)
}

func (c *brCase) op() string {
	h := "-"
	if c.hdr != nil {
		h = brXL(c.hdr)
	}
	op := "req h=" + h + " " + c.brLayer.opToks("")
	if len(c.more) > 0 {
		op += fmt.Sprintf(" nl=%d", 1+len(c.more))
		for k := range c.more {
			op += " " + c.more[k].opToks(fmt.Sprintf(".%d", k+1))
		}
	}
	if c.up {
		ex := "z"
		if !c.upExpZero {
			ex = strconv.FormatInt(c.upExp, 10)
		}
		op += fmt.Sprintf(" up=1 ugs=%s uex=%s", brXL(c.upGranted), ex)
	}
	if c.wire {
		op += " tr=wire"
	}
	return op
}

func brUnX(s string) (string, bool) {
	if !strings.HasPrefix(s, "x") {
		return "", false
	}
	var b []byte
	if len(s) > 1 {
		if _, err := fmt.Sscanf(s[1:], "%x", &b); err != nil {
			return "", false
		}
	}
	return string(b), true
}

func brUnXL(s string) ([]string, bool) {
	if s == "-" {
		return []string{}, true
	}
	var out []string
	for _, p := range strings.Split(s, ",") {
		v, ok := brUnX(p)
		if !ok {
			return nil, false
		}
		out = append(out, v)
	}
	return out, true
}

func brParseLayer(kv map[string]string, sfx string) (brLayer, bool) {
	c := brLayer{ek: "bare"}
	ok := true
	get := func(k string) string {
		v, has := kv[k+sfx]
		if !has {
			ok = false
		}
		return v
	}
	c.ve = get("ve")
	if c.ve != "-" && len(c.ve) != 2 {
		return c, false
	}
	c.vi = get("vi") == "1"
	var o2, o3, o4 bool
	c.granted, o2 = brUnXL(get("gs"))
	if ex := get("ex"); ex == "z" {
		c.expZero = true
	} else if n, err := strconv.ParseInt(ex, 10, 64); err == nil {
		c.exp = n
	} else {
		return c, false
	}
	c.optsNil = get("op") == "n"
	c.rm, o3 = brUnX(get("rm"))
	c.req, o4 = brUnXL(get("rs"))
	c.allow = get("am") == "1"
	c.skew, _ = strconv.ParseInt(get("sk"), 10, 64)
	c.now, _ = strconv.ParseInt(get("now"), 10, 64)
	if v, has := kv["ek"+sfx]; has {
		c.ek = v
	}
	if v, has := kv["ed"+sfx]; has {
		c.ed, _ = brUnX(v)
	} else if v, has := kv["vm"+sfx]; has {
		// a hand-written replay without ek/ed: reproduce the text with a custom error
		c.ed, _ = brUnX(v)
		c.ek = "custom"
	}
	if v, has := kv["mo"+sfx]; has {
		c.mono, _ = strconv.Atoi(v)
	}
	return c, ok && o2 && o3 && o4
}

func brParse(op string) (*brCase, bool) {
	toks := strings.Fields(op)
	if len(toks) == 0 || toks[0] != "req" {
		return nil, false
	}
	kv := map[string]string{}
	for _, t := range toks[1:] {
		if i := strings.IndexByte(t, '='); i > 0 {
			kv[t[:i]] = t[i+1:]
		}
	}
	c := &brCase{}
	ok := true
	if h, has := kv["h"]; !has {
		return nil, false
	} else if h == "-" {
		c.hdr = nil
	} else {
		c.hdr, ok = brUnXL(h)
	}
	var ok0 bool
	c.brLayer, ok0 = brParseLayer(kv, "")
	ok = ok && ok0
	if v, has := kv["nl"]; has {
		n, err := strconv.Atoi(v)
		if err != nil || n < 1 || n > 8 {
			return nil, false
		}
		for k := 1; k < n; k++ {
			l, okk := brParseLayer(kv, fmt.Sprintf(".%d", k))
			ok = ok && okk
			c.more = append(c.more, l)
		}
	}
	if kv["up"] == "1" {
		c.up = true
		var o5 bool
		c.upGranted, o5 = brUnXL(kv["ugs"])
		ok = ok && o5
		if ex := kv["uex"]; ex == "z" {
			c.upExpZero = true
		} else if n, err := strconv.ParseInt(ex, 10, 64); err == nil {
			c.upExp = n
		} else {
			return nil, false
		}
	}
	c.wire = kv["tr"] == "wire"
	return c, ok
}

// brChain builds, for one case, the real middlewares around probes and a final handler.
// Chain: [upstream code storing a TokenInfo] -> RequireBearerToken#0 -> probe0 -> RequireBearerToken#1 -> ... -> final.
// The probe directly behind middleware k IS that middleware's handler: it records what it finds in
// the request context. t0 is the instant the request starts.
type brChain struct {
	h      http.Handler
	infos  []*TokenInfo
	snaps  []TokenInfo
	upInfo *TokenInfo
	upSnap TokenInfo
	seen   []string
	calls  []int
	toks   []string
	ran    int
	gotHdr []string // Authorization values as the outermost handler received them
	hadHdr bool
	live   []string // WWW-Authenticate values in the writer's header map after the chain returned
}

func brCloneInfo(ti *TokenInfo) TokenInfo {
	s := *ti
	s.Scopes = append([]string(nil), ti.Scopes...)
	s.Extra = map[string]any{}
	for k, v := range ti.Extra {
		s.Extra[k] = v
	}
	return s
}

func (ch *brChain) classify(ti *TokenInfo) string {
	if ti == nil {
		return "nil"
	}
	for j, p := range ch.infos {
		if p != nil && ti == p {
			if reflect.DeepEqual(*ti, ch.snaps[j]) {
				return fmt.Sprintf("L%d", j)
			}
			return fmt.Sprintf("changed%d", j)
		}
	}
	if ch.upInfo != nil && ti == ch.upInfo {
		if reflect.DeepEqual(*ti, ch.upSnap) {
			return "up"
		}
		return "changedup"
	}
	return "other"
}

func brBuild(c *brCase, t0 time.Time) *brChain {
	ls := c.layers()
	n := len(ls)
	ch := &brChain{infos: make([]*TokenInfo, n), snaps: make([]TokenInfo, n), seen: make([]string, n), calls: make([]int, n), toks: make([]string, n)}
	mkExp := func(ns int64, mono int) time.Time {
		e := t0.Add(time.Duration(ns))
		switch mono {
		case 0:
			e = e.Round(0)
		case 2:
			e = e.Round(0).In(time.FixedZone("east", 5*3600+1800))
		}
		return e
	}
	for k := range ch.seen {
		ch.seen[k] = "-"
	}
	var h http.Handler = http.HandlerFunc(func(w http.ResponseWriter, r *http.Request) {
		ch.ran++
		ch.seen[n-1] = ch.classify(TokenInfoFromContext(r.Context()))
		w.WriteHeader(299)
		fmt.Fprint(w, "inner")
	})
	for k := n - 1; k >= 0; k-- {
		k, l := k, ls[k]
		if l.vi {
			info := &TokenInfo{Scopes: append([]string(nil), l.granted...), UserID: fmt.Sprintf("user-%d", k), Extra: map[string]any{"k": "v", "layer": k}}
			if !l.expZero {
				info.Expiration = mkExp(l.exp, l.mono)
			}
			ch.infos[k] = info
			ch.snaps[k] = brCloneInfo(info)
		}
		verr := l.err()
		verifier := func(ctx context.Context, token string, req *http.Request) (*TokenInfo, error) {
			ch.calls[k]++
			ch.toks[k] = token
			if d := time.Until(t0.Add(time.Duration(l.now))); l.now > 0 && d > 0 && !c.wire {
				time.Sleep(d) // virtual
			}
			return ch.infos[k], verr
		}
		var opts *RequireBearerTokenOptions
		if !l.optsNil {
			opts = &RequireBearerTokenOptions{ResourceMetadataURL: l.rm, Scopes: l.req, AllowMissingExpiration: l.allow, ClockSkew: time.Duration(l.skew)}
		}
		if k < n-1 {
			next := h
			h = http.HandlerFunc(func(w http.ResponseWriter, r *http.Request) {
				ch.seen[k] = ch.classify(TokenInfoFromContext(r.Context()))
				next.ServeHTTP(w, r)
			})
		}
		h = RequireBearerToken(verifier, opts)(h)
	}
	if c.up {
		ch.upInfo = &TokenInfo{Scopes: append([]string(nil), c.upGranted...), UserID: "upstream", Extra: map[string]any{"k": "up"}}
		if !c.upExpZero {
			ch.upInfo.Expiration = mkExp(c.upExp, 1)
		}
		ch.upSnap = brCloneInfo(ch.upInfo)
	}
	chain := h
	ch.h = http.HandlerFunc(func(w http.ResponseWriter, r *http.Request) {
		ch.gotHdr, ch.hadHdr = r.Header["Authorization"]
		if ch.upInfo != nil {
			r = r.WithContext(context.WithValue(r.Context(), tokenInfoKey{}, ch.upInfo))
		}
		defer func() { ch.live = append([]string(nil), w.Header().Values("WWW-Authenticate")...) }()
		chain.ServeHTTP(w, r)
	})
	return ch
}

// obs renders the observation. sent: the WWW-Authenticate values of the response as a client gets it.
func (ch *brChain) obs(status int, sent []string, body string) string {
	vc := make([]string, len(ch.calls))
	vt := make([]string, len(ch.calls))
	for k := range ch.calls {
		vc[k] = strconv.Itoa(ch.calls[k])
		vt[k] = "-"
		if ch.calls[k] > 0 {
			vt[k] = brX(ch.toks[k])
		}
	}
	// late: values of the live header map that the client never got (multiset difference)
	left := append([]string(nil), sent...)
	var late []string
	for _, v := range ch.live {
		found := false
		for i, s := range left {
			if s == v {
				left = append(left[:i], left[i+1:]...)
				found = true
				break
			}
		}
		if !found {
			late = append(late, v)
		}
	}
	return fmt.Sprintf("st=%d ran=%d info=%s vc=%s vt=%s www=%s late=%s body=%s", status, ch.ran, strings.Join(ch.seen, ","),
		strings.Join(vc, ","), strings.Join(vt, ","), brXL(sent), brXL(late), brX(body))
}

// brRun sends the case through the real middleware(s) into a recorder. Must run inside a synctest
// bubble. The response is read from rec.Result(): the header snapshot taken at WriteHeader, which
// is what a client would get; rec.Header() is the live map and shows headers added too late.
func brRun(c *brCase) (obs string) {
	defer func() {
		if r := recover(); r != nil {
			obs = "panic"
		}
	}()
	ch := brBuild(c, time.Now())
	req := httptest.NewRequest("GET", "http://rs.example/mcp", nil)
	if c.hdr != nil {
		req.Header["Authorization"] = c.hdr
	}
	rec := httptest.NewRecorder()
	ch.h.ServeHTTP(rec, req)
	res := rec.Result()
	return ch.obs(res.StatusCode, res.Header.Values("WWW-Authenticate"), rec.Body.String())
}

// brWire is a real net/http server on loopback plus a client; cases run one at a time.
type brWire struct {
	srv *httptest.Server
	cur atomic.Pointer[brChain]
}

func brNewWire() *brWire {
	w := &brWire{}
	w.srv = httptest.NewServer(http.HandlerFunc(func(rw http.ResponseWriter, r *http.Request) {
		defer func() {
			if rec := recover(); rec != nil {
				rw.Header().Set("X-Verif-Panic", "1")
				rw.WriteHeader(599)
			}
		}()
		w.cur.Load().h.ServeHTTP(rw, r)
	}))
	return w
}

// brWireOK: the case can go over a real connection and a real clock unchanged: header values a
// client may send, no scripted delays, expirations at least a minute away from the boundary.
func brWireOK(c *brCase) bool {
	for _, v := range c.hdr {
		for i := 0; i < len(v); i++ {
			if b := v[i]; b < 0x20 && b != '\t' || b == 0x7f {
				return false
			}
		}
	}
	for _, l := range c.layers() {
		se := l.skew
		if l.optsNil {
			se = 0
		}
		if d := l.exp + se; l.now != 0 || !l.expZero && d > -int64(time.Minute) && d < int64(time.Minute) {
			return false
		}
	}
	return true
}

// run sends the case over the wire. The op is re-derived from the Authorization values the server
// received (net/http trims optional whitespace around field values).
func (w *brWire) run(c *brCase) (op, obs string) {
	ch := brBuild(c, time.Now())
	w.cur.Store(ch)
	req, err := http.NewRequest("GET", w.srv.URL+"/mcp", nil)
	if err != nil {
		return c.op(), "client-error"
	}
	if c.hdr != nil {
		req.Header["Authorization"] = c.hdr
	}
	resp, err := w.srv.Client().Do(req)
	if err != nil {
		return c.op(), "client-error"
	}
	defer resp.Body.Close()
	body, _ := io.ReadAll(resp.Body)
	if resp.Header.Get("X-Verif-Panic") != "" {
		return c.op(), "panic"
	}
	cc := *c
	cc.hdr = nil
	if ch.hadHdr {
		cc.hdr = append([]string{}, ch.gotHdr...)
	}
	return cc.op(), ch.obs(resp.StatusCode, resp.Header.Values("WWW-Authenticate"), string(body))
}

func brTags(c *brCase, obs string) []string {
	tags := []string{}
	f := strings.Fields(obs)
	if len(f) > 2 {
		tags = append(tags, f[0], f[1]) // st=\u2026, ran=\u2026
		if len(c.more) > 0 {
			// how far the request got: number of middlewares whose handler ran
			d := 0
			for _, x := range strings.Split(strings.TrimPrefix(f[2], "info="), ",") {
				if x != "-" {
					d++
				}
			}
			tags = append(tags, fmt.Sprintf("stack:%d/%d", d, 1+len(c.more)))
		}
	}
	if c.label != "" {
		tags = append(tags, "hdr:"+c.label)
	}
	if c.up {
		tags = append(tags, "ctx:prepopulated")
	}
	if c.wire {
		tags = append(tags, "tr:wire")
	}
	for k, l := range c.layers() {
		if k > 0 {
			tags = append(tags, fmt.Sprintf("verr.%d:%s", k, l.ve))
			continue
		}
		tags = append(tags, "verr:"+l.ve)
		if l.optsNil {
			tags = append(tags, "opts:nil")
		}
		if l.vi && l.ve == "-" {
			if l.expZero {
				tags = append(tags, "exp:zero")
			} else {
				switch d := l.exp + l.skew - l.now; {
				case d == 0:
					tags = append(tags, "exp+skew=now")
				case d == -1:
					tags = append(tags, "exp+skew=now-1ns")
				case d == 1:
					tags = append(tags, "exp+skew=now+1ns")
				case d < 0:
					tags = append(tags, "exp:past")
				default:
					tags = append(tags, "exp:future")
				}
			}
		}
	}
	return tags
}

type brHdr struct {
	label string
	vals  []string
	well  bool
}

var brHeaders = []brHdr{
	{"absent", nil, false},
	{"empty", []string{""}, false},
	{"scheme-only", []string{"Bearer"}, false},
	{"plain", []string{"Bearer tok"}, true},
	{"lower", []string{"bearer tok"}, true},
	{"upper", []string{"BEARER tok"}, true},
	{"mixed", []string{"bEaReR tok"}, true},
	{"blanks", []string{"Bearer    tok"}, true},
	{"tabs", []string{"\tBearer\ttok\t"}, true},
	{"three-fields", []string{"Bearer tok extra"}, false},
	{"basic", []string{"Basic tok"}, false},
	{"glued", []string{"Bearertok"}, false},
	{"colon", []string{"Bearer: tok"}, false},
	{"nbsp", []string{"Bearer\u00a0tok"}, true},
	{"ideographic-space", []string{"Bearer\u3000tok"}, true},
	{"zero-width-space", []string{"Bearer\u200btok"}, false},
	{"comma", []string{"Bearer,tok"}, false},
	{"two-values-bearer-first", []string{"Bearer tok", "Basic zzz"}, true},
	{"two-values-basic-first", []string{"Basic zzz", "Bearer tok"}, false},
	{"fullwidth-B", []string{"\uff22earer tok"}, false},
	{"kelvin", []string{"Bearer\u212a tok"}, false},
	{"swapped", []string{"tok Bearer"}, false},
	{"padded", []string{"  Bearer tok  "}, true},
	{"utf8-token", []string{"Bearer t\u00f6k\u20acn"}, true},
}

type brVer struct {
	ve, ek, ed string
	vi         bool
}

var brVerifiers = []brVer{
	{"-", "bare", "", true},
	{"-", "bare", "", false},
	{"10", "bare", "", false},
	{"10", "wrap", "signature mismatch", false},
	{"01", "bare", "", false},
	{"01", "wrap", "invalid_request", false},
	{"11", "join", "", false},
	{"11", "wrap", "both", false},
	{"00", "bare", "backend down", false},
	{"00", "join", "db timeout", false},
	{"10", "custom", "revoked", true}, // error AND info: the error wins
	{"00", "custom", "oops\twith \"quotes\"", true},
}

var brScopeSets = [][2][]string{
	{{}, {}},
	{{}, {"a"}},
	{{"a"}, {"a"}},
	{{"a"}, {}},
	{{"a", "b"}, {"a"}},
	{{"a", "b"}, {"b"}},
	{{"a", "b"}, {"b", "a"}},
	{{"a", "b", "c"}, {"c", "d", "b", "a"}},
	{{"a", "b", "c"}, {"a", "c", "d"}},
	{{"a", "a"}, {"a"}},
	{{"A"}, {"a"}},
	{{"a"}, {"a b"}},
	{{"a b"}, {"a", "b"}},
	{{""}, {}},
	{{"a"}, {"a", "a"}},
	{{"read:x", "write:x"}, {"write:x", "read:x", "admin"}},
}

type brOpt struct {
	isNil bool
	rm    string
	allow bool
	skew  int64
}

func brOptions() []brOpt {
	out := []brOpt{{isNil: true}}
	for _, rm := range []string{"", "https://rs.example/.well-known/oauth-protected-resource"} {
		for _, allow := range []bool{false, true} {
			for _, skew := range []int64{0, 1, -1, int64(30 * time.Second), -int64(30 * time.Second)} {
				out = append(out, brOpt{false, rm, allow, skew})
			}
		}
	}
	return out
}

// brExpiries: zero, the three instants around exp+skew = now, the three around exp = now, far past/future.
func brExpiries(skew, now int64) []*int64 {
	p := func(n int64) *int64 { return &n }
	out := []*int64{nil, p(now - skew - 1), p(now - skew), p(now - skew + 1), p(now + int64(time.Hour)), p(now - int64(time.Hour)),
		p(now + int64(100*365*24*time.Hour)), p(now - int64(100*365*24*time.Hour))}
	if skew != 0 {
		out = append(out, p(now-1), p(now), p(now+1))
	}
	return out
}

func brEnumerate(emit func(*brCase)) {
	opts := brOptions()
	mk := func(h brHdr, v brVer, sc [2][]string, o brOpt, exp *int64, now int64, mono int) {
		c := &brCase{hdr: h.vals, label: h.label, brLayer: brLayer{ve: v.ve, ek: v.ek, ed: v.ed, vi: v.vi, granted: sc[1], req: sc[0],
			optsNil: o.isNil, rm: o.rm, allow: o.allow, skew: o.skew, now: now, mono: mono}}
		if exp == nil {
			c.expZero = true
		} else {
			c.exp = *exp
		}
		emit(c)
	}
	// Stage A: every header shape against a slice of the other dimensions.
	for _, h := range brHeaders {
		for _, v := range brVerifiers {
			for _, si := range []int{2, 4, 7} {
				for _, oi := range []int{0, 1, 12, 20} {
					o := opts[oi]
					for _, e := range brExpiries(o.skew, 0)[:4] {
						mk(h, v, brScopeSets[si], o, e, 0, 1)
					}
				}
			}
		}
	}
	// Stage B: the decision core in full for two well-formed headers.
	for _, hi := range []int{3, 6} {
		h := brHeaders[hi]
		for _, v := range brVerifiers {
			full := v.ve == "-" && v.vi
			for si, sc := range brScopeSets {
				if !full && si != 2 && si != 4 {
					continue
				}
				for _, o := range opts {
					for _, now := range []int64{0, int64(5 * time.Second)} {
						for ei, e := range brExpiries(o.skew, now) {
							if !full && ei > 1 {
								continue
							}
							mk(h, v, sc, o, e, now, (ei+si)%3)
						}
					}
				}
			}
		}
	}
	// Stage C: the middleware as a MIDDLEWARE. Requests whose context already carries a TokenInfo
	// (upstream code, an enclosing RequireBearerToken) and chains of two and three middlewares with
	// different verifiers, scopes and options: every combination of per-middleware outcomes.
	brStacks(func(c *brCase) { emit(c) })
	// Stage D: the same decision table observed by a real HTTP client of a real net/http server.
	brStacks(func(c *brCase) {
		if brWireOK(c) {
			c.wire = true
			emit(c)
		}
	})
	for _, h := range brHeaders {
		for _, v := range brVerifiers {
			for _, si := range []int{2, 4, 7} {
				for _, oi := range []int{0, 1, 12, 20} {
					o := opts[oi]
					for _, e := range brExpiries(o.skew, 0)[4:6] {
						c := &brCase{hdr: h.vals, label: h.label, wire: true, brLayer: brLayer{ve: v.ve, ek: v.ek, ed: v.ed, vi: v.vi,
							granted: brScopeSets[si][1], req: brScopeSets[si][0], optsNil: o.isNil, rm: o.rm, allow: o.allow, skew: o.skew, mono: 1, exp: *e}}
						if brWireOK(c) {
							emit(c)
						}
					}
				}
			}
		}
	}
}

// brProfiles: what one middleware of a chain does with a well-formed credential "tok": admit
// (several shapes) or reject for each cause. Every profile has its own scopes/options so that the
// challenge and the token info of different middlewares are told apart.
func brProfiles() []brLayer {
	const rmA, rmB = "https://rs.example/.well-known/oauth-protected-resource", "https://gw.example/prm"
	h := int64(time.Hour)
	return []brLayer{
		{ve: "-", ek: "bare", vi: true, granted: []string{"a", "b"}, req: []string{"a"}, rm: rmA, exp: h, mono: 1},                  // admit
		{ve: "-", ek: "bare", vi: true, granted: []string{"admin"}, req: []string{"admin"}, rm: rmB, allow: true, expZero: true},   // admit, no expiration
		{ve: "-", ek: "bare", vi: true, granted: nil, optsNil: true, exp: 100 * 365 * 24 * h},                                        // admit, nil options
		{ve: "-", ek: "bare", vi: true, granted: []string{"x"}, req: nil, skew: int64(30 * time.Second), exp: -int64(29 * time.Second), now: 0}, // admit within skew
		{ve: "-", ek: "bare", vi: true, granted: []string{"a"}, req: []string{"a", "b"}, rm: rmA, exp: h},                           // 403
		{ve: "-", ek: "bare", vi: true, granted: []string{"a"}, req: []string{"a"}, rm: rmB, exp: -h},                               // 401 expired
		{ve: "-", ek: "bare", vi: true, granted: []string{"a"}, req: []string{"a"}, expZero: true},                                  // 401 missing expiration
		{ve: "10", ek: "wrap", ed: "signature mismatch", req: []string{"s1", "s2"}},                                                 // 401 invalid token
		{ve: "01", ek: "bare", rm: rmA},                                                                                              // 400
		{ve: "00", ek: "bare", ed: "backend down", rm: rmA, req: []string{"a"}},                                                     // 500
		{ve: "-", ek: "bare", vi: false, rm: rmB},                                                                                    // 500 nil info
	}
}

func brStacks(emit func(*brCase)) {
	ps := brProfiles()
	hdrs := []brHdr{brHeaders[3], brHeaders[6], brHeaders[0], brHeaders[10]}
	for hi, h := range hdrs {
		for up := 0; up < 3; up++ {
			mk := func(ls ...brLayer) {
				c := &brCase{hdr: h.vals, label: h.label, brLayer: ls[0], more: append([]brLayer(nil), ls[1:]...)}
				switch up {
				case 1: // a TokenInfo that would itself be rejected (no scopes, long expired)
					c.up, c.upGranted, c.upExp = true, nil, -int64(time.Hour)
				case 2: // a powerful one
					c.up, c.upGranted, c.upExpZero = true, []string{"a", "b", "admin", "root"}, true
				}
				emit(c)
			}
			for _, a := range ps {
				mk(a)
				if hi >= 2 && up > 0 {
					continue
				}
				for _, b := range ps {
					mk(a, b)
				}
			}
			if hi == 0 {
				for _, a := range ps[:5] {
					for _, b := range ps[:5] {
						for _, d := range ps {
							mk(a, b, d)
						}
					}
				}
			}
		}
	}
	// delays: each verifier of a chain takes time; an inner token can expire while an outer verifier works
	s5 := int64(5 * time.Second)
	for _, d := range []int64{-1, 0, 1} {
		a := brLayer{ve: "-", ek: "bare", vi: true, granted: []string{"a"}, req: []string{"a"}, exp: int64(time.Hour), now: s5, mono: 1}
		b := brLayer{ve: "-", ek: "bare", vi: true, granted: []string{"b"}, req: []string{"b"}, rm: "https://rs.example/prm", exp: 2*s5 + d, now: 2 * s5}
		emit(&brCase{hdr: brHeaders[3].vals, label: "plain", brLayer: a, more: []brLayer{b}})
		b.exp = s5 + d // judged at 2*s5: expired although it was valid when the outer verifier returned
		emit(&brCase{hdr: brHeaders[3].vals, label: "plain", brLayer: a, more: []brLayer{b}})
	}
}

var brPieces = []string{"Bearer", "bearer", "BEARER", "BeArEr", "Basic", "Bearer:", "Bearer,", "tok", "t0k.en-_~+/=", "x", " ", "  ", "\t",
	"\u00a0", "\u2003", "\u3000", "\v", "\f", "\r", "\n", "\u0085", "\u1680", "\u2028", "\u202f", "\u205f", "\u200b", "\ufeff", "\u212a", "\u00e9", ",", ";", "\"", "=", "\u180e"}

var brAlpha = []string{"a", "b", "c", "d", "A", "", "a b", "read:x", "\u00e9", "q\"uo\\te"}

func brPick(rng *rand.Rand, max int) []string {
	var out []string
	for n := rng.Intn(max + 1); n > 0; n-- {
		out = append(out, brAlpha[rng.Intn(len(brAlpha))])
	}
	return out
}

var brMags = []int64{0, 1, 2, 999, int64(time.Millisecond), int64(time.Second), int64(30 * time.Second), int64(time.Hour), int64(24 * 365 * time.Hour), int64(200 * 24 * 365 * time.Hour)}

func brMag(rng *rand.Rand) int64 {
	m := brMags[rng.Intn(len(brMags))]
	if m > 2 && rng.Intn(2) == 0 {
		m += int64(rng.Intn(1000)) - 500
	}
	if rng.Intn(2) == 0 {
		m = -m
	}
	return m
}

// brRandLayer draws one middleware: verifier outcome, scopes, options, expiry. floor is the instant
// (ns after the request started) at which the enclosing middleware's verifier returned. admitBias:
// outer middlewares of a chain are drawn so that they mostly admit, else nothing reaches the inner ones.
func brRandLayer(rng *rand.Rand, floor int64, admitBias bool) brLayer {
	c := brLayer{ek: "bare", mono: rng.Intn(3)}
	if rng.Intn(4) == 0 && !(admitBias && rng.Intn(4) > 0) {
		v := brVerifiers[rng.Intn(len(brVerifiers))]
		c.ve, c.ek, c.ed, c.vi = v.ve, v.ek, v.ed, v.vi
	} else {
		c.ve, c.vi = "-", true
	}
	c.req = brPick(rng, 4)
	kind := rng.Intn(3)
	if admitBias && rng.Intn(3) > 0 {
		kind = 0
	}
	switch kind {
	case 0: // superset, shuffled
		c.granted = append(append([]string{}, c.req...), brPick(rng, 2)...)
		rng.Shuffle(len(c.granted), func(i, j int) { c.granted[i], c.granted[j] = c.granted[j], c.granted[i] })
	case 1: // one required scope removed
		c.granted = append(append([]string{}, c.req...), brPick(rng, 2)...)
		if len(c.req) > 0 {
			drop := c.req[rng.Intn(len(c.req))]
			var g []string
			for _, s := range c.granted {
				if s != drop {
					g = append(g, s)
				}
			}
			c.granted = g
		}
	default:
		c.granted = brPick(rng, 5)
	}
	c.optsNil = rng.Intn(8) == 0
	c.rm = []string{"", "https://rs.example/meta", "https://rs.example/m?x=\"1\"&y=\\", "u\u00e9"}[rng.Intn(4)]
	c.allow = rng.Intn(2) == 0
	if rng.Intn(3) > 0 {
		c.skew = brMag(rng)
	}
	c.now = floor
	if rng.Intn(3) == 0 {
		c.now = floor + brMags[rng.Intn(8)]
	}
	skewEff := c.skew
	if c.optsNil {
		skewEff = 0
	}
	switch r := rng.Intn(10); {
	case r == 0:
		c.expZero = true
	case r < 6:
		c.exp = c.now - skewEff + int64(rng.Intn(5)) - 2
	case r < 8:
		c.exp = c.now + int64(rng.Intn(5)) - 2
	default:
		c.exp = c.now + brMag(rng)
	}
	if admitBias && rng.Intn(3) > 0 && !c.expZero && c.exp+skewEff < c.now {
		c.exp = c.now - skewEff + int64(rng.Intn(3))
	}
	return c
}

func brRandom(rng *rand.Rand) *brCase {
	c := &brCase{label: "random"}
	ws := []string{" ", "  ", "\t", "\u00a0", "\u3000", " \t ", "\u2003", "\n", "\u0085"}
	switch r := rng.Intn(10); {
	case r == 0:
		c.hdr = nil
	case r < 6: // well-formed by construction
		s := ""
		if rng.Intn(3) == 0 {
			s += ws[rng.Intn(len(ws))]
		}
		sch := []byte("bearer")
		for i := range sch {
			if rng.Intn(2) == 0 {
				sch[i] -= 32
			}
		}
		s += string(sch) + ws[rng.Intn(len(ws))] + []string{"tok", "t0k.en-_~+/=", "\u00e9\u212a", "Bearer", "a,b", "\u200b"}[rng.Intn(6)]
		if rng.Intn(3) == 0 {
			s += ws[rng.Intn(len(ws))]
		}
		c.hdr = []string{s}
		if rng.Intn(8) == 0 {
			c.hdr = append(c.hdr, "Basic other")
		}
	default:
		s := ""
		for n := rng.Intn(7); n > 0; n-- {
			s += brPieces[rng.Intn(len(brPieces))]
		}
		c.hdr = []string{s}
	}
	// the chain: one middleware in half of the cases, else two or three
	n := 1
	if rng.Intn(2) == 0 {
		n = 2 + rng.Intn(2)
	}
	c.brLayer = brRandLayer(rng, 0, n > 1)
	floor := c.brLayer.now
	for k := 1; k < n; k++ {
		l := brRandLayer(rng, floor, k < n-1)
		floor = l.now
		c.more = append(c.more, l)
	}
	// the incoming request context: empty, or already holding somebody's TokenInfo
	if rng.Intn(3) == 0 {
		c.up = true
		c.upGranted = brPick(rng, 4)
		if rng.Intn(2) == 0 {
			c.upExpZero = true
		} else {
			c.upExp = brMag(rng)
		}
	}
	return c
}

// brWireify moves a case to the conditions of a real connection and clock: no scripted delays,
// expirations far from the boundary; nil if the header cannot be sent by a client.
func brWireify(c *brCase, rng *rand.Rand) *brCase {
	for _, l := range c.layers() {
		l.now = 0
		se := l.skew
		if l.optsNil {
			se = 0
		}
		if d := l.exp + se; !l.expZero && d > -int64(time.Minute) && d < int64(time.Minute) {
			far := int64(time.Minute) + int64(rng.Intn(1000))*int64(time.Hour)
			if rng.Intn(2) == 0 {
				far = -far
			}
			l.exp = far - se
		}
	}
	if !brWireOK(c) {
		return nil
	}
	c.wire = true
	return c
}

func TestVerifBearer(t *testing.T) {
	out := verifOpen(t)
	defer out.close()
	n := 0
	var batch []*brCase
	var ids []string
	var wire *brWire
	defer func() {
		if wire != nil {
			wire.srv.Close()
		}
	}()
	flush := func() {
		if len(batch) == 0 {
			return
		}
		// one bubble per batch: the virtual clock only moves when a scripted verifier sleeps
		synctest.Test(t, func(t *testing.T) {
			for i, c := range batch {
				obs := brRun(c)
				out.line(ids[i], c.op(), obs, brTags(c, obs)...)
			}
		})
		batch, ids = batch[:0], ids[:0]
	}
	emit := func(prefix string) func(*brCase) {
		return func(c *brCase) {
			id := fmt.Sprintf("%s%d", prefix, n)
			n++
			if c.wire {
				// real server, real client, real clock: outside the bubble
				if wire == nil {
					wire = brNewWire()
				}
				op, obs := wire.run(c)
				out.line(id, op, obs, brTags(c, obs)...)
				return
			}
			batch = append(batch, c)
			ids = append(ids, id)
			if len(batch) >= 512 {
				flush()
			}
		}
	}
	// a session case: its own bubble (goroutines, virtual clock), several records
	session := func(prefix string) func(*bsCase) {
		return func(sc *bsCase) {
			flush()
			id := fmt.Sprintf("%s%d", prefix, n)
			n++
			synctest.Test(t, func(t *testing.T) {
				bsRun(sc, func(op, obs string, tags ...string) { out.line(id, op, obs, tags...) })
			})
		}
	}
	replay := func(path, cs string) {
		b, err := os.ReadFile(path)
		if err != nil {
			t.Fatal(err)
		}
		if strings.Contains("\n"+string(b), "\nmw ") {
			// a session: one middleware value, applications and requests (zz_verif_bearer_sess_test.go)
			var lines []string
			for _, ln := range strings.Split(string(b), "\n") {
				if ln = strings.TrimSpace(ln); ln != "" && !strings.HasPrefix(ln, "#") {
					lines = append(lines, ln)
				}
			}
			sc, ok := bsParse(lines)
			if !ok {
				out.line(cs, strings.Join(lines, " | "), "bad-op", "corpus")
				return
			}
			session(cs)(sc)
			return
		}
		for _, ln := range strings.Split(string(b), "\n") {
			ln = strings.TrimSpace(ln)
			if ln == "" || strings.HasPrefix(ln, "#") || ln == "reset" {
				continue
			}
			c, ok := brParse(ln)
			if !ok {
				out.line(cs, ln, "bad-op", "corpus")
				continue
			}
			c.label = "corpus"
			emit(cs + "-")(c)
		}
		flush()
	}
	if p := os.Getenv("VERIF_REPLAY"); p != "" {
		replay(p, "replay")
		return
	}
	if p := os.Getenv("VERIF_CORPUS"); p != "" {
		ents, _ := os.ReadDir(p)
		for _, e := range ents {
			if strings.HasSuffix(e.Name(), ".ops") {
				replay(p+"/"+e.Name(), "corpus-"+strings.TrimSuffix(e.Name(), ".ops"))
			}
		}
	}
	if os.Getenv("VERIF_CASES") == "" {
		brEnumerate(emit("e"))
		flush()
		bsEnumerate(session("se"))
	}
	srng := verifRng(1414)
	for i, ns := 0, verifN(700, 30000); i < ns; i++ {
		session("sr")(bsRandom(srng))
	}
	nr := verifN(4000, 300000)
	rng := verifRng(14)
	for i := 0; i < nr; i++ {
		c := brRandom(rng)
		if i%8 == 7 {
			if w := brWireify(c, rng); w != nil {
				c = w
			}
		}
		emit("r")(c)
	}
	flush()
}
