// E10 (C14) correspondence harness: requests through the real RequireBearerToken closure with a
// scripted TokenVerifier and a recording inner handler, inside testing/synctest so that time.Now()
// is the bubble's virtual clock and expirations can be placed at exact nanoseconds around it.
package auth

import (
	"context"
	"errors"
	"fmt"
	"math/rand"
	"net/http"
	"net/http/httptest"
	"os"
	"reflect"
	"strconv"
	"strings"
	"testing"
	"testing/synctest"
	"time"
)

// brCase is one request. Its canonical text form (op) is what travels to the Lean driver and what a
// replay file holds; brParse(op) gives the case back.
type brCase struct {
	hdr     []string // Authorization values; nil = header absent
	ve      string   // "-" no error; else two bits: errors.Is(ErrInvalidToken), errors.Is(ErrOAuth)
	ek      string   // how the error is built: bare | wrap | join | custom
	ed      string   // detail text
	vi      bool     // verifier returns non-nil info
	granted []string
	expZero bool
	exp     int64 // ns after the request started
	mono    int   // 0 wall-clock only, 1 with monotonic reading, 2 wall-clock in another zone
	optsNil bool
	rm      string
	req     []string
	allow   bool
	skew    int64
	now     int64 // ns the verifier takes (virtual): time.Now() at the expiry check = start + now
	label   string
}

type brErr struct {
	msg     string
	inv, oa bool
}

func (e *brErr) Error() string { return e.msg }
func (e *brErr) Is(t error) bool {
	return e.inv && t == ErrInvalidToken || e.oa && t == ErrOAuth
}

func (c *brCase) err() error {
	if c.ve == "-" {
		return nil
	}
	inv, oa := c.ve[0] == '1', c.ve[1] == '1'
	switch c.ek {
	case "custom":
		return &brErr{msg: c.ed, inv: inv, oa: oa}
	case "wrap":
		switch {
		case inv && oa:
			return fmt.Errorf("%s: %w, %w", c.ed, ErrInvalidToken, ErrOAuth)
		case inv:
			return fmt.Errorf("%w: %s", ErrInvalidToken, c.ed)
		case oa:
			return fmt.Errorf("%w: %s", ErrOAuth, c.ed)
		}
		return fmt.Errorf("wrapped: %w", errors.New(c.ed))
	case "join":
		switch {
		case inv && oa:
			return errors.Join(ErrOAuth, ErrInvalidToken) // order of the join must not matter
		case inv:
			return errors.Join(errors.New(c.ed), ErrInvalidToken)
		case oa:
			return errors.Join(errors.New(c.ed), ErrOAuth)
		}
		return errors.Join(errors.New(c.ed), errors.New("second"))
	}
	switch {
	case inv && oa:
		return &brErr{msg: c.ed, inv: true, oa: true}
	case inv:
		return ErrInvalidToken
	case oa:
		return ErrOAuth
	}
	return errors.New(c.ed)
}

func brX(s string) string { return "x" + hxs(s) }
func brXL(l []string) string {
	if len(l) == 0 {
		return "-"
	}
	q := make([]string, len(l))
	for i, s := range l {
		q[i] = brX(s)
	}
	return strings.Join(q, ",")
}
func brB(b bool) string {
	if b {
		return "1"
	}
	return "0"
}

func (c *brCase) op() string {
	h := "-"
	if c.hdr != nil {
		h = brXL(c.hdr)
	}
	vm := ""
	if e := c.err(); e != nil {
		vm = e.Error()
	}
	ex := "z"
	if !c.expZero {
		ex = strconv.FormatInt(c.exp, 10)
	}
	op := "s"
	if c.optsNil {
		op = "n"
	}
	return fmt.Sprintf("req h=%s ve=%s vm=%s vi=%s gs=%s ex=%s op=%s rm=%s rs=%s am=%s sk=%d now=%d ek=%s ed=%s mo=%d",
		h, c.ve, brX(vm), brB(c.vi), brXL(c.granted), ex, op, brX(c.rm), brXL(c.req), brB(c.allow), c.skew, c.now, c.ek, brX(c.ed), c.mono)
}

func brUnX(s string) (string, bool) {
	if !strings.HasPrefix(s, "x") {
		return "", false
	}
	var b []byte
	if len(s) > 1 {
		if _, err := fmt.Sscanf(s[1:], "%x", &b); err != nil {
			return "", false
		}
	}
	return string(b), true
}

func brUnXL(s string) ([]string, bool) {
	if s == "-" {
		return []string{}, true
	}
	var out []string
	for _, p := range strings.Split(s, ",") {
		v, ok := brUnX(p)
		if !ok {
			return nil, false
		}
		out = append(out, v)
	}
	return out, true
}

func brParse(op string) (*brCase, bool) {
	toks := strings.Fields(op)
	if len(toks) == 0 || toks[0] != "req" {
		return nil, false
	}
	kv := map[string]string{}
	for _, t := range toks[1:] {
		if i := strings.IndexByte(t, '='); i > 0 {
			kv[t[:i]] = t[i+1:]
		}
	}
	c := &brCase{ek: "bare"}
	ok := true
	get := func(k string) string {
		v, has := kv[k]
		if !has {
			ok = false
		}
		return v
	}
	if h := get("h"); h == "-" {
		c.hdr = nil
	} else {
		c.hdr, ok = brUnXL(h)
	}
	c.ve = get("ve")
	if c.ve != "-" && len(c.ve) != 2 {
		return nil, false
	}
	c.vi = get("vi") == "1"
	var o2, o3, o4 bool
	c.granted, o2 = brUnXL(get("gs"))
	if ex := get("ex"); ex == "z" {
		c.expZero = true
	} else if n, err := strconv.ParseInt(ex, 10, 64); err == nil {
		c.exp = n
	} else {
		return nil, false
	}
	c.optsNil = get("op") == "n"
	c.rm, o3 = brUnX(get("rm"))
	c.req, o4 = brUnXL(get("rs"))
	c.allow = get("am") == "1"
	c.skew, _ = strconv.ParseInt(get("sk"), 10, 64)
	c.now, _ = strconv.ParseInt(get("now"), 10, 64)
	if v, has := kv["ek"]; has {
		c.ek = v
	}
	if v, has := kv["ed"]; has {
		c.ed, _ = brUnX(v)
	} else if v, has := kv["vm"]; has {
		// a hand-written replay without ek/ed: reproduce the text with a custom error
		c.ed, _ = brUnX(v)
		c.ek = "custom"
	}
	if v, has := kv["mo"]; has {
		c.mono, _ = strconv.Atoi(v)
	}
	return c, ok && o2 && o3 && o4
}

// brRun sends the case through the real middleware. Must run inside a synctest bubble.
func brRun(c *brCase) (obs string) {
	defer func() {
		if r := recover(); r != nil {
			obs = "panic"
		}
	}()
	t0 := time.Now()
	var info *TokenInfo
	var snap TokenInfo
	if c.vi {
		info = &TokenInfo{Scopes: append([]string(nil), c.granted...), UserID: "user-7", Extra: map[string]any{"k": "v"}}
		if !c.expZero {
			e := t0.Add(time.Duration(c.exp))
			switch c.mono {
			case 0:
				e = e.Round(0)
			case 2:
				e = e.Round(0).In(time.FixedZone("east", 5*3600+1800))
			}
			info.Expiration = e
		}
		snap = *info
		snap.Scopes = append([]string(nil), info.Scopes...)
		snap.Extra = map[string]any{"k": "v"}
	}
	verr := c.err()
	calls, lastTok := 0, ""
	verifier := func(ctx context.Context, token string, req *http.Request) (*TokenInfo, error) {
		calls++
		lastTok = token
		if c.now > 0 {
			time.Sleep(time.Duration(c.now)) // virtual
		}
		return info, verr
	}
	var opts *RequireBearerTokenOptions
	if !c.optsNil {
		opts = &RequireBearerTokenOptions{ResourceMetadataURL: c.rm, Scopes: c.req, AllowMissingExpiration: c.allow, ClockSkew: time.Duration(c.skew)}
	}
	ran, seen := 0, "-"
	inner := http.HandlerFunc(func(w http.ResponseWriter, r *http.Request) {
		ran++
		ti := TokenInfoFromContext(r.Context())
		switch {
		case ti == nil:
			seen = "nil"
		case ti != info:
			seen = "other"
		case !reflect.DeepEqual(*ti, snap):
			seen = "changed"
		default:
			seen = "same"
		}
		w.WriteHeader(299)
		fmt.Fprint(w, "inner")
	})
	h := RequireBearerToken(verifier, opts)(inner)
	req := httptest.NewRequest("GET", "http://rs.example/mcp", nil)
	if c.hdr != nil {
		req.Header["Authorization"] = c.hdr
	}
	rec := httptest.NewRecorder()
	h.ServeHTTP(rec, req)
	vt := "-"
	if calls > 0 {
		vt = brX(lastTok)
	}
	www := rec.Header().Values("WWW-Authenticate")
	return fmt.Sprintf("st=%d ran=%d info=%s vc=%d vt=%s www=%s body=%s", rec.Code, ran, seen, calls, vt, brXL(www), brX(rec.Body.String()))
}

func brTags(c *brCase, obs string) []string {
	tags := []string{}
	f := strings.Fields(obs)
	if len(f) > 1 {
		tags = append(tags, f[0], f[1]) // st=\u2026, ran=\u2026
	}
	if c.label != "" {
		tags = append(tags, "hdr:"+c.label)
	}
	tags = append(tags, "verr:"+c.ve)
	if c.optsNil {
		tags = append(tags, "opts:nil")
	}
	if c.vi && c.ve == "-" {
		if c.expZero {
			tags = append(tags, "exp:zero")
		} else {
			switch d := c.exp + c.skew - c.now; {
			case d == 0:
				tags = append(tags, "exp+skew=now")
			case d == -1:
				tags = append(tags, "exp+skew=now-1ns")
			case d == 1:
				tags = append(tags, "exp+skew=now+1ns")
			case d < 0:
				tags = append(tags, "exp:past")
			default:
				tags = append(tags, "exp:future")
			}
		}
	}
	return tags
}

type brHdr struct {
	label string
	vals  []string
	well  bool
}

var brHeaders = []brHdr{
	{"absent", nil, false},
	{"empty", []string{""}, false},
	{"scheme-only", []string{"Bearer"}, false},
	{"plain", []string{"Bearer tok"}, true},
	{"lower", []string{"bearer tok"}, true},
	{"upper", []string{"BEARER tok"}, true},
	{"mixed", []string{"bEaReR tok"}, true},
	{"blanks", []string{"Bearer    tok"}, true},
	{"tabs", []string{"\tBearer\ttok\t"}, true},
	{"three-fields", []string{"Bearer tok extra"}, false},
	{"basic", []string{"Basic tok"}, false},
	{"glued", []string{"Bearertok"}, false},
	{"colon", []string{"Bearer: tok"}, false},
	{"nbsp", []string{"Bearer\u00a0tok"}, true},
	{"ideographic-space", []string{"Bearer\u3000tok"}, true},
	{"zero-width-space", []string{"Bearer\u200btok"}, false},
	{"comma", []string{"Bearer,tok"}, false},
	{"two-values-bearer-first", []string{"Bearer tok", "Basic zzz"}, true},
	{"two-values-basic-first", []string{"Basic zzz", "Bearer tok"}, false},
	{"fullwidth-B", []string{"\uff22earer tok"}, false},
	{"kelvin", []string{"Bearer\u212a tok"}, false},
	{"swapped", []string{"tok Bearer"}, false},
	{"padded", []string{"  Bearer tok  "}, true},
	{"utf8-token", []string{"Bearer t\u00f6k\u20acn"}, true},
}

type brVer struct {
	ve, ek, ed string
	vi         bool
}

var brVerifiers = []brVer{
	{"-", "bare", "", true},
	{"-", "bare", "", false},
	{"10", "bare", "", false},
	{"10", "wrap", "signature mismatch", false},
	{"01", "bare", "", false},
	{"01", "wrap", "invalid_request", false},
	{"11", "join", "", false},
	{"11", "wrap", "both", false},
	{"00", "bare", "backend down", false},
	{"00", "join", "db timeout", false},
	{"10", "custom", "revoked", true}, // error AND info: the error wins
	{"00", "custom", "oops\twith \"quotes\"", true},
}

var brScopeSets = [][2][]string{
	{{}, {}},
	{{}, {"a"}},
	{{"a"}, {"a"}},
	{{"a"}, {}},
	{{"a", "b"}, {"a"}},
	{{"a", "b"}, {"b"}},
	{{"a", "b"}, {"b", "a"}},
	{{"a", "b", "c"}, {"c", "d", "b", "a"}},
	{{"a", "b", "c"}, {"a", "c", "d"}},
	{{"a", "a"}, {"a"}},
	{{"A"}, {"a"}},
	{{"a"}, {"a b"}},
	{{"a b"}, {"a", "b"}},
	{{""}, {}},
	{{"a"}, {"a", "a"}},
	{{"read:x", "write:x"}, {"write:x", "read:x", "admin"}},
}

type brOpt struct {
	isNil bool
	rm    string
	allow bool
	skew  int64
}

func brOptions() []brOpt {
	out := []brOpt{{isNil: true}}
	for _, rm := range []string{"", "https://rs.example/.well-known/oauth-protected-resource"} {
		for _, allow := range []bool{false, true} {
			for _, skew := range []int64{0, 1, -1, int64(30 * time.Second), -int64(30 * time.Second)} {
				out = append(out, brOpt{false, rm, allow, skew})
			}
		}
	}
	return out
}

// brExpiries: zero, the three instants around exp+skew = now, the three around exp = now, far past/future.
func brExpiries(skew, now int64) []*int64 {
	p := func(n int64) *int64 { return &n }
	out := []*int64{nil, p(now - skew - 1), p(now - skew), p(now - skew + 1), p(now + int64(time.Hour)), p(now - int64(time.Hour)),
		p(now + int64(100*365*24*time.Hour)), p(now - int64(100*365*24*time.Hour))}
	if skew != 0 {
		out = append(out, p(now-1), p(now), p(now+1))
	}
	return out
}

func brEnumerate(emit func(*brCase)) {
	opts := brOptions()
	mk := func(h brHdr, v brVer, sc [2][]string, o brOpt, exp *int64, now int64, mono int) {
		c := &brCase{hdr: h.vals, label: h.label, ve: v.ve, ek: v.ek, ed: v.ed, vi: v.vi, granted: sc[1], req: sc[0],
			optsNil: o.isNil, rm: o.rm, allow: o.allow, skew: o.skew, now: now, mono: mono}
		if exp == nil {
			c.expZero = true
		} else {
			c.exp = *exp
		}
		emit(c)
	}
	// Stage A: every header shape against a slice of the other dimensions.
	for _, h := range brHeaders {
		for _, v := range brVerifiers {
			for _, si := range []int{2, 4, 7} {
				for _, oi := range []int{0, 1, 12, 20} {
					o := opts[oi]
					for _, e := range brExpiries(o.skew, 0)[:4] {
						mk(h, v, brScopeSets[si], o, e, 0, 1)
					}
				}
			}
		}
	}
	// Stage B: the decision core in full for two well-formed headers.
	for _, hi := range []int{3, 6} {
		h := brHeaders[hi]
		for _, v := range brVerifiers {
			full := v.ve == "-" && v.vi
			for si, sc := range brScopeSets {
				if !full && si != 2 && si != 4 {
					continue
				}
				for _, o := range opts {
					for _, now := range []int64{0, int64(5 * time.Second)} {
						for ei, e := range brExpiries(o.skew, now) {
							if !full && ei > 1 {
								continue
							}
							mk(h, v, sc, o, e, now, (ei+si)%3)
						}
					}
				}
			}
		}
	}
}

var brPieces = []string{"Bearer", "bearer", "BEARER", "BeArEr", "Basic", "Bearer:", "Bearer,", "tok", "t0k.en-_~+/=", "x", " ", "  ", "\t",
	"\u00a0", "\u2003", "\u3000", "\v", "\f", "\r", "\n", "\u0085", "\u1680", "\u2028", "\u202f", "\u205f", "\u200b", "\ufeff", "\u212a", "\u00e9", ",", ";", "\"", "=", "\u180e"}

func brRandom(rng *rand.Rand) *brCase {
	c := &brCase{label: "random", ek: "bare", mono: rng.Intn(3)}
	ws := []string{" ", "  ", "\t", "\u00a0", "\u3000", " \t ", "\u2003", "\n", "\u0085"}
	switch r := rng.Intn(10); {
	case r == 0:
		c.hdr = nil
	case r < 6: // well-formed by construction
		s := ""
		if rng.Intn(3) == 0 {
			s += ws[rng.Intn(len(ws))]
		}
		sch := []byte("bearer")
		for i := range sch {
			if rng.Intn(2) == 0 {
				sch[i] -= 32
			}
		}
		s += string(sch) + ws[rng.Intn(len(ws))] + []string{"tok", "t0k.en-_~+/=", "\u00e9\u212a", "Bearer", "a,b", "\u200b"}[rng.Intn(6)]
		if rng.Intn(3) == 0 {
			s += ws[rng.Intn(len(ws))]
		}
		c.hdr = []string{s}
		if rng.Intn(8) == 0 {
			c.hdr = append(c.hdr, "Basic other")
		}
	default:
		s := ""
		for n := rng.Intn(7); n > 0; n-- {
			s += brPieces[rng.Intn(len(brPieces))]
		}
		c.hdr = []string{s}
	}
	if rng.Intn(4) == 0 {
		v := brVerifiers[rng.Intn(len(brVerifiers))]
		c.ve, c.ek, c.ed, c.vi = v.ve, v.ek, v.ed, v.vi
	} else {
		c.ve, c.vi = "-", true
	}
	alpha := []string{"a", "b", "c", "d", "A", "", "a b", "read:x", "\u00e9", "q\"uo\\te"}
	pick := func(max int) []string {
		var out []string
		for n := rng.Intn(max + 1); n > 0; n-- {
			out = append(out, alpha[rng.Intn(len(alpha))])
		}
		return out
	}
	c.req = pick(4)
	switch rng.Intn(3) {
	case 0: // superset, shuffled
		c.granted = append(append([]string{}, c.req...), pick(2)...)
		rng.Shuffle(len(c.granted), func(i, j int) { c.granted[i], c.granted[j] = c.granted[j], c.granted[i] })
	case 1: // one required scope removed
		c.granted = append(append([]string{}, c.req...), pick(2)...)
		if len(c.req) > 0 {
			drop := c.req[rng.Intn(len(c.req))]
			var g []string
			for _, s := range c.granted {
				if s != drop {
					g = append(g, s)
				}
			}
			c.granted = g
		}
	default:
		c.granted = pick(5)
	}
	c.optsNil = rng.Intn(8) == 0
	c.rm = []string{"", "https://rs.example/meta", "https://rs.example/m?x=\"1\"&y=\\", "u\u00e9"}[rng.Intn(4)]
	c.allow = rng.Intn(2) == 0
	mags := []int64{0, 1, 2, 999, int64(time.Millisecond), int64(time.Second), int64(30 * time.Second), int64(time.Hour), int64(24 * 365 * time.Hour), int64(200 * 24 * 365 * time.Hour)}
	mag := func() int64 {
		m := mags[rng.Intn(len(mags))]
		if m > 2 && rng.Intn(2) == 0 {
			m += int64(rng.Intn(1000)) - 500
		}
		if rng.Intn(2) == 0 {
			m = -m
		}
		return m
	}
	if rng.Intn(3) > 0 {
		c.skew = mag()
	}
	if rng.Intn(3) == 0 {
		c.now = mags[rng.Intn(8)]
	}
	skewEff := c.skew
	if c.optsNil {
		skewEff = 0
	}
	switch r := rng.Intn(10); {
	case r == 0:
		c.expZero = true
	case r < 6:
		c.exp = c.now - skewEff + int64(rng.Intn(5)) - 2
	case r < 8:
		c.exp = c.now + int64(rng.Intn(5)) - 2
	default:
		c.exp = c.now + mag()
	}
	return c
}

func TestVerifBearer(t *testing.T) {
	out := verifOpen(t)
	defer out.close()
	n := 0
	var batch []*brCase
	var ids []string
	flush := func() {
		if len(batch) == 0 {
			return
		}
		// one bubble per batch: the virtual clock only moves when a scripted verifier sleeps
		synctest.Test(t, func(t *testing.T) {
			for i, c := range batch {
				obs := brRun(c)
				out.line(ids[i], c.op(), obs, brTags(c, obs)...)
			}
		})
		batch, ids = batch[:0], ids[:0]
	}
	emit := func(prefix string) func(*brCase) {
		return func(c *brCase) {
			batch = append(batch, c)
			ids = append(ids, fmt.Sprintf("%s%d", prefix, n))
			n++
			if len(batch) >= 512 {
				flush()
			}
		}
	}
	replay := func(path, cs string) {
		b, err := os.ReadFile(path)
		if err != nil {
			t.Fatal(err)
		}
		for _, ln := range strings.Split(string(b), "\n") {
			ln = strings.TrimSpace(ln)
			if ln == "" || strings.HasPrefix(ln, "#") || ln == "reset" {
				continue
			}
			c, ok := brParse(ln)
			if !ok {
				out.line(cs, ln, "bad-op", "corpus")
				continue
			}
			c.label = "corpus"
			emit(cs + "-")(c)
		}
		flush()
	}
	if p := os.Getenv("VERIF_REPLAY"); p != "" {
		replay(p, "replay")
		return
	}
	if p := os.Getenv("VERIF_CORPUS"); p != "" {
		ents, _ := os.ReadDir(p)
		for _, e := range ents {
			if strings.HasSuffix(e.Name(), ".ops") {
				replay(p+"/"+e.Name(), "corpus-"+strings.TrimSuffix(e.Name(), ".ops"))
			}
		}
	}
	if os.Getenv("VERIF_CASES") == "" {
		brEnumerate(emit("e"))
		flush()
	}
	nr := verifN(4000, 400000)
	rng := verifRng(14)
	for i := 0; i < nr; i++ {
		emit("r")(brRandom(rng))
	}
	flush()
}
