// E9 / C13, stream `http`, fourth family (records `kas side=ssec|sses`): keep-alive over the REAL legacy SSE
// transports — a real Client over SSEClientTransport against a real Server behind SSEHandler, connected by an
// in-process http.RoundTripper (handler.ServeHTTP in a goroutine, the response body an io.Pipe) under
// testing/synctest. `ssec`: keep-alive on the client — its pings are POSTs, whose context is the ping's context;
// `sses`: keep-alive on the server — its pings travel on the event stream and the client's answers are POSTs. The
// RoundTripper treats the k-th ping (ssec) resp. the k-th ping answer (sses) on script: a<d> forwarded after d,
// n accepted (202) and lost, m<d> / e<d> replaced after d by a JSON-RPC error -32601 / -32603 (sses: the answer is
// rewritten; ssec: the error is put on the event stream, the ping is not forwarded), and — ssec only — w: the POST
// stalls until the ping's context is done and fails with its error (sseClientConn.Write: one missed ping, the
// connection must survive). Observed: the instant of every ping attempt of the keep-alive side (sending middleware),
// the instant its Wait returned before the harness closed it, attempts after that Close.

//go:build verif

package mcp

import (
	"bytes"
	"context"
	"encoding/json"
	"fmt"
	"io"
	"net/http"
	"net/http/httptest"
	"strconv"
	"sync"
	"testing"
	"testing/synctest"
	"time"
)

type khPipeRW struct {
	mu     sync.Mutex // serialises the handler's writes with injected frames
	hdr    http.Header
	status int
	pw     *io.PipeWriter
	ready  chan struct{}
	once   sync.Once
}

func (w *khPipeRW) Header() http.Header { return w.hdr }
func (w *khPipeRW) WriteHeader(code int) {
	w.once.Do(func() { w.status = code; close(w.ready) })
}
func (w *khPipeRW) Flush() { w.WriteHeader(http.StatusOK) }
func (w *khPipeRW) Write(p []byte) (int, error) {
	w.WriteHeader(http.StatusOK)
	w.mu.Lock()
	defer w.mu.Unlock()
	return w.pw.Write(p)
}

type khPipeBody struct {
	pr     *io.PipeReader
	cancel context.CancelFunc
}

func (b *khPipeBody) Read(p []byte) (int, error) { return b.pr.Read(p) }
func (b *khPipeBody) Close() error               { b.pr.Close(); b.cancel(); return nil }

// khSSERT is the in-process connection between SSEClientTransport and SSEHandler, with the fault script.
type khSSERT struct {
	h      http.Handler
	side   string
	script []kaStep
	mu     sync.Mutex
	idx    int
	stream *khPipeRW // the event stream (GET) of the session
}

func (rt *khSSERT) serve(req *http.Request, body []byte) (*http.Response, error) {
	ctx, cancel := context.WithCancel(context.WithoutCancel(req.Context()))
	stop := context.AfterFunc(req.Context(), cancel)
	sreq := httptest.NewRequest(req.Method, req.URL.String(), bytes.NewReader(body)).WithContext(ctx)
	for k, v := range req.Header {
		sreq.Header[k] = v
	}
	pr, pw := io.Pipe()
	w := &khPipeRW{hdr: http.Header{}, pw: pw, ready: make(chan struct{})}
	if req.Method == http.MethodGet {
		rt.mu.Lock()
		rt.stream = w
		rt.mu.Unlock()
	}
	go func() {
		defer func() {
			recover()
			w.WriteHeader(http.StatusOK)
			pw.Close()
			stop()
			cancel()
		}()
		rt.h.ServeHTTP(w, sreq)
	}()
	select {
	case <-w.ready:
	case <-req.Context().Done():
		cancel()
		pr.Close()
		return nil, req.Context().Err()
	}
	return &http.Response{Status: strconv.Itoa(w.status) + " " + http.StatusText(w.status), StatusCode: w.status, Proto: "HTTP/1.1", ProtoMajor: 1, ProtoMinor: 1,
		Header: w.hdr.Clone(), Body: &khPipeBody{pr, cancel}, ContentLength: -1, Request: req}, nil
}

func khAccepted(req *http.Request) *http.Response {
	return &http.Response{Status: "202 Accepted", StatusCode: http.StatusAccepted, Proto: "HTTP/1.1", ProtoMajor: 1, ProtoMinor: 1,
		Header: http.Header{}, Body: io.NopCloser(bytes.NewReader(nil)), ContentLength: 0, Request: req}
}

func (rt *khSSERT) RoundTrip(req *http.Request) (*http.Response, error) {
	var body []byte
	if req.Body != nil {
		body, _ = io.ReadAll(req.Body)
		req.Body.Close()
	}
	if req.Method != http.MethodPost {
		return rt.serve(req, body)
	}
	var m struct {
		ID     json.RawMessage `json:"id"`
		Method string          `json:"method"`
		Result json.RawMessage `json:"result"`
	}
	json.Unmarshal(body, &m)
	scripted := (rt.side == "ssec" && m.Method == "ping" && m.ID != nil) || (rt.side == "sses" && m.Method == "" && m.ID != nil && m.Result != nil)
	if !scripted {
		return rt.serve(req, body)
	}
	rt.mu.Lock()
	st := kaStep{'n', 0}
	if rt.idx < len(rt.script) {
		st = rt.script[rt.idx]
	}
	rt.idx++
	stream := rt.stream
	rt.mu.Unlock()
	errBody := func(code int, msg string) []byte {
		return []byte(fmt.Sprintf(`{"jsonrpc":"2.0","id":%s,"error":{"code":%d,"message":%q}}`, m.ID, code, msg))
	}
	wait := func(d int64) error {
		select {
		case <-time.After(time.Duration(d)):
			return nil
		case <-req.Context().Done():
			return req.Context().Err()
		}
	}
	switch st.kind {
	case 'n':
		return khAccepted(req), nil
	case 'w':
		<-req.Context().Done()
		return nil, req.Context().Err()
	case 'a':
		if rt.side == "sses" {
			// the answer is on its way for d; the client's POST itself is not held
			go func() {
				time.Sleep(time.Duration(st.d))
				if resp, err := rt.serve(req.Clone(context.Background()), body); err == nil {
					resp.Body.Close()
				}
			}()
			return khAccepted(req), nil
		}
		if err := wait(st.d); err != nil {
			return nil, err
		}
		return rt.serve(req, body)
	default: // 'm', 'e'
		code, msg := -32603, "peer failure"
		if st.kind == 'm' {
			code, msg = -32601, "Method not found: ping"
		}
		if rt.side == "sses" {
			go func() {
				time.Sleep(time.Duration(st.d))
				if resp, err := rt.serve(req.Clone(context.Background()), errBody(code, msg)); err == nil {
					resp.Body.Close()
				}
			}()
			return khAccepted(req), nil
		}
		go func() {
			time.Sleep(time.Duration(st.d))
			if stream != nil {
				defer func() { recover() }()
				stream.Write([]byte("event: message\ndata: " + string(errBody(code, msg)) + "\n\n"))
			}
		}()
		return khAccepted(req), nil
	}
}

// khRunSSE runs one scenario of the families `ssec` / `sses`.
func khRunSSE(t *testing.T, c *khCase) (obs string) {
	obs = "panic"
	synctest.Test(t, func(t *testing.T) {
		defer func() {
			if r := recover(); r != nil {
				obs = "panic"
			}
		}()
		ctx := context.Background()
		I := time.Duration(c.I)
		t0 := time.Now()
		var mu sync.Mutex
		var attempts []int64
		count := func(next MethodHandler) MethodHandler {
			return func(ctx context.Context, method string, req Request) (Result, error) {
				if method == "ping" {
					mu.Lock()
					attempts = append(attempts, time.Since(t0).Nanoseconds())
					mu.Unlock()
				}
				return next(ctx, method, req)
			}
		}
		sopts, copts := &ServerOptions{Logger: kaLogger}, &ClientOptions{Logger: kaLogger}
		if c.side == "sses" {
			sopts.KeepAlive, sopts.KeepAliveFailureThreshold = I, c.T
		} else {
			copts.KeepAlive, copts.KeepAliveFailureThreshold = I, c.T
		}
		server := NewServer(&Implementation{Name: "s", Version: "1"}, sopts)
		client := NewClient(&Implementation{Name: "c", Version: "1"}, copts)
		if c.side == "sses" {
			server.AddSendingMiddleware(count)
		} else {
			client.AddSendingMiddleware(count)
		}
		handler := NewSSEHandler(func(*http.Request) *Server { return server }, &SSEOptions{DisableLocalhostProtection: true})
		var script []kaStep
		for _, w := range c.wire {
			switch w.kind {
			case 'j':
				script = append(script, kaStep{'a', w.d})
			case 'J':
				script = append(script, kaStep{'m', w.d})
			case 'x':
				script = append(script, kaStep{'e', w.d})
			default:
				script = append(script, kaStep{w.kind, 0}) // n, w
			}
		}
		rt := &khSSERT{h: handler, side: c.side, script: script}
		cs, err := client.Connect(ctx, &SSEClientTransport{Endpoint: "http://srv.example/sse", HTTPClient: &http.Client{Transport: rt}}, &ClientSessionOptions{ProtocolVersion: c.pv})
		if err != nil {
			obs = "connect-failed"
			return
		}
		synctest.Wait()
		var ss *ServerSession
		for s := range server.Sessions() {
			ss = s
		}
		if ss == nil {
			obs = "connect-failed"
			cs.Close()
			return
		}
		start := time.Since(t0).Nanoseconds() // the handshake takes no virtual time
		var kaWait func() error
		var kaClose func() error
		if c.side == "sses" {
			kaWait, kaClose = ss.Wait, ss.Close
		} else {
			kaWait, kaClose = cs.Wait, cs.Close
		}
		closedAt := int64(-1)
		go func() {
			kaWait()
			mu.Lock()
			closedAt = time.Since(t0).Nanoseconds()
			mu.Unlock()
		}()
		time.Sleep(time.Duration(c.tc))
		synctest.Wait()
		mu.Lock()
		ca, before := closedAt, len(attempts)
		mu.Unlock()
		kaClose()
		synctest.Wait()
		time.Sleep(3 * I)
		synctest.Wait()
		cs.Close()
		ss.Close()
		synctest.Wait()
		mu.Lock()
		defer mu.Unlock()
		closed := "-"
		if ca >= 0 {
			closed = strconv.FormatInt(ca-start, 10)
		}
		pings := make([]int64, before)
		for i := range pings {
			pings[i] = attempts[i] - start
		}
		obs = fmt.Sprintf("pings=%s to=- close=%s exit=1 late=%d", kaInts(pings), closed, len(attempts)-before)
	})
	return obs
}
