// Copyright 2025 The Go MCP SDK Authors. All rights reserved.
// Use of this source code is governed by an MIT-style
// license that can be found in the LICENSE file.

// Harness of verification engine E2 `wire`, third part: event streams as a FOREIGN peer frames them
// (LF / CRLF line ends chosen line by line, comment lines, fields in any order and more than once,
// data over several lines, retry lines, unknown fields, any pad after the colon) through scanEvents
// and through a live streamable client; list results page by page on real sessions (registries larger
// than the page size, items removed and added between pages, stale and forged cursors at, between and
// beyond every key), observed as the bytes the server wrote.

package mcp

import (
	"reflect"
	"encoding/json"
	"bytes"
	"context"
	"errors"
	"fmt"
	"io"
	"log/slog"
	"math/rand"
	"sort"
	"strings"
	"time"
)

// ------------------------------------------------------------------ foreign SSE framing

type fline struct {
	key, pad, val string
	crlf          bool
}

type fevent struct {
	lines []fline
	crlf  bool // line end of the dispatching blank line
}

func eolTok(crlf bool) string {
	if crlf {
		return "c"
	}
	return "l"
}

func eolStr(crlf bool) string {
	if crlf {
		return "\r\n"
	}
	return "\n"
}

func fstreamTok(es []fevent) string {
	var t []string
	for _, e := range es {
		t = append(t, "(")
		for _, l := range e.lines {
			t = append(t, "s"+hxs(l.key), "s"+hxs(l.pad), "x"+hxs(l.val), eolTok(l.crlf))
		}
		t = append(t, ")", eolTok(e.crlf))
	}
	return strings.Join(t, " ")
}

func renderFStream(es []fevent) []byte {
	var b bytes.Buffer
	for _, e := range es {
		for _, l := range e.lines {
			b.WriteString(l.key + ":" + l.pad + l.val + eolStr(l.crlf))
		}
		b.WriteString(eolStr(e.crlf))
	}
	return b.Bytes()
}

func (p *tokStream) eol() (crlf, ok bool) {
	switch p.next() {
	case "l":
		return false, true
	case "c":
		return true, true
	}
	return false, false
}

func (p *tokStream) fstream() ([]fevent, bool) {
	var es []fevent
	for !p.done() {
		if p.next() != "(" {
			return nil, false
		}
		var e fevent
		for p.peek() != ")" {
			k, ok1 := p.str()
			pad, ok2 := p.str()
			v, ok3 := unhex(strings.TrimPrefix(p.next(), "x"))
			crlf, ok4 := p.eol()
			if !(ok1 && ok2 && ok3 && ok4) {
				return nil, false
			}
			e.lines = append(e.lines, fline{k, pad, v, crlf})
		}
		p.next()
		crlf, ok := p.eol()
		if !ok {
			return nil, false
		}
		e.crlf = crlf
		es = append(es, e)
	}
	return es, true
}

// scanGuarded: scanEvents on its own goroutine under recover and a time limit.
func scanGuarded(b []byte) string {
	return guarded(10*time.Second, func() string { return scanTok(b) })
}

// sseFraming: the response text delivered as one message event, framed the way the named foreign
// peer would. Every framing is a well-formed text/event-stream that denotes the event
// {event: message, data: text (possibly with line feeds between JSON tokens)}.
var sseFramings = []string{"crlf", "mix", "comment", "idretry", "nopad", "order", "multi", "all"}

func sseFraming(how, text string) string {
	head, tail := text, ""
	if len(text) > 1 && (text[0] == '{' || text[0] == '[') {
		head, tail = text[:1], text[1:]
	}
	switch how {
	case "crlf":
		return "event: message\r\ndata: " + text + "\r\n\r\n"
	case "mix":
		return "event: message\r\ndata: " + text + "\n\r\n"
	case "comment":
		return ": keep-alive\n\n:\nevent: message\n: between fields\ndata: " + text + "\n\n: after\n\n"
	case "idretry":
		return "id: 7\nretry: 3000\nevent: message\ndata: " + text + "\n\n"
	case "nopad":
		return "event:message\ndata:" + text + "\n\n"
	case "order":
		return "data: " + text + "\nid: 7\nevent: other\nevent: message\n\n"
	case "multi":
		if tail == "" {
			return "event: message\ndata:\ndata: " + text + "\n\n"
		}
		return "event: message\ndata: " + head + "\ndata: " + tail + "\ndata:\n\n"
	case "all":
		if tail == "" {
			head, tail = "", text
		}
		return ": hello\r\n\r\nretry: 1500\r\nx-unknown: 1\r\ndata:\t" + head + "\r\nid:  a:b\nevent:   message\r\ndata:" + tail + "\r\n\r\n"
	}
	return "event: message\ndata: " + text + "\n\n"
}

// ------------------------------------------------------------------ paged lists on a real session

type pgWorld struct {
	s    *Server
	cs   *ClientSession
	ss   *ServerSession
	srvT *recTransport
	// the client's own registry (roots): listed by a SECOND server over a legacy session of the same
	// client (server-to-client roots/list does not exist in the latest protocol)
	c     *Client
	cs2   *ClientSession
	ss2   *ServerSession
	cliT2 *recTransport
}

func newPgWorld(pageSize int) (*pgWorld, error) {
	ctx := context.Background()
	w := &pgWorld{}
	w.s = NewServer(&Implementation{Name: "s", Version: "1"}, &ServerOptions{PageSize: pageSize, HasTools: true, HasPrompts: true, HasResources: true,
		Logger: slog.New(slog.DiscardHandler)})
	t1, t2 := NewInMemoryTransports()
	w.srvT = &recTransport{Transport: t1}
	ss, err := w.s.Connect(ctx, w.srvT, nil)
	if err != nil {
		return nil, err
	}
	w.c = NewClient(&Implementation{Name: "c", Version: "1"}, nil)
	cs, err := w.c.Connect(ctx, t2, nil)
	if err != nil {
		return nil, err
	}
	w.cs, w.ss = cs, ss
	return w, nil
}

// second: the second session of the client, to a server that asks for the roots (connected on first use:
// roots added and removed BEFORE the session exists are part of the histories)
func (w *pgWorld) second() error {
	if w.ss2 != nil {
		return nil
	}
	ctx := context.Background()
	s2 := NewServer(&Implementation{Name: "s2", Version: "1"}, &ServerOptions{Logger: slog.New(slog.DiscardHandler)})
	t1, t2 := NewInMemoryTransports()
	ss2, err := s2.Connect(ctx, t1, nil)
	if err != nil {
		return err
	}
	w.cliT2 = &recTransport{Transport: t2}
	cs2, err := w.c.Connect(ctx, w.cliT2, &ClientSessionOptions{ProtocolVersion: protocolVersion20251125})
	if err != nil {
		return err
	}
	w.cs2, w.ss2 = cs2, ss2
	return nil
}

func (w *pgWorld) close() {
	w.cs.Close()
	w.ss.Wait()
	if w.cs2 != nil {
		w.cs2.Close()
		w.ss2.Wait()
	}
}

var pgMember = map[string][2]string{ // method -> list member, uid member of an item
	"tools/list":               {"tools", "name"},
	"prompts/list":             {"prompts", "name"},
	"resources/list":           {"resources", "uri"},
	"resources/templates/list": {"resourceTemplates", "uriTemplate"},
	"roots/list":               {"roots", "uri"},
}

func (w *pgWorld) add(method string, uids []string) string {
	for _, u := range uids {
		switch method {
		case "tools/list":
			w.s.AddTool(&Tool{Name: u, InputSchema: map[string]any{"type": "object"}}, func(context.Context, *CallToolRequest) (*CallToolResult, error) {
				return &CallToolResult{Content: []Content{}}, nil
			})
		case "prompts/list":
			w.s.AddPrompt(&Prompt{Name: u}, func(context.Context, *GetPromptRequest) (*GetPromptResult, error) {
				return &GetPromptResult{Messages: []*PromptMessage{}}, nil
			})
		case "resources/list":
			w.s.AddResource(&Resource{Name: "r", URI: u}, func(context.Context, *ReadResourceRequest) (*ReadResourceResult, error) {
				return &ReadResourceResult{Contents: []*ResourceContents{}}, nil
			})
		case "resources/templates/list":
			w.s.AddResourceTemplate(&ResourceTemplate{Name: "t", URITemplate: u}, func(context.Context, *ReadResourceRequest) (*ReadResourceResult, error) {
				return &ReadResourceResult{Contents: []*ResourceContents{}}, nil
			})
		case "roots/list":
			w.c.AddRoots(&Root{URI: u})
		default:
			return "bad-op"
		}
	}
	return "ok"
}

func (w *pgWorld) remove(method string, uids []string) string {
	switch method {
	case "tools/list":
		w.s.RemoveTools(uids...)
	case "prompts/list":
		w.s.RemovePrompts(uids...)
	case "resources/list":
		w.s.RemoveResources(uids...)
	case "resources/templates/list":
		w.s.RemoveResourceTemplates(uids...)
	case "roots/list":
		w.c.RemoveRoots(uids...)
	default:
		return "bad-op"
	}
	return "ok"
}

// list sends the request with the cursor string through the real client session and reports the
// list member of the result as the server WROTE it.
func (w *pgWorld) list(method, cursor string) string {
	ctx, cancel := context.WithTimeout(context.Background(), 10*time.Second)
	defer cancel()
	rec := w.srvT
	if method == "roots/list" {
		// the registry is the client's; the result is what the CLIENT writes
		if err := w.second(); err != nil {
			return "setup-error"
		}
		rec = w.cliT2
	}
	rec.mu.Lock()
	before := len(rec.sent)
	rec.mu.Unlock()
	switch method {
	case "tools/list":
		w.cs.ListTools(ctx, &ListToolsParams{Cursor: cursor})
	case "prompts/list":
		w.cs.ListPrompts(ctx, &ListPromptsParams{Cursor: cursor})
	case "resources/list":
		w.cs.ListResources(ctx, &ListResourcesParams{Cursor: cursor})
	case "resources/templates/list":
		w.cs.ListResourceTemplates(ctx, &ListResourceTemplatesParams{Cursor: cursor})
	case "roots/list":
		if cursor != "" {
			return "bad-op"
		}
		w.ss2.ListRoots(ctx, nil)
	default:
		return "bad-op"
	}
	if ctx.Err() != nil {
		return "hang"
	}
	rec.mu.Lock()
	n := len(rec.sent)
	rec.mu.Unlock()
	if n == before {
		return "no-response"
	}
	v, err := parseJSON(rec.last())
	if err != nil {
		return "unparsable"
	}
	if _, isErr := v.get("error"); isErr {
		return "error"
	}
	res, ok := v.get("result")
	if !ok || res.k != 'o' {
		return "no-result"
	}
	names := pgMember[method]
	nc := "-"
	if c, ok := res.get("nextCursor"); ok && c.k == 's' && c.s != "" {
		tok, err := decodeCursor(c.s)
		if err != nil {
			return "bad-next-cursor"
		}
		nc = "s" + hxs(tok.LastUID)
	}
	l, ok := res.get(names[0])
	switch {
	case !ok:
		return "missing nc " + nc
	case l.k == 'z':
		return "null nc " + nc
	case l.k != 'a':
		return "other nc " + nc
	}
	out := []string{"arr", fmt.Sprint(len(l.a))}
	for _, it := range l.a {
		u, ok := it.get(names[1])
		if !ok || u.k != 's' {
			out = append(out, "?")
			continue
		}
		out = append(out, "s"+hxs(u.s))
	}
	return strings.Join(append(out, "nc", nc), " ")
}

// garbage cursors: strings that are not base64url, or not a gob stream of a pageToken
var pgGarbage = []string{"!", "not base64 !!", "AAAA", "e30", "eyJhIjoxfQ==", "%%%"}

// ------------------------------------------------------------------ applying the ops

// ndRWC: a byte string as the stream of an io connection (everything available at once)
type ndRWC struct{ r *bytes.Reader }

func (c ndRWC) Read(p []byte) (int, error)  { return c.r.Read(p) }
func (c ndRWC) Write(p []byte) (int, error) { return len(p), nil }
func (c ndRWC) Close() error                { return nil }

// ndSplit: the bytes through the reader goroutine of the REAL newIOConn (json.Decoder + the check of the byte
// that follows a value): the raw values it hands to ioConn.Read, in order, and how the stream ended.
func ndSplit(b []byte) (obs string) {
	defer func() {
		if r := recover(); r != nil {
			obs = "panic"
		}
	}()
	c := newIOConn(ndRWC{bytes.NewReader(b)})
	defer c.Close()
	var out []string
	for {
		select {
		case v := <-c.incoming:
			if v.err != nil {
				end := "other"
				switch {
				case errors.Is(v.err, io.EOF):
					end = "eof"
				case strings.Contains(v.err.Error(), "invalid trailing data"):
					end = "trailing"
				}
				return strings.Join(append(append([]string{fmt.Sprintf("n%d", len(out))}, out...), end), " ")
			}
			out = append(out, "x"+hx(v.msg))
		case <-time.After(5 * time.Second):
			return "hang"
		}
	}
}

// genNdStream: 1-4 frames (objects and arrays as the io generator makes them, plus texts with brackets, quotes and
// backslashes inside strings) each followed by what a peer may put after a frame: LF (70%), CRLF, LF and further
// white space; 8% something the SDK's reader refuses (a blank, nothing, a letter); the last frame in a quarter of
// the streams without anything after it.  At most 480 bytes (the decoder buffers 512 at once: the reader's check
// of the byte after a value looks at buffered bytes only).
func genNdStream(r *rand.Rand, g *ioGen) (string, []string) {
	tricky := []string{`{"a":"}\"]{[\\"}`, `[{"k":"[\"","v":["]","{"]},{}]`, `{"jsonrpc":"2.0","method":"a{b","params":{"s":"\\\"}"}}`, `{}`, `[[],[{}]]`}
	seps := []string{"\n", "\n", "\n", "\n", "\n", "\n", "\n", "\r\n", "\r\n", "\n\n \t", "\r\n\r\n", "\n  ", " ", "", "x"}
	var toks []string
	total := 0
	tags := []string{"nd:split"}
	n := 1 + r.Intn(4)
	for i := 0; i < n; i++ {
		var txt string
		if r.Intn(4) == 0 {
			txt = tricky[r.Intn(len(tricky))]
		} else {
			var used []jv
			v := g.frame(&used)
			if v.k != 'o' && v.k != 'a' {
				v = jObj()
			}
			txt = v.text()
		}
		sep := seps[r.Intn(len(seps))]
		if i == n-1 && r.Intn(4) == 0 {
			sep = ""
		}
		if total+len(txt)+len(sep) > 480 {
			break
		}
		total += len(txt) + len(sep)
		toks = append(toks, "x"+hx([]byte(txt)), "x"+hx([]byte(sep)))
		switch {
		case sep == "" && i < n-1, sep == " ", sep == "x":
			tags = append(tags, "nd:refused-separator")
		case strings.HasPrefix(sep, "\r"):
			tags = append(tags, "nd:crlf")
		}
	}
	if len(toks) == 0 {
		toks = []string{"x" + hx([]byte("{}")), "x" + hx([]byte("\n"))}
	}
	return strings.Join(toks, " "), tags
}

func (w *wireWorld) apply3(kind string, p *tokStream, op string) string {
	switch kind {
	case "nd.split":
		var buf bytes.Buffer
		for !p.done() {
			v, ok1 := unhex(strings.TrimPrefix(p.next(), "x"))
			ws, ok2 := unhex(strings.TrimPrefix(p.next(), "x"))
			if !ok1 || !ok2 {
				return "bad-op"
			}
			buf.WriteString(v)
			buf.WriteString(ws)
		}
		return ndSplit(buf.Bytes())
	case "sse.lines":
		var framed, lf bytes.Buffer
		for !p.done() {
			t := p.next()
			if t == "e" {
				rest, ok := unhex(strings.TrimPrefix(p.next(), "x"))
				if !ok || !p.done() {
					return "bad-op"
				}
				framed.WriteString(rest)
				lf.WriteString(rest)
				break
			}
			line, ok1 := unhex(strings.TrimPrefix(t, "x"))
			crlf, ok2 := p.eol()
			if !strings.HasPrefix(t, "x") || !ok1 || !ok2 {
				return "bad-op"
			}
			framed.WriteString(line + eolStr(crlf))
			lf.WriteString(line + "\n")
		}
		a, b := scanGuarded(framed.Bytes()), scanGuarded(lf.Bytes())
		for _, o := range []string{a, b} {
			if o == "panic" || o == "hang" {
				return o
			}
		}
		return "x" + hx(framed.Bytes()) + " " + a + " | " + b
	case "sse.frn":
		es, ok := p.fstream()
		if !ok {
			return "bad-op"
		}
		b := renderFStream(es)
		o := scanGuarded(b)
		if o == "panic" || o == "hang" {
			return o
		}
		return "x" + hx(b) + " " + o
	case "caps.clone":
		kind := p.next()
		var live []string
		for !p.done() {
			t := p.next()
			if i := strings.LastIndexByte(t, ':'); i > 0 {
				live = append(live, t[:i])
			}
		}
		return capsClone(kind, live)
	case "ann.rt":
		// ToolAnnotations through json.Marshal under the default encoding or MCPGODEBUG=hintomitempty=1 (the package
		// variable the SDK reads it into), then json.Unmarshal
		compat := p.next()
		ob := func(t string) (*bool, bool) {
			switch t {
			case "-":
				return nil, true
			case "t", "f":
				b := t == "t"
				return &b, true
			}
			return nil, false
		}
		dh, ok1 := ob(p.next())
		ih, ok2 := ob(p.next())
		oh, ok3 := ob(p.next())
		rh, ok4 := ob(p.next())
		title, ok5 := p.str()
		if !(ok1 && ok2 && ok3 && ok4 && ok5) || ih == nil || rh == nil || (compat != "0" && compat != "1") {
			return "bad-op"
		}
		saved := hintomitempty
		defer func() { hintomitempty = saved }()
		hintomitempty = ""
		if compat == "1" {
			hintomitempty = "1"
		}
		data, err := json.Marshal(ToolAnnotations{DestructiveHint: dh, IdempotentHint: *ih, OpenWorldHint: oh, ReadOnlyHint: *rh, Title: title})
		if err != nil {
			return "marshal-error"
		}
		v, err := parseJSON(data)
		if err != nil {
			return "unparsable"
		}
		var back ToolAnnotations
		if err := json.Unmarshal(data, &back); err != nil {
			return v.tok() + " | err"
		}
		sh := func(b *bool) string {
			if b == nil {
				return "-"
			}
			if *b {
				return "t"
			}
			return "f"
		}
		return fmt.Sprintf("%s | %s %s %s %s s%s", v.tok(), sh(back.DestructiveHint), sh(&back.IdempotentHint), sh(back.OpenWorldHint), sh(&back.ReadOnlyHint), hxs(back.Title))
	case "mrtr.retry":
		return mrtrRetry(p)
	case "ref.rt":
		t, ok1 := p.str()
		n, ok2 := p.str()
		u, ok3 := p.str()
		if !ok1 || !ok2 || !ok3 {
			return "bad-op"
		}
		data, err := json.Marshal(&CompleteReference{Type: t, Name: n, URI: u})
		if err != nil {
			return "refused " + refErrTok(err)
		}
		v, perr := parseJSON(data)
		if perr != nil {
			return "unparsable"
		}
		var back CompleteReference
		if err := json.Unmarshal(data, &back); err != nil {
			return "ok " + v.tok() + " | err " + refErrTok(err)
		}
		return "ok " + v.tok() + " | " + refTok(back)
	case "ref.dec":
		v, ok := p.jv()
		if !ok {
			return "bad-op"
		}
		var r CompleteReference
		if err := json.Unmarshal([]byte(v.text()), &r); err != nil {
			return "err " + refErrTok(err)
		}
		data, err := json.Marshal(&r)
		if err != nil {
			return refTok(r) + " | refused " + refErrTok(err)
		}
		w, perr := parseJSON(data)
		if perr != nil {
			return "unparsable"
		}
		return refTok(r) + " | " + w.tok()
	case "r.pg.new":
		var ps int
		if _, err := fmt.Sscanf(p.next(), "%d", &ps); err != nil || ps < 1 {
			return "bad-op"
		}
		if w.pg != nil {
			w.pg.close()
			w.pg = nil
		}
		n, err := newPgWorld(ps)
		if err != nil {
			return "setup-error"
		}
		w.pg = n
		return "ok"
	case "r.pg.add", "r.pg.rm":
		if w.pg == nil {
			return "bad-op"
		}
		method := p.next()
		var uids []string
		for !p.done() {
			u, ok := p.str()
			if !ok {
				return "bad-op"
			}
			uids = append(uids, u)
		}
		if kind == "r.pg.add" {
			return w.pg.add(method, uids)
		}
		return w.pg.remove(method, uids)
	case "r.pg.list":
		if w.pg == nil {
			return "bad-op"
		}
		method, cur := p.next(), p.next()
		cursor := ""
		switch {
		case cur == "-":
		case strings.HasPrefix(cur, "c"):
			uid, ok := unhex(cur[1:])
			if !ok {
				return "bad-op"
			}
			// what the server itself issues for that uid (a stale cursor and a forged one are the same string)
			c, err := encodeCursor(uid)
			if err != nil {
				return "bad-op"
			}
			cursor = c
		case strings.HasPrefix(cur, "g"):
			g, ok := unhex(cur[1:])
			if !ok {
				return "bad-op"
			}
			cursor = g
		default:
			return "bad-op"
		}
		return guarded(15*time.Second, func() string { return w.pg.list(method, cursor) })
	}
	return "bad-op"
}

// ------------------------------------------------------------------ capabilities: clone shares nothing mutable

// capCell: a pointer-to-struct or map member reachable from a capabilities struct without passing through a map
// value (those are shared by design): the parts a holder of the value can write through.
type capCell struct {
	path    string
	idx     [][]int // field index chain: each step is a FieldByIndex followed (except the last) by a pointer deref
	mutable bool    // a map, or a pointee with a field to change (an empty struct cannot alias observably)
}

func capCellsOf(t reflect.Type, prefix string, chain [][]int, cur []int, out *[]capCell) {
	for i := 0; i < t.NumField(); i++ {
		f := t.Field(i)
		if !f.IsExported() {
			continue
		}
		at := append(append([]int{}, cur...), i)
		name := prefix + f.Name
		switch f.Type.Kind() {
		case reflect.Map:
			*out = append(*out, capCell{name, append(append([][]int{}, chain...), at), true})
		case reflect.Pointer:
			if f.Type.Elem().Kind() == reflect.Struct {
				c := capCell{name, append(append([][]int{}, chain...), at), f.Type.Elem().NumField() > 0 && f.Type.Elem().Size() > 0}
				*out = append(*out, c)
				capCellsOf(f.Type.Elem(), name+".", c.idx, nil, out)
			}
		case reflect.Struct:
			capCellsOf(f.Type, name+".", chain, at, out)
		}
	}
}

// at: the member the cell names inside root (a struct value); ok=false if a pointer on the way is nil
func (c capCell) at(root reflect.Value) (reflect.Value, bool) {
	v := root
	for i, step := range c.idx {
		v = v.FieldByIndex(step)
		if i+1 < len(c.idx) {
			if v.IsNil() {
				return reflect.Value{}, false
			}
			v = v.Elem()
		}
	}
	return v, true
}

func capDump(v reflect.Value) string {
	switch v.Kind() {
	case reflect.Pointer, reflect.Interface:
		if v.IsNil() {
			return "nil"
		}
		return "&" + capDump(v.Elem())
	case reflect.Struct:
		var b strings.Builder
		b.WriteString("{")
		for i := 0; i < v.NumField(); i++ {
			if v.Type().Field(i).IsExported() {
				b.WriteString(v.Type().Field(i).Name + ":" + capDump(v.Field(i)) + " ")
			}
		}
		return b.String() + "}"
	case reflect.Map:
		if v.IsNil() {
			return "nilmap"
		}
		var ks []string
		for _, k := range v.MapKeys() {
			ks = append(ks, fmt.Sprint(k.Interface())+"="+capDump(v.MapIndex(k)))
		}
		sort.Strings(ks)
		return "map[" + strings.Join(ks, ",") + "]"
	case reflect.Slice:
		var b strings.Builder
		for i := 0; i < v.Len(); i++ {
			b.WriteString(capDump(v.Index(i)) + ",")
		}
		return "[" + b.String() + "]"
	}
	return fmt.Sprintf("%#v", v.Interface())
}

// capMutate: write through the cell — a new key into a map, a changed field of a pointee
func capMutate(v reflect.Value, tag string) {
	switch v.Kind() {
	case reflect.Map:
		ev := reflect.New(v.Type().Elem()).Elem()
		if ev.Kind() == reflect.Interface {
			ev.Set(reflect.ValueOf("mut-" + tag))
		}
		v.SetMapIndex(reflect.ValueOf("zz-"+tag), ev)
	case reflect.Pointer:
		e := v.Elem()
		for i := 0; i < e.NumField(); i++ {
			f := e.Field(i)
			if !f.CanSet() {
				continue
			}
			switch f.Kind() {
			case reflect.Bool:
				f.SetBool(!f.Bool())
				return
			case reflect.String:
				f.SetString(f.String() + "+" + tag)
				return
			case reflect.Int, reflect.Int64:
				f.SetInt(f.Int() + 1)
				return
			}
		}
	}
}

func capsNew(kind string) (root reflect.Value, clone func() reflect.Value, addExt func(reflect.Value), ok bool) {
	switch kind {
	case "client":
		c := &ClientCapabilities{}
		return reflect.ValueOf(c).Elem(), func() reflect.Value { return reflect.ValueOf(c.clone()).Elem() },
			func(v reflect.Value) { v.Addr().Interface().(*ClientCapabilities).AddExtension("zz-ext", nil) }, true
	case "server":
		c := &ServerCapabilities{}
		return reflect.ValueOf(c).Elem(), func() reflect.Value { return reflect.ValueOf(c.clone()).Elem() },
			func(v reflect.Value) { v.Addr().Interface().(*ServerCapabilities).AddExtension("zz-ext", nil) }, true
	}
	return reflect.Value{}, nil, nil, false
}

func capsCells(kind string) []capCell {
	root, _, _, ok := capsNew(kind)
	if !ok {
		return nil
	}
	var cells []capCell
	capCellsOf(root.Type(), "", nil, nil, &cells)
	return cells
}

// capsClone: a capabilities value whose cells named in live are set (maps with an entry, pointees with their
// booleans set); clone it; write through every cell of the clone, then through every cell of the original, and
// look at the other one each time; AddExtension on the clone.
func capsClone(kind string, live []string) string {
	root, clone, addExt, ok := capsNew(kind)
	if !ok {
		return "bad-op"
	}
	cells := capsCells(kind)
	want := map[string]bool{}
	for _, l := range live {
		want[l] = true
	}
	for _, c := range cells {
		v, ok := c.at(root)
		if !ok || !want[c.path] {
			continue
		}
		switch v.Kind() {
		case reflect.Map:
			m := reflect.MakeMap(v.Type())
			ev := reflect.New(v.Type().Elem()).Elem()
			if ev.Kind() == reflect.Interface {
				ev.Set(reflect.ValueOf(map[string]any{"deep": "shared by design"}))
			}
			m.SetMapIndex(reflect.ValueOf("k-"+c.path), ev)
			v.Set(m)
		case reflect.Pointer:
			n := reflect.New(v.Type().Elem())
			for i := 0; i < n.Elem().NumField(); i++ {
				if f := n.Elem().Field(i); f.CanSet() && f.Kind() == reflect.Bool {
					f.SetBool(true)
				}
			}
			v.Set(n)
		}
	}
	d0 := capDump(root)
	cp := clone()
	same := capDump(cp) == d0
	n, aliased := 0, 0
	var where []string
	for _, c := range cells {
		v, ok := c.at(cp)
		if !ok || v.IsNil() || !c.mutable {
			continue
		}
		n++
		capMutate(v, "clone")
		if capDump(root) != d0 {
			aliased++
			where = append(where, c.path)
			return fmt.Sprintf("cells %d same %v aliased %d ext - at %s", n, same, aliased, strings.Join(where, ","))
		}
	}
	dcp := capDump(cp)
	for _, c := range cells {
		v, ok := c.at(root)
		if !ok || v.IsNil() || !c.mutable {
			continue
		}
		capMutate(v, "orig")
		if capDump(cp) != dcp {
			aliased++
			where = append(where, c.path)
			return fmt.Sprintf("cells %d same %v aliased %d ext - at %s", n, same, aliased, strings.Join(where, ","))
		}
	}
	// AddExtension on the clone: stored as an empty non-nil object, invisible in the original
	d1 := capDump(root)
	addExt(cp)
	ext := "ok"
	if capDump(root) != d1 {
		ext = "aliased"
	} else if !strings.Contains(capDump(cp), "zz-ext=&map[]") {
		ext = "not-stored"
	}
	return fmt.Sprintf("cells %d same %v aliased %d ext %s", n, same, aliased, ext)
}

// genCapsOp: which cells are set (a child only under a set parent); the op names every cell with its class
func genCapsOp(r *rand.Rand, kind string, all bool) (string, []string) {
	cells := capsCells(kind)
	set := map[string]bool{}
	toks := []string{}
	n := 0
	for _, c := range cells {
		parent := ""
		if i := strings.LastIndexByte(c.path, '.'); i > 0 {
			parent = c.path[:i]
		}
		parentSet := parent == "" || set[parent]
		if _, isCell := func() (capCell, bool) {
			for _, x := range cells {
				if x.path == parent {
					return x, true
				}
			}
			return capCell{}, false
		}(); !isCell {
			parentSet = true // the parent is a plain struct member, not a cell
		}
		if parentSet && (all || r.Intn(3) > 0) {
			set[c.path] = true
			cls := "z"
			if c.mutable {
				cls = "m"
				n++
			}
			toks = append(toks, c.path+":"+cls)
		}
	}
	return strings.TrimSpace("caps.clone " + kind + " " + strings.Join(toks, " ")), []string{"caps:clone", "caps:" + kind, fmt.Sprintf("caps-cells:%d", n)}
}

// ------------------------------------------------------------------ multi round trip: the retried request

// mrtrRetry: `mrtr.retry <tool|toolraw|prompt|resource> s<state> (s<key> <roots|elicit|sampling|samplingt> <J body>)*`.
// The bodies become typed InputResponse values; setMultiRoundTripRetryParams puts them and the state on a request
// of the method; observed: the two members of the marshalled params, and what decoding those params again gives.
func mrtrRetry(p *tokStream) string {
	method := p.next()
	state, ok := p.str()
	if !ok {
		return "bad-op"
	}
	responses := InputResponseMap{}
	for !p.done() {
		k, ok1 := p.str()
		kind := p.next()
		body, ok2 := p.jv()
		if !ok1 || !ok2 {
			return "bad-op"
		}
		var v InputResponse
		switch kind {
		case "roots":
			v = &ListRootsResult{}
		case "elicit":
			v = &ElicitResult{}
		case "sampling":
			v = &CreateMessageResult{}
		case "samplingt":
			v = &CreateMessageWithToolsResult{}
		default:
			return "bad-op"
		}
		if err := json.Unmarshal([]byte(body.text()), v); err != nil {
			return "bad-op"
		}
		responses[k] = v
	}
	if len(responses) == 0 {
		responses = nil
	}
	var req Request
	var params, back any
	switch method {
	case "tool":
		x := &CallToolParams{Name: "t"}
		req, params, back = &ClientRequest[*CallToolParams]{Params: x}, x, &CallToolParams{}
	case "toolraw":
		x := &CallToolParamsRaw{Name: "t"}
		req, params, back = &ClientRequest[*CallToolParamsRaw]{Params: x}, x, &CallToolParamsRaw{}
	case "prompt":
		x := &GetPromptParams{Name: "p"}
		req, params, back = &ClientRequest[*GetPromptParams]{Params: x}, x, &GetPromptParams{}
	case "resource":
		x := &ReadResourceParams{URI: "file:///r"}
		req, params, back = &ClientRequest[*ReadResourceParams]{Params: x}, x, &ReadResourceParams{}
	default:
		return "bad-op"
	}
	setMultiRoundTripRetryParams(req, responses, state)
	data, err := json.Marshal(params)
	if err != nil {
		return "marshal-error"
	}
	v, err := parseJSON(data)
	if err != nil {
		return "unparsable"
	}
	member := func(k string) string {
		if m, ok := v.get(k); ok {
			return m.tok()
		}
		return "-"
	}
	out := member("inputResponses") + " " + member("requestState") + " | "
	if err := json.Unmarshal(data, back); err != nil {
		return out + "err"
	}
	var m InputResponseMap
	var st string
	switch x := back.(type) {
	case *CallToolParams:
		m, st = x.InputResponses, x.RequestState
	case *CallToolParamsRaw:
		m, st = x.InputResponses, x.RequestState
	case *GetPromptParams:
		m, st = x.InputResponses, x.RequestState
	case *ReadResourceParams:
		m, st = x.InputResponses, x.RequestState
	}
	keys := make([]string, 0, len(m))
	for k := range m {
		keys = append(keys, k)
	}
	sort.Strings(keys)
	parts := []string{"ok", "s" + hxs(st)}
	for _, k := range keys {
		kind := "?"
		switch m[k].(type) {
		case *ListRootsResult:
			kind = "roots"
		case *ElicitResult:
			kind = "elicit"
		case *CreateMessageWithToolsResult, *CreateMessageResult:
			kind = "sampling"
		}
		parts = append(parts, "s"+hxs(k), kind)
	}
	return out + strings.Join(parts, " ")
}

// genRetry: a retry op — 0-3 fulfilled responses (typed values of the SDK, marshalled: the canonical bodies) under
// distinct keys, and a request state (any string, also empty)
func genRetry(r *rand.Rand) (string, []string) {
	method := []string{"tool", "toolraw", "prompt", "resource"}[r.Intn(4)]
	state := ""
	if r.Intn(4) > 0 {
		state = genStr(r)
	}
	op := "mrtr.retry " + method + " s" + hxs(state)
	tags := []string{"mrtr:retry", "mrtr:" + method}
	if state == "" {
		tags = append(tags, "mrtr:no-state")
	}
	n := r.Intn(4)
	if n == 0 {
		tags = append(tags, "mrtr:no-responses")
	}
	for i := 0; i < n; i++ {
		var v any
		kind := ""
		switch r.Intn(4) {
		case 0:
			kind = "roots"
			x := &ListRootsResult{}
			if r.Intn(5) > 0 {
				x.Roots = []*Root{}
				for j, m := 0, r.Intn(3); j < m; j++ {
					x.Roots = append(x.Roots, &Root{URI: "file:///" + fmt.Sprint(j), Name: genStr(r)})
				}
			}
			v = x
		case 1:
			kind = "elicit"
			x := &ElicitResult{Action: []string{"accept", "decline", "cancel", "Accept"}[r.Intn(4)]}
			if r.Intn(2) == 0 {
				x.Content = map[string]any{genStr(r): genStr(r), "n": float64(r.Intn(100)), "ok": r.Intn(2) == 0}
			}
			v = x
		case 2:
			kind = "sampling"
			v = &CreateMessageResult{Role: "assistant", Model: genStr(r), Content: &TextContent{Text: genStr(r)}, StopReason: []string{"", "endTurn", "MaxTokens"}[r.Intn(3)]}
		default:
			kind = "samplingt"
			v = &CreateMessageWithToolsResult{Role: "assistant", Model: genStr(r), Content: []Content{&TextContent{Text: genStr(r)}}}
		}
		data, err := json.Marshal(v)
		if err != nil {
			continue
		}
		body, err := parseJSON(data)
		if err != nil {
			continue
		}
		op += fmt.Sprintf(" s%s %s %s", hxs(fmt.Sprintf("%s#%d", genStr(r), i)), kind, body.tok())
		tags = append(tags, "mrtr:"+kind)
	}
	return op, tags
}

// ------------------------------------------------------------------ the CompleteReference codec

func refTok(r CompleteReference) string {
	return fmt.Sprintf("ok s%s s%s s%s", hxs(r.Type), hxs(r.Name), hxs(r.URI))
}

func refErrTok(err error) string {
	m := err.Error()
	switch {
	case strings.Contains(m, "must not have a URI"):
		return "prompt-with-uri"
	case strings.Contains(m, "must not have a Name"):
		return "resource-with-name"
	case strings.Contains(m, "unrecognized"):
		return "unknown-type"
	}
	return "other"
}

var (
	refTypes = []string{"ref/prompt", "ref/resource", "ref/prompt", "ref/resource", "", "ref/tool", "REF/PROMPT", "ref/prompt ", "prompt"}
	refNames = []string{"", "", "p", "greet", "é", "a b", "file:///x"}
	refURIs  = []string{"", "", "file:///x", "file:///t/{id}", "u", "p"}
)

// genRefJSON: a JSON value offered to CompleteReference.UnmarshalJSON: mostly objects with type / name / uri
// members that are strings, null, absent or of another type, in any order, with unknown members and
// members whose names differ in case only; sometimes no object at all.
func genRefJSON(r *rand.Rand) (jv, []string) {
	if r.Intn(12) == 0 {
		return []jv{jNull(), jArr(), jStr("ref/prompt"), jInt(1), jBool(true)}[r.Intn(5)], []string{"ref:no-object"}
	}
	var mem []jmem
	tags := []string{}
	put := func(k string, vals []string) {
		switch c := r.Intn(12); {
		case c < 7:
			mem = append(mem, jmem{k, jStr(vals[r.Intn(len(vals))])})
		case c < 9: // absent
		case c < 10:
			mem = append(mem, jmem{k, jNull()})
			tags = append(tags, "ref:null-member")
		case c < 11:
			mem = append(mem, jmem{k, []jv{jInt(1), jBool(false), jArr(), jObj()}[r.Intn(4)]})
			tags = append(tags, "ref:mistyped-member")
		default:
			if f, ok := flipCase(k); ok {
				mem = append(mem, jmem{f, jStr(vals[r.Intn(len(vals))])})
				tags = append(tags, "ref:case-variant")
			}
		}
	}
	put("type", refTypes)
	put("name", refNames)
	put("uri", refURIs)
	if r.Intn(4) == 0 {
		mem = append(mem, jmem{"x-unknown", genJ(r, 1)})
	}
	r.Shuffle(len(mem), func(i, j int) { mem[i], mem[j] = mem[j], mem[i] })
	return jObj(mem...), tags
}

// ------------------------------------------------------------------ generators: foreign event streams

var (
	fsseVals  = []string{"", "message", "42", "a:b", "x y", "é", `{"a":1}`, "evt_1", `{"jsonrpc":"2.0","id":1,"result":{}}`, "[1,", "2]", "a\rb", "3000"}
	fssePads  = []string{" ", " ", " ", "", "  ", "\t", " \t "}
	fsseKeys  = []string{"data", "data", "data", "event", "id", "retry"}
	fsseOther = []string{"", "", "x-unknown", "Data", " data", "data ", "event\r", "DATA", "comment"}
)

// genFLine: a line of a well-formed foreign event (clean) or a line that bends the rules (value with
// blanks at its ends, CR inside the pad …: model and implementation must still agree).
func genFLine(r *rand.Rand, crlfP int, clean bool) fline {
	l := fline{crlf: r.Intn(100) < crlfP}
	switch r.Intn(10) {
	case 0, 1: // comment or unknown field: the value is arbitrary
		l.key = fsseOther[r.Intn(len(fsseOther))]
		l.pad = []string{"", " ", "\t"}[r.Intn(3)]
		l.val = []string{"", "keep-alive", " padded ", "a:b:c", "\r", "x\r", "\xff\xfe", ":"}[r.Intn(8)]
	default:
		l.key = fsseKeys[r.Intn(len(fsseKeys))]
		l.pad = fssePads[r.Intn(len(fssePads))]
		if r.Intn(3) == 0 {
			l.val = genJ(r, 2).text()
		} else {
			l.val = fsseVals[r.Intn(len(fsseVals))]
		}
		if !clean && r.Intn(2) == 0 {
			l.val = []string{" lead", "trail ", "trail\r", "\ttab\t", "\u00a0nbsp", "\r", " "}[r.Intn(7)]
		}
		if !clean && r.Intn(4) == 0 {
			l.pad = []string{"\r", " \r ", "\v", "\u3000"}[r.Intn(4)]
		}
	}
	return l
}

func genFStream(r *rand.Rand, clean bool) ([]fevent, []string) {
	crlfP := []int{0, 100, 100, 50, 50, 20}[r.Intn(6)]
	var es []fevent
	for n := 1 + r.Intn(4); n > 0; n-- {
		e := fevent{crlf: r.Intn(100) < crlfP}
		for k := r.Intn(6); k > 0; k-- {
			e.lines = append(e.lines, genFLine(r, crlfP, clean))
		}
		es = append(es, e)
	}
	return es, fstreamTags(es, clean)
}

func fstreamTags(es []fevent, clean bool) []string {
	var nl, ncr, multi, comment bool
	for _, e := range es {
		nd := 0
		eols := []bool{e.crlf}
		for _, l := range e.lines {
			eols = append(eols, l.crlf)
			if l.key == "data" {
				nd++
			}
			if l.key == "" {
				comment = true
			}
		}
		if nd > 1 {
			multi = true
		}
		for _, c := range eols {
			if c {
				ncr = true
			} else {
				nl = true
			}
		}
	}
	tags := []string{"sse:foreign"}
	switch {
	case ncr && nl:
		tags = append(tags, "eol:mixed")
	case ncr:
		tags = append(tags, "eol:crlf")
	default:
		tags = append(tags, "eol:lf")
	}
	if multi {
		tags = append(tags, "sse:multi-line-data")
	}
	if comment {
		tags = append(tags, "sse:comment")
	}
	if !clean {
		tags = append(tags, "sse:unclean")
	}
	return tags
}

// genSSELines: arbitrary LF-free lines (field lines, blank lines, garbage), each with its own line end.
func genSSELines(r *rand.Rand) (string, []string) {
	lines := []string{"data: {}", "data:x", "data:  two", "data: a", "data: b", "event: e", "id: 7", "id:", "retry: 10", "", "", "", ":comment", ":", "nocolon", "data",
		" data: x", "Data: x", "data : x", "event: n", "data: x\r", "\r", "data: \xff\xfe", "unknown: v", "id: a:b:c", "data: {\"jsonrpc\":\"2.0\",\"id\":1,\"result\":{}}", "event: message"}
	crlfP := []int{100, 50, 50, 15}[r.Intn(4)]
	var toks []string
	ncr := 0
	n := 1 + r.Intn(10)
	for i := 0; i < n; i++ {
		l := lines[r.Intn(len(lines))]
		if r.Intn(12) == 0 {
			l = strings.ReplaceAll(string(mutateBytes(r, []byte(l))), "\n", "")
		}
		crlf := r.Intn(100) < crlfP
		if crlf {
			ncr++
		}
		toks = append(toks, "x"+hxs(l), eolTok(crlf))
	}
	tags := []string{"sse:lines", "eol:mixed"}
	if ncr == n {
		tags[1] = "eol:crlf"
	} else if ncr == 0 {
		tags[1] = "eol:lf"
	}
	if r.Intn(4) == 0 {
		toks = append(toks, "e", "x"+hxs(lines[r.Intn(len(lines))]))
		tags = append(tags, "sse:unterminated")
	}
	return strings.Join(toks, " "), tags
}

// fixedFStreams: one message event in every combination of line end x framing feature.
func fixedFStreams() [][]fevent {
	payload := `{"jsonrpc":"2.0","id":1,"result":{}}`
	var out [][]fevent
	for eol := 0; eol < 3; eol++ {
		k := 0
		c := func() bool { // the line end of the next line
			k++
			return eol == 1 || (eol == 2 && k%2 == 1)
		}
		ln := func(key, pad, val string) fline { return fline{key, pad, val, c()} }
		ev := func(ls ...fline) fevent { return fevent{ls, c()} }
		out = append(out,
			[]fevent{ev(ln("event", " ", "message"), ln("data", " ", payload))},
			[]fevent{ev(ln("data", " ", payload))},
			[]fevent{ev(ln("data", " ", payload)), ev(ln("data", " ", "2"))},
			[]fevent{ev(ln("", "", " keep-alive")), ev(ln("", "", "")), ev(ln("event", " ", "message"), ln("", "", "c"), ln("data", " ", payload))},
			[]fevent{ev(ln("id", " ", "7"), ln("retry", " ", "3000"), ln("event", " ", "message"), ln("data", " ", payload))},
			[]fevent{ev(ln("data", "", payload), ln("event", "", "message"), ln("id", "", "a:b"))},
			[]fevent{ev(ln("event", " ", "other"), ln("data", " ", payload[:1]), ln("event", " ", "message"), ln("data", " ", payload[1:]), ln("data", "", ""))},
			[]fevent{ev(ln("x-unknown", " ", "v"), ln("data", "\t", payload), ln("Data", " ", "ignored"))},
			[]fevent{ev(), ev(ln("data", "  ", payload)), ev(), ev()},
			[]fevent{ev(ln("retry", " ", "10")), ev(ln("id", " ", "9"))},
		)
	}
	return out
}

// ------------------------------------------------------------------ generators: paged lists

var pgMethods = []string{"tools/list", "prompts/list", "resources/list", "resources/templates/list"}

// pgUID: the unique id of feature number i of a method (tool names are restricted to [A-Za-z0-9_.-]).
func pgUID(method string, name string) string {
	switch method {
	case "resources/list":
		return "file:///" + name
	case "resources/templates/list":
		return "file:///t/" + name + "{?q}"
	case "roots/list":
		return "file:///roots/" + name
	}
	return name
}

// histories: a registry that is listed whole (the client's roots) through every kind of add / remove
// history of up to n items: never touched; filled; emptied one by one (the LAST item removed), all at
// once, by a removal that names absent items too; refilled; each state listed twice (a cached answer).
func (g *pgGen) histories(method string, n int, connectFirst bool) {
	step := g.step
	var keys []string
	for i := 0; i < n; i++ {
		keys = append(keys, pgUID(method, pgNames[(i*5+n)%len(pgNames)]))
	}
	list := func(how string) {
		step("r.pg.list "+method+" -", pgListTags(method, how)...)
	}
	step("r.pg.new 1")
	if connectFirst {
		list("untouched")
	}
	step("r.pg.rm "+method+" s"+hxs(pgUID(method, "absent")), "page:rm")
	if connectFirst {
		list("untouched")
	}
	if n == 0 {
		list("untouched")
		return
	}
	step("r.pg.add "+method+" "+sTok(keys), "page:add")
	if connectFirst {
		list("filled")
	}
	for i, k := range keys { // one by one, down to the last
		step("r.pg.rm "+method+" s"+hxs(k), "page:rm")
		if connectFirst || i == len(keys)-1 {
			how := "shrunk"
			if i == len(keys)-1 {
				how = "emptied"
			}
			list(how)
			list(how)
		}
	}
	step("r.pg.add "+method+" "+sTok(keys), "page:add")
	list("filled")
	step("r.pg.rm "+method+" "+sTok(append([]string{pgUID(method, "absent")}, keys...)), "page:rm")
	list("emptied")
	step("r.pg.add "+method+" "+sTok(keys[:1]), "page:add")
	list("filled")
}

var pgNames = []string{"A", "B9", "Z", "_x", "a", "a-", "a.b", "aa", "ab", "b", "k01", "k02", "k10", "k2", "m", "zz"}

// pgProbe: uids around the keys — each key, a uid just below and just above it, below all, beyond all.
func pgProbes(method string, keys []string) []string {
	seen := map[string]bool{}
	var out []string
	add := func(s string) {
		if !seen[s] {
			seen[s] = true
			out = append(out, s)
		}
	}
	add("")
	add(pgUID(method, "")) // a prefix of every uid of the method: below all
	for _, k := range keys {
		add(k)
		add(k + "0") // directly above k
		if len(k) > 0 {
			add(k[:len(k)-1]) // a proper prefix: below k
		}
	}
	add("~~~~")
	add("\xff")
	return out
}

type pgGen struct {
	r    *rand.Rand
	step stepper
}

func sTok(uids []string) string {
	var t []string
	for _, u := range uids {
		t = append(t, "s"+hxs(u))
	}
	return strings.Join(t, " ")
}

// nextCursorOf: the uid the response's nextCursor names ("" if none / no array)
func nextCursorOf(obs string) (string, bool) {
	f := strings.Fields(obs)
	for i, t := range f {
		if t == "nc" && i+1 < len(f) && strings.HasPrefix(f[i+1], "s") {
			return unhex(f[i+1][1:])
		}
	}
	return "", false
}

func pgListTags(method, how string) []string {
	return []string{"page:" + method, "cursor:" + how}
}

// sweep: a registry of n items under page size ps; the first page, then a cursor at every probe
// position; then the chain of issued cursors; then the stale cursor: page 1, everything above its
// cursor removed, page 2.
func (g *pgGen) sweep(method string, ps, n int) {
	step := g.step
	var keys []string
	for i := 0; i < n; i++ {
		keys = append(keys, pgUID(method, pgNames[(i*5+n)%len(pgNames)]))
	}
	sort.Strings(keys)
	keys = uniqStrings(keys)
	step(fmt.Sprintf("r.pg.new %d", ps))
	if len(keys) > 0 {
		step("r.pg.add "+method+" "+sTok(keys), "page:add")
	}
	step("r.pg.list "+method+" -", pgListTags(method, "none")...)
	for _, u := range pgProbes(method, keys) {
		step("r.pg.list "+method+" c"+hxs(u), pgListTags(method, "forged")...)
	}
	// follow the issued cursors to the end
	obs := step("r.pg.list "+method+" -", pgListTags(method, "none")...)
	for i := 0; i < n+2; i++ {
		u, ok := nextCursorOf(obs)
		if !ok {
			break
		}
		obs = step("r.pg.list "+method+" c"+hxs(u), pgListTags(method, "issued")...)
	}
	// stale: page 1, remove what is above its cursor, ask for page 2; then remove the cursor's own item too
	obs = step("r.pg.list "+method+" -", pgListTags(method, "none")...)
	if u, ok := nextCursorOf(obs); ok {
		var above []string
		for _, k := range keys {
			if k > u {
				above = append(above, k)
			}
		}
		step("r.pg.rm "+method+" "+sTok(above), "page:rm")
		step("r.pg.list "+method+" c"+hxs(u), pgListTags(method, "stale")...)
		step("r.pg.rm "+method+" s"+hxs(u), "page:rm")
		step("r.pg.list "+method+" c"+hxs(u), pgListTags(method, "stale")...)
		step("r.pg.add "+method+" "+sTok(above[:len(above)/2]), "page:add")
		step("r.pg.list "+method+" c"+hxs(u), pgListTags(method, "stale")...)
	}
	for _, gb := range pgGarbage[:2] {
		step("r.pg.list "+method+" g"+hxs(gb), pgListTags(method, "garbage")...)
	}
	step("r.pg.list "+method+" g", pgListTags(method, "empty-string")...)
}

func uniqStrings(s []string) []string {
	var out []string
	for i, x := range s {
		if i == 0 || x != s[i-1] {
			out = append(out, x)
		}
	}
	return out
}

// random: a session with random registries of the four kinds; pages are fetched along issued
// cursors while items are removed and added in between; forged cursors anywhere.
func (g *pgGen) random() {
	r, step := g.r, g.step
	ps := 1 + r.Intn(4)
	step(fmt.Sprintf("r.pg.new %d", ps))
	keys := map[string]map[string]bool{}
	sorted := func(m string) []string {
		var l []string
		for k := range keys[m] {
			l = append(l, k)
		}
		sort.Strings(l)
		return l
	}
	pick := func(m string, n int) []string {
		var l []string
		for ; n > 0; n-- {
			l = append(l, pgUID(m, pgNames[r.Intn(len(pgNames))]))
		}
		return l
	}
	last := map[string]string{} // method -> uid of the last issued cursor
	has := map[string]bool{}
	pgMethods := append(append([]string{}, pgMethods...), "roots/list") // the client's registry too (listed whole)
	for _, m := range pgMethods {
		keys[m] = map[string]bool{}
		if r.Intn(4) > 0 {
			l := pick(m, r.Intn(3*ps+3))
			if len(l) > 0 {
				step("r.pg.add "+m+" "+sTok(l), "page:add")
				for _, k := range l {
					keys[m][k] = true
				}
			}
		}
	}
	for i, n := 0, 4+r.Intn(10); i < n; i++ {
		m := pgMethods[r.Intn(len(pgMethods))]
		switch c := r.Intn(10); {
		case c < 2:
			l := pick(m, 1+r.Intn(3))
			step("r.pg.add "+m+" "+sTok(l), "page:add")
			for _, k := range l {
				keys[m][k] = true
			}
		case c < 5:
			// remove: a random item, or everything above the last issued cursor, or everything
			var l []string
			ks := sorted(m)
			switch r.Intn(4) {
			case 0:
				l = ks
			case 1, 2:
				for _, k := range ks {
					if has[m] && k > last[m] {
						l = append(l, k)
					}
				}
			}
			if len(l) == 0 && len(ks) > 0 {
				l = []string{ks[r.Intn(len(ks))]}
			}
			if len(l) == 0 {
				l = pick(m, 1)
			}
			step("r.pg.rm "+m+" "+sTok(l), "page:rm")
			for _, k := range l {
				delete(keys[m], k)
			}
		default:
			cur, how := "-", "none"
			switch c := r.Intn(10); {
			case m == "roots/list":
			case c < 5 && has[m]:
				cur, how = "c"+hxs(last[m]), "issued"
			case c < 8:
				ps := pgProbes(m, sorted(m))
				cur, how = "c"+hxs(ps[r.Intn(len(ps))]), "forged"
			case c < 9:
				cur, how = "g"+hxs(pgGarbage[r.Intn(len(pgGarbage))]), "garbage"
			}
			obs := step("r.pg.list "+m+" "+cur, pgListTags(m, how)...)
			if u, ok := nextCursorOf(obs); ok {
				last[m], has[m] = u, true
			} else if strings.HasPrefix(obs, "arr") {
				has[m] = false
			}
		}
	}
}
