// E9 (C13) correspondence harness: the real startKeepalive under testing/synctest virtual time,
// (a) with a scripted keepaliveSession whose Ping blocks for a scripted virtual duration and honours
// its context — or, on script, OVERRUNS it: returns only after a duration beyond its deadline, the way a
// jsonrpc2 call does whose transport write is blocked because the peer does not read —, (b) through real ServerSession / ClientSession objects (KeepAlive and
// KeepAliveFailureThreshold options) against a raw JSON-RPC peer that answers or drops pings on script.
package mcp

import (
	"context"
	"encoding/json"
	"errors"
	"fmt"
	"log/slog"
	"math/rand"
	"os"
	"runtime"
	"slices"
	"sort"
	"strconv"
	"strings"
	"sync"
	"testing"
	"testing/synctest"
	"time"

	"github.com/modelcontextprotocol/go-sdk/internal/jsonrpc2"
	"github.com/modelcontextprotocol/go-sdk/jsonrpc"
)

type kaStep struct {
	kind byte  // 'a' answer, 'm' method-not-found, 'e' other error, 'n' never reacts; 'A' 'M' 'E': the same results from a Ping that ignores its deadline
	d    int64 // ns after the ping was issued
}

func (st kaStep) overruns() bool { return st.kind == 'A' || st.kind == 'M' || st.kind == 'E' }

// kaDur: how long the ping of this step lasts (interval I).
func (st kaStep) dur(I int64) int64 {
	if st.overruns() {
		return st.d
	}
	if st.kind == 'n' || st.d >= I/2 {
		return I / 2
	}
	return st.d
}

// kaSchedule: the instants at which a loop that goes on pinging issues the pings of script and at which
// they end (generator aid: used to place the cancellation and to keep ends off the tick grid).
func kaSchedule(I int64, script []kaStep) (starts, ends []int64) {
	last, free := int64(0), int64(0)
	for _, st := range script {
		p := (last/I + 1) * I
		if free > p {
			p = free
		}
		starts, ends = append(starts, p), append(ends, p+st.dur(I))
		last, free = p, p+st.dur(I)
	}
	return
}

// kaOffGrid lengthens overruns so that no ping ends on a tick instant that fires while it is in flight (a
// ping that ends exactly when a tick fires leaves the order of the two to the scheduler).  Pings that
// honour their deadline and are issued on a tick end before the next one; others are issued the moment
// an overrunning ping ends, so lengthening that one moves them.
func kaOffGrid(I int64, script []kaStep) {
	for iter := 0; iter < 10000; iter++ {
		starts, ends := kaSchedule(I, script)
		bad := -1
		for i := range script {
			if ends[i]%I == 0 && ends[i] > starts[i] {
				bad = i
				break
			}
		}
		for bad >= 0 && !script[bad].overruns() {
			bad--
		}
		if bad < 0 {
			return
		}
		script[bad].d++
	}
}

// kaFreeInstant moves tc forward to an instant that is neither a tick nor the start or end of a ping.
func kaFreeInstant(I int64, script []kaStep, tc int64) int64 {
	starts, ends := kaSchedule(I, script)
	for {
		clash := tc%I == 0
		for i := range starts {
			if tc == starts[i] || tc == ends[i] {
				clash = true
			}
		}
		if !clash {
			return tc
		}
		tc++
	}
}

type kaCase struct {
	real   string // "" scripted session; "client" / "server" real session
	I      int64
	T      int
	script []kaStep
	tc     int64 // instant of cancellation (never a multiple of I)
	busy   []kaBusy
}

// kaBusy: real sessions only. The Server (Client) value of the session under observation has a SECOND session, and
// at instant `from` the peer of that other session sends a request whose user-supplied handler parks for `dur`
// (server: resources/subscribe, resources/unsubscribe, tools/call, prompts/get, resources/read,
// completion/complete; client: sampling/createMessage, elicitation/create). What another session's handler is
// doing is no ping outcome: the keep-alive of the observed session must behave as if the other session were not there.
type kaBusy struct {
	kind      string
	from, dur int64
}

var kaBusyKinds = map[string][]string{
	"server": {"sub", "unsub", "tool", "prompt", "res", "compl"},
	"client": {"sampling", "elicit"},
}

func (c *kaCase) op() string {
	var s []string
	for _, st := range c.script {
		if st.kind == 'n' {
			s = append(s, "n")
		} else {
			s = append(s, fmt.Sprintf("%c%d", st.kind, st.d))
		}
	}
	sc := "-"
	if len(s) > 0 {
		sc = strings.Join(s, ",")
	}
	if c.real != "" && len(c.busy) > 0 {
		var b []string
		for _, x := range c.busy {
			b = append(b, fmt.Sprintf("%s@%d+%d", x.kind, x.from, x.dur))
		}
		return fmt.Sprintf("kas side=%s I=%d T=%d script=%s cancel=%d busy=%s", c.real, c.I, c.T, sc, c.tc, strings.Join(b, ";"))
	}
	if c.real != "" {
		return fmt.Sprintf("kas side=%s I=%d T=%d script=%s cancel=%d", c.real, c.I, c.T, sc, c.tc)
	}
	return fmt.Sprintf("ka I=%d T=%d script=%s cancel=%d", c.I, c.T, sc, c.tc)
}

func kaParse(op string) (*kaCase, bool) {
	toks := strings.Fields(op)
	if len(toks) == 0 || (toks[0] != "ka" && toks[0] != "kas") {
		return nil, false
	}
	kv := map[string]string{}
	for _, t := range toks[1:] {
		if i := strings.IndexByte(t, '='); i > 0 {
			kv[t[:i]] = t[i+1:]
		}
	}
	c := &kaCase{}
	if toks[0] == "kas" {
		c.real = kv["side"]
		if c.real != "client" && c.real != "server" {
			return nil, false
		}
	}
	var err1, err2, err3 error
	c.I, err1 = strconv.ParseInt(kv["I"], 10, 64)
	c.T, err2 = strconv.Atoi(kv["T"])
	c.tc, err3 = strconv.ParseInt(kv["cancel"], 10, 64)
	if err1 != nil || err2 != nil || err3 != nil || c.I <= 0 || c.tc <= 0 || c.tc%c.I == 0 {
		return nil, false
	}
	if s := kv["script"]; s != "-" && s != "" {
		for _, p := range strings.Split(s, ",") {
			if p == "n" {
				c.script = append(c.script, kaStep{'n', 0})
				continue
			}
			d, err := strconv.ParseInt(p[1:], 10, 64)
			if err != nil || !strings.ContainsRune("ameAME", rune(p[0])) || d < 0 {
				return nil, false
			}
			c.script = append(c.script, kaStep{p[0], d})
		}
	}
	if b := kv["busy"]; b != "" && b != "-" {
		for _, el := range strings.Split(b, ";") {
			var x kaBusy
			i, j := strings.IndexByte(el, '@'), strings.IndexByte(el, '+')
			if i <= 0 || j < i {
				return nil, false
			}
			x.kind = el[:i]
			var e1, e2 error
			x.from, e1 = strconv.ParseInt(el[i+1:j], 10, 64)
			x.dur, e2 = strconv.ParseInt(el[j+1:], 10, 64)
			ok := false
			for _, k := range kaBusyKinds[c.real] {
				ok = ok || k == x.kind
			}
			if e1 != nil || e2 != nil || !ok || x.from < 0 || x.dur < 0 {
				return nil, false
			}
			c.busy = append(c.busy, x)
		}
	}
	return c, true
}

// kaParker hands the scripted parking times to the handlers of the other session.
type kaParker struct {
	mu   sync.Mutex
	q    map[string][]int64
	done chan struct{} // closed at the end of the scenario: nothing may be left asleep when the bubble's root returns
}

func (p *kaParker) sleep(d int64) bool {
	select {
	case <-time.After(time.Duration(d)):
		return true
	case <-p.done:
		return false
	}
}

func (p *kaParker) put(kind string, d int64) {
	p.mu.Lock()
	defer p.mu.Unlock()
	if p.q == nil {
		p.q = map[string][]int64{}
	}
	p.q[kind] = append(p.q[kind], d)
}

func (p *kaParker) park(kind string) {
	p.mu.Lock()
	var d int64
	if l := p.q[kind]; len(l) > 0 {
		d, p.q[kind] = l[0], l[1:]
	}
	p.mu.Unlock()
	p.sleep(d)
}

// kaOtherServerSession gives srv a second session (a real Client over in-memory transports) and schedules the busy
// requests on it; the returned function closes it.
func kaOtherServerSession(ctx context.Context, srv *Server, pk *kaParker, busy []kaBusy) (func(), error) {
	ta, tb := NewInMemoryTransports()
	ssOther, err := srv.Connect(ctx, ta, nil)
	if err != nil {
		return nil, err
	}
	cl := NewClient(&Implementation{Name: "other", Version: "1"}, nil)
	cs, err := cl.Connect(ctx, tb, nil)
	if err != nil {
		return nil, err
	}
	for _, b := range busy {
		go func(b kaBusy) {
			defer func() { recover() }()
			if !pk.sleep(b.from) {
				return
			}
			switch b.kind {
			case "sub":
				pk.put("sub", b.dur)
				cs.Subscribe(ctx, &SubscribeParams{URI: "file:///r"})
			case "unsub":
				pk.put("sub", 0)
				cs.Subscribe(ctx, &SubscribeParams{URI: "file:///r"})
				pk.put("unsub", b.dur)
				cs.Unsubscribe(ctx, &UnsubscribeParams{URI: "file:///r"})
			case "tool":
				pk.put("tool", b.dur)
				cs.CallTool(ctx, &CallToolParams{Name: "t", Arguments: map[string]any{}})
			case "prompt":
				pk.put("prompt", b.dur)
				cs.GetPrompt(ctx, &GetPromptParams{Name: "p"})
			case "res":
				pk.put("res", b.dur)
				cs.ReadResource(ctx, &ReadResourceParams{URI: "file:///r"})
			case "compl":
				pk.put("compl", b.dur)
				cs.Complete(ctx, &CompleteParams{Ref: &CompleteReference{Type: "ref/prompt", Name: "p"}, Argument: CompleteParamsArgument{Name: "a", Value: "v"}})
			}
		}(b)
	}
	return func() { cs.Close(); ssOther.Close() }, nil
}

// kaServerWithHandlers: a Server whose user-supplied handlers park on pk.
func kaServerWithHandlers(opts *ServerOptions, pk *kaParker) *Server {
	opts.SubscribeHandler = func(context.Context, *SubscribeRequest) error { pk.park("sub"); return nil }
	opts.UnsubscribeHandler = func(context.Context, *UnsubscribeRequest) error { pk.park("unsub"); return nil }
	opts.CompletionHandler = func(context.Context, *CompleteRequest) (*CompleteResult, error) {
		pk.park("compl")
		return &CompleteResult{}, nil
	}
	srv := NewServer(&Implementation{Name: "s", Version: "1"}, opts)
	srv.AddTool(&Tool{Name: "t", InputSchema: json.RawMessage(`{"type":"object"}`)}, func(context.Context, *CallToolRequest) (*CallToolResult, error) {
		pk.park("tool")
		return &CallToolResult{}, nil
	})
	srv.AddPrompt(&Prompt{Name: "p"}, func(context.Context, *GetPromptRequest) (*GetPromptResult, error) {
		pk.park("prompt")
		return &GetPromptResult{}, nil
	})
	srv.AddResource(&Resource{Name: "r", URI: "file:///r"}, func(context.Context, *ReadResourceRequest) (*ReadResourceResult, error) {
		pk.park("res")
		return &ReadResourceResult{Contents: []*ResourceContents{{URI: "file:///r", Text: "x"}}}, nil
	})
	return srv
}

// kaOtherClientSession gives cl a second session whose peer (a real Server) sends sampling / elicitation requests on
// script; the client's handlers park on pk.
func kaOtherClientSession(ctx context.Context, cl *Client, busy []kaBusy, pk *kaParker) (func(), error) {
	ta, tb := NewInMemoryTransports()
	srv := NewServer(&Implementation{Name: "other", Version: "1"}, nil)
	ss, err := srv.Connect(ctx, ta, nil)
	if err != nil {
		return nil, err
	}
	cs, err := cl.Connect(ctx, tb, nil)
	if err != nil {
		return nil, err
	}
	for _, b := range busy {
		go func(b kaBusy) {
			defer func() { recover() }()
			if !pk.sleep(b.from) {
				return
			}
			switch b.kind {
			case "sampling":
				pk.put("sampling", b.dur)
				ss.CreateMessage(ctx, &CreateMessageParams{MaxTokens: 1, Messages: []*SamplingMessage{{Role: "user", Content: &TextContent{Text: "x"}}}})
			case "elicit":
				pk.put("elicit", b.dur)
				ss.Elicit(ctx, &ElicitParams{Message: "x", RequestedSchema: nil})
			}
		}(b)
	}
	return func() { cs.Close(); ss.Close() }, nil
}

// Starvation watch (busy cases). A keep-alive goroutine that waits for Server.mu / Client.mu while another session's
// handler is parked holding it stops the bubble: every goroutine is blocked, the one on the sync.Mutex not durably, so
// virtual time cannot advance and nothing inside the bubble can report it. kaStarveLoop (a goroutine OUTSIDE every
// bubble, real time) looks at the running busy case every 100 ms: when two goroutine dumps 150 ms apart show no
// goroutine of a bubble running or runnable and the same goroutine(s) blocked on a sync.Mutex with the innermost
// non-runtime frame in SDK code, it writes the case's record with what was observed so far —
//   pings=<pings the peer received> to=- close=- exit=1 late=0 starved=<state>:<func>@<file:line>[;…]
// — flushes and ends the process (the stalled bubble cannot be resumed); the records written so far are evaluated
// as usual. The typed clause is KeepAlive.Clause2.starved (Starve.lean).
var kaCur struct {
	mu    sync.Mutex
	id    string
	c     *kaCase
	peer  *kaPeer
	start int64
}

func kaBubbleIdle() bool {
	buf := make([]byte, 8<<20)
	buf = buf[:runtime.Stack(buf, true)]
	for _, g := range strings.Split(string(buf), "\n\n") {
		hdr, _, _ := strings.Cut(g, "\n")
		if !strings.Contains(hdr, "synctest bubble") {
			continue
		}
		if strings.Contains(hdr, "[running") || strings.Contains(hdr, "[runnable") || strings.Contains(hdr, "[syscall") {
			return false
		}
	}
	return true
}

func kaMutexBlocked() map[string]string {
	res := map[string]string{}
	for g, w := range verifBlocked() {
		if strings.HasPrefix(w, "sync.Mutex.Lock:") || strings.HasPrefix(w, "sync.RWMutex") {
			res[g] = w
		}
	}
	return res
}

func kaStarveLoop(out *verifOut) {
	for !out.closed.Load() {
		time.Sleep(100 * time.Millisecond)
		kaCur.mu.Lock()
		id, c := kaCur.id, kaCur.c
		kaCur.mu.Unlock()
		if c == nil || len(c.busy) == 0 || !kaBubbleIdle() {
			continue
		}
		a := kaMutexBlocked()
		if len(a) == 0 {
			continue
		}
		time.Sleep(150 * time.Millisecond)
		kaCur.mu.Lock()
		same := kaCur.id == id
		peer, start := kaCur.peer, kaCur.start
		kaCur.mu.Unlock()
		if !same || peer == nil || !kaBubbleIdle() {
			continue
		}
		b := kaMutexBlocked()
		var frames []string
		for g, w := range a {
			if b[g] == w {
				frames = append(frames, w)
			}
		}
		if len(frames) == 0 || len(frames) != len(b) {
			continue
		}
		sort.Strings(frames)
		frames = slices.Compact(frames)
		peer.mu.Lock()
		pings := make([]int64, len(peer.pings))
		for i, v := range peer.pings {
			pings[i] = v - start
		}
		peer.mu.Unlock()
		obs := fmt.Sprintf("pings=%s to=- close=- exit=1 late=0 starved=%s", kaInts(pings), strings.Join(frames, ";"))
		out.line(id, c.op(), obs, append(kaTags(c, obs), "starved")...)
		out.flush()
		os.Exit(0)
	}
}

var kaLogger = slog.New(slog.DiscardHandler)

// kaSess is the scripted keepaliveSession.
type kaSess struct {
	mu     sync.Mutex
	t0     time.Time
	script []kaStep
	idx    int
	pings  []int64
	tos    []int64
	closes []int64
	over   bool
	late   int
}

func (s *kaSess) Ping(ctx context.Context, _ *PingParams) error {
	if err := ctx.Err(); err != nil {
		// like jsonrpc2.Connection.Call on a context that has already ended: nothing is sent
		s.mu.Lock()
		if !s.over {
			now := time.Since(s.t0).Nanoseconds()
			s.pings = append(s.pings, now)
			dl, _ := ctx.Deadline()
			s.tos = append(s.tos, dl.Sub(s.t0).Nanoseconds()-now)
			s.idx++
		}
		s.mu.Unlock()
		return err
	}
	s.mu.Lock()
	if s.over {
		// The scenario is over (cancelled or closed long ago) and the loop still pings: a leaked
		// goroutine/ticker. Record it and end the goroutine so that the bubble can exit.
		s.late++
		s.mu.Unlock()
		runtime.Goexit()
	}
	now := time.Since(s.t0).Nanoseconds()
	s.pings = append(s.pings, now)
	if dl, ok := ctx.Deadline(); ok {
		s.tos = append(s.tos, dl.Sub(s.t0).Nanoseconds()-now)
	} else {
		s.tos = append(s.tos, -1)
	}
	st := kaStep{'n', 0}
	if s.idx < len(s.script) {
		st = s.script[s.idx]
	}
	n := s.idx
	s.idx++
	s.mu.Unlock()
	if st.kind == 'n' {
		<-ctx.Done()
		return ctx.Err()
	}
	if st.overruns() {
		time.Sleep(time.Duration(st.d)) // the write is blocked: the deadline passes unnoticed
		if err := ctx.Err(); err != nil && st.kind == 'E' && n%2 == 0 {
			return err // what Call reports once the write is through and the deadline has passed
		}
	} else {
		tm := time.NewTimer(time.Duration(st.d))
		defer tm.Stop()
		select {
		case <-tm.C:
		case <-ctx.Done():
			return ctx.Err()
		}
	}
	switch st.kind {
	case 'a', 'A':
		return nil
	case 'm', 'M':
		switch n % 3 {
		case 0:
			return jsonrpc2.ErrMethodNotFound
		case 1:
			return fmt.Errorf("calling %q: %w", "ping", jsonrpc2.ErrMethodNotFound)
		}
		return &jsonrpc.Error{Code: jsonrpc.CodeMethodNotFound, Message: "no such method"}
	}
	switch n % 5 {
	case 0:
		return errors.New("connection reset by peer")
	case 1:
		return ErrConnectionClosed
	case 2:
		return context.DeadlineExceeded // an early "deadline" error reported by the transport
	case 3:
		return &jsonrpc.Error{Code: jsonrpc.CodeInternalError, Message: "internal"}
	}
	return fmt.Errorf("wrapped: %w", jsonrpc2.ErrInvalidParams)
}

func (s *kaSess) Close() error {
	s.mu.Lock()
	defer s.mu.Unlock()
	s.closes = append(s.closes, time.Since(s.t0).Nanoseconds())
	return nil
}

// kaLoopGoroutines counts the goroutines that are still inside startKeepalive's loop
// (harness scenarios run one at a time, so any such goroutine belongs to the current one).
func kaLoopGoroutines() int {
	buf := make([]byte, 1<<16)
	for {
		n := runtime.Stack(buf, true)
		if n < len(buf) {
			return strings.Count(string(buf[:n]), "mcp.startKeepalive.func1(")
		}
		buf = make([]byte, 2*len(buf))
	}
}

func kaInts(l []int64) string {
	if len(l) == 0 {
		return "-"
	}
	q := make([]string, len(l))
	for i, v := range l {
		q[i] = strconv.FormatInt(v, 10)
	}
	return strings.Join(q, ",")
}

// kaTos renders what each ping was given until its deadline: one value when all are equal, else all of them.
func kaTos(tos []int64) string {
	if len(tos) == 0 {
		return "-"
	}
	same := true
	q := make([]string, len(tos))
	for i, v := range tos {
		q[i] = strconv.FormatInt(v, 10)
		same = same && v == tos[0]
	}
	if same {
		return q[0]
	}
	return strings.Join(q, "/")
}

// kaRunScripted runs one scenario on the real startKeepalive with the scripted session.
// onLeak is called, still inside the bubble, when a loop goroutine survives the scenario: a durably
// blocked goroutine makes synctest abort the process when the bubble ends, so the record must be
// on disk before that.
func kaRunScripted(t *testing.T, c *kaCase, onLeak func(obs string)) (obs string) {
	obs = "panic"
	synctest.Test(t, func(t *testing.T) {
		defer func() {
			if r := recover(); r != nil {
				obs = "panic"
			}
		}()
		s := &kaSess{t0: time.Now(), script: c.script}
		I := time.Duration(c.I)
		var cancel context.CancelFunc
		startKeepalive(s, I, c.T, &cancel, kaLogger)
		time.Sleep(time.Duration(c.tc))
		synctest.Wait()
		cancel()
		rest := I // a ping in flight at the cancellation still runs into its own deadline …
		for _, st := range c.script {
			if d := time.Duration(st.d) + I; st.overruns() && d > rest {
				rest = d // … or until its blocked write is through
			}
		}
		time.Sleep(time.Duration(rest))
		synctest.Wait()
		s.mu.Lock()
		s.over = true
		s.mu.Unlock()
		time.Sleep(3 * I) // anything still ticking shows up now
		synctest.Wait()
		alive := kaLoopGoroutines()
		s.mu.Lock()
		defer s.mu.Unlock()
		to := kaTos(s.tos)
		exit := 1
		if alive > 0 {
			exit = 0
		}
		obs = fmt.Sprintf("pings=%s to=%s close=%s exit=%d late=%d", kaInts(s.pings), to, kaInts(s.closes), exit, s.late)
		if exit == 0 && onLeak != nil {
			onLeak(obs)
		}
	})
	return obs
}

// kaPeer is the raw JSON-RPC peer of a real session: it answers initialize (client side), and
// treats pings according to the script.
type kaPeer struct {
	mu      sync.Mutex
	t0      time.Time
	started bool
	script  []kaStep
	idx     int
	pings   []int64
}

func (p *kaPeer) serve(ctx context.Context, conn Connection) {
	for {
		msg, err := conn.Read(ctx)
		if err != nil {
			return
		}
		req, ok := msg.(*jsonrpc.Request)
		if !ok || !req.IsCall() {
			continue // responses, notifications/initialized, notifications/cancelled
		}
		switch req.Method {
		case "initialize":
			var ip InitializeParams
			json.Unmarshal(req.Params, &ip) // echo the requested (legacy) version
			res := &InitializeResult{ProtocolVersion: ip.ProtocolVersion, Capabilities: &ServerCapabilities{}, ServerInfo: &Implementation{Name: "peer", Version: "1"}}
			b, _ := json.Marshal(res)
			conn.Write(ctx, &jsonrpc.Response{ID: req.ID, Result: b})
		case "ping":
			p.mu.Lock()
			p.pings = append(p.pings, time.Since(p.t0).Nanoseconds())
			st := kaStep{'n', 0}
			if p.idx < len(p.script) {
				st = p.script[p.idx]
			}
			p.idx++
			p.mu.Unlock()
			if st.kind == 'n' {
				continue
			}
			go func(id jsonrpc.ID) {
				time.Sleep(time.Duration(st.d))
				resp := &jsonrpc.Response{ID: id}
				switch st.kind {
				case 'a':
					resp.Result = json.RawMessage("{}")
				case 'm':
					resp.Error = &jsonrpc.Error{Code: jsonrpc.CodeMethodNotFound, Message: "method not found: ping"}
				default:
					resp.Error = &jsonrpc.Error{Code: jsonrpc.CodeInternalError, Message: "peer failure"}
				}
				conn.Write(ctx, resp) // fails harmlessly once the session is gone
			}(req.ID)
		default:
			conn.Write(ctx, &jsonrpc.Response{ID: req.ID, Error: &jsonrpc.Error{Code: jsonrpc.CodeMethodNotFound, Message: "unsupported"}})
		}
	}
}

// kaRunReal runs one scenario through a real session. The instant at which the session's Wait
// returns before the harness itself closes it is "closed by keep-alive".
func kaRunReal(t *testing.T, c *kaCase) (obs string) {
	obs = "panic"
	synctest.Test(t, func(t *testing.T) {
		defer func() {
			if r := recover(); r != nil {
				obs = "panic"
			}
		}()
		ctx := context.Background()
		t1, t2 := NewInMemoryTransports()
		peer := &kaPeer{script: c.script}
		I := time.Duration(c.I)
		var wait func() error
		var closeSess func() error
		closeOther := func() {}
		peerConn, err := t1.Connect(ctx)
		if err != nil {
			obs = "connect-failed"
			return
		}
		peer.t0 = time.Now()
		go peer.serve(ctx, peerConn)
		if c.real == "server" {
			pk := &kaParker{done: make(chan struct{})}
			defer close(pk.done)
			srv := kaServerWithHandlers(&ServerOptions{KeepAlive: I, KeepAliveFailureThreshold: c.T, Logger: kaLogger}, pk)
			ss, err := srv.Connect(ctx, t2, nil)
			if err != nil {
				obs = "connect-failed"
				return
			}
			wait, closeSess = ss.Wait, ss.Close
			if len(c.busy) > 0 {
				if closeOther, err = kaOtherServerSession(ctx, srv, pk, c.busy); err != nil {
					obs = "connect-failed"
					return
				}
			}
		} else {
			pk := &kaParker{done: make(chan struct{})}
			defer close(pk.done)
			cl := NewClient(&Implementation{Name: "c", Version: "1"}, &ClientOptions{KeepAlive: I, KeepAliveFailureThreshold: c.T, Logger: kaLogger,
				CreateMessageHandler: func(context.Context, *CreateMessageRequest) (*CreateMessageResult, error) {
					pk.park("sampling")
					return &CreateMessageResult{Model: "m", Role: "assistant", Content: &TextContent{Text: "y"}}, nil
				},
				ElicitationHandler: func(context.Context, *ElicitRequest) (*ElicitResult, error) {
					pk.park("elicit")
					return &ElicitResult{Action: "decline"}, nil
				}})
			cs, err := cl.Connect(ctx, t2, nil)
			if err != nil {
				obs = "connect-failed"
				return
			}
			wait, closeSess = cs.Wait, cs.Close
			if len(c.busy) > 0 {
				if closeOther, err = kaOtherClientSession(ctx, cl, c.busy, pk); err != nil {
					obs = "connect-failed"
					return
				}
			}
		}
		start := time.Since(peer.t0).Nanoseconds() // the handshakes take no virtual time
		kaCur.mu.Lock()
		kaCur.peer, kaCur.start = peer, start
		kaCur.mu.Unlock()
		var mu sync.Mutex
		closedAt := int64(-1)
		go func() {
			wait()
			mu.Lock()
			closedAt = time.Since(peer.t0).Nanoseconds()
			mu.Unlock()
		}()
		time.Sleep(time.Duration(c.tc))
		synctest.Wait()
		mu.Lock()
		ca := closedAt
		mu.Unlock()
		closeSess()
		peerConn.Close()
		synctest.Wait()
		time.Sleep(3 * I)
		synctest.Wait()
		closeOther()
		synctest.Wait()
		peer.mu.Lock()
		defer peer.mu.Unlock()
		cl := "-"
		if ca >= 0 {
			cl = strconv.FormatInt(ca-start, 10)
		}
		pings := make([]int64, len(peer.pings))
		for i, v := range peer.pings {
			pings[i] = v - start
		}
		obs = fmt.Sprintf("pings=%s to=- close=%s exit=1 late=0", kaInts(pings), cl)
	})
	return obs
}

func kaRun(t *testing.T, c *kaCase, onLeak func(obs string)) string {
	if c.real != "" {
		return kaRunReal(t, c)
	}
	return kaRunScripted(t, c, onLeak)
}

func kaTags(c *kaCase, obs string) []string {
	if len(c.script) == 0 {
		return []string{"len=0"} // nothing to decide: trivial
	}
	tags := []string{fmt.Sprintf("T=%d", c.T), fmt.Sprintf("len=%d", len(c.script))}
	if c.real != "" {
		tags = append(tags, "real-"+c.real)
		for _, b := range c.busy {
			tags = append(tags, "other-session-busy", "busy:"+b.kind)
		}
	} else {
		tags = append(tags, "scripted")
	}
	f := strings.Fields(obs)
	if len(f) > 2 && f[2] != "close=-" {
		tags = append(tags, "closed")
	} else {
		tags = append(tags, "not-closed")
	}
	for _, st := range c.script {
		if (st.kind == 'm' && st.d < c.I/2) || st.kind == 'M' {
			tags = append(tags, "has-method-not-found")
			break
		}
	}
	starts, ends := kaSchedule(c.I, c.script)
	during, pending, overrun := false, false, false
	for i, st := range c.script {
		if starts[i] >= c.tc {
			break
		}
		if st.overruns() && st.d > c.I/2 {
			overrun = true
		}
		if starts[i] < c.tc && c.tc <= ends[i] {
			during = true
			pending = ends[i] > (starts[i]/c.I+1)*c.I
		}
	}
	if overrun {
		tags = append(tags, "has-overrun")
	}
	if during {
		tags = append(tags, "cancel-during-ping")
	}
	if pending {
		tags = append(tags, "cancel-with-tick-pending")
	}
	return tags
}

// kaDelay picks a deterministic delay for position i of a pattern: in time (answers/errors) or late.
func kaDelay(I int64, i int, late bool) int64 {
	half := I / 2
	if late {
		return []int64{half + 1, I - 1, I, 3 * I}[i%4]
	}
	if half == 0 {
		return 0
	}
	return []int64{0, 1 % half, half - 1, half / 2, half / 3}[i%5]
}

// kaPattern turns a base-4 number into a pattern: 0 answered in time, 1 timed out (never / late
// answer / late error / late method-not-found, rotating), 2 method-not-found in time, 3 other error in time.
func kaPattern(I int64, code, n int) []kaStep {
	out := make([]kaStep, n)
	for i := 0; i < n; i++ {
		switch code % 4 {
		case 0:
			out[i] = kaStep{'a', kaDelay(I, i+code, false)}
		case 1:
			switch (i + code/4) % 4 {
			case 0:
				out[i] = kaStep{'n', 0}
			case 1:
				out[i] = kaStep{'a', kaDelay(I, i, true)}
			case 2:
				out[i] = kaStep{'e', kaDelay(I, i+1, true)}
			default:
				out[i] = kaStep{'m', kaDelay(I, i+2, true)}
			}
		case 2:
			out[i] = kaStep{'m', kaDelay(I, i+code, false)}
		default:
			out[i] = kaStep{'e', kaDelay(I, i+code, false)}
		}
		code /= 4
	}
	return out
}

// kaOverrun: a deterministic overrun for position i: the blocked write is through after a bit more than
// half an interval (no tick missed), 1.3 (one tick pending, served 0.3 after it was due), 1.6 (served
// 0.6 after it was due), 2.6 and 3.1 intervals (one tick pending, the others dropped); the result is an
// error, now and then nil or method-not-found (the answer raced the deadline).
func kaOverrun(I int64, i int) kaStep {
	d := []int64{I/2 + I/5, I + 3*I/10, I + 6*I/10, 2*I + 6*I/10, 3*I + I/10}[i%5] + int64(i%3)
	return kaStep{[]byte{'E', 'E', 'E', 'A', 'E', 'E', 'M'}[(i/5)%7], d}
}

// kaPattern5: like kaPattern with a fifth outcome (digit 4): the ping overruns its deadline.
func kaPattern5(I int64, code, n int) []kaStep {
	out := make([]kaStep, n)
	c4 := 0 // the digits below 4, as a base-4 code for kaPattern's choices
	for i, c := 0, code; i < n; i, c = i+1, c/5 {
		c4 = c4*4 + (c%5)%4
	}
	for i := 0; i < n; i++ {
		if code%5 == 4 {
			out[i] = kaOverrun(I, i+code/5)
		} else {
			out[i] = kaPattern(I, (code%5)+4*((c4+i)%64), 1)[0]
		}
		code /= 5
	}
	kaOffGrid(I, out)
	return out
}

// kaAfter: a cancellation instant after the last ping of script has been issued: between its end and the
// next tick when there is such a gap, else (a tick is pending when it ends) while it is in flight.
func kaAfter(I int64, script []kaStep) int64 {
	if len(script) == 0 {
		return kaBetween(I, 0)
	}
	starts, ends := kaSchedule(I, script)
	n := len(script) - 1
	next := (starts[n]/I + 1) * I
	if ends[n] < next {
		return kaFreeInstant(I, script, ends[n]+(next-ends[n]+1)/2)
	}
	return kaFreeInstant(I, script, starts[n]+(ends[n]-starts[n])/3+1)
}

// kaBetween: an instant strictly between the end of ping n (at most n·I + I/2) and tick n+1.
func kaBetween(I int64, n int) int64 {
	return int64(n)*I + I/2 + (I-I/2+1)/2
}

func kaRandom(rng *rand.Rand, maxLen, maxT int, real string) *kaCase {
	Is := []int64{3, 7, 10, 1000, 1001, int64(time.Millisecond), int64(time.Second), int64(30 * time.Second)}
	c := &kaCase{real: real, I: Is[rng.Intn(len(Is))], T: rng.Intn(maxT+2) - 1}
	if real != "" {
		c.I = []int64{1000, int64(time.Second), int64(30 * time.Second)}[rng.Intn(3)]
	}
	n := rng.Intn(maxLen + 1)
	pAns := []int{10, 30, 50, 70, 90}[rng.Intn(5)]
	pOver := []int{0, 0, 10, 25}[rng.Intn(4)] // share of pings that overrun their deadline
	over := false
	for i := 0; i < n; i++ {
		r := rng.Intn(100)
		switch {
		case r < pAns:
			c.script = append(c.script, kaStep{'a', kaDelay(c.I, rng.Intn(5), false)})
		case r < pAns+(100-pAns)/12:
			c.script = append(c.script, kaStep{'m', kaDelay(c.I, rng.Intn(5), false)})
		case r < pAns+(100-pAns)/2:
			c.script = append(c.script, kaStep{'e', kaDelay(c.I, rng.Intn(5), false)})
		default:
			c.script = append(c.script, kaPattern(c.I, 1+4*rng.Intn(4), 1)[0])
			if real != "" && c.script[i].kind != 'n' && rng.Intn(2) == 0 {
				c.script[i] = kaStep{'n', 0}
			}
		}
		if real == "" && c.I >= 1000 && rng.Intn(100) < pOver {
			c.script[i] = kaOverrun(c.I, rng.Intn(35))
			c.script[i].d += rng.Int63n(c.I / 10)
			over = true
		}
	}
	k := n
	if rng.Intn(3) == 0 {
		k = rng.Intn(n + 1)
	}
	if over {
		// the pings are not on the tick grid: place the cancellation on the schedule
		kaOffGrid(c.I, c.script)
		c.tc = kaAfter(c.I, c.script[:k])
		if k > 0 && rng.Intn(3) == 0 {
			starts, ends := kaSchedule(c.I, c.script[:k])
			c.tc = kaFreeInstant(c.I, c.script, starts[k-1]+1+rng.Int63n(ends[k-1]-starts[k-1]+1)) // while ping k is in flight
		}
		return c
	}
	c.tc = kaBetween(c.I, k)
	if real == "" && c.I >= 7 && k > 0 && rng.Intn(4) == 0 {
		c.tc = int64(k)*c.I + 1 + rng.Int63n(c.I/2) // while ping k is (or may be) in flight
	}
	if c.tc%c.I == 0 {
		c.tc++
	}
	return c
}

func TestVerifKeepAlive(t *testing.T) {
	out := verifOpen(t)
	defer out.close()
	go kaStarveLoop(out)
	n := 0
	emit := func(prefix string, c *kaCase) {
		id := fmt.Sprintf("%s%d", prefix, n)
		leaked := false
		out.begin(id, c.op)
		kaCur.mu.Lock()
		kaCur.id, kaCur.c, kaCur.peer = id, c, nil
		kaCur.mu.Unlock()
		obs := kaRun(t, c, func(obs string) {
			leaked = true
			out.line(id, c.op(), obs, kaTags(c, obs)...)
			out.mu.Lock()
			out.w.Flush()
			out.mu.Unlock()
		})
		if !leaked {
			out.line(id, c.op(), obs, kaTags(c, obs)...)
		}
		n++
	}
	replay := func(path, cs string) {
		b, err := os.ReadFile(path)
		if err != nil {
			t.Fatal(err)
		}
		for _, ln := range strings.Split(string(b), "\n") {
			ln = strings.TrimPrefix(strings.TrimSpace(ln), "verif-hang ")
			if ln == "" || strings.HasPrefix(ln, "#") || ln == "reset" || strings.HasPrefix(ln, "kss ") || strings.Contains(ln, " side=http ") || strings.Contains(ln, " side=ctxw ") || strings.Contains(ln, " side=srvw ") ||
				(strings.HasPrefix(ln, "kas ") && !strings.Contains(ln, " side=client ") && !strings.Contains(ln, " side=server ")) {
				continue // `kss` lines belong to the stream `sessions`, `kas side=http|ctxw` lines to the stream `http`
			}
			c, ok := kaParse(ln)
			if !ok {
				out.line(cs, ln, "bad-op", "corpus")
				continue
			}
			emit(cs+"-", c)
		}
	}
	if p := os.Getenv("VERIF_REPLAY"); p != "" {
		replay(p, "replay")
		if n == 0 {
			out.line("replay", "reset", "ok", "reset") // a replay of the other stream of this engine
		}
		return
	}
	if p := os.Getenv("VERIF_CORPUS"); p != "" {
		ents, _ := os.ReadDir(p)
		for _, e := range ents {
			if strings.HasSuffix(e.Name(), ".ops") {
				replay(p+"/"+e.Name(), "corpus-"+strings.TrimSuffix(e.Name(), ".ops"))
			}
		}
	}
	if os.Getenv("VERIF_CASES") == "" {
		// exhaustive: every pattern of length <= 6 over the 4 outcomes x thresholds 0..3
		const I = 1000
		for l := 0; l <= 6; l++ {
			total := 1
			for i := 0; i < l; i++ {
				total *= 4
			}
			for code := 0; code < total; code++ {
				for T := 0; T <= 3; T++ {
					emit("x", &kaCase{I: I, T: T, script: kaPattern(I, code, l), tc: kaBetween(I, l)})
				}
			}
		}
	}
	if os.Getenv("VERIF_CASES") == "" {
		// exhaustive with a fifth outcome — the ping overruns its deadline —: every pattern of length <= 5
		// that contains an overrun x thresholds 0..3; the cancellation comes after the last ping was issued
		const I = 1000
		for l, total := 1, 5; l <= 5; l, total = l+1, total*5 {
			for code := 0; code < total; code++ {
				has := false
				for c := code; c > 0; c /= 5 {
					has = has || c%5 == 4
				}
				if !has {
					continue
				}
				sc := kaPattern5(I, code, l)
				for T := 0; T <= 3; T++ {
					emit("o", &kaCase{I: I, T: T, script: sc, tc: kaAfter(I, sc)})
				}
			}
		}
	}
	rng := verifRng(13)
	nr := verifN(3000, 150000)
	for i := 0; i < nr; i++ {
		if verifThorough() {
			emit("r", kaRandom(rng, 40, 8, ""))
		} else {
			emit("r", kaRandom(rng, 12, 5, ""))
		}
	}
	nreal := verifN(300, 4000)
	for i := 0; i < nreal; i++ {
		emit("s", kaRandom(rng, 10, 4, []string{"server", "client"}[i%2]))
	}
	if os.Getenv("VERIF_CASES") == "" {
		// a second session of the same Server / Client whose handler is parked across ticks of the observed one:
		// every kind of handler x {answering peer, silent peer, one miss then answers} x thresholds 1..3 x
		// parked {from before the first tick over 1.7 intervals, from mid-interval over 0.8 interval, within a ping's flight}
		const I = 1000
		for _, side := range []string{"server", "client"} {
			for _, kind := range kaBusyKinds[side] {
				for si, sc := range [][]kaStep{{{'a', 3}, {'a', 5}, {'a', 7}, {'a', 3}}, {{'n', 0}, {'n', 0}, {'n', 0}, {'n', 0}}, {{'n', 0}, {'a', 11}, {'n', 0}, {'n', 0}}} {
					for T := 1; T <= 3; T++ {
						for _, b := range []kaBusy{{kind, 737, 1741}, {kind, 1537, 841}, {kind, 1003, 307}} {
							c := &kaCase{real: side, I: I, T: T, script: sc, tc: kaBetween(I, 4), busy: []kaBusy{b}}
							if si == 0 && T == 3 {
								c.busy = append(c.busy, kaBusy{kind, 2611, 977})
							}
							emit("b", c)
						}
					}
				}
			}
		}
	}
	nbusy := verifN(150, 1200)
	for i := 0; i < nbusy; i++ {
		c := kaRandom(rng, 8, 4, []string{"server", "client"}[i%2])
		kinds := kaBusyKinds[c.real]
		for k := 1 + rng.Intn(3); k > 0; k-- {
			c.busy = append(c.busy, kaBusy{kinds[rng.Intn(len(kinds))], 37 + c.I/100*rng.Int63n(400), 41 + c.I/100*rng.Int63n(250)})
		}
		emit("b", c)
	}
}
