// E3 correspondence harness (DESIGN.md §4 E3; properties C06 and the error-code part of C02).
//
// Raw JSON-RPC envelopes are written, one per line, to a REAL mcp.Server (and, for the C02 stream, to
// a real mcp.Client's receiving side) over an in-memory pipe. Every user handler and a receiving
// middleware count invocations; after every envelope the harness waits for quiescence
// (testing/synctest), then records what came back on the wire, which handlers ran and the session
// state. One record per envelope:
//
//	<case>\tmsg <side> <method> <id|noid> <shape> <meta> tag=<hex> iver=<hex> lvl=<hex> mut=<hex> raw=<hex>\t<observation>\t<tags>
//
// observation:  w=<none|ok|e<code>[:<supported,...>]|multi> mw=<methods|-> uh=<handlers|-> st=<tag@ver|->/<0|1>/<level> rv=<..|->
// (rv: the protocolVersion of an initialize result / the supportedVersions of a discover result)
//
// The server side of the pipe is a transport that either does not implement ProtocolVersionSupporter or
// implements it with a PRNG-chosen predicate (explicit sets incl. the empty one, only 2026-07-28, a single
// legacy version, `>= v` / `< v` thresholds); one record per case, right after `reset`:
//
//	<case>\ttr <plain|all|set:<hex,..|->|ge:<hex>|lt:<hex>>\tsv=<ServerSession.supportedVersions|->\t<tags>
// or `panic` (a handler or the process crashed on this envelope), `stuck` (the session stopped reading).
//
// Crash containment: the cases are executed by a CHILD copy of this test binary; panics below the
// receiving middleware are recovered in-process, anything else kills only the child, the parent
// re-runs the offending case alone and reports the envelope in flight as `panic`.
package mcp

import (
	"bufio"
	"bytes"
	"context"
	"encoding/hex"
	"encoding/json"
	"fmt"
	"io"
	"log/slog"
	"math/rand"
	"net"
	"os"
	"os/exec"
	"reflect"
	"sort"
	"strconv"
	"strings"
	"sync"
	"testing"
	"testing/synctest"
	"time"
	"unicode/utf8"

	"github.com/google/jsonschema-go/jsonschema"
)

// ---------------------------------------------------------------------------------------------
// descriptors

type gateMsg struct {
	side   string // "s": envelope sent to the server; "c": envelope sent to the client
	method string
	hasID  bool
	shape  string // absent | null | ok | degraded | undecodable | wrongtype
	meta   string // nometa | metanull | nover | nonstr | v<hexversion>:<ok|missing|invalid>:<ok|invalid|absent>
	tag    string // effective client name carried by the envelope ("anon" if none)
	iver   string // effective protocolVersion parameter of an initialize
	lvl    string // effective level parameter of logging/setLevel
	raw    string // the envelope
	tags   []string
}

func (m gateMsg) op() string {
	id := "noid"
	if m.hasID {
		id = "id"
	}
	meth := m.method
	if meth == "" {
		meth = "%empty"
	}
	return fmt.Sprintf("msg %s %s %s %s %s tag=%s iver=%s lvl=%s mut=%s raw=%s", m.side, meth, id, m.shape, m.meta, hxs(m.tag), hxs(m.iver), hxs(m.lvl), hxs(m.muts()), hxs(m.raw))
}

// muts lists the member mutations applied to the params ("path:absent|null|wrong", blank separated).
func (m gateMsg) muts() string {
	var l []string
	for _, t := range m.tags {
		if strings.HasPrefix(t, "mut:") {
			l = append(l, t[4:])
		}
	}
	return strings.Join(l, " ")
}

func gateUnhex(s string) string {
	b, err := hex.DecodeString(s)
	if err != nil {
		return ""
	}
	return string(b)
}

func gateParseOp(op string) (gateMsg, bool) {
	f := strings.Fields(op)
	if len(f) != 11 || f[0] != "msg" {
		return gateMsg{}, false
	}
	m := gateMsg{side: f[1], method: f[2], hasID: f[3] == "id", shape: f[4], meta: f[5]}
	if m.method == "%empty" {
		m.method = ""
	}
	for _, kv := range f[6:] {
		k, v, _ := strings.Cut(kv, "=")
		switch k {
		case "tag":
			m.tag = gateUnhex(v)
		case "iver":
			m.iver = gateUnhex(v)
		case "lvl":
			m.lvl = gateUnhex(v)
		case "raw":
			m.raw = gateUnhex(v)
		case "mut":
			for _, x := range strings.Fields(gateUnhex(v)) {
				m.tags = append(m.tags, "mut:"+x)
			}
		}
	}
	return m, true
}

type gateCase struct {
	id   string
	msgs []gateMsg
	tag  string // extra tag on every record (corpus, replay, exh)
	tr   string // server transport spec ("": plain transport, and no `tr` record — old replays)
	// hold: a schedule axis. The server's notification handlers (InitializedHandler, RootsListChangedHandler,
	// ProgressNotificationHandler) park after they were entered and are let go only when the NEXT envelope has
	// been written and the session is quiescent again: every envelope that follows a served notification
	// arrives while that notification's handler is still running. Notifications are handled synchronously on
	// the session's queue, so the answers, the handlers that ran and the session state are the sequential ones.
	hold bool
	// holdinit: a CALL handler held across the next envelope. The receiving middleware parks every `initialize`
	// that reaches it (before the method's function ran, i.e. before anything was accepted) until the next envelope
	// has been written and the session is quiescent; what is visible of that next envelope at this point is the
	// `mid` record (initialize is handled synchronously: the envelope waits in the queue, nothing of it is visible),
	// then initialize is let go and both envelopes' records are written (answers by id; the handler entries after
	// the parked one and the session state belong to the second envelope — the generator makes the envelope after
	// an initialize one that cannot change session state).
	holdinit bool
}

// ---------------------------------------------------------------------------------------------
// transports

// gateVerTransport is an in-memory transport that declares, through ProtocolVersionSupporter, which
// protocol versions it serves.
type gateVerTransport struct {
	*InMemoryTransport
	pred func(string) bool
}

func (t gateVerTransport) SupportsProtocolVersion(v string) bool { return t.pred(v) }

// gateTrPred parses a transport spec; nil predicate: the transport does not implement the interface.
func gateTrPred(spec string) (pred func(string) bool, ok bool) {
	switch {
	case spec == "" || spec == "plain":
		return nil, true
	case spec == "all":
		return func(string) bool { return true }, true
	case spec == "set:-":
		return func(string) bool { return false }, true
	case strings.HasPrefix(spec, "set:"):
		set := map[string]bool{}
		for _, h := range strings.Split(spec[4:], ",") {
			b, err := hex.DecodeString(h)
			if err != nil {
				return nil, false
			}
			set[string(b)] = true
		}
		return func(v string) bool { return set[v] }, true
	case strings.HasPrefix(spec, "ge:"), strings.HasPrefix(spec, "lt:"):
		b, err := hex.DecodeString(spec[3:])
		if err != nil {
			return nil, false
		}
		x := string(b)
		if spec[:2] == "ge" {
			return func(v string) bool { return v >= x }, true
		}
		return func(v string) bool { return v < x }, true
	}
	return nil, false
}

func gateTrSet(vs ...string) string {
	if len(vs) == 0 {
		return "set:-"
	}
	h := make([]string, len(vs))
	for i, v := range vs {
		h[i] = hxs(v)
	}
	return "set:" + strings.Join(h, ",")
}

// the SDK's versions as the generator knows them (the model takes them from the regenerated table) plus
// strings no SDK version equals: a transport may claim anything
var gateSDKVersions = []string{"2026-07-28", "2025-11-25", "2025-06-18", "2025-03-26", "2024-11-05"}
var gateForeignVersions = []string{"2027-01-01", "2026-07-29", "1999-01-01", "2025-11-25x", "draft"}

// gateTrClass names the class of a spec for the evidence histogram.
func gateTrClass(spec string) string {
	pred, ok := gateTrPred(spec)
	if !ok {
		return "tr-bad"
	}
	if pred == nil {
		return "tr-plain"
	}
	legacy, modern := 0, 0
	for _, v := range gateSDKVersions {
		if pred(v) {
			if v >= "2026-07-28" {
				modern++
			} else {
				legacy++
			}
		}
	}
	switch {
	case legacy == 0 && modern == 0:
		return "tr-none"
	case legacy == 0:
		return "tr-new-only"
	case modern == 0 && legacy == 1:
		return "tr-one-legacy"
	case modern == 0:
		return "tr-legacy-only"
	case legacy == len(gateSDKVersions)-1:
		return "tr-all"
	}
	return "tr-mixed"
}

// transport draws the server transport of a random case.
func (g *gateGen) transport() string {
	rng := g.rng
	switch r := rng.Intn(100); {
	case r < 40:
		return "plain"
	case r < 44:
		return "all"
	case r < 54: // only the new protocol (as a set, or as the threshold predicate a stdio-only transport would write)
		if rng.Intn(2) == 0 {
			return gateTrSet("2026-07-28")
		}
		return "ge:" + hxs("2026-07-28")
	case r < 60: // nothing at all
		if rng.Intn(2) == 0 {
			return "set:-"
		}
		return gateTrSet(gateForeignVersions[rng.Intn(len(gateForeignVersions))])
	case r < 68: // exactly one legacy version
		return gateTrSet(gateSDKVersions[1+rng.Intn(4)])
	case r < 74: // legacy only (the SSE transport's predicate) / a lower threshold
		return "lt:" + hxs([]string{"2026-07-28", "2025-06-18", "2025-03-26", "2024-11-05", "2026-07-29"}[rng.Intn(5)])
	case r < 78:
		return "ge:" + hxs([]string{"2025-06-18", "2025-11-25", "2026-07-29", "2024-11-05"}[rng.Intn(4)])
	default: // a random subset, possibly with strings that are no SDK version
		var vs []string
		for _, v := range gateSDKVersions {
			if rng.Intn(2) == 0 {
				vs = append(vs, v)
			}
		}
		if rng.Intn(3) == 0 {
			vs = append(vs, gateForeignVersions[rng.Intn(len(gateForeignVersions))])
		}
		rng.Shuffle(len(vs), func(i, j int) { vs[i], vs[j] = vs[j], vs[i] })
		return gateTrSet(vs...)
	}
}

// ---------------------------------------------------------------------------------------------
// generator

var gateServerMethods = []string{
	"initialize", "notifications/initialized", "ping", "tools/list", "tools/call", "prompts/list", "prompts/get",
	"resources/list", "resources/templates/list", "resources/read", "resources/subscribe", "resources/unsubscribe",
	"logging/setLevel", "completion/complete", "subscriptions/listen", "server/discover",
	"notifications/cancelled", "notifications/progress", "notifications/roots/list_changed",
}

var gateClientMethods = []string{
	"ping", "roots/list", "sampling/createMessage", "elicitation/create", "completion/complete",
	"notifications/cancelled", "notifications/tools/list_changed", "notifications/prompts/list_changed",
	"notifications/resources/list_changed", "notifications/resources/updated", "notifications/message",
	"notifications/progress", "notifications/elicitation/complete", "notifications/subscriptions/acknowledged",
}

var gateUnknownMethods = []string{"foo/bar", "tools/unknown", "Ping", "notifications/unknown", "", "rpc.discover"}

func gateIsNotification(side, method string) bool {
	return strings.HasPrefix(method, "notifications/")
}

// gateBase returns valid parameters for a method (nil: the method is normally sent without params)
// and the list of member paths whose Go type accepts any JSON value.
func gateBase(side, method string, k int, rng *rand.Rand) (map[string]any, []string) {
	obj := func(s string) map[string]any {
		var m map[string]any
		if err := json.Unmarshal([]byte(s), &m); err != nil {
			panic(err)
		}
		return m
	}
	tag := fmt.Sprintf("t%d", k)
	switch method {
	case "initialize":
		// every class of version string: each SDK version, older / newer / in between unknown ones, a
		// near-miss, the empty string, a non-date
		vers := []string{"2025-11-25", "2025-06-18", "2025-03-26", "2024-11-05", "2026-07-28", "1999-01-01", "2099-01-01",
			"2025-11-25", "2025-06-18", "2026-07-29", "2025-08-01", "2025-11-25x", "", "draft"}
		return obj(fmt.Sprintf(`{"protocolVersion":%q,"capabilities":{},"clientInfo":{"name":%q,"version":"1"}}`, vers[rng.Intn(len(vers))], tag)), nil
	case "tools/call":
		if rng.Intn(3) == 0 {
			return obj(`{"name":"plain","arguments":{"x":1}}`), []string{"arguments"}
		}
		return obj(`{"name":"typed","arguments":{"x":1}}`), []string{"arguments"}
	case "prompts/get":
		return obj(`{"name":"p","arguments":{"a":"b"}}`), nil
	case "resources/read", "resources/subscribe", "resources/unsubscribe", "notifications/resources/updated":
		return obj(`{"uri":"file:///r"}`), nil
	case "logging/setLevel":
		lv := []string{"debug", "info", "warning", "error"}
		return obj(fmt.Sprintf(`{"level":%q}`, lv[rng.Intn(len(lv))])), nil
	case "completion/complete":
		return obj(`{"ref":{"type":"ref/prompt","name":"p"},"argument":{"name":"a","value":"v"},"context":{"arguments":{"k":"v"}}}`), nil
	case "subscriptions/listen":
		return obj(`{"notifications":{}}`), nil
	case "notifications/cancelled":
		return obj(`{"requestId":424242,"reason":"r"}`), []string{"requestId"}
	case "notifications/progress":
		return obj(`{"progressToken":"tok","progress":1,"total":2,"message":"m"}`), []string{"progressToken"}
	case "sampling/createMessage":
		return obj(`{"messages":[{"role":"user","content":{"type":"text","text":"hi"}}],"maxTokens":10,"systemPrompt":"s","metadata":{"k":1},"stopSequences":["x"]}`), []string{"metadata"}
	case "elicitation/create":
		return obj(`{"mode":"form","message":"m","requestedSchema":{"type":"object","properties":{"a":{"type":"string"}}}}`), []string{"requestedSchema"}
	case "notifications/message":
		return obj(`{"level":"info","data":"d","logger":"l"}`), []string{"data"}
	case "notifications/elicitation/complete":
		return obj(`{"elicitationId":"e1"}`), nil
	case "notifications/subscriptions/acknowledged":
		return obj(`{"notifications":{"toolsListChanged":true}}`), nil
	}
	return nil, nil
}

// gateStrictPaths: members validated by a custom UnmarshalJSON (absent / null already fail decoding).
var gateStrictPaths = map[string][]string{
	"completion/complete":    {"ref.type"},
	"sampling/createMessage": {"messages.0.content", "messages.0.content.type"},
}

type gatePath []any // string keys and int indices

func gateWalk(v any, pre gatePath, depth int, out *[]gatePath) {
	if depth > 3 {
		return
	}
	switch x := v.(type) {
	case map[string]any:
		keys := make([]string, 0, len(x))
		for k := range x {
			keys = append(keys, k)
		}
		sort.Strings(keys)
		for _, k := range keys {
			if len(pre) == 0 && k == "_meta" {
				continue
			}
			p := append(append(gatePath{}, pre...), k)
			*out = append(*out, p)
			gateWalk(x[k], p, depth+1, out)
		}
	case []any:
		for i := range x {
			p := append(append(gatePath{}, pre...), i)
			*out = append(*out, p)
			gateWalk(x[i], p, depth+1, out)
		}
	}
}

func gateGet(v any, p gatePath) any {
	for _, s := range p {
		switch k := s.(type) {
		case string:
			v = v.(map[string]any)[k]
		case int:
			v = v.([]any)[k]
		}
	}
	return v
}

// gateSet replaces (or, with del, removes) the node at p. Arrays: removal replaces by null (keeps indices).
func gateSet(root any, p gatePath, nv any, del bool) {
	parent := gateGet(root, p[:len(p)-1])
	switch k := p[len(p)-1].(type) {
	case string:
		m := parent.(map[string]any)
		if del {
			delete(m, k)
		} else {
			m[k] = nv
		}
	case int:
		parent.([]any)[k] = nv
	}
}

func gateWrong(v any, rng *rand.Rand) any {
	switch v.(type) {
	case string:
		return []any{float64(7), true, map[string]any{}}[rng.Intn(3)]
	case float64:
		return []any{"x", map[string]any{}, []any{}}[rng.Intn(3)]
	case bool:
		return []any{"x", float64(3)}[rng.Intn(2)]
	case map[string]any:
		return []any{"x", float64(7), []any{}, true}[rng.Intn(4)]
	case []any:
		return []any{map[string]any{}, "x", float64(7)}[rng.Intn(3)]
	}
	return "x"
}

func gatePathStr(p gatePath) string {
	var s []string
	for _, x := range p {
		s = append(s, fmt.Sprint(x))
	}
	return strings.Join(s, ".")
}

func gateDeepCopy(v any) any {
	b, _ := json.Marshal(v)
	var out any
	json.Unmarshal(b, &out)
	return out
}

type gateGen struct {
	rng *rand.Rand
	// fixedPath/fixedKind: when set, msg applies exactly this one member mutation (systematic sweep)
	fixedPath string
	fixedKind int    // 0 absent, 1 null, 2 wrong
	tool      string // when set, tools/call targets this tool
	// spellPct: percentage of envelopes re-spelled as a foreign peer may legally write them (gateRespell)
	spellPct int
}

var gateMetaVersions = []string{"2026-07-28", "2026-07-28", "2026-07-28", "2025-11-25", "2025-06-18", "2024-11-05", "2027-01-01", "2026-07-29", "2026-07-28x", "9", "", "1999-12-31", "draft"}

// msg builds one envelope for message index k of a case.
// force: "" random; otherwise a canonical well-formed envelope of the given flavour ("legacy" | "new").
func (g *gateGen) msg(side, method string, k int, force string) gateMsg {
	rng := g.rng
	m := gateMsg{side: side, method: method, tag: "anon"}
	known := false
	for _, x := range map[string][]string{"s": gateServerMethods, "c": gateClientMethods}[side] {
		if x == method {
			known = true
		}
	}
	notif := gateIsNotification(side, method)
	m.hasID = !notif
	if force == "" && rng.Intn(100) < 12 {
		m.hasID = !m.hasID
		m.tags = append(m.tags, "id-flipped")
	}
	base, anyPaths := gateBase(side, method, k, rng)
	if method == "tools/call" && g.tool != "" {
		base["name"] = g.tool
	}
	// ---- params shape
	shape := "ok"
	if force == "" {
		switch r := rng.Intn(100); {
		case r < 10:
			shape = "absent"
		case r < 17:
			shape = "null"
		case r < 23:
			shape = "wrongtype"
		case r < 55:
			shape = "mutate"
		}
	} else if base == nil && force == "legacy" && rng.Intn(2) == 0 {
		shape = "absent"
	}
	if g.fixedPath != "" {
		shape = "mutate"
	}
	// ---- meta shape (only an object can carry _meta)
	meta := "nometa"
	var metaVal any
	hasMetaVal := false
	if shape == "ok" || shape == "mutate" {
		r := rng.Intn(100)
		if force == "legacy" {
			r = 0
		} else if force == "new" {
			r = 100
		}
		switch {
		case r < 52:
		case r < 55:
			meta, metaVal, hasMetaVal = "metanull", nil, true
		case r < 59:
			meta, metaVal, hasMetaVal = "nover", map[string]any{"progressToken": "pt"}, true
		case r < 63:
			meta, hasMetaVal = "nonstr", true
			metaVal = map[string]any{MetaKeyProtocolVersion: []any{float64(20260728), true, map[string]any{}, nil}[rng.Intn(4)],
				MetaKeyClientCapabilities: map[string]any{}}
		case r < 66 && force == "":
			// _meta of the wrong JSON type: the whole params object is undecodable
			meta, hasMetaVal = "nometa", true
			metaVal = []any{"x", float64(1), []any{}}[rng.Intn(3)]
			shape = "metawrong"
		default:
			ver := gateMetaVersions[rng.Intn(len(gateMetaVersions))]
			caps, ci := "ok", "ok"
			if force == "" {
				caps = []string{"ok", "ok", "ok", "ok", "missing", "invalid"}[rng.Intn(6)]
				ci = []string{"ok", "ok", "ok", "absent", "absent", "invalid"}[rng.Intn(6)]
			} else {
				ver = "2026-07-28"
			}
			mv := map[string]any{MetaKeyProtocolVersion: ver}
			switch caps {
			case "ok":
				mv[MetaKeyClientCapabilities] = []any{map[string]any{}, map[string]any{"roots": map[string]any{}}}[rng.Intn(2)]
			case "invalid":
				mv[MetaKeyClientCapabilities] = []any{"x", float64(1), []any{}, nil, map[string]any{"roots": float64(5)}}[rng.Intn(5)]
			}
			switch ci {
			case "ok":
				mv[MetaKeyClientInfo] = map[string]any{"name": fmt.Sprintf("t%d", k), "version": "1"}
				m.tag = fmt.Sprintf("t%d", k)
			case "invalid":
				mv[MetaKeyClientInfo] = []any{"x", float64(1), []any{}, nil, map[string]any{"name": float64(5)}}[rng.Intn(5)]
			}
			if rng.Intn(4) == 0 {
				mv[MetaKeyLogLevel] = "debug"
			}
			meta, metaVal, hasMetaVal = fmt.Sprintf("v%s:%s:%s", hxs(ver), caps, ci), mv, true
		}
	}
	// ---- build params
	var params any
	hasParams := true
	switch shape {
	case "absent":
		hasParams = false
		m.shape = "absent"
	case "null":
		params = nil
		m.shape = "null"
	case "wrongtype":
		params = []any{[]any{}, []any{float64(1)}, "str", float64(5), true}[rng.Intn(5)]
		m.shape = "wrongtype"
	default:
		o := map[string]any{}
		if base != nil {
			o = gateDeepCopy(base).(map[string]any)
		}
		m.shape = "ok"
		if shape == "metawrong" {
			m.shape = "undecodable"
			m.tags = append(m.tags, "mut:_meta:wrong")
		}
		if shape == "mutate" {
			var paths []gatePath
			gateWalk(o, nil, 0, &paths)
			if len(paths) == 0 {
				// nothing to mutate: add an unknown member instead
				o["zzUnknown"] = []any{float64(1), nil, "x"}[rng.Intn(3)]
				m.tags = append(m.tags, "mut:extra-member")
			} else {
				n := 1 + rng.Intn(2)
				if g.fixedPath != "" {
					n = 1
				}
				m.shape = "degraded"
				var touched []string
				for i := 0; i < n; i++ {
					// later mutations stay clear of earlier ones (neither ancestor nor descendant)
					var free []gatePath
					for _, q := range paths {
						qs := gatePathStr(q)
						clash := false
						for _, t := range touched {
							if qs == t || strings.HasPrefix(qs, t+".") || strings.HasPrefix(t, qs+".") {
								clash = true
							}
						}
						if !clash {
							free = append(free, q)
						}
					}
					if len(free) == 0 {
						break
					}
					p := free[rng.Intn(len(free))]
					kind := rng.Intn(3)
					if g.fixedPath != "" {
						for _, q := range free {
							if gatePathStr(q) == g.fixedPath {
								p = q
							}
						}
						kind = g.fixedKind
					}
					ps := gatePathStr(p)
					touched = append(touched, ps)
					isAny := false
					for _, a := range anyPaths {
						if ps == a || strings.HasPrefix(ps, a+".") {
							isAny = true
						}
					}
					strict := false // a member whose absence or null already fails the custom decoder
					for _, a := range gateStrictPaths[method] {
						if ps == a {
							strict = true
						}
					}
					switch kind {
					case 0:
						_, isIdx := p[len(p)-1].(int)
						gateSet(o, p, nil, !isIdx)
						m.tags = append(m.tags, "mut:"+ps+":absent")
						if strict {
							m.shape = "undecodable"
						}
					case 1:
						gateSet(o, p, nil, false)
						m.tags = append(m.tags, "mut:"+ps+":null")
						if strict {
							m.shape = "undecodable"
						}
					case 2:
						nv := gateWrong(gateGet(o, p), rng)
						if method == "notifications/cancelled" && ps == "requestId" {
							// `any`-typed, but the preempter refuses an id that is neither a string nor a number
							nv = []any{map[string]any{}, []any{}, true}[rng.Intn(3)]
							isAny = false
						}
						if method == "sampling/createMessage" && ps == "messages.0.content" {
							// content may be one block or an array of blocks: an array is not a wrong type
							nv = []any{"x", float64(7), true}[rng.Intn(3)]
						}
						gateSet(o, p, nv, false)
						m.tags = append(m.tags, "mut:"+ps+":wrong")
						if !isAny {
							m.shape = "undecodable"
						}
					}
				}
			}
		}
		if hasMetaVal {
			o["_meta"] = metaVal
		}
		// effective values carried by the envelope
		switch method {
		case "initialize":
			m.tag = "anon"
			if ci, ok := o["clientInfo"].(map[string]any); ok {
				if n, ok := ci["name"].(string); ok {
					m.tag = n
				} else {
					m.tag = ""
				}
			}
			if v, ok := o["protocolVersion"].(string); ok {
				m.iver = v
			}
		case "logging/setLevel":
			if v, ok := o["level"].(string); ok {
				m.lvl = v
			}
		}
		params = o
	}
	m.meta = meta
	env := map[string]any{"jsonrpc": "2.0", "method": method}
	if m.hasID {
		if rng.Intn(6) == 0 {
			env["id"] = fmt.Sprintf("s%d", k+1)
		} else {
			env["id"] = float64(k + 1)
		}
	}
	if hasParams {
		env["params"] = params
	}
	b, _ := json.Marshal(env)
	m.raw = string(b)
	if !known {
		m.tags = append(m.tags, "unknown-method")
	}
	if g.spellPct > 0 && rng.Intn(100) < g.spellPct {
		mode := []int{gateSpellSolidus, gateSpellU, gateSpellWS, gateSpellDup, gateSpellSolidus | gateSpellU, gateSpellAll}[rng.Intn(6)]
		m = gateSpelled(m, mode, rng)
	}
	return m
}

// ---------------------------------------------------------------------------------------------
// foreign spellings
//
// A peer that is not this SDK may write the same JSON value differently from encoding/json: the solidus
// as `\/` (PHP's json_encode does so by default), any character as `\uXXXX`, insignificant white space
// between tokens, and a member more than once (decoders keep the last). The decoded value — hence the
// descriptor the Lean side sees, and the property's answer — is the same; only `raw` changes.

const (
	gateSpellSolidus = 1 << iota // "/" written "\/" in member names and string values
	gateSpellU                   // ASCII letters / punctuation written "\uXXXX" (either hex case) in member names and string values
	gateSpellWS                  // blanks and tabs around tokens
	gateSpellDup                 // members whose decoder rule is last-wins written twice, a decoy first
	gateSpellAll = gateSpellSolidus | gateSpellU | gateSpellWS | gateSpellDup
)

type gateSpeller struct {
	mode int
	rng  *rand.Rand
	used int // spellings actually applied (a text without "/" has nothing to escape)
}

func (sp *gateSpeller) ws(b *strings.Builder) {
	if sp.mode&gateSpellWS == 0 {
		return
	}
	for n := sp.rng.Intn(3); n > 0; n-- {
		b.WriteByte(" \t"[sp.rng.Intn(2)])
		sp.used |= gateSpellWS
	}
}

// str writes a JSON string literal for s. key: a member name (escaped more eagerly).
func (sp *gateSpeller) str(b *strings.Builder, s string, key bool) {
	b.WriteByte('"')
	uPct := 8
	if key {
		uPct = 22
	}
	for _, r := range s {
		switch {
		case r == '/' && sp.mode&gateSpellSolidus != 0 && sp.rng.Intn(4) != 0:
			b.WriteString(`\/`)
			sp.used |= gateSpellSolidus
		case r >= 0x20 && r < 0x7f && sp.mode&gateSpellU != 0 && sp.rng.Intn(100) < uPct:
			if sp.rng.Intn(2) == 0 {
				fmt.Fprintf(b, `\u%04x`, r)
			} else {
				fmt.Fprintf(b, `\u%04X`, r)
			}
			sp.used |= gateSpellU
		case r == '"' || r == '\\':
			b.WriteByte('\\')
			b.WriteRune(r)
		case r < 0x20 || r == 0x7f || r == 0x2028 || r == 0x2029 || r == utf8.RuneError:
			if r == utf8.RuneError {
				b.WriteString(`\ufffd`)
			} else {
				fmt.Fprintf(b, `\u%04x`, r)
			}
		default:
			b.WriteRune(r)
		}
	}
	b.WriteByte('"')
}

// gateDupDecoys: members written twice (decoy first) — only where every decoder involved keeps the
// last occurrence: string members of the envelope and of `_meta` (a map: the later value replaces).
var gateDupDecoys = map[string]string{
	"jsonrpc": `"1.0"`, "method": `"ping"`, MetaKeyProtocolVersion: `"1999-01-01"`,
}

func (sp *gateSpeller) val(b *strings.Builder, v any) {
	switch x := v.(type) {
	case nil:
		b.WriteString("null")
	case bool:
		fmt.Fprintf(b, "%v", x)
	case json.Number:
		b.WriteString(x.String())
	case string:
		sp.str(b, x, false)
	case []any:
		b.WriteByte('[')
		for i, e := range x {
			if i > 0 {
				b.WriteByte(',')
			}
			sp.ws(b)
			sp.val(b, e)
			sp.ws(b)
		}
		b.WriteByte(']')
	case map[string]any:
		keys := make([]string, 0, len(x))
		for k := range x {
			keys = append(keys, k)
		}
		sort.Strings(keys)
		b.WriteByte('{')
		first := true
		member := func(k string, write func()) {
			if !first {
				b.WriteByte(',')
			}
			first = false
			sp.ws(b)
			sp.str(b, k, true)
			sp.ws(b)
			b.WriteByte(':')
			sp.ws(b)
			write()
			sp.ws(b)
		}
		for _, k := range keys {
			if decoy, ok := gateDupDecoys[k]; ok && sp.mode&gateSpellDup != 0 {
				if _, isStr := x[k].(string); isStr {
					member(k, func() { b.WriteString(decoy) })
					sp.used |= gateSpellDup
				}
			}
			member(k, func() { sp.val(b, x[k]) })
		}
		b.WriteByte('}')
	default:
		j, _ := json.Marshal(x)
		b.Write(j)
	}
}

// gateRespell rewrites a JSON text in the given spelling mode; used reports the families applied.
func gateRespell(raw string, mode int, rng *rand.Rand) (out string, used int) {
	dec := json.NewDecoder(strings.NewReader(raw))
	dec.UseNumber()
	var v any
	if dec.Decode(&v) != nil {
		return raw, 0
	}
	sp := &gateSpeller{mode: mode, rng: rng}
	var b strings.Builder
	// (no blanks after the top-level value: ioConn's reader wants the line end right behind it — framing
	// is the wire engine's subject, not the gate's)
	sp.ws(&b)
	sp.val(&b, v)
	// self-check: the re-spelled text denotes the same value
	var back any
	d2 := json.NewDecoder(strings.NewReader(b.String()))
	d2.UseNumber()
	if d2.Decode(&back) != nil || !reflect.DeepEqual(v, back) {
		panic("gateRespell: the re-spelled envelope does not decode to the same value: " + b.String())
	}
	return b.String(), sp.used
}

// gateSpelled: m with its envelope re-spelled, tagged with the families that were applied.
func gateSpelled(m gateMsg, mode int, rng *rand.Rand) gateMsg {
	raw, used := gateRespell(m.raw, mode, rng)
	if used == 0 {
		return m
	}
	m.raw = raw
	m.tags = append(append([]string{}, m.tags...), "spell-esc")
	for _, f := range []struct {
		bit int
		tag string
	}{{gateSpellSolidus, "spell-solidus"}, {gateSpellU, "spell-u"}, {gateSpellWS, "spell-ws"}, {gateSpellDup, "spell-dup"}} {
		if used&f.bit != 0 {
			m.tags = append(m.tags, f.tag)
		}
	}
	return m
}

// gateSpellSweep: the envelopes whose refusal depends on the per-request metadata being READ — incomplete
// metadata, a version nobody serves, a method removed from the new protocol, an unsupported version on a
// session that did the legacy handshake — each in every spelling family (and all of them at once).
func gateSpellSweep() []gateCase {
	var out []gateCase
	edit := func(m gateMsg, f func(meta map[string]any) string) gateMsg {
		var env map[string]any
		d := json.NewDecoder(strings.NewReader(m.raw))
		d.UseNumber()
		d.Decode(&env)
		params, _ := env["params"].(map[string]any)
		meta, _ := params["_meta"].(map[string]any)
		if meta == nil {
			return m
		}
		m.meta = f(meta)
		b, _ := json.Marshal(env)
		m.raw = string(b)
		return m
	}
	for _, mode := range []int{gateSpellSolidus, gateSpellU, gateSpellWS, gateSpellDup, gateSpellAll} {
		for sc := 0; sc < 4; sc++ {
			for rep := 0; rep < 2; rep++ {
				g := &gateGen{rng: rand.New(rand.NewSource(int64(len(out)) + 4242))}
				c := gateCase{id: fmt.Sprintf("sp%d", len(out)), tag: "spell", tr: "plain"}
				k := 0
				var m gateMsg
				switch sc {
				case 0: // incomplete metadata: no clientCapabilities
					m = edit(g.msg("s", "tools/list", k, "new"), func(meta map[string]any) string {
						delete(meta, MetaKeyClientCapabilities)
						return fmt.Sprintf("v%s:missing:ok", hxs("2026-07-28"))
					})
				case 1: // a version nobody serves
					m = edit(g.msg("s", "tools/call", k, "new"), func(meta map[string]any) string {
						meta[MetaKeyProtocolVersion] = "2027-01-01"
						return fmt.Sprintf("v%s:ok:ok", hxs("2027-01-01"))
					})
				case 2: // removed from the new protocol
					m = g.msg("s", "ping", k, "new")
				case 3: // legacy handshake first, then an unsupported per-request version
					c.msgs = append(c.msgs, g.msg("s", "initialize", 0, "legacy"), g.msg("s", "notifications/initialized", 1, "legacy"))
					k = 2
					m = edit(g.msg("s", "tools/call", k, "new"), func(meta map[string]any) string {
						meta[MetaKeyProtocolVersion] = "2027-01-01"
						return fmt.Sprintf("v%s:ok:ok", hxs("2027-01-01"))
					})
				}
				c.msgs = append(c.msgs, gateSpelled(m, mode, g.rng))
				c.msgs = append(c.msgs, g.msg("s", "ping", len(c.msgs), "legacy"))
				out = append(out, c)
			}
		}
	}
	return out
}

func (g *gateGen) serverCase(id string) gateCase {
	rng := g.rng
	n := 1 + rng.Intn(8)
	c := gateCase{id: id, tr: g.transport()}
	// about half of the histories start with a well-formed handshake (possibly without `initialized`);
	// whether it SUCCEEDS depends on the transport
	if rng.Intn(100) < 50 {
		c.msgs = append(c.msgs, g.msg("s", "initialize", 0, "legacy"))
		if rng.Intn(100) < 70 {
			c.msgs = append(c.msgs, g.msg("s", "notifications/initialized", 1, "legacy"))
		}
	}
	for k := len(c.msgs); k < n; k++ {
		var method string
		switch r := rng.Intn(100); {
		case r < 14:
			method = "initialize"
		case r < 30:
			method = "notifications/initialized"
		case r < 36:
			method = "ping"
		case r < 42:
			method = append(gateUnknownMethods, "sampling/createMessage", "roots/list")[rng.Intn(len(gateUnknownMethods)+2)]
		default:
			method = gateServerMethods[rng.Intn(len(gateServerMethods))]
		}
		force := ""
		if r := rng.Intn(100); r < 25 {
			force = "legacy"
		} else if r < 32 {
			force = "new"
		}
		c.msgs = append(c.msgs, g.msg("s", method, k, force))
	}
	// liveness probe: the session must still serve ping
	c.msgs = append(c.msgs, g.msg("s", "ping", len(c.msgs), "legacy"))
	// a quarter of the histories run with the notification handlers held (drawn last: the envelopes of a seed
	// are the same with and without this axis)
	c.hold = rng.Intn(100) < 25
	if !c.hold && rng.Intn(100) < 20 {
		c.holdinit = true
		gateSeparateInit(g, &c)
	}
	return c
}

// gateSeparateInit: in a holdinit case the envelope after an initialize must be one that cannot change session
// state (its state is read only after both were handled): otherwise a legacy tools/list / tools/call / ping /
// unknown method is put in between.
func gateSeparateInit(g *gateGen, c *gateCase) {
	var out []gateMsg
	for k, m := range c.msgs {
		out = append(out, m)
		if m.method != "initialize" || k+1 >= len(c.msgs) {
			continue
		}
		nx := c.msgs[k+1]
		switch nx.method {
		case "initialize", "notifications/initialized", "logging/setLevel", "server/discover":
		default:
			if nx.meta == "nometa" {
				continue
			}
		}
		filler := []string{"tools/list", "tools/call", "ping", "foo/bar", "prompts/get", "resources/read"}[g.rng.Intn(6)]
		out = append(out, g.msg("s", filler, 60+len(out), "legacy"))
	}
	c.msgs = out
}

func (g *gateGen) clientCase(id string) gateCase {
	rng := g.rng
	n := 1 + rng.Intn(8)
	c := gateCase{id: id}
	for k := 0; k < n; k++ {
		var method string
		switch r := rng.Intn(100); {
		case r < 8:
			method = append(gateUnknownMethods, "tools/list", "initialize")[rng.Intn(len(gateUnknownMethods)+2)]
		default:
			method = gateClientMethods[rng.Intn(len(gateClientMethods))]
		}
		force := ""
		if rng.Intn(100) < 25 {
			force = "legacy"
		}
		c.msgs = append(c.msgs, g.msg("c", method, k, force))
	}
	c.msgs = append(c.msgs, g.msg("c", "ping", len(c.msgs), "legacy"))
	return c
}

// ---------------------------------------------------------------------------------------------
// running one case against the real code

type gateRec struct {
	mu       sync.Mutex
	mw       []string
	uh       []string
	panicked bool
	gate     chan struct{} // hold mode: notification handlers park on it (nil: they return at once)
	parked   int           // handlers parked right now
	initGate chan struct{} // holdinit mode: the middleware parks `initialize` on it (nil: not armed)
	initHeld int           // initialize calls parked right now
}

// park is called by a notification handler after it recorded its invocation.
func (r *gateRec) park() {
	r.mu.Lock()
	g := r.gate
	if g != nil {
		r.parked++
	}
	r.mu.Unlock()
	if g != nil {
		<-g
		r.mu.Lock()
		r.parked--
		r.mu.Unlock()
	}
}

// release lets the parked handlers go; handlers entered afterwards park on a fresh gate (hold) or not at all.
func (r *gateRec) release(hold bool) (wasParked int) {
	r.mu.Lock()
	g := r.gate
	wasParked = r.parked
	r.gate = nil
	if hold {
		r.gate = make(chan struct{})
	}
	r.mu.Unlock()
	if g != nil {
		close(g)
	}
	return
}

func (r *gateRec) addMW(m string) { r.mu.Lock(); r.mw = append(r.mw, m); r.mu.Unlock() }
func (r *gateRec) addUH(h string) { r.mu.Lock(); r.uh = append(r.uh, h); r.mu.Unlock() }
func (r *gateRec) take() (mw, uh []string, p bool) {
	r.mu.Lock()
	defer r.mu.Unlock()
	mw, uh, p = r.mw, r.uh, r.panicked
	r.mw, r.uh, r.panicked = nil, nil, false
	return
}

func (r *gateRec) middleware() Middleware {
	return func(next MethodHandler) MethodHandler {
		return func(ctx context.Context, method string, req Request) (res Result, err error) {
			r.addMW(method)
			if method == "initialize" {
				r.mu.Lock()
				g := r.initGate
				r.initGate = nil // one at a time: re-armed by the harness
				if g != nil {
					r.initHeld++
				}
				r.mu.Unlock()
				if g != nil {
					<-g
					r.mu.Lock()
					r.initHeld--
					r.mu.Unlock()
				}
			}
			defer func() {
				if x := recover(); x != nil {
					r.mu.Lock()
					r.panicked = true
					r.mu.Unlock()
					res, err = nil, fmt.Errorf("verif harness: recovered panic: %v", x)
				}
			}()
			return next(ctx, method, req)
		}
	}
}

type gateTypedIn struct {
	X int    `json:"x"`
	S string `json:"s,omitempty"`
}

func gateNewServer(rec *gateRec) *Server {
	logger := slog.New(slog.NewTextHandler(io.Discard, nil))
	s := NewServer(&Implementation{Name: "verif-server", Version: "1"}, &ServerOptions{
		Logger:                      logger,
		InitializedHandler:          func(context.Context, *InitializedRequest) { rec.addUH("initialized"); rec.park() },
		RootsListChangedHandler:     func(context.Context, *RootsListChangedRequest) { rec.addUH("roots-changed"); rec.park() },
		ProgressNotificationHandler: func(context.Context, *ProgressNotificationServerRequest) { rec.addUH("progress"); rec.park() },
		CompletionHandler: func(context.Context, *CompleteRequest) (*CompleteResult, error) {
			rec.addUH("complete")
			return &CompleteResult{Completion: CompletionResultDetails{Values: []string{"v"}}}, nil
		},
		SubscribeHandler:   func(context.Context, *SubscribeRequest) error { rec.addUH("subscribe"); return nil },
		UnsubscribeHandler: func(context.Context, *UnsubscribeRequest) error { rec.addUH("unsubscribe"); return nil },
	})
	s.AddTool(&Tool{Name: "plain", InputSchema: &jsonschema.Schema{Type: "object"}},
		func(context.Context, *CallToolRequest) (*CallToolResult, error) {
			rec.addUH("tool")
			return &CallToolResult{Content: []Content{&TextContent{Text: "ok"}}}, nil
		})
	AddTool(s, &Tool{Name: "typed", InputSchema: &jsonschema.Schema{
		Type: "object",
		Properties: map[string]*jsonschema.Schema{
			"x": {Type: "integer", Default: json.RawMessage("7")},
			"s": {Type: "string"},
		},
	}}, func(_ context.Context, _ *CallToolRequest, in gateTypedIn) (*CallToolResult, any, error) {
		rec.addUH("tool")
		return &CallToolResult{Content: []Content{&TextContent{Text: "ok"}}}, nil, nil
	})
	s.AddPrompt(&Prompt{Name: "p", Arguments: []*PromptArgument{{Name: "a"}}},
		func(context.Context, *GetPromptRequest) (*GetPromptResult, error) {
			rec.addUH("prompt")
			return &GetPromptResult{Messages: []*PromptMessage{{Role: "user", Content: &TextContent{Text: "hi"}}}}, nil
		})
	s.AddResource(&Resource{Name: "r", URI: "file:///r"},
		func(context.Context, *ReadResourceRequest) (*ReadResourceResult, error) {
			rec.addUH("resource")
			return &ReadResourceResult{Contents: []*ResourceContents{{URI: "file:///r", Text: "x"}}}, nil
		})
	s.AddResourceTemplate(&ResourceTemplate{Name: "rt", URITemplate: "tmpl:///{id}"},
		func(context.Context, *ReadResourceRequest) (*ReadResourceResult, error) {
			rec.addUH("resource")
			return &ReadResourceResult{Contents: []*ResourceContents{{URI: "tmpl:///1", Text: "x"}}}, nil
		})
	s.AddReceivingMiddleware(rec.middleware())
	return s
}

func gateNewClient(rec *gateRec) *Client {
	logger := slog.New(slog.NewTextHandler(io.Discard, nil))
	c := NewClient(&Implementation{Name: "verif-client", Version: "1"}, &ClientOptions{
		Logger: logger,
		CreateMessageHandler: func(context.Context, *CreateMessageRequest) (*CreateMessageResult, error) {
			rec.addUH("sampling")
			return &CreateMessageResult{Model: "m", Role: "assistant", Content: &TextContent{Text: "a"}}, nil
		},
		ElicitationHandler: func(context.Context, *ElicitRequest) (*ElicitResult, error) {
			rec.addUH("elicit")
			return &ElicitResult{Action: "accept", Content: map[string]any{"a": "x"}}, nil
		},
		ElicitationCompleteHandler: func(context.Context, *ElicitationCompleteNotificationRequest) { rec.addUH("elicit-complete") },
		ToolListChangedHandler:     func(context.Context, *ToolListChangedRequest) { rec.addUH("tools-changed") },
		PromptListChangedHandler:   func(context.Context, *PromptListChangedRequest) { rec.addUH("prompts-changed") },
		ResourceListChangedHandler: func(context.Context, *ResourceListChangedRequest) { rec.addUH("resources-changed") },
		ResourceUpdatedHandler:     func(context.Context, *ResourceUpdatedNotificationRequest) { rec.addUH("resource-updated") },
		LoggingMessageHandler:      func(context.Context, *LoggingMessageRequest) { rec.addUH("log") },
		ProgressNotificationHandler: func(context.Context, *ProgressNotificationClientRequest) {
			rec.addUH("progress")
		},
	})
	c.AddRoots(&Root{URI: "file:///root", Name: "root"})
	c.AddReceivingMiddleware(rec.middleware())
	return c
}

// gatePeer is the raw side of the pipe.
type gatePeer struct {
	conn  net.Conn
	mu    sync.Mutex
	resps []map[string]json.RawMessage // responses received and not yet attributed
	calls int                          // calls received from the implementation (answered automatically)
	wmu   sync.Mutex
	done  chan struct{}
}

func gateNewPeer(conn net.Conn) *gatePeer {
	p := &gatePeer{conn: conn, done: make(chan struct{})}
	go p.readLoop()
	return p
}

func (p *gatePeer) readLoop() {
	defer close(p.done)
	rd := bufio.NewReaderSize(p.conn, 1<<16)
	for {
		line, err := rd.ReadBytes('\n')
		if len(bytes.TrimSpace(line)) > 0 {
			p.handleLine(line)
		}
		if err != nil {
			return
		}
	}
}

func (p *gatePeer) handleLine(line []byte) {
	var msgs []map[string]json.RawMessage
	if bytes.HasPrefix(bytes.TrimSpace(line), []byte("[")) {
		json.Unmarshal(line, &msgs)
	} else {
		var m map[string]json.RawMessage
		if json.Unmarshal(line, &m) == nil {
			msgs = append(msgs, m)
		}
	}
	for _, m := range msgs {
		if meth, ok := m["method"]; ok {
			if id, ok := m["id"]; ok {
				// a call from the implementation: answer it so that no handler waits for us
				p.mu.Lock()
				p.calls++
				p.mu.Unlock()
				var res string
				switch string(meth) {
				case `"initialize"`:
					res = `{"protocolVersion":"2025-11-25","capabilities":{},"serverInfo":{"name":"raw","version":"1"}}`
				case `"completion/complete"`:
					res = `{"completion":{"values":[]}}`
				case `"roots/list"`:
					res = `{"roots":[]}`
				default:
					res = `{}`
				}
				go p.write(fmt.Sprintf(`{"jsonrpc":"2.0","id":%s,"result":%s}`, id, res))
			}
			continue
		}
		p.mu.Lock()
		p.resps = append(p.resps, m)
		p.mu.Unlock()
	}
}

func (p *gatePeer) write(s string) error {
	p.wmu.Lock()
	defer p.wmu.Unlock()
	_, err := p.conn.Write([]byte(s + "\n"))
	return err
}

func (p *gatePeer) takeResps() []map[string]json.RawMessage {
	p.mu.Lock()
	defer p.mu.Unlock()
	r := p.resps
	p.resps = nil
	return r
}

// gateResultInfo: what a result carries that depends on the transport.
func gateResultInfo(method string, result json.RawMessage) string {
	switch method {
	case "initialize":
		var r struct {
			ProtocolVersion *string `json:"protocolVersion"`
		}
		if json.Unmarshal(result, &r) != nil || r.ProtocolVersion == nil {
			return "?"
		}
		if *r.ProtocolVersion == "" {
			return "-"
		}
		return strings.NewReplacer(" ", "_", "\t", "_").Replace(*r.ProtocolVersion)
	case "server/discover":
		var r struct {
			SupportedVersions []string `json:"supportedVersions"`
		}
		if json.Unmarshal(result, &r) != nil {
			return "?"
		}
		if len(r.SupportedVersions) == 0 {
			return "-"
		}
		return strings.Join(r.SupportedVersions, ",")
	}
	return "-"
}

func gateWire(resps []map[string]json.RawMessage, wantID string, hasID bool, method string) (w, rv string) {
	w, rv = gateWire1(resps, wantID, hasID), "-"
	if w == "ok" {
		for _, r := range resps {
			if string(r["id"]) == wantID {
				rv = gateResultInfo(method, r["result"])
			}
		}
	}
	return
}

func gateWire1(resps []map[string]json.RawMessage, wantID string, hasID bool) string {
	var mine []map[string]json.RawMessage
	stray := 0
	for _, r := range resps {
		if hasID && string(r["id"]) == wantID {
			mine = append(mine, r)
		} else {
			stray++ // a response nobody asked for (wrong or absent id)
		}
	}
	if stray > 0 {
		return fmt.Sprintf("stray%d", stray)
	}
	if len(mine) == 0 {
		return "none"
	}
	if len(mine) > 1 {
		return fmt.Sprintf("multi%d", len(mine))
	}
	r := mine[0]
	if e, ok := r["error"]; ok {
		var we struct {
			Code int64           `json:"code"`
			Data json.RawMessage `json:"data"`
		}
		json.Unmarshal(e, &we)
		s := fmt.Sprintf("e%d", we.Code)
		if we.Code == CodeUnsupportedProtocolVersion {
			var d struct {
				Supported []string `json:"supported"`
			}
			json.Unmarshal(we.Data, &d)
			s += ":" + strings.Join(d.Supported, ",")
		}
		return s
	}
	if _, ok := r["result"]; ok {
		return "ok"
	}
	return "malformed"
}

func gateJoin(l []string) string {
	if len(l) == 0 {
		return "-"
	}
	return strings.Join(l, ",")
}

// gateEnvID: the envelope's id as the SDK will write it back (a string id in encoding/json's spelling,
// whatever spelling the envelope used; a number as written).
func gateEnvID(raw string) string {
	var e struct {
		ID json.RawMessage `json:"id"`
	}
	json.Unmarshal([]byte(raw), &e)
	var s string
	if len(e.ID) > 0 && e.ID[0] == '"' && json.Unmarshal(e.ID, &s) == nil {
		b, _ := json.Marshal(s)
		return string(b)
	}
	return string(e.ID)
}

// gateRunCase executes one case inside a synctest bubble; emit is called once per envelope, in order,
// as soon as its observation is known.
func gateRunCase(t *testing.T, c gateCase, emit func(i int, obs string), poisoned func()) {
	synctest.Test(t, func(t *testing.T) {
		rec := &gateRec{}
		ctx, cancel := context.WithCancel(context.Background())
		defer cancel()
		c1, c2 := net.Pipe()
		peer := gateNewPeer(c2)
		side := "s"
		if len(c.msgs) > 0 {
			side = c.msgs[0].side
		}
		var ss *ServerSession
		var cs *ClientSession
		if side == "s" {
			s := gateNewServer(rec)
			var err error
			var tr Transport = &InMemoryTransport{rwc: c1}
			pred, ok := gateTrPred(c.tr)
			if !ok {
				t.Fatalf("bad transport spec %q", c.tr)
			}
			if pred != nil {
				tr = gateVerTransport{&InMemoryTransport{rwc: c1}, pred}
			}
			ss, err = s.Connect(ctx, tr, nil)
			if err != nil {
				t.Fatal(err)
			}
			if c.tr != "" {
				ss.mu.Lock()
				sv := append([]string{}, ss.supportedVersions...)
				isNil := ss.supportedVersions == nil
				ss.mu.Unlock()
				switch {
				case isNil:
					emit(-1, "sv=nil")
				case len(sv) == 0:
					emit(-1, "sv=-")
				default:
					emit(-1, "sv="+strings.Join(sv, ","))
				}
			}
		} else {
			cl := gateNewClient(rec)
			ch := make(chan error, 1)
			go func() {
				var err error
				cs, err = cl.Connect(ctx, &InMemoryTransport{rwc: c1}, &ClientSessionOptions{ProtocolVersion: protocolVersion20251125})
				ch <- err
			}()
			synctest.Wait()
			select {
			case err := <-ch:
				if err != nil {
					t.Fatal(err)
				}
			default:
				t.Fatal("client Connect did not finish")
			}
			rec.take()
			peer.takeResps()
		}
		stuck := false
		if c.hold && ss != nil {
			rec.release(true)
			emit(-2, "ok")
		}
		defer rec.release(false)
		var initGate chan struct{}
		armInit := func() {
			if c.holdinit && ss != nil {
				initGate = make(chan struct{})
				rec.mu.Lock()
				rec.initGate = initGate
				rec.mu.Unlock()
			}
		}
		releaseInit := func() {
			rec.mu.Lock()
			rec.initGate = nil
			rec.mu.Unlock()
			if initGate != nil {
				close(initGate)
				initGate = nil
			}
		}
		defer releaseInit()
		if c.holdinit && ss != nil {
			emit(-3, "ok")
		}
		armInit()
		snap := func() string {
			st := "-/0/"
			if ss != nil {
				ss.mu.Lock()
				state := ss.state
				ss.mu.Unlock()
				ip := "-"
				if p := state.InitializeParams; p != nil {
					name := "anon"
					if p.ClientInfo != nil {
						name = p.ClientInfo.Name
					}
					ip = hxs(name) + "@" + hxs(p.ProtocolVersion)
				}
				id := 0
				if state.InitializedParams != nil {
					id = 1
				}
				st = fmt.Sprintf("%s/%d/%s", ip, id, hxs(string(state.LogLevel)))
			}
			return st
		}
		pend := -1 // index of the envelope whose initialize is parked in the middleware
		for i, m := range c.msgs {
			if stuck {
				continue // nothing is recorded after a crash or a teardown
			}
			rec.mu.Lock()
			heldBefore := rec.parked
			rec.mu.Unlock()
			wdone := make(chan error, 1)
			go func() { wdone <- peer.write(m.raw) }()
			synctest.Wait()
			if c.hold && heldBefore > 0 {
				// the envelope was written while an earlier notification's handler was still running: let that
				// handler return (a handler this envelope enters parks on a fresh gate), and wait until the
				// session is quiescent again
				rec.release(true)
				synctest.Wait()
			}
			select {
			case <-wdone:
			default:
				// the implementation no longer reads: torn down
				stuck = true
				emit(i, "stuck")
				c2.Close()
				continue
			}
			if c.holdinit && pend < 0 && i+1 < len(c.msgs) {
				rec.mu.Lock()
				held := rec.initHeld
				rec.mu.Unlock()
				if held > 0 {
					pend = i // its record is written together with the next envelope's
					continue
				}
			}
			if pend >= 0 {
				// this envelope was written while the initialize of envelope pend is still in its handler chain
				pm := c.msgs[pend]
				midMW, midUH, _ := rec.take()
				midResps := peer.takeResps()
				releaseInit()
				synctest.Wait()
				mw2, uh2, panicked2 := rec.take()
				lateResps := peer.takeResps()
				idP, idI := gateEnvID(pm.raw), gateEnvID(m.raw)
				var rp, ri, midI []map[string]json.RawMessage
				for k, r := range append(append([]map[string]json.RawMessage{}, midResps...), lateResps...) {
					if pm.hasID && string(r["id"]) == idP {
						rp = append(rp, r)
					} else {
						ri = append(ri, r)
						if k < len(midResps) {
							midI = append(midI, r)
						}
					}
				}
				mwAll := append(append([]string{}, midMW...), mw2...)
				var mwP, mwI, midOther []string
				for k, x := range mwAll {
					if len(mwP) == 0 && x == "initialize" {
						mwP = append(mwP, x)
						continue
					}
					mwI = append(mwI, x)
					if k < len(midMW) {
						midOther = append(midOther, x)
					}
				}
				st := snap()
				emit(-1000-pend, fmt.Sprintf("mw=%s uh=%s w=%s", gateJoin(midOther), gateJoin(midUH), gateWire1(midI, idI, m.hasID)))
				wP, rvP := gateWire(rp, idP, pm.hasID, pm.method)
				emit(pend, fmt.Sprintf("w=%s mw=%s uh=%s st=%s rv=%s", wP, gateJoin(mwP), "-", st, rvP))
				pend = -1
				if panicked2 {
					emit(i, "panic")
					poisoned()
					stuck = true
					continue
				}
				wI, rvI := gateWire(ri, idI, m.hasID, m.method)
				emit(i, fmt.Sprintf("w=%s mw=%s uh=%s st=%s rv=%s", wI, gateJoin(mwI), gateJoin(append(midUH, uh2...)), st, rvI))
				armInit()
				continue
			}
			mw, uh, panicked := rec.take()
			w, rv := gateWire(peer.takeResps(), gateEnvID(m.raw), m.hasID, m.method)
			if panicked {
				// The panic was recovered below the middleware; whatever the handler held (locks) is lost, so
				// the process is not reused: report, and let the child restart.
				emit(i, "panic")
				poisoned()
				stuck = true
				continue
			}
			st := "-/0/"
			if ss != nil {
				ss.mu.Lock()
				state := ss.state
				ss.mu.Unlock()
				ip := "-"
				if p := state.InitializeParams; p != nil {
					name := "anon"
					if p.ClientInfo != nil {
						name = p.ClientInfo.Name
					}
					ip = hxs(name) + "@" + hxs(p.ProtocolVersion)
				}
				id := 0
				if state.InitializedParams != nil {
					id = 1
				}
				st = fmt.Sprintf("%s/%d/%s", ip, id, hxs(string(state.LogLevel)))
			}
			emit(i, fmt.Sprintf("w=%s mw=%s uh=%s st=%s rv=%s", w, gateJoin(mw), gateJoin(uh), st, rv))
		}
		// tear down: everything in the bubble must exit
		releaseInit()
		rec.release(false)
		synctest.Wait()
		if ss != nil {
			go ss.Close()
		}
		if cs != nil {
			go cs.Close()
		}
		synctest.Wait()
		c2.Close()
		c1.Close()
		cancel()
		synctest.Wait()
	})
}

// ---------------------------------------------------------------------------------------------
// parent / child plumbing

func gateWriteCases(path string, cases []gateCase) error {
	var b strings.Builder
	for _, c := range cases {
		fmt.Fprintf(&b, "case %s tag=%s tr=%s hold=%v hi=%v\n", c.id, c.tag, c.tr, c.hold, c.holdinit)
		for _, m := range c.msgs {
			b.WriteString(m.op() + "\t" + strings.Join(m.tags, ",") + "\n")
		}
	}
	return os.WriteFile(path, []byte(b.String()), 0o644)
}

func gateReadCases(path string) ([]gateCase, error) {
	b, err := os.ReadFile(path)
	if err != nil {
		return nil, err
	}
	var out []gateCase
	for _, ln := range strings.Split(string(b), "\n") {
		if strings.HasPrefix(ln, "case ") {
			f := strings.Fields(ln)
			c := gateCase{id: f[1]}
			for _, kv := range f[2:] {
				if v, ok := strings.CutPrefix(kv, "tag="); ok {
					c.tag = v
				} else if v, ok := strings.CutPrefix(kv, "tr="); ok {
					c.tr = v
				} else if v, ok := strings.CutPrefix(kv, "hold="); ok {
					c.hold = v == "true"
				} else if v, ok := strings.CutPrefix(kv, "hi="); ok {
					c.holdinit = v == "true"
				}
			}
			out = append(out, c)
			continue
		}
		op, tags, _ := strings.Cut(ln, "\t")
		if m, ok := gateParseOp(op); ok && len(out) > 0 {
			if tags != "" {
				m.tags = nil
				m.tags = strings.Split(tags, ",")
			}
			out[len(out)-1].msgs = append(out[len(out)-1].msgs, m)
		}
	}
	return out, nil
}

// TestVerifGateChild runs the cases of $VERIF_GATE_CASES and writes `<case-index> <msg-index> <obs>` lines,
// unbuffered, to $VERIF_GATE_CHILD_OUT; `end <case-index>` closes a case.
func TestVerifGateChild(t *testing.T) {
	in, outp := os.Getenv("VERIF_GATE_CASES"), os.Getenv("VERIF_GATE_CHILD_OUT")
	if in == "" || outp == "" {
		t.Skip("child mode of the gate harness")
	}
	cases, err := gateReadCases(in)
	if err != nil {
		t.Fatal(err)
	}
	f, err := os.Create(outp)
	if err != nil {
		t.Fatal(err)
	}
	defer f.Close()
	for ci, c := range cases {
		gateRunCase(t, c, func(i int, obs string) {
			fmt.Fprintf(f, "%d %d %s\n", ci, i, obs)
		}, func() {
			fmt.Fprintf(f, "end %d\nrestart\n", ci)
			f.Close()
			os.Exit(0)
		})
		fmt.Fprintf(f, "end %d\n", ci)
	}
}

type gateChildResult struct {
	obs     map[[2]int]string
	ended   map[int]bool
	crashed bool
	restart bool // the child stopped after a recovered panic; the remaining cases need a fresh process
	tail    string
}

func gateRunChild(t *testing.T, cases []gateCase, dir string, n int) gateChildResult {
	in := fmt.Sprintf("%s/cases-%d.txt", dir, n)
	outp := fmt.Sprintf("%s/out-%d.txt", dir, n)
	if err := gateWriteCases(in, cases); err != nil {
		t.Fatal(err)
	}
	ctx, cancel := context.WithTimeout(context.Background(), 20*time.Minute)
	defer cancel()
	cmd := exec.CommandContext(ctx, os.Args[0], "-test.run", "^TestVerifGateChild$", "-test.count=1", "-test.timeout", "19m")
	cmd.Env = append(os.Environ(), "VERIF_GATE_CASES="+in, "VERIF_GATE_CHILD_OUT="+outp, "VERIF_OUT=")
	var eb bytes.Buffer
	cmd.Stdout, cmd.Stderr = &eb, &eb
	err := cmd.Run()
	res := gateChildResult{obs: map[[2]int]string{}, ended: map[int]bool{}, crashed: err != nil}
	if b := eb.Bytes(); len(b) > 600 {
		res.tail = string(b[:600])
	} else {
		res.tail = string(b)
	}
	b, _ := os.ReadFile(outp)
	for _, ln := range strings.Split(string(b), "\n") {
		f := strings.SplitN(ln, " ", 3)
		if ln == "restart" {
			res.restart = true
		} else if len(f) == 2 && f[0] == "end" {
			ci, _ := strconv.Atoi(f[1])
			res.ended[ci] = true
		} else if len(f) == 3 {
			ci, e1 := strconv.Atoi(f[0])
			mi, e2 := strconv.Atoi(f[1])
			if e1 == nil && e2 == nil {
				res.obs[[2]int{ci, mi}] = f[2]
			}
		}
	}
	os.Remove(in)
	os.Remove(outp)
	return res
}

func gateTagsFor(m gateMsg, obs string, extra string) []string {
	tags := []string{"side-" + m.side, "m:" + m.method, "shape-" + m.shape}
	if m.meta != "nometa" {
		mt := m.meta
		if strings.HasPrefix(mt, "v") {
			f := strings.Split(mt[1:], ":")
			mt = "ver-" + gateUnhex(f[0]) + "-caps-" + f[1] + "-ci-" + f[2]
		}
		tags = append(tags, "meta-"+mt)
	}
	for _, f := range strings.Fields(obs) {
		if strings.HasPrefix(f, "w=") {
			w := f[2:]
			if i := strings.Index(w, ":"); i >= 0 {
				w = w[:i]
			}
			tags = append(tags, "wire-"+w)
		}
	}
	if !strings.Contains(obs, "=") {
		tags = append(tags, "obs-"+obs)
	}
	tags = append(tags, m.tags...)
	if extra != "" {
		tags = append(tags, extra)
	}
	for i := range tags {
		tags[i] = strings.NewReplacer(",", ";", "\t", " ").Replace(tags[i])
	}
	return tags
}

// gateExecute runs all cases in child processes and writes the records.
func gateExecute(t *testing.T, out *verifOut, cases []gateCase) {
	dir, err := os.MkdirTemp("", "gatehx-")
	if err != nil {
		t.Fatal(err)
	}
	defer os.RemoveAll(dir)
	emitCase := func(c gateCase, obs func(i int) (string, bool)) {
		out.line(c.id, "reset", "ok", "reset")
		if c.tr != "" {
			o, ok := obs(-1)
			if !ok {
				return
			}
			tags := []string{"cfg", gateTrClass(c.tr)}
			if c.tag != "" {
				tags = append(tags, c.tag)
			}
			out.line(c.id, "tr "+c.tr, o, tags...)
		}
		if c.hold {
			o, ok := obs(-2)
			if !ok {
				return
			}
			out.line(c.id, "hold", o, "cfg", "hold")
		}
		if c.holdinit {
			o, ok := obs(-3)
			if !ok {
				return
			}
			out.line(c.id, "holdinit", o, "cfg", "holdinit")
		}
		for i, m := range c.msgs {
			o, ok := obs(i)
			if !ok {
				break
			}
			if mo, ok := obs(-1000 - i); ok && i+1 < len(c.msgs) {
				// what was visible of the NEXT envelope while this initialize was still being handled
				nx := c.msgs[i+1]
				kind := "legacy"
				if strings.HasPrefix(nx.meta, "v") && (nx.shape == "ok" || nx.shape == "degraded" || nx.shape == "undecodable") {
					if f := strings.Split(nx.meta[1:], ":"); gateUnhex(f[0]) >= "2026-07-28" {
						kind = "new"
					}
				}
				out.line(c.id, "mid m="+hxs(nx.method)+" "+kind, mo, "mid", "sched-holdinit")
			}
			tags := gateTagsFor(m, o, c.tag)
			if c.hold {
				tags = append(tags, "sched-hold")
			}
			if c.holdinit {
				tags = append(tags, "sched-holdinit")
			}
			out.line(c.id, m.op(), o, tags...)
		}
	}
	n := 0
	rest := cases
	for len(rest) > 0 {
		chunk := rest
		if len(chunk) > 400 {
			chunk = chunk[:400]
		}
		n++
		res := gateRunChild(t, chunk, dir, n)
		done := 0
		for ci, c := range chunk {
			if !res.ended[ci] {
				break
			}
			emitCase(c, func(i int) (string, bool) { o, ok := res.obs[[2]int{ci, i}]; return o, ok })
			done++
		}
		if done == len(chunk) {
			rest = rest[len(chunk):]
			continue
		}
		if res.restart && done > 0 {
			rest = rest[done:]
			continue
		}
		// the child died inside chunk[done]: run it alone to confirm, then report the envelope in flight
		bad := chunk[done]
		n++
		solo := gateRunChild(t, []gateCase{bad}, dir, n)
		if solo.ended[0] {
			emitCase(bad, func(i int) (string, bool) { o, ok := solo.obs[[2]int{0, i}]; return o, ok })
		} else {
			k := 0
			for {
				if _, ok := solo.obs[[2]int{0, k}]; !ok {
					break
				}
				k++
			}
			t.Logf("gate harness: child crashed in case %s at envelope %d: %s", bad.id, k, solo.tail)
			emitCase(bad, func(i int) (string, bool) {
				if i < 0 {
					o, ok := solo.obs[[2]int{0, i}]
					return o, ok
				}
				if i < k {
					return solo.obs[[2]int{0, i}], true
				}
				if i == k {
					return "panic", true
				}
				return "", false
			})
		}
		rest = rest[done+1:]
	}
}

func gateReplayCases(path, id, tag string) []gateCase {
	b, err := os.ReadFile(path)
	if err != nil {
		return nil
	}
	var out []gateCase
	for _, ln := range strings.Split(string(b), "\n") {
		ln = strings.TrimSpace(ln)
		if ln == "" || strings.HasPrefix(ln, "#") {
			continue
		}
		if ln == "reset" {
			out = append(out, gateCase{id: fmt.Sprintf("%s-%d", id, len(out)), tag: tag})
			continue
		}
		if f := strings.Fields(ln); len(f) == 2 && f[0] == "tr" {
			if len(out) == 0 {
				out = append(out, gateCase{id: id + "-0", tag: tag})
			}
			out[len(out)-1].tr = f[1]
			continue
		}
		if ln == "holdinit" {
			if len(out) == 0 {
				out = append(out, gateCase{id: id + "-0", tag: tag})
			}
			out[len(out)-1].holdinit = true
			continue
		}
		if ln == "hold" {
			if len(out) == 0 {
				out = append(out, gateCase{id: id + "-0", tag: tag})
			}
			out[len(out)-1].hold = true
			continue
		}
		if m, ok := gateParseOp(ln); ok {
			if len(out) == 0 {
				out = append(out, gateCase{id: id + "-0", tag: tag})
			}
			out[len(out)-1].msgs = append(out[len(out)-1].msgs, m)
		}
	}
	return out
}

func gateCorpus(side string) []gateCase {
	dir := os.Getenv("VERIF_CORPUS")
	if dir == "" {
		return nil
	}
	ents, _ := os.ReadDir(dir)
	var out []gateCase
	for _, e := range ents {
		if !strings.HasSuffix(e.Name(), ".ops") {
			continue
		}
		for _, c := range gateReplayCases(dir+"/"+e.Name(), "corpus-"+strings.TrimSuffix(e.Name(), ".ops"), "corpus") {
			if len(c.msgs) > 0 && c.msgs[0].side == side {
				out = append(out, c)
			}
		}
	}
	return out
}

// gateExhaustive enumerates every history of length <= depth over an alphabet of canonical envelopes:
// each server method once as a well-formed legacy envelope and once carrying complete 2026-07-28 metadata.
// The histories are run on the given server transport (prefix distinguishes the case ids).
// core: only the letters the lifecycle depends on (both flavours of initialize, initialized, ping, discover,
// a listing, a call, a state-changing feature method, an unknown method).
func gateExhaustive(depth int, tr, prefix string, core bool) []gateCase {
	methods := append(append([]string{}, gateServerMethods...), "foo/bar")
	newMethods := []string{"tools/list", "tools/call", "server/discover", "ping", "initialize", "logging/setLevel", "resources/subscribe"}
	if core {
		methods = []string{"initialize", "notifications/initialized", "ping", "tools/list", "tools/call", "logging/setLevel", "server/discover", "foo/bar"}
		newMethods = []string{"tools/list", "server/discover", "initialize"}
	}
	type letter struct{ method, force string }
	var alpha []letter
	for _, m := range methods {
		alpha = append(alpha, letter{m, "legacy"})
	}
	for _, m := range newMethods {
		alpha = append(alpha, letter{m, "new"})
	}
	var out []gateCase
	var rec func(prefix []int)
	rec = func(prefix []int) {
		if len(prefix) > 0 {
			g := &gateGen{rng: rand.New(rand.NewSource(int64(len(out)) + 77))}
			c := gateCase{id: fmt.Sprintf("%s%d", prefix, len(out)), tag: "exh", tr: tr}
			for k, li := range prefix {
				c.msgs = append(c.msgs, g.msg("s", alpha[li].method, k, alpha[li].force))
			}
			out = append(out, c)
		}
		if len(prefix) == depth {
			return
		}
		for i := range alpha {
			rec(append(append([]int{}, prefix...), i))
		}
	}
	rec(nil)
	return out
}

// gateSweep: after a handshake, every method with every single member of its parameters absent, null and
// wrong-typed, plus params absent / null (one envelope per case, so that a crash is attributed exactly).
func gateSweep(side string) []gateCase {
	var out []gateCase
	methods := gateServerMethods
	if side == "c" {
		methods = gateClientMethods
	}
	for _, method := range methods {
		base, _ := gateBase(side, method, 2, rand.New(rand.NewSource(1)))
		var paths []gatePath
		if base != nil {
			gateWalk(base, nil, 0, &paths)
		}
		add := func(mk func(g *gateGen) gateMsg) {
			g := &gateGen{rng: rand.New(rand.NewSource(int64(len(out)) + 991))}
			c := gateCase{id: fmt.Sprintf("w%s%d", side, len(out)), tag: "sweep"}
			if side == "s" {
				c.tr = "plain"
				c.msgs = append(c.msgs, g.msg("s", "initialize", 0, "legacy"), g.msg("s", "notifications/initialized", 1, "legacy"))
			}
			c.msgs = append(c.msgs, mk(g))
			g.fixedPath = ""
			c.msgs = append(c.msgs, g.msg(side, "ping", len(c.msgs), "legacy"))
			out = append(out, c)
		}
		tools := []string{""}
		if method == "tools/call" {
			tools = []string{"typed", "plain"} // the typed tool's input schema declares a default (F12)
		}
		for _, tool := range tools {
			for _, p := range paths {
				for kind := 0; kind < 3; kind++ {
					ps := gatePathStr(p)
					add(func(g *gateGen) gateMsg {
						g.fixedPath, g.fixedKind, g.tool = ps, kind, tool
						return g.msg(side, method, 2, "legacy")
					})
				}
			}
		}
		for _, sh := range []string{"absent", "null"} {
			add(func(g *gateGen) gateMsg {
				m := g.msg(side, method, 2, "legacy")
				m.shape = sh
				m.tag, m.iver, m.lvl = "anon", "", ""
				var env map[string]any
				json.Unmarshal([]byte(m.raw), &env)
				delete(env, "params")
				if sh == "null" {
					env["params"] = nil
				}
				b, _ := json.Marshal(env)
				m.raw = string(b)
				return m
			})
		}
	}
	return out
}

// gateCases: corpus, the single-member sweep, random histories and (server) the exhaustive short histories.
func gateCases(side string) []gateCase {
	cases := gateCorpus(side)
	if os.Getenv("VERIF_CASES") == "" {
		cases = append(cases, gateSweep(side)...)
		if side == "s" {
			cases = append(cases, gateSpellSweep()...)
		}
	}
	var n int
	if side == "s" {
		n = verifN(2500, 20000)
	} else {
		n = verifN(1200, 8000)
	}
	for i := 0; i < n; i++ {
		salt := int64(i)
		if side == "c" {
			salt += 50_000_000
		}
		g := &gateGen{rng: verifRng(salt), spellPct: 20}
		if side == "s" {
			cases = append(cases, g.serverCase(fmt.Sprintf("g%d", i)))
		} else {
			cases = append(cases, g.clientCase(fmt.Sprintf("k%d", i)))
		}
	}
	if side == "s" && os.Getenv("VERIF_CASES") == "" {
		// every short history, on a transport without ProtocolVersionSupporter and on transports on which
		// initialize fails (new protocol only; nothing) or is negotiated down (one legacy version; legacy only)
		deep := 2
		if verifThorough() {
			deep = 3
		}
		cases = append(cases, gateExhaustive(deep, "plain", "x", false)...)
		// the same short histories with the notification handlers held (every envelope after a served
		// notification races that notification's handler); thorough: <= 3 envelopes over the lifecycle letters
		held := gateExhaustive(2, "plain", "xh", false)
		if verifThorough() {
			held = append(held, gateExhaustive(3, "plain", "xhc", true)...)
		}
		for i := range held {
			held[i].hold = true
		}
		cases = append(cases, held...)
		// initialize held in its handler chain while the next envelope arrives: initialize followed by every letter
		// that cannot change session state, then a listing and a ping
		for _, c := range gateExhaustive(2, "plain", "xi", false) {
			if c.msgs[0].method != "initialize" || len(c.msgs) < 2 {
				continue
			}
			switch c.msgs[1].method {
			case "initialize", "notifications/initialized", "logging/setLevel", "server/discover":
				continue
			}
			if c.msgs[1].meta != "nometa" {
				continue
			}
			c.holdinit = true
			gi := &gateGen{rng: rand.New(rand.NewSource(int64(len(cases)) + 313))}
			c.msgs = append(c.msgs, gi.msg("s", "tools/list", 70, "legacy"), gi.msg("s", "ping", 71, "legacy"))
			cases = append(cases, c)
		}
		for _, tr := range [][2]string{{"ge:" + hxs("2026-07-28"), "xn"}, {"set:-", "xe"}, {gateTrSet("2025-03-26"), "xo"}, {"lt:" + hxs("2026-07-28"), "xl"}} {
			cases = append(cases, gateExhaustive(2, tr[0], tr[1], false)...)
			if verifThorough() {
				// <= 3 envelopes over the 11 lifecycle letters: initialize -> failed initialize -> list, discover
				// followed by legacy traffic, ... on every kind of transport
				cases = append(cases, gateExhaustive(3, tr[0], tr[1]+"c", true)...)
			}
		}
	}
	return cases
}

// gateMain: sides "s" (envelopes to the server), "c" (to the client's receiving side) or both.
func gateMain(t *testing.T, sides string) {
	out := verifOpen(t)
	defer out.close()
	// tell the driver which property's monitor clauses this run is about
	if pid := os.Getenv("VERIF_PROPERTY"); pid != "" {
		out.line("cfg", "property "+pid, "ok", "cfg")
	}
	if p := os.Getenv("VERIF_REPLAY"); p != "" {
		gateExecute(t, out, gateReplayCases(p, "replay", "replay"))
		return
	}
	var cases []gateCase
	for _, side := range strings.Split(sides, "") {
		cases = append(cases, gateCases(side)...)
	}
	gateExecute(t, out, cases)
}

// TestVerifGate is the stream wired into ./check: envelopes to the server (C06 and C02) and, when the
// property under check is C02, also to the client's receiving side.
func TestVerifGate(t *testing.T) {
	if os.Getenv("VERIF_PROPERTY") == "C06" {
		gateMain(t, "s")
		return
	}
	gateMain(t, "sc")
}

// TestVerifGateServer / TestVerifGateClient: one side only (manual runs).
func TestVerifGateServer(t *testing.T) { gateMain(t, "s") }
func TestVerifGateClient(t *testing.T) { gateMain(t, "c") }
