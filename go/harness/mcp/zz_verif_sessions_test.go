// E7 correspondence harness (C11): random POST/GET/DELETE histories against the REAL
// StreamableHTTPHandler, driven through ServeHTTP inside a testing/synctest bubble (virtual clock).
//
// One record per operation; the observation is taken at quiescence (synctest.Wait) and contains
//   <status|pending> <Mcp-Session-Id of the response|-> done:<async completions> map:<h.sessions>
//   srv:<Server.Sessions()> log:<handler invocations during this operation>
// Op `postx <user> <kind>` is a creating POST during which the server closes the new session in the
// window between Server.Connect and its publication in h.sessions (F20): the request context's Value
// method — consulted by auth.TokenInfoFromContext exactly there — closes every server session that
// is not yet a key of h.sessions.
// Op `postb <ref> <user>` starts a POST (a ping) of which only the HEADERS have arrived: ServeHTTP runs with a body
// that blocks in Read; `body <n> more|end` lets a piece / the last piece of the n-th asynchronous request's body
// arrive (n = the harness's count of asynchronous requests, the request's tag is u<n>).
// Every entry of h.sessions is printed with the number of request handlers of that session that have been entered
// and have not returned (`h<n>`, counted by the harness's receiving middleware); `stale:` lists the sessions that
// have left h.sessions whose idle timer is nevertheless armed (probed with timer.Stop under timerMu).
// Session ids are renamed s1,s2,... in the order GetSessionID minted them (the default generator is
// wrapped, not replaced). Users: anon (no TokenInfo), ue (TokenInfo with empty UserID), u1..u3; the
// TokenInfo is put into the request context by the real auth.RequireBearerToken middleware.
package mcp

import (
	"context"
	"encoding/json"
	"errors"
	"fmt"
	"io"
	"iter"
	"math/rand"
	"net"
	"net/http"
	"os"
	"sort"
	"strconv"
	"strings"
	"sync"
	"testing"
	"testing/synctest"
	"time"

	"github.com/modelcontextprotocol/go-sdk/auth"
)

// sxRec is a concurrency-safe recording http.ResponseWriter (supports Flush).
type sxRec struct {
	mu     sync.Mutex
	hdr    http.Header
	status int
	body   []byte
}

func (r *sxRec) Header() http.Header { return r.hdr }
func (r *sxRec) WriteHeader(code int) {
	r.mu.Lock()
	defer r.mu.Unlock()
	if r.status == 0 {
		r.status = code
	}
}
func (r *sxRec) Write(b []byte) (int, error) {
	r.mu.Lock()
	defer r.mu.Unlock()
	if r.status == 0 {
		r.status = 200
	}
	r.body = append(r.body, b...)
	return len(b), nil
}
func (r *sxRec) Flush() {}
func (r *sxRec) result() (int, string) {
	r.mu.Lock()
	defer r.mu.Unlock()
	st := r.status
	if st == 0 {
		st = 200 // net/http: a handler that returns without writing answers 200
	}
	return st, r.hdr.Get(sessionIDHeader)
}

// sxHookCtx runs f when the handler looks the TokenInfo up (auth.TokenInfoFromContext).
type sxHookCtx struct {
	context.Context
	f func()
}

func (c sxHookCtx) Value(k any) any {
	if fmt.Sprintf("%T", k) == "auth.tokenInfoKey" {
		c.f()
	}
	return c.Context.Value(k)
}

const sxRaceHeader = "X-Verif-Close-Unpublished"

// sxBody is a request body that arrives in pieces: Read blocks until the harness delivers the next piece
// (or the end). Delivering never blocks, whether or not the handler is reading.
type sxBody struct {
	mu     sync.Mutex
	cond   *sync.Cond
	buf    []byte
	eof    bool
	rest   []byte // what has not been delivered yet
	closed bool
}

func newSxBody(payload string) *sxBody {
	b := &sxBody{rest: []byte(payload)}
	b.cond = sync.NewCond(&b.mu)
	return b
}

func (b *sxBody) Read(p []byte) (int, error) {
	b.mu.Lock()
	defer b.mu.Unlock()
	for len(b.buf) == 0 && !b.eof && !b.closed {
		b.cond.Wait()
	}
	if len(b.buf) > 0 {
		n := copy(p, b.buf)
		b.buf = b.buf[n:]
		return n, nil
	}
	if b.closed && !b.eof {
		return 0, io.ErrClosedPipe
	}
	return 0, io.EOF
}

func (b *sxBody) Close() error {
	b.mu.Lock()
	b.closed = true
	b.mu.Unlock()
	b.cond.Broadcast()
	return nil
}

// deliver lets the next piece arrive (a third of the payload), or — last — everything that is left and the end.
func (b *sxBody) deliver(last bool) {
	b.mu.Lock()
	n := len(b.rest)
	if !last {
		n = (len(b.rest) + 2) / 3
		if n >= len(b.rest) && n > 0 {
			n = len(b.rest) - 1 // keep something for the last piece
		}
	}
	b.buf = append(b.buf, b.rest[:n]...)
	b.rest = b.rest[n:]
	if last {
		b.eof = true
	}
	b.mu.Unlock()
	b.cond.Broadcast()
}

// sxStore is the fault-injecting collaborator: an EventStore (backed by the real MemoryEventStore)
// whose methods fail while the corresponding flag is set by a `fault` op:
//   c SessionClosed   o Open of the standalone stream (i.e. Transport.Connect)   O Open of a request's
//   stream   a Append   r After (replay)
// SessionClosed is the only way the close of a streamable server connection can report an error:
// streamableServerConn.Close returns it, jsonrpc2 keeps it as closeErr, conn.Close() hands it to
// ServerSession.Close.
type sxStore struct {
	inner *MemoryEventStore
	mu    sync.Mutex
	fail  map[byte]bool
	onClosed func(sessionID string) // (legacy / noids worlds) told of every SessionClosed call
}

var errSxStore = errors.New("verif: event store backend unavailable")

func (s *sxStore) failing(c byte) bool {
	s.mu.Lock()
	defer s.mu.Unlock()
	return s.fail[c]
}

func (s *sxStore) set(flags string) {
	s.mu.Lock()
	defer s.mu.Unlock()
	s.fail = map[byte]bool{}
	for i := 0; i < len(flags); i++ {
		if flags[i] != '-' {
			s.fail[flags[i]] = true
		}
	}
}

func (s *sxStore) Open(ctx context.Context, sessionID, streamID string) error {
	if (streamID == "" && s.failing('o')) || (streamID != "" && s.failing('O')) {
		return errSxStore
	}
	return s.inner.Open(ctx, sessionID, streamID)
}

func (s *sxStore) Append(ctx context.Context, sessionID, streamID string, data []byte) error {
	if s.failing('a') {
		return errSxStore
	}
	return s.inner.Append(ctx, sessionID, streamID, data)
}

func (s *sxStore) After(ctx context.Context, sessionID, streamID string, index int) iter.Seq2[[]byte, error] {
	if s.failing('r') {
		return func(yield func([]byte, error) bool) { yield(nil, errSxStore) }
	}
	return s.inner.After(ctx, sessionID, streamID, index)
}

func (s *sxStore) SessionClosed(ctx context.Context, sessionID string) error {
	if s.onClosed != nil {
		s.onClosed(sessionID)
	}
	err := s.inner.SessionClosed(ctx, sessionID) // the store forgets the session all the same
	if s.failing('c') {
		return errSxStore
	}
	return err
}

type sxAsync struct {
	tag    string // p<slot> (slow POST), d<n> (DELETE), c<n> (server-side close), q<n> (other request)
	rec    *sxRec
	done   chan struct{}
	cancel context.CancelFunc
	seen   bool // completion already reported
	body   *sxBody // postb: the body that arrives in pieces
}

func (a *sxAsync) finished() bool {
	select {
	case <-a.done:
		return true
	default:
		return false
	}
}

type sxWorld struct {
	h       *StreamableHTTPHandler
	server  *Server
	front   http.Handler
	mu      sync.Mutex
	names   map[string]int // minted session id -> ordinal
	byOrd   map[int]string
	minted  int
	slots   map[int]chan struct{}
	log     []string
	pend    []*sxAsync
	nslow   int
	nasync  int
	ngate   int // requests refused before the session layer (`bad`): numbered apart, they never stay pending
	reqID   int
	stateless bool
	mode    string   // stateful | stateless | legacy (stateless under allowsessionsinstateless=1) | noids (stateful, GetSessionID returns "")
	storeClosed []string // (legacy / noids worlds) session names the store's SessionClosed was called for since the last snapshot
	restore func()   // undoes what the configuration changed outside the handler (the compatibility flag)
	store   *sxStore // nil: no EventStore configured
	inflight map[string]int          // session name -> request handlers entered and not yet returned
	infos    map[string]*sessionInfo // every sessionInfo ever seen in h.sessions, by raw id
}

func sxUserID(u string) (tok string, present bool) {
	switch u {
	case "anon":
		return "", false
	case "ue":
		return "tok-", true
	}
	return "tok-" + u, true
}

const sxNoServerHeader = "X-Verif-No-Server"

func newSxWorld(mode string, timeoutMS int, withStore bool, opts ...string) *sxWorld {
	stateless := mode == "stateless" || mode == "legacy"
	w := &sxWorld{names: map[string]int{}, byOrd: map[int]string{}, slots: map[int]chan struct{}{}, stateless: stateless, mode: mode,
		inflight: map[string]int{}, infos: map[string]*sessionInfo{}}
	if mode == "legacy" {
		// MCPGODEBUG allowsessionsinstateless=1 (the package reads the parameter once, into this variable)
		old := allowsessionsinstateless
		allowsessionsinstateless = "1"
		w.restore = func() { allowsessionsinstateless = old }
	}
	if withStore {
		w.store = &sxStore{inner: NewMemoryEventStore(nil), fail: map[byte]bool{}}
		if mode == "legacy" || mode == "noids" {
			w.store.onClosed = func(id string) {
				nm := w.name(id)
				w.mu.Lock()
				w.storeClosed = append(w.storeClosed, nm)
				w.mu.Unlock()
			}
		}
	}
	w.server = NewServer(&Implementation{Name: "verif", Version: "1"}, nil)
	orig := w.server.opts.GetSessionID
	w.server.opts.GetSessionID = func() string {
		if mode == "noids" {
			return "" // ServerOptions.GetSessionID set to suppress session ids: nothing is minted
		}
		id := orig()
		w.mu.Lock()
		w.minted++
		if _, dup := w.names[id]; !dup {
			w.names[id] = w.minted
			w.byOrd[w.minted] = id
		}
		w.mu.Unlock()
		return id
	}
	w.server.AddTool(&Tool{Name: "slow", InputSchema: json.RawMessage(`{"type":"object"}`)},
		func(ctx context.Context, req *CallToolRequest) (*CallToolResult, error) {
			var a struct{ K int }
			json.Unmarshal(req.Params.Arguments, &a)
			w.mu.Lock()
			ch := w.slots[a.K]
			w.mu.Unlock()
			if ch != nil {
				select {
				case <-ch:
				case <-ctx.Done():
				}
			}
			return &CallToolResult{}, nil
		})
	w.server.AddReceivingMiddleware(func(next MethodHandler) MethodHandler {
		return func(ctx context.Context, method string, req Request) (Result, error) {
			user := "anon"
			if ex := req.GetExtra(); ex != nil && ex.TokenInfo != nil {
				user = "ue"
				if ex.TokenInfo.UserID != "" {
					user = ex.TokenInfo.UserID
				}
			}
			sid := "e"
			if ss, ok := req.GetSession().(*ServerSession); ok {
				sid = w.name(ss.ID())
			}
			w.mu.Lock()
			w.log = append(w.log, sid+"/"+user+"/"+method)
			w.inflight[sid]++
			w.mu.Unlock()
			defer func() {
				w.mu.Lock()
				w.inflight[sid]--
				w.mu.Unlock()
			}()
			return next(ctx, method, req)
		}
	})
	hopts := &StreamableHTTPOptions{Stateless: stateless, SessionTimeout: time.Duration(timeoutMS) * time.Millisecond}
	hopts.CrossOriginProtection = &http.CrossOriginProtection{} // (requests without Origin / Sec-Fetch-Site pass)
	if w.store != nil {
		hopts.EventStore = w.store
	}
	for _, o := range opts {
		if o == "json" {
			hopts.JSONResponse = true // answers as application/json instead of an SSE stream: the session layer must not care
		}
	}
	w.h = NewStreamableHTTPHandler(func(r *http.Request) *Server {
		if r.Header.Get(sxNoServerHeader) != "" {
			return nil // `bad noserver`: no server for this request
		}
		return w.server
	}, hopts)
	verifier := func(ctx context.Context, token string, req *http.Request) (*auth.TokenInfo, error) {
		if !strings.HasPrefix(token, "tok-") {
			return nil, auth.ErrInvalidToken
		}
		return &auth.TokenInfo{UserID: strings.TrimPrefix(token, "tok-"), Expiration: time.Now().Add(time.Hour)}, nil
	}
	inner := http.HandlerFunc(func(rw http.ResponseWriter, req *http.Request) {
		if req.Header.Get(sxRaceHeader) != "" {
			// postx: a server-side close lands between Connect and the publication of the new session
			fired := false
			req = req.WithContext(sxHookCtx{req.Context(), func() {
				if fired {
					return
				}
				for ss := range w.server.Sessions() {
					w.h.mu.Lock()
					_, published := w.h.sessions[ss.ID()]
					w.h.mu.Unlock()
					if !published && ss.ID() != "" {
						fired = true
						ss.Close()
					}
				}
			}})
		}
		w.h.ServeHTTP(rw, req)
	})
	authed := auth.RequireBearerToken(verifier, nil)(inner)
	w.front = http.HandlerFunc(func(rw http.ResponseWriter, req *http.Request) {
		if req.Header.Get("Authorization") == "" {
			inner.ServeHTTP(rw, req) // anonymous: no TokenInfo in the context
			return
		}
		authed.ServeHTTP(rw, req)
	})
	return w
}

// name renames a raw session id: s<k> for the k-th minted id, e for "", x<hex> otherwise.
func (w *sxWorld) name(id string) string {
	if id == "" {
		return "e"
	}
	w.mu.Lock()
	defer w.mu.Unlock()
	if k, ok := w.names[id]; ok {
		return "s" + strconv.Itoa(k)
	}
	if n, ok := strings.CutPrefix(id, "never-minted-x"); ok {
		if _, err := strconv.Atoi(n); err == nil {
			return "x" + n // the never-minted id the op named
		}
	}
	return "x" + hxs(id)
}

// raw turns a session reference of an op into a header value: "-" none, sK minted id (or a never
// minted value when K has not been minted yet), xN an id that was never minted.
func (w *sxWorld) raw(ref string) string {
	if ref == "-" {
		return ""
	}
	if strings.HasPrefix(ref, "s") {
		if k, err := strconv.Atoi(ref[1:]); err == nil {
			w.mu.Lock()
			id, ok := w.byOrd[k]
			w.mu.Unlock()
			if ok {
				return id
			}
		}
	}
	return "never-minted-" + ref
}

func (w *sxWorld) body(kind string, slot int) string {
	w.reqID++
	switch kind {
	case "init":
		return fmt.Sprintf(`{"jsonrpc":"2.0","id":%d,"method":"initialize","params":{"protocolVersion":"2025-06-18","capabilities":{},"clientInfo":{"name":"c","version":"1"}}}`, w.reqID)
	case "badinit":
		return fmt.Sprintf(`{"jsonrpc":"2.0","id":%d,"method":"initialize","params":{"protocolVersion":7}}`, w.reqID)
	case "notif":
		return `{"jsonrpc":"2.0","method":"notifications/initialized"}`
	case "slow":
		return fmt.Sprintf(`{"jsonrpc":"2.0","id":%d,"method":"tools/call","params":{"name":"slow","arguments":{"k":%d}}}`, w.reqID, slot)
	}
	return fmt.Sprintf(`{"jsonrpc":"2.0","id":%d,"method":"ping"}`, w.reqID)
}

func (w *sxWorld) request(method, ref, user, body string) (*http.Request, context.CancelFunc) {
	return w.requestBody(method, ref, user, body, nil)
}

func (w *sxWorld) requestBody(method, ref, user, body string, pieces *sxBody) (*http.Request, context.CancelFunc) {
	ctx, cancel := context.WithCancel(context.Background())
	var rd *strings.Reader
	if body != "" {
		rd = strings.NewReader(body)
	}
	var req *http.Request
	if pieces != nil {
		req, _ = http.NewRequestWithContext(ctx, method, "http://example.test/mcp", pieces) // ContentLength unknown (chunked)
	} else if rd != nil {
		req, _ = http.NewRequestWithContext(ctx, method, "http://example.test/mcp", rd)
	} else {
		req, _ = http.NewRequestWithContext(ctx, method, "http://example.test/mcp", nil)
	}
	if method == http.MethodPost {
		req.Header.Set("Content-Type", "application/json")
		req.Header.Set("Accept", "application/json, text/event-stream")
	} else {
		req.Header.Set("Accept", "text/event-stream")
	}
	if id := w.raw(ref); id != "" {
		req.Header.Set(sessionIDHeader, id)
	}
	if tok, ok := sxUserID(user); ok {
		req.Header.Set("Authorization", "Bearer "+tok)
	}
	return req, cancel
}

func (w *sxWorld) start(tag string, req *http.Request, cancel context.CancelFunc) *sxAsync {
	a := &sxAsync{tag: tag, rec: &sxRec{hdr: http.Header{}}, done: make(chan struct{}), cancel: cancel}
	go func() {
		defer close(a.done)
		defer func() {
			if r := recover(); r != nil {
				a.rec.mu.Lock()
				a.rec.status = 999 // panic in the handler
				a.rec.mu.Unlock()
			}
		}()
		w.front.ServeHTTP(a.rec, req)
	}()
	return a
}

func (w *sxWorld) respOf(a *sxAsync) string {
	st, hdr := a.rec.result()
	h := "-"
	if hdr != "" {
		h = w.name(hdr)
	}
	return fmt.Sprintf("%d %s", st, h)
}

// snapshot renders async completions, the handler's session table, Server.Sessions() and the
// invocation log, and clears the log.
func (w *sxWorld) snapshot() string {
	var done []string
	keep := w.pend[:0]
	for _, a := range w.pend {
		if a.finished() {
			if !a.seen {
				st, _ := a.rec.result()
				if a.rec == nil {
					st = 0
				}
				done = append(done, fmt.Sprintf("%s=%d", a.tag, st))
			}
			continue
		}
		keep = append(keep, a)
	}
	w.pend = keep
	sort.Strings(done)

	type ent struct {
		k int
		s string
	}
	var ents []ent
	inMap := map[string]bool{}
	w.h.mu.Lock()
	for id, info := range w.h.sessions {
		inMap[id] = true
		w.infos[id] = info
		info.timerMu.Lock()
		refs, timer := info.refs, info.timer != nil
		info.timerMu.Unlock()
		owner := info.userID
		if owner == "" {
			owner = "-"
		}
		closing := info.session.conn.VerifSnapshot().Closing
		k := 1 << 30
		w.mu.Lock()
		if n, ok := w.names[id]; ok {
			k = n
		}
		w.mu.Unlock()
		nm := "x" + hxs(id)
		if k != 1<<30 {
			nm = "s" + strconv.Itoa(k)
		}
		if info.transport.SessionID != id {
			nm += "!key"
		}
		w.mu.Lock()
		busy := w.inflight[strings.TrimSuffix(nm, "!key")]
		w.mu.Unlock()
		ents = append(ents, ent{k, fmt.Sprintf("%s/%s/r%d/t%d/c%d/h%d", nm, owner, refs, b2i(timer), b2i(closing), busy)})
	}
	w.h.mu.Unlock()
	// sessions that have left the table: is their idle timer armed? (Stop reports it — and disarms it, which
	// changes nothing observable: the callback would only Close a session that is closed already)
	var staleEnts []ent
	for id, info := range w.infos {
		if inMap[id] {
			continue
		}
		info.timerMu.Lock()
		armed := info.timer != nil && info.timer.Stop()
		info.timerMu.Unlock()
		if armed {
			k := 1 << 30
			w.mu.Lock()
			if n, ok := w.names[id]; ok {
				k = n
			}
			w.mu.Unlock()
			staleEnts = append(staleEnts, ent{k, w.name(id)})
		}
	}
	sort.Slice(staleEnts, func(i, j int) bool { return staleEnts[i].k < staleEnts[j].k })
	var stale []string
	for _, e := range staleEnts {
		stale = append(stale, e.s)
	}
	sort.Slice(ents, func(i, j int) bool { return ents[i].k < ents[j].k || (ents[i].k == ents[j].k && ents[i].s < ents[j].s) })
	var m []string
	for _, e := range ents {
		m = append(m, e.s)
	}
	var srv []string
	for ss := range w.server.Sessions() {
		srv = append(srv, w.name(ss.ID()))
	}
	sort.Slice(srv, func(i, j int) bool {
		if len(srv[i]) != len(srv[j]) {
			return len(srv[i]) < len(srv[j])
		}
		return srv[i] < srv[j]
	})
	w.mu.Lock()
	lg := append([]string(nil), w.log...)
	w.log = nil
	w.mu.Unlock()
	sort.Strings(lg)
	j := func(l []string) string {
		if len(l) == 0 {
			return "-"
		}
		return strings.Join(l, ";")
	}
	closed := ""
	w.mu.Lock()
	if len(w.storeClosed) > 0 {
		sort.Strings(w.storeClosed)
		closed = " closed:" + strings.Join(w.storeClosed, ";")
		w.storeClosed = nil
	}
	w.mu.Unlock()
	return "done:" + j(done) + " map:" + j(m) + " srv:" + j(srv) + " log:" + j(lg) + " stale:" + j(stale) + closed
}

func b2i(b bool) int {
	if b {
		return 1
	}
	return 0
}

// apply runs one op (must be called from inside the bubble) and returns the observation.
func (w *sxWorld) apply(toks []string) (obs string) {
	defer func() {
		if r := recover(); r != nil {
			obs = "panic"
		}
	}()
	head := ""
	race := false
	if toks[0] == "postx" {
		toks = []string{"post", "-", toks[1], toks[2]}
		race = true
	}
	switch toks[0] {
	case "post":
		ref, user, kind := toks[1], toks[2], toks[3]
		slot, tag := 0, ""
		if kind == "slow" {
			w.nslow++
			slot = w.nslow
			w.mu.Lock()
			w.slots[slot] = make(chan struct{})
			w.mu.Unlock()
			tag = fmt.Sprintf("p%d", slot)
		} else {
			w.nasync++
			tag = fmt.Sprintf("q%d", w.nasync)
		}
		req, cancel := w.request(http.MethodPost, ref, user, w.body(kind, slot))
		if race {
			req.Header.Set(sxRaceHeader, "1")
		}
		a := w.start(tag, req, cancel)
		synctest.Wait()
		if a.finished() {
			a.seen = true
			head = w.respOf(a)
		} else {
			head = "pending -"
		}
		w.pend = append(w.pend, a)
		if kind == "notif" && ref == "-" && !w.stateless && w.mode != "noids" {
			// The session is closed as soon as this POST returns (failed-initialize cleanup) while the
			// notification is still on its way to the handler: whether the handler runs is a race in the
			// code under test. Not observed.  (The temporary session of a stateless endpoint handles what
			// it was given before the POST is acknowledged: observed.)
			w.mu.Lock()
			w.log = nil
			w.mu.Unlock()
		}
	case "postb":
		// the headers of a POST (a ping) arrive; the body follows in pieces (`body <n> more|end`)
		if w.stateless || len(toks) != 3 || toks[1] == "-" {
			return "bad-op"
		}
		w.nasync++
		b := newSxBody(w.body("ping", 0))
		req, cancel := w.requestBody(http.MethodPost, toks[1], toks[2], "", b)
		a := w.start(fmt.Sprintf("u%d", w.nasync), req, cancel)
		a.body = b
		synctest.Wait()
		if a.finished() {
			a.seen = true
			head = w.respOf(a)
		} else {
			head = "pending -"
		}
		w.pend = append(w.pend, a)
	case "body":
		if w.stateless || len(toks) != 3 || (toks[2] != "more" && toks[2] != "end") {
			return "bad-op"
		}
		head = "noop -"
		for _, a := range w.pend {
			if a.tag == "u"+toks[1] && a.body != nil && !a.finished() {
				a.body.deliver(toks[2] == "end")
				if toks[2] == "end" {
					a.body = nil
				}
				head = "ok -"
			}
		}
		synctest.Wait()
	case "release":
		k, _ := strconv.Atoi(toks[1])
		w.mu.Lock()
		ch := w.slots[k]
		delete(w.slots, k)
		w.mu.Unlock()
		if ch == nil {
			head = "noop -"
		} else {
			close(ch)
			head = "ok -"
		}
		synctest.Wait()
	case "abandon":
		// the client of the k-th slow POST goes away (request context cancelled); its handler keeps running
		tag := "p" + toks[1]
		head = "noop -"
		for _, a := range w.pend {
			if a.tag == tag && !a.finished() && a.cancel != nil {
				a.cancel()
				head = "ok -"
			}
		}
		synctest.Wait()
	case "get":
		w.nasync++
		req, cancel := w.request(http.MethodGet, toks[1], toks[2], "")
		a := w.start(fmt.Sprintf("q%d", w.nasync), req, cancel)
		synctest.Wait()
		head = w.respOf(a) // a hanging GET has written its status line by now
		if !a.finished() {
			head += " hang"
			cancel() // the client goes away
			synctest.Wait()
		}
		a.seen = true
		w.pend = append(w.pend, a)
	case "delete", "other":
		w.nasync++
		m := http.MethodDelete
		tag := fmt.Sprintf("d%d", w.nasync)
		if toks[0] == "other" {
			m, tag = http.MethodPut, fmt.Sprintf("q%d", w.nasync)
		}
		req, cancel := w.request(m, toks[1], toks[2], "")
		a := w.start(tag, req, cancel)
		synctest.Wait()
		if a.finished() {
			a.seen = true
			head = w.respOf(a)
		} else {
			head = "pending -"
		}
		w.pend = append(w.pend, a)
	case "bad":
		// a request the handler must refuse before it reads the session id, whatever id and identity it carries
		if len(toks) != 4 {
			return "bad-op"
		}
		w.ngate++
		method := http.MethodPost
		if toks[1] == "getaccept" {
			method = http.MethodGet
		}
		body := ""
		if method == http.MethodPost {
			body = w.body("ping", 0)
		}
		req, cancel := w.request(method, toks[2], toks[3], body)
		switch toks[1] {
		case "ctype":
			req.Header.Set("Content-Type", "text/plain")
		case "accept":
			req.Header.Set("Accept", "application/json")
		case "getaccept":
			req.Header.Set("Accept", "application/json")
		case "noserver":
			req.Header.Set(sxNoServerHeader, "1")
		case "origin":
			req.Header.Set("Sec-Fetch-Site", "cross-site") // the handler has CrossOriginProtection
		case "host":
			// arrived on a loopback address, Host names something else (DNS rebinding)
			req = req.WithContext(context.WithValue(req.Context(), http.LocalAddrContextKey, net.Addr(&net.TCPAddr{IP: net.IPv4(127, 0, 0, 1), Port: 8080})))
		default:
			return "bad-op"
		}
		a := w.start(fmt.Sprintf("g%d", w.ngate), req, cancel)
		synctest.Wait()
		if a.finished() {
			a.seen = true
			head = w.respOf(a)
		} else {
			head = "pending -"
		}
		w.pend = append(w.pend, a)
	case "tick":
		ms, _ := strconv.Atoi(toks[1])
		time.Sleep(time.Duration(ms) * time.Millisecond)
		synctest.Wait()
		head = "ok -"
	case "close":
		// server-side close of the session with that id, found through Server.Sessions()
		id := w.raw(toks[1])
		var target *ServerSession
		for ss := range w.server.Sessions() {
			if id != "" && ss.ID() == id { // (no reference: nothing to close — never the temporary session of a stateless POST)
				target = ss
			}
		}
		if target == nil {
			head = "noop -"
			break
		}
		w.nasync++
		ctag := fmt.Sprintf("c%d", w.nasync)
		if w.mode == "legacy" || w.mode == "noids" {
			ctag = "c0" // (these worlds' model keeps no request counter: server-side closes are not told apart)
		}
		a := &sxAsync{tag: ctag, rec: &sxRec{hdr: http.Header{}, status: 1}, done: make(chan struct{})}
		go func() {
			defer close(a.done)
			if err := target.Close(); err != nil {
				// Close reports what closing the connection reported (here: the event store's error)
				a.rec.mu.Lock()
				a.rec.status = 2
				a.rec.mu.Unlock()
			}
		}()
		synctest.Wait()
		if a.finished() {
			a.seen = true
			head = "ok -"
			if st, _ := a.rec.result(); st == 2 {
				head = "err -"
			}
		} else {
			head = "pending -"
		}
		w.pend = append(w.pend, a)
	case "fault":
		// the event store's methods named by the flags fail from now on ("-": none)
		if w.store == nil {
			head = "noop -"
		} else {
			w.store.set(toks[1])
			head = "ok -"
		}
	default:
		return "bad-op"
	}
	return head + " " + w.snapshot()
}

// finish releases everything so that the bubble can end, and reports what was still alive: requests that do not
// return (among them the final ServerSession.Close calls), sessions left in the handler's table / the server, idle
// timers that are still armed although every session has been closed.
func (w *sxWorld) finish() string {
	if w.restore != nil {
		defer w.restore()
	}
	w.mu.Lock()
	for k, ch := range w.slots {
		close(ch)
		delete(w.slots, k)
	}
	w.mu.Unlock()
	synctest.Wait()
	for _, a := range w.pend {
		if a.body != nil {
			a.body.Close() // the client gives the upload up
		}
		if a.cancel != nil {
			a.cancel()
		}
	}
	synctest.Wait()
	// the server closes every session that is left (in goroutines: a Close that never returns must not take the
	// harness with it)
	var closers []chan struct{}
	for ss := range w.server.Sessions() {
		ch := make(chan struct{})
		closers = append(closers, ch)
		go func() {
			defer close(ch)
			ss.Close()
		}()
	}
	synctest.Wait()
	stuck := 0
	for _, ch := range closers {
		select {
		case <-ch:
		default:
			stuck++
		}
	}
	for _, a := range w.pend {
		if !a.finished() {
			stuck++
		}
	}
	w.h.mu.Lock()
	left := len(w.h.sessions)
	for id, info := range w.h.sessions {
		w.infos[id] = info
	}
	w.h.mu.Unlock()
	n := 0
	var hung []*ServerSession
	for ss := range w.server.Sessions() {
		n++
		hung = append(hung, ss)
	}
	timers := 0
	for _, info := range w.infos {
		info.timerMu.Lock()
		if info.timer != nil && info.timer.Stop() {
			timers++
		}
		info.timerMu.Unlock()
	}
	// whatever is still hanging is released by force (the transport is marked done), so that the bubble can exit and
	// the verdict is a record instead of a deadlocked test process
	for _, ss := range hung {
		if c, ok := ss.mcpConn.(*streamableServerConn); ok {
			c.mu.Lock()
			if !c.isDone {
				c.isDone = true
				close(c.done)
			}
			c.mu.Unlock()
		}
	}
	if len(hung) > 0 {
		synctest.Wait()
	}
	return fmt.Sprintf("end stuck=%d map=%d srv=%d timers=%d", stuck, left, n, timers)
}

// ---------------------------------------------------------------------------------------------
// generator

type sxSess struct {
	ord       int
	owner     string // "-" unbound
	live      bool
	refs      int
	idleSince int // virtual ms at which refs last became 0 (valid when live && refs == 0)
}

type sxGen struct {
	rng       *rand.Rand
	stateless bool
	es        bool // the handler has the fault-injecting EventStore
	flags     string // what the event store currently fails
	timeout   int
	now       int
	sess      []*sxSess
	slow      []int // slots believed pending
	nslow     int
	unk       int
	nasync    int   // mirrors the harness's count of asynchronous requests (uploads are named after it)
	upl       []int // uploads (postb) believed to be in progress
}

var sxUsers = []string{"u1", "u2", "u3", "anon", "ue"}

func (g *sxGen) otherUser(owner string) string {
	for {
		u := sxUsers[g.rng.Intn(len(sxUsers))]
		if u != owner {
			return u
		}
	}
}

// target picks a session reference and a user; cls classifies the pick for the tags.
func (g *sxGen) target(allowNone bool) (ref, user, cls string) {
	var live, dead []*sxSess
	for _, s := range g.sess {
		if s.live {
			live = append(live, s)
		} else {
			dead = append(dead, s)
		}
	}
	r := g.rng.Intn(100)
	anyUser := func() string { return sxUsers[g.rng.Intn(len(sxUsers))] }
	switch {
	case allowNone && (r < 7 || (len(live) == 0 && r < 40)):
		u := anyUser()
		if g.rng.Intn(3) > 0 {
			u = sxUsers[g.rng.Intn(3)] // mostly authenticated creators, so that sessions are bound
		}
		return "-", u, "noid"
	case r < 15 || (len(live) == 0 && len(dead) == 0):
		g.unk++
		return fmt.Sprintf("x%d", g.unk), anyUser(), "unknown"
	case (r < 28 && len(dead) > 0) || len(live) == 0:
		if len(dead) == 0 {
			g.unk++
			return fmt.Sprintf("x%d", g.unk), anyUser(), "unknown"
		}
		s := dead[g.rng.Intn(len(dead))]
		u := s.owner
		if u == "-" || g.rng.Intn(4) == 0 {
			u = anyUser()
		}
		return fmt.Sprintf("s%d", s.ord), u, "stale"
	}
	s := live[g.rng.Intn(len(live))]
	ref = fmt.Sprintf("s%d", s.ord)
	if s.owner == "-" {
		return ref, sxUsers[g.rng.Intn(len(sxUsers))], "unbound"
	}
	if g.rng.Intn(100) < 58 {
		return ref, g.otherUser(s.owner), "foreign"
	}
	return ref, s.owner, "own"
}

// faultOp scripts the event store: mostly SessionClosed (the error that closing a connection
// reports), alone or together with the other methods, and back to healthy.
func (g *sxGen) faultOp() (string, []string) {
	flags := ""
	switch r := g.rng.Intn(100); {
	case r < 38:
		flags = "c"
	case r < 52:
		flags = "-"
	case r < 61:
		flags = "cO"
	case r < 68:
		flags = "O"
	case r < 74:
		flags = "o"
	case r < 79:
		flags = "co"
	case r < 84:
		flags = "r"
	case r < 88:
		flags = "a"
	case r < 92:
		flags = "ca"
	default:
		for _, c := range "coOar" {
			if g.rng.Intn(2) == 0 {
				flags += string(c)
			}
		}
		if flags == "" {
			flags = "-"
		}
	}
	g.flags = flags
	return "fault " + flags, sxFaultTags(flags)
}

func sxFaultTags(flags string) []string {
	t := []string{"fault"}
	for _, c := range flags {
		if c == '-' {
			t = append(t, "fault-none")
		} else {
			t = append(t, "fault-"+string(c))
		}
	}
	return t
}

func (g *sxGen) tickOp() (string, string) {
	// boundary instants: aim at the remaining idle time of a live idle session, -1/0/+1 ms
	if g.timeout > 0 && g.rng.Intn(100) < 55 {
		var rem []int
		for _, s := range g.sess {
			if s.live && s.refs == 0 {
				if r := s.idleSince + g.timeout - g.now; r > 0 {
					rem = append(rem, r)
				}
			}
		}
		if len(rem) > 0 {
			r := rem[g.rng.Intn(len(rem))]
			d := r + g.rng.Intn(3) - 1
			if d > 0 {
				return fmt.Sprintf("tick %d", d), fmt.Sprintf("tick-aimed%+d", d-r)
			}
		}
	}
	d := []int{1, 49, 50, 99, 100, 101}[g.rng.Intn(6)]
	return fmt.Sprintf("tick %d", d), fmt.Sprintf("tick-%d", d)
}

func (g *sxGen) next() (op string, tags []string) {
	if !g.stateless {
		nlive := 0
		for _, s := range g.sess {
			if s.live {
				nlive++
			}
		}
		if nlive == 0 && g.rng.Intn(100) < 65 {
			// nothing to address: open a session (mostly as an authenticated user)
			return fmt.Sprintf("post - %s init", sxUsers[g.rng.Intn(4)]), []string{"post-init", "id-noid"}
		}
	}
	if g.es {
		// while Open fails no session can be created or called: do not stay there for long
		p := 9
		if strings.ContainsAny(g.flags, "oO") {
			p = 25
		}
		if g.rng.Intn(100) < p {
			return g.faultOp()
		}
	}
	if !g.stateless && g.rng.Intn(100) < 4 {
		kind := []string{"init", "init", "init", "ping", "badinit", "slow"}[g.rng.Intn(6)]
		return fmt.Sprintf("postx %s %s", sxUsers[g.rng.Intn(len(sxUsers))], kind), []string{"postx-" + kind, "id-noid"}
	}
	if !g.stateless {
		// POSTs whose body arrives in pieces: begin one (mostly the owner's, on a live session), let a piece / the end
		// of one in progress arrive
		if len(g.upl) > 0 && g.rng.Intn(100) < 22 {
			k := g.upl[g.rng.Intn(len(g.upl))]
			if g.rng.Intn(3) == 0 {
				return fmt.Sprintf("body %d more", k), []string{"body-more"}
			}
			return fmt.Sprintf("body %d end", k), []string{"body-end"}
		}
		if g.rng.Intn(100) < 7 {
			ref, user, cls := g.target(false)
			if cls == "foreign" && g.rng.Intn(2) == 0 {
				for _, x := range g.sess {
					if fmt.Sprintf("s%d", x.ord) == ref && x.owner != "-" {
						user, cls = x.owner, "own"
					}
				}
			}
			return fmt.Sprintf("postb %s %s", ref, user), []string{"postb", "id-" + cls}
		}
	}
	if g.rng.Intn(100) < 5 {
		// a request that is refused before the session layer, addressed like any other
		ref, user, cls := g.target(true)
		why := []string{"ctype", "accept", "getaccept", "noserver", "origin", "host"}[g.rng.Intn(6)]
		if why == "noserver" && !g.stateless {
			ref, cls = "-", "noid" // (with an id the session is looked up first: an ordinary POST)
		}
		return fmt.Sprintf("bad %s %s %s", why, ref, user), []string{"bad-" + why, "id-" + cls}
	}
	r := g.rng.Intn(100)
	switch {
	case r < 40:
		ref, user, cls := g.target(true)
		kinds := []string{"init", "ping", "ping", "notif", "slow", "slow", "badinit"}
		if ref == "-" {
			kinds = []string{"init", "init", "init", "init", "init", "ping", "notif", "slow", "badinit"}
		}
		kind := kinds[g.rng.Intn(len(kinds))]
		return fmt.Sprintf("post %s %s %s", ref, user, kind), []string{"post-" + kind, "id-" + cls}
	case r < 50:
		ref, user, cls := g.target(false)
		if g.rng.Intn(100) < 6 {
			ref, cls = "-", "noid" // GET without a session id
		}
		return fmt.Sprintf("get %s %s", ref, user), []string{"get", "id-" + cls}
	case r < 62:
		ref, user, cls := g.target(false)
		if g.rng.Intn(100) < 6 {
			ref, cls = "-", "noid" // DELETE without a session id
		}
		return fmt.Sprintf("delete %s %s", ref, user), []string{"delete", "id-" + cls}
	case r < 64:
		ref, user, cls := g.target(true)
		return fmt.Sprintf("other %s %s", ref, user), []string{"other", "id-" + cls}
	case r < 77:
		op, tag := g.tickOp()
		return op, []string{tag}
	case r < 90:
		if g.nslow > 0 {
			k := 1 + g.rng.Intn(g.nslow)
			if g.rng.Intn(4) == 0 {
				return fmt.Sprintf("abandon %d", k), []string{"abandon"}
			}
			return fmt.Sprintf("release %d", k), []string{"release"}
		}
		op, tag := g.tickOp()
		return op, []string{tag}
	default:
		if len(g.sess) > 0 {
			s := g.sess[g.rng.Intn(len(g.sess))]
			return fmt.Sprintf("close s%d", s.ord), []string{"srvclose"}
		}
		op, tag := g.tickOp()
		return op, []string{tag}
	}
}

// learn updates the generator's view from the observation (only used to aim later ops and to tag).
func (g *sxGen) learn(op []string, obs string) {
	if op[0] == "tick" {
		d, _ := strconv.Atoi(op[1])
		g.now += d
	}
	if (op[0] == "post" && op[3] == "slow") || (op[0] == "postx" && op[2] == "slow") {
		g.nslow++
	} else if op[0] == "post" || op[0] == "postx" || op[0] == "get" || op[0] == "delete" || op[0] == "other" ||
		(op[0] == "close" && !strings.HasPrefix(obs, "noop")) {
		g.nasync++
	}
	if op[0] == "postb" && obs != "bad-op" {
		g.nasync++
		if strings.HasPrefix(obs, "pending") {
			g.upl = append(g.upl, g.nasync)
		}
	}
	if op[0] == "body" && len(op) == 3 && op[2] == "end" {
		k, _ := strconv.Atoi(op[1])
		keep := g.upl[:0]
		for _, x := range g.upl {
			if x != k {
				keep = append(keep, x)
			}
		}
		g.upl = keep
	}
	i := strings.Index(obs, "map:")
	j := strings.Index(obs, " srv:")
	if i < 0 || j < i {
		return
	}
	seen := map[int]bool{}
	if m := obs[i+4 : j]; m != "-" {
		for _, e := range strings.Split(m, ";") {
			f := strings.Split(e, "/")
			if len(f) < 5 || !strings.HasPrefix(f[0], "s") {
				continue
			}
			k, err := strconv.Atoi(f[0][1:])
			if err != nil {
				continue
			}
			seen[k] = true
			refs, _ := strconv.Atoi(strings.TrimPrefix(f[2], "r"))
			var s *sxSess
			for _, x := range g.sess {
				if x.ord == k {
					s = x
				}
			}
			if s == nil {
				s = &sxSess{ord: k, owner: f[1], live: true, refs: refs, idleSince: g.now}
				g.sess = append(g.sess, s)
			}
			if s.refs != 0 && refs == 0 || (op[0] == "post" && op[1] == f[0]) {
				s.idleSince = g.now
			}
			s.refs = refs
		}
	}
	for _, s := range g.sess {
		if !seen[s.ord] {
			s.live = false
		}
	}
}

// sxScenario returns a scripted prefix that sets up one of the races the property text names, on top of
// which the random operations continue: several users' POSTs in progress at once on one (unbound) session,
// DELETE racing POSTs in progress, the idle timeout expiring around the end of a POST / around a DELETE or a
// server-side close, the event store failing on each close path, stray ids on a stateless endpoint.
func sxScenario(rng *rand.Rand, g *sxGen) (ops []string, tag string) {
	u := func() string { return sxUsers[rng.Intn(3)] }
	fl := func() []string {
		if g.es && rng.Intn(2) == 0 {
			f := []string{"c", "cO", "co", "c", "coOar", "O"}[rng.Intn(6)]
			g.flags = f
			return []string{"fault " + f}
		}
		return nil
	}
	if g.stateless {
		// stray ids (never minted, s-names of nothing) with every method and every identity
		for i := 0; i < 3+rng.Intn(4); i++ {
			ref := []string{"s1", "s2", "x1", "x7", "-"}[rng.Intn(5)]
			usr := sxUsers[rng.Intn(len(sxUsers))]
			switch rng.Intn(5) {
			case 0:
				ops = append(ops, fmt.Sprintf("get %s %s", ref, usr))
			case 1:
				ops = append(ops, fmt.Sprintf("delete %s %s", ref, usr))
			case 2:
				ops = append(ops, fmt.Sprintf("other %s %s", ref, usr))
			case 3:
				ops = append(ops, fmt.Sprintf("post %s %s %s", ref, usr, []string{"init", "ping", "notif", "slow"}[rng.Intn(4)]))
			default:
				if ref == "-" {
					ref = "s1"
				}
				ops = append(ops, fmt.Sprintf("close %s", ref))
			}
		}
		return ops, "scn-stateless-ids"
	}
	switch rng.Intn(9) {
	case 6:
		// a POST whose body arrives in pieces over a period that straddles the idle deadline: the POST is in progress
		// from the arrival of its headers, the timeout must not fire before it has ended (C11)
		o := u()
		a := []int{1, 40, 60, 99}[rng.Intn(4)]
		T := g.timeout
		if T == 0 {
			T = 100
		}
		ops = append(ops, fmt.Sprintf("post - %s init", o), fmt.Sprintf("tick %d", a), fmt.Sprintf("postb s1 %s", o)) // u2
		ops = append(ops, fmt.Sprintf("tick %d", T-a+rng.Intn(3)-1))
		if rng.Intn(2) == 0 {
			ops = append(ops, "body 2 more", fmt.Sprintf("tick %d", []int{1, 50, 100, 101}[rng.Intn(4)]))
		}
		if rng.Intn(3) == 0 {
			ops = append(ops, fmt.Sprintf("get s1 %s", o))
		}
		ops = append(ops, "body 2 end", fmt.Sprintf("tick %d", []int{99, 100}[rng.Intn(2)]), fmt.Sprintf("post s1 %s ping", o), "tick 1", fmt.Sprintf("post s1 %s ping", o))
		return ops, "scn-upload-vs-timeout"
	case 7:
		// a POST that outlives the closing of its session — its body is still on its way when the session is deleted /
		// closed by the server (the event store possibly failing) — ends afterwards: nothing of the closed session may be
		// re-armed (C05), the id stays dead (C11)
		o := u()
		ops = append(ops, fmt.Sprintf("post - %s init", o), fmt.Sprintf("postb s1 %s", o)) // u2
		if rng.Intn(3) == 0 {
			ops = append(ops, "body 2 more")
		}
		ops = append(ops, fl()...)
		switch rng.Intn(3) {
		case 0:
			ops = append(ops, fmt.Sprintf("delete s1 %s", o))
		case 1:
			ops = append(ops, "close s1")
		default:
			ops = append(ops, fmt.Sprintf("delete s1 %s", o), "close s1")
		}
		ops = append(ops, fmt.Sprintf("tick %d", []int{1, 50, 100}[rng.Intn(3)]), "body 2 end", fmt.Sprintf("tick %d", []int{99, 100, 101}[rng.Intn(3)]),
			fmt.Sprintf("post s1 %s ping", o), fmt.Sprintf("get s1 %s", o))
		return ops, "scn-upload-outlives-close"
	case 8:
		// the same with a handler still running when the close begins: DELETE waits for it, the upload ends on the
		// dying session, the handler is released, the close completes
		o := u()
		ops = append(ops, fmt.Sprintf("post - %s init", o), fmt.Sprintf("post s1 %s slow", o), fmt.Sprintf("postb s1 %s", o)) // p1, u2
		ops = append(ops, fl()...)
		if rng.Intn(2) == 0 {
			ops = append(ops, fmt.Sprintf("delete s1 %s", o))
		} else {
			ops = append(ops, "close s1")
		}
		if rng.Intn(2) == 0 {
			ops = append(ops, "body 2 end", "release 1")
		} else {
			ops = append(ops, "release 1", "body 2 end")
		}
		ops = append(ops, fmt.Sprintf("tick %d", 100), fmt.Sprintf("postb s1 %s", o), "tick 1")
		return ops, "scn-upload-on-dying-session"
	case 0:
		// POSTs of several users in progress at once on one unbound session, then DELETE, releases in any order
		ops = append(ops, "post - anon init")
		n := 2 + rng.Intn(3)
		for i := 0; i < n; i++ {
			ops = append(ops, fmt.Sprintf("post s1 %s slow", sxUsers[rng.Intn(len(sxUsers))]))
		}
		ops = append(ops, fl()...)
		ops = append(ops, fmt.Sprintf("delete s1 %s", u()))
		ops = append(ops, fmt.Sprintf("post s1 %s ping", u()))
		for _, k := range rng.Perm(n) {
			if rng.Intn(4) == 0 {
				ops = append(ops, fmt.Sprintf("abandon %d", k+1))
			}
			ops = append(ops, fmt.Sprintf("release %d", k+1))
		}
		return ops, "scn-multi-user-posts"
	case 1:
		// DELETE racing POSTs in progress on a bound session; a second DELETE and a server-side close on top
		o := u()
		ops = append(ops, fmt.Sprintf("post - %s init", o), fmt.Sprintf("post s1 %s slow", o), fmt.Sprintf("post s1 %s slow", o))
		ops = append(ops, fl()...)
		ops = append(ops, fmt.Sprintf("delete s1 %s", o), fmt.Sprintf("delete s1 %s", g.otherUser(o)), fmt.Sprintf("delete s1 %s", o))
		if rng.Intn(2) == 0 {
			ops = append(ops, "close s1")
		}
		ops = append(ops, fmt.Sprintf("post s1 %s ping", o), "release 2", fmt.Sprintf("get s1 %s", o), "release 1")
		return ops, "scn-delete-vs-posts"
	case 2:
		// the idle timeout expires exactly at / one ms around the end of a POST
		o := u()
		d := []int{99, 100, 101}[rng.Intn(3)]
		ops = append(ops, fmt.Sprintf("post - %s init", o), fmt.Sprintf("post s1 %s slow", o), fmt.Sprintf("tick %d", g.timeout+rng.Intn(3)))
		ops = append(ops, "release 1", fmt.Sprintf("tick %d", d-1), fmt.Sprintf("post s1 %s ping", o), fmt.Sprintf("tick %d", d))
		ops = append(ops, fmt.Sprintf("post s1 %s ping", o))
		return ops, "scn-timeout-vs-post-end"
	case 3:
		// the idle timeout expires while an abandoned POST's handler still runs, then DELETE / close race the dying session
		o := u()
		ops = append(ops, fmt.Sprintf("post - %s init", o), fmt.Sprintf("post s1 %s slow", o), "abandon 1")
		ops = append(ops, fl()...)
		ops = append(ops, fmt.Sprintf("tick %d", []int{99, 100, 101}[rng.Intn(3)]))
		if rng.Intn(2) == 0 {
			ops = append(ops, fmt.Sprintf("delete s1 %s", o))
		} else {
			ops = append(ops, "close s1")
		}
		ops = append(ops, "tick 1", fmt.Sprintf("post s1 %s ping", o), "release 1", fmt.Sprintf("post s1 %s ping", o))
		return ops, "scn-timeout-vs-close"
	case 4:
		// server-side close and DELETE of the same session at the deadline, the event store failing
		o := u()
		ops = append(ops, fmt.Sprintf("post - %s init", o), fmt.Sprintf("post - %s init", g.otherUser(o)))
		ops = append(ops, fl()...)
		ops = append(ops, fmt.Sprintf("tick %d", []int{99, 100}[rng.Intn(2)]))
		if rng.Intn(2) == 0 {
			ops = append(ops, "close s1", fmt.Sprintf("delete s1 %s", o), "close s2")
		} else {
			ops = append(ops, fmt.Sprintf("delete s1 %s", o), "close s1", fmt.Sprintf("delete s2 %s", o))
		}
		ops = append(ops, "tick 1", fmt.Sprintf("get s1 %s", o), fmt.Sprintf("get s2 %s", o))
		return ops, "scn-close-vs-delete-at-deadline"
	default:
		// every way a session ends, with SessionClosed failing at that moment
		o := u()
		ops = append(ops, fmt.Sprintf("post - %s init", o), fmt.Sprintf("post - %s init", o), fmt.Sprintf("post - %s init", o))
		if g.es {
			g.flags = "c"
			ops = append(ops, "fault c")
		}
		ops = append(ops, fmt.Sprintf("delete s1 %s", o), "close s2", fmt.Sprintf("post - %s badinit", o), fmt.Sprintf("postx %s init", o),
			fmt.Sprintf("tick %d", g.timeout), fmt.Sprintf("post s3 %s ping", o))
		return ops, "scn-close-paths-store-failing"
	}
}

// sxExhaustive enumerates every history of `depth` operations over a small alphabet on one session of user u1
// (a second user and an unbound identity take part), started by `post - u1 init`.
func sxExhaustive(depth int, f func(ops []string)) {
	alpha := []string{"post s1 u1 slow", "post s1 u2 ping", "post s1 u1 ping", "delete s1 u1", "delete s1 u2", "get s1 u1",
		"tick 100", "tick 99", "release 1", "abandon 1", "close s1", "postb s1 u1", "body 2 end", "body 3 end"}
	var rec func(prefix []string)
	rec = func(prefix []string) {
		if len(prefix) == depth {
			f(append([]string{"reset stateful 100", "post - u1 init"}, prefix...))
			return
		}
		for _, a := range alpha {
			rec(append(append([]string(nil), prefix...), a))
		}
	}
	rec(nil)
}

func sxResultTags(obs string) []string {
	f := strings.Fields(obs)
	if len(f) == 0 {
		return nil
	}
	t := []string{"st-" + f[0]}
	if len(f) > 1 && f[1] != "-" {
		t = append(t, "hdr-set")
	}
	return t
}

func sxRunCase(t *testing.T, out *verifOut, cs string, ops []string, gen *sxGen, nops int, tag0 string) {
	synctest.Test(t, func(t *testing.T) {
		var w *sxWorld
		step := func(op string, tags []string) {
			toks := strings.Fields(op)
			if len(toks) == 0 {
				return
			}
			if toks[0] == "reset" {
				if len(toks) < 3 {
					return // bare "reset" written by ./check in front of a replay
				}
				if w != nil {
					out.line(cs, "end", w.finish(), "end")
				}
				ms, _ := strconv.Atoi(toks[2])
				w = newSxWorld(toks[1], ms, len(toks) > 3 && toks[3] == "es", toks[3:]...)
				out.line(cs, op, "ok", "reset")
				return
			}
			if w == nil {
				w = newSxWorld("stateful", 100, false)
				out.line(cs, "reset stateful 100", "ok", "reset")
			}
			obs := w.apply(toks)
			if gen != nil {
				gen.learn(toks, obs)
			}
			tags = append(tags, sxResultTags(obs)...)
			if tag0 != "" {
				tags = append(tags, tag0)
			}
			out.line(cs, op, obs, tags...)
		}
		for _, op := range ops {
			var tags []string
			if f := strings.Fields(op); gen != nil && len(f) == 4 && f[0] == "post" {
				tags = []string{"post-" + f[3], "id-noid"}
			} else if gen != nil && len(f) == 2 && f[0] == "fault" {
				tags = sxFaultTags(f[1])
			}
			step(op, tags)
		}
		if gen != nil {
			for i := 0; i < nops; i++ {
				op, tags := gen.next()
				step(op, tags)
			}
		}
		if w != nil {
			out.line(cs, "end", w.finish(), "end")
		}
	})
}

// sxEphOps generates a history for an endpoint that keeps no session: `legacy` (stateless under the compatibility
// flag allowsessionsinstateless=1: ids are read, minted and echoed, DELETE is a no-op) or `noids` (stateful, GetSessionID
// returns ""): every method with no id, ids the endpoint minted earlier (legacy), never-minted ids, by every identity;
// POSTs whose handler stays blocked across later operations (several at once, also under one id), releases, ticks.
func sxEphOps(rng *rand.Rand, mode string, es bool, n int) (ops []string, tags [][]string) {
	minted, nslow, unk := 0, 0, 0
	parked := map[int]string{} // slot -> name of the temporary session believed to be parked there
	add := func(op string, t ...string) { ops = append(ops, op); tags = append(tags, t) }
	ref := func() (string, string) {
		switch r := rng.Intn(100); {
		case r < 40:
			return "-", "id-noid"
		case r < 70 && mode == "legacy" && minted > 0:
			return fmt.Sprintf("s%d", 1+rng.Intn(minted)), "id-minted"
		}
		if unk == 0 || rng.Intn(3) == 0 {
			unk++
		}
		return fmt.Sprintf("x%d", 1+rng.Intn(unk)), "id-unknown"
	}
	for i := 0; i < n; i++ {
		usr := sxUsers[rng.Intn(len(sxUsers))]
		if es && rng.Intn(100) < 8 {
			// SessionClosed fails / recovers: the temporary sessions must end all the same, the store told once each
			f := []string{"c", "-", "c"}[rng.Intn(3)]
			add("fault "+f, sxFaultTags(f)...)
			continue
		}
		if mode == "legacy" && len(parked) > 0 && rng.Intn(100) < 9 {
			// the server closes a parked temporary session itself (one that is alone under its id)
			cnt := map[string]int{}
			for _, nm := range parked {
				cnt[nm]++
			}
			var alone []string
			for nm, c := range cnt {
				if c == 1 {
					alone = append(alone, nm)
				}
			}
			sort.Strings(alone)
			if len(alone) > 0 {
				add("close "+alone[rng.Intn(len(alone))], "srvclose", "eph-"+mode)
				continue
			}
		}
		if nslow > 0 && rng.Intn(100) < 7 {
			// the client of a parked POST goes away
			add(fmt.Sprintf("abandon %d", 1+rng.Intn(nslow)), "abandon", "eph-"+mode)
			continue
		}
		rf, cls := ref()
		switch r := rng.Intn(100); {
		case r < 45:
			kind := []string{"init", "init", "ping", "notif", "slow", "slow", "badinit"}[rng.Intn(7)]
			if kind == "slow" {
				nslow++
			}
			if rf == "-" && mode == "legacy" {
				minted++
			}
			if kind == "slow" && (mode == "legacy" || rf == "-") {
				nm := rf
				if rf == "-" {
					nm = fmt.Sprintf("s%d", minted)
					if mode == "noids" {
						nm = "e"
					}
				}
				parked[nslow] = nm
			}
			add(fmt.Sprintf("post %s %s %s", rf, usr, kind), "post-"+kind, cls, "eph-"+mode)
		case r < 57:
			add(fmt.Sprintf("get %s %s", rf, usr), "get", cls, "eph-"+mode)
		case r < 72:
			add(fmt.Sprintf("delete %s %s", rf, usr), "delete", cls, "eph-"+mode)
		case r < 77:
			add(fmt.Sprintf("other %s %s", rf, usr), "other", cls, "eph-"+mode)
		case r < 92:
			k := 1
			if nslow > 0 {
				k = 1 + rng.Intn(nslow+1)
			}
			delete(parked, k)
			add(fmt.Sprintf("release %d", k), "release")
		default:
			add(fmt.Sprintf("tick %d", []int{1, 50, 100, 101}[rng.Intn(4)]), "tick-eph")
		}
	}
	return ops, tags
}

// sxRunTagged runs a scripted history whose operations carry their own tags.
func sxRunTagged(t *testing.T, out *verifOut, cs string, reset string, ops []string, tags [][]string) {
	synctest.Test(t, func(t *testing.T) {
		toks := strings.Fields(reset)
		ms, _ := strconv.Atoi(toks[2])
		w := newSxWorld(toks[1], ms, len(toks) > 3 && toks[3] == "es", toks[3:]...)
		out.line(cs, reset, "ok", "reset")
		for i, op := range ops {
			obs := w.apply(strings.Fields(op))
			out.line(cs, op, obs, append(append([]string(nil), tags[i]...), sxResultTags(obs)...)...)
		}
		out.line(cs, "end", w.finish(), "end")
	})
}

func sxReadOps(t *testing.T, path string) []string {
	b, err := os.ReadFile(path)
	if err != nil {
		t.Fatal(err)
	}
	var ops []string
	for _, ln := range strings.Split(string(b), "\n") {
		ln = strings.TrimSpace(ln)
		if ln == "" || strings.HasPrefix(ln, "#") || ln == "end" {
			continue
		}
		ops = append(ops, ln)
	}
	return ops
}

func TestVerifSessions(t *testing.T) {
	out := verifOpen(t)
	defer out.close()
	if p := os.Getenv("VERIF_REPLAY"); p != "" {
		sxRunCase(t, out, "replay", sxReadOps(t, p), nil, 0, "corpus")
		return
	}
	if p := os.Getenv("VERIF_CORPUS"); p != "" {
		ents, _ := os.ReadDir(p)
		for _, e := range ents {
			if strings.HasSuffix(e.Name(), ".ops") {
				sxRunCase(t, out, "corpus-"+strings.TrimSuffix(e.Name(), ".ops"), sxReadOps(t, p+"/"+e.Name()), nil, 0, "corpus")
			}
		}
	}
	n := verifN(2500, 20000)
	for c := 0; c < n; c++ {
		rng := verifRng(int64(c))
		g := &sxGen{rng: rng, timeout: 100}
		mode := "stateful"
		switch r := rng.Intn(100); {
		case r < 10:
			g.stateless, mode = true, "stateless"
		case r < 20:
			g.timeout = 0
		}
		reset := fmt.Sprintf("reset %s %d", mode, g.timeout)
		if rng.Intn(100) < 50 {
			// with an EventStore: the collaborator whose failures the `fault` ops script
			g.es = true
			reset += " es"
		}
		if rng.Intn(100) < 25 {
			reset += " json" // StreamableHTTPOptions.JSONResponse
		}
		ops := []string{reset}
		if !g.stateless {
			// most histories start with one to three sessions of different users
			for i, n := 0, rng.Intn(4); i < n; i++ {
				ops = append(ops, fmt.Sprintf("post - %s init", sxUsers[rng.Intn(4)]))
			}
		}
		if g.es && rng.Intn(100) < 35 {
			// the store is already failing when the first sessions end
			op, _ := g.faultOp()
			ops = append(ops, op)
		}
		tag0 := ""
		if rng.Intn(100) < 30 {
			// a scripted race as the prefix of the history (it replaces the opening sessions: it numbers its own)
			scn, tag := sxScenario(rng, g)
			ops = append([]string{reset}, scn...)
			tag0 = tag
		}
		sxRunCase(t, out, fmt.Sprintf("g%d", c), ops, g, 10+rng.Intn(28), tag0)
	}
	// the configurations that keep no session although ids travel (legacy stateless) or could be asked for (noids)
	for c, ne := 0, verifN(240, 2400); c < ne; c++ {
		rng := verifRng(int64(1_000_000 + c))
		mode := []string{"legacy", "noids"}[c%2]
		opt := []string{"", " es", " es", " nes json", " es json"}[rng.Intn(5)]
		ops, tags := sxEphOps(rng, mode, strings.HasPrefix(opt, " es"), 8+rng.Intn(20))
		sxRunTagged(t, out, fmt.Sprintf("e%d", c), fmt.Sprintf("reset %s %d%s", mode, []int{0, 100}[rng.Intn(2)], opt), ops, tags)
	}
	// every short history on one session (exhaustive: depth 3 quick, depth 4 thorough)
	depth := verifN(3, 4)
	if os.Getenv("VERIF_CASES") != "" {
		depth = 2
	}
	k := 0
	sxExhaustive(depth, func(ops []string) {
		sxRunCase(t, out, fmt.Sprintf("x%d", k), ops, nil, 0, "exhaustive")
		k++
	})
}
