// E13 correspondence harness (C17): a real Server and ClientSession over in-memory transports; the four
// list methods, add/remove/replace between page fetches, issued / stale / forged / garbage cursors,
// the client iterators against manual paging; tools registered through every entry point, Server.AddTool
// calls parked between their validation and their registering section (addhold / addrelease), refused
// registrations (addbad). One record per operation (ENGINE_GUIDE.md).
package mcp

import (
	"bytes"
	"context"
	"encoding/base64"
	"encoding/gob"
	"encoding/hex"
	"encoding/json"
	"errors"
	"fmt"
	"iter"
	"math/rand"
	"os"
	"sort"
	"strings"
	"sync"
	"sync/atomic"
	"testing"
	"time"

	"github.com/google/jsonschema-go/jsonschema"
	"github.com/modelcontextprotocol/go-sdk/jsonrpc"
)

var pgKinds = []string{"tools", "prompts", "resources", "templates"}

const pgPanicCode = -32099

type pgItem struct{ k, v string }

type pgIter struct {
	next func() (pgItem, error, bool)
	stop func()
	// the iterator's context: cancelled by a watchdog when a pull hangs (a list request that is never
	// answered must become an observation, not the end of the harness process)
	cancel context.CancelFunc
}

type pgState struct {
	srv    *Server
	ss     *ServerSession
	cs     *ClientSession
	cancel context.CancelFunc
	iters  map[string]*pgIter
	// generator feedback
	lastNext map[string]string   // kind -> raw NextCursor of the latest page ("" = none)
	issued   []string            // every raw cursor the server has issued in this case
	keys     map[string][]string // kind -> keys currently registered (generator's view)
	psize    int
	// scripted ("foreign") server: when a kind has a script, its list method is answered from the
	// script by a receiving middleware instead of by the SDK's handler
	scriptMu sync.Mutex
	script   map[string]*pgScript
	// Server.AddTool calls parked in their validation section (user code: the schema's MarshalJSON)
	held []*pgHeld
}

// pgGate is a user-supplied schema value. Server.AddTool marshals the schemas it is given while it
// validates the tool, before it takes Server.mu to register it: the first MarshalJSON call parks until
// released, so that other registrations, removals and list requests run between AddTool's validation
// section and its registering section.
type pgGate struct {
	parked           atomic.Bool
	entered, release chan struct{}
}

func (g *pgGate) MarshalJSON() ([]byte, error) {
	if g.parked.CompareAndSwap(false, true) {
		close(g.entered)
		<-g.release
	}
	return []byte(`{"type":"object"}`), nil
}

type pgHeld struct {
	k, v string
	gate *pgGate
	done chan string
}

func pgToolHandler(context.Context, *CallToolRequest) (*CallToolResult, error) {
	return &CallToolResult{}, nil
}

type pgIn struct {
	P string `json:"p,omitempty"`
}
type pgOut struct {
	Q int `json:"q"`
}

// the ways a tool can be registered (all end in Server.AddTool's registering section)
var pgAddVariants = []string{"schema", "out", "outschema", "generic", "typed"}

func pgAddVia(srv *Server, variant, k, v string) {
	raw := json.RawMessage(`{"type":"object"}`)
	switch variant {
	case "schema":
		srv.AddTool(&Tool{Name: k, Description: v, InputSchema: &jsonschema.Schema{Type: "object"}}, pgToolHandler)
	case "out":
		srv.AddTool(&Tool{Name: k, Description: v, InputSchema: raw, OutputSchema: json.RawMessage(`{"type":"object","properties":{"q":{"type":"integer"}}}`)}, pgToolHandler)
	case "outschema":
		srv.AddTool(&Tool{Name: k, Description: v, InputSchema: raw, OutputSchema: &jsonschema.Schema{Type: "object"}}, pgToolHandler)
	case "generic":
		AddTool(srv, &Tool{Name: k, Description: v}, func(context.Context, *CallToolRequest, map[string]any) (*CallToolResult, any, error) {
			return &CallToolResult{}, nil, nil
		})
	case "typed":
		AddTool(srv, &Tool{Name: k, Description: v}, func(context.Context, *CallToolRequest, pgIn) (*CallToolResult, pgOut, error) {
			return nil, pgOut{}, nil
		})
	default:
		srv.AddTool(&Tool{Name: k, Description: v, InputSchema: raw}, pgToolHandler)
	}
}

// registrations the Add* functions must refuse (they panic): per kind, the variants
var pgBadVariants = map[string][]string{
	"tools":     {"nil", "niltyped", "notobject", "rawnotobject", "rawbroken", "header0", "header1", "header2", "header3", "header4", "header5", "outbroken", "outniltyped", "generic"},
	"resources": {"uri"},
	"templates": {"template"},
}

// pgAddBad attempts a registration that must be refused; it returns normally iff it was NOT refused.
func pgAddBad(srv *Server, kind, variant, k, v string) {
	raw := json.RawMessage(`{"type":"object"}`)
	switch kind {
	case "resources":
		srv.AddResource(&Resource{URI: k, Name: v}, func(context.Context, *ReadResourceRequest) (*ReadResourceResult, error) {
			return &ReadResourceResult{}, nil
		})
		return
	case "templates":
		srv.AddResourceTemplate(&ResourceTemplate{URITemplate: k, Name: v}, func(context.Context, *ReadResourceRequest) (*ReadResourceResult, error) {
			return &ReadResourceResult{}, nil
		})
		return
	}
	t := &Tool{Name: k, Description: v, InputSchema: raw}
	switch {
	case variant == "nil":
		t.InputSchema = nil
	case variant == "niltyped":
		t.InputSchema = (*jsonschema.Schema)(nil)
	case variant == "notobject":
		t.InputSchema = &jsonschema.Schema{Type: "string"}
	case variant == "rawnotobject":
		t.InputSchema = json.RawMessage(`{"type":"array"}`)
	case variant == "rawbroken":
		t.InputSchema = json.RawMessage(`{"type":`)
	case strings.HasPrefix(variant, "header"):
		var i int
		fmt.Sscanf(variant, "header%d", &i)
		t.InputSchema = json.RawMessage(pgBadSchemas[i%len(pgBadSchemas)])
	case variant == "outbroken":
		t.OutputSchema = json.RawMessage(`[`)
	case variant == "outniltyped":
		t.OutputSchema = (*jsonschema.Schema)(nil)
	case variant == "generic":
		AddTool(srv, &Tool{Name: k, Description: v}, func(context.Context, *CallToolRequest, int) (*CallToolResult, any, error) {
			return &CallToolResult{}, nil, nil
		})
		return
	}
	srv.AddTool(t, pgToolHandler)
}

// pgScript is a foreign server's behaviour for one list method: a table from the cursor received to
// the answer (a page, possibly empty, with any next cursor; or an error). An unknown cursor is
// answered with invalid params.
type pgScript struct {
	order []string
	ents  map[string]*pgScriptEnt
}

type pgSItem struct {
	k, v string
	bad  bool // tools only: carries an invalid x-mcp-header annotation (ListTools drops such tools)
}

type pgScriptEnt struct {
	err   bool
	items []pgSItem
	next  string
}

var pgMethodKind = map[string]string{
	"tools/list": "tools", "prompts/list": "prompts", "resources/list": "resources", "resources/templates/list": "templates",
}

func (st *pgState) getScript(kind string) *pgScript {
	st.scriptMu.Lock()
	defer st.scriptMu.Unlock()
	return st.script[kind]
}

func (st *pgState) setScript(kind string, sc *pgScript) {
	st.scriptMu.Lock()
	defer st.scriptMu.Unlock()
	if sc == nil {
		delete(st.script, kind)
	} else {
		st.script[kind] = sc
	}
}

// invalid x-mcp-header annotations (validateParamHeaderAnnotations rejects each of them) and valid ones
var pgBadSchemas = []string{
	`{"type":"object","properties":{"p":{"type":"array","x-mcp-header":"X-P"}}}`,
	`{"type":"object","properties":{"p":{"type":"string","x-mcp-header":""}}}`,
	`{"type":"object","properties":{"p":{"type":"string","x-mcp-header":"bad name"}}}`,
	`{"type":"object","properties":{"p":{"type":"string","x-mcp-header":"X-P"},"q":{"type":"integer","x-mcp-header":"x-p"}}}`,
	`{"type":"object","properties":{"o":{"type":"object","properties":{"p":{"type":"number","x-mcp-header":"X-P"}}}}}`,
	`{"type":"object","properties":{"p":{"type":"string","x-mcp-header":7}}}`,
}
var pgGoodSchemas = []string{
	`{"type":"object"}`,
	`{"type":"object","properties":{"p":{"type":"string"}}}`,
	`{"type":"object","properties":{"p":{"type":"string","x-mcp-header":"X-P"}}}`,
	`{"type":"object","properties":{"o":{"type":"object","properties":{"p":{"type":"boolean","x-mcp-header":"X-Flag"}}},"q":{"type":"integer","x-mcp-header":"X-Q"}}}`,
}

func pgPick(l []string, k string) string {
	h := 0
	for i := 0; i < len(k); i++ {
		h = h*31 + int(k[i])
	}
	if h < 0 {
		h = -h
	}
	return l[h%len(l)]
}

// answer plays the foreign server for one list request.
func (sc *pgScript) answer(kind string, req Request) (Result, error) {
	cur := ""
	if lp, ok := req.GetParams().(cursorParams); ok && !lp.isNil() {
		if cp := lp.cursorPtr(); cp != nil {
			cur = *cp
		}
	}
	e := sc.ents[cur]
	if e == nil || e.err {
		return nil, &jsonrpc.Error{Code: jsonrpc.CodeInvalidParams, Message: "scripted: unknown cursor"}
	}
	switch kind {
	case "tools":
		r := &ListToolsResult{Tools: []*Tool{}, NextCursor: e.next}
		for _, it := range e.items {
			schema := pgPick(pgGoodSchemas, it.k)
			if it.bad {
				schema = pgPick(pgBadSchemas, it.k)
			}
			r.Tools = append(r.Tools, &Tool{Name: it.k, Description: it.v, InputSchema: json.RawMessage(schema)})
		}
		return r, nil
	case "prompts":
		r := &ListPromptsResult{Prompts: []*Prompt{}, NextCursor: e.next}
		for _, it := range e.items {
			r.Prompts = append(r.Prompts, &Prompt{Name: it.k, Description: it.v})
		}
		return r, nil
	case "resources":
		r := &ListResourcesResult{Resources: []*Resource{}, NextCursor: e.next}
		for _, it := range e.items {
			r.Resources = append(r.Resources, &Resource{URI: it.k, Name: it.v})
		}
		return r, nil
	default:
		r := &ListResourceTemplatesResult{ResourceTemplates: []*ResourceTemplate{}, NextCursor: e.next}
		for _, it := range e.items {
			r.ResourceTemplates = append(r.ResourceTemplates, &ResourceTemplate{URITemplate: it.k, Name: it.v})
		}
		return r, nil
	}
}

func pgScriptTok(raw string) string {
	if raw == "" {
		return "-"
	}
	return "x" + hxs(raw)
}

// pgParseScript reads the entries `<cur>=<items>=<next>` / `<cur>=!` (cur, next: `-` or x<hex>;
// items: comma-separated <hexkey>:<hexvalue>[!]) and returns the script with the canonical op
// tokens (cursors as they survive JSON).
func pgParseScript(kind string, toks []string) (*pgScript, []string) {
	sc := &pgScript{ents: map[string]*pgScriptEnt{}}
	var canon []string
	for _, t := range toks {
		f := strings.Split(t, "=")
		if len(f) < 2 {
			continue
		}
		cur := pgEffective(pgRawOf(f[0]))
		if _, dup := sc.ents[cur]; dup {
			continue
		}
		e := &pgScriptEnt{}
		if f[1] == "!" || len(f) < 3 {
			e.err = true
			canon = append(canon, pgScriptTok(cur)+"=!")
		} else {
			var its []string
			if f[1] != "" {
				for _, w := range strings.Split(f[1], ",") {
					bad := strings.HasSuffix(w, "!")
					kv := strings.SplitN(strings.TrimSuffix(w, "!"), ":", 2)
					if len(kv) != 2 {
						continue
					}
					kb, _ := hex.DecodeString(kv[0])
					vb, _ := hex.DecodeString(kv[1])
					it := pgSItem{k: string(kb), v: string(vb), bad: bad && kind == "tools"}
					e.items = append(e.items, it)
					w2 := hxs(it.k) + ":" + hxs(it.v)
					if it.bad {
						w2 += "!"
					}
					its = append(its, w2)
				}
			}
			e.next = pgEffective(pgRawOf(f[2]))
			canon = append(canon, pgScriptTok(cur)+"="+strings.Join(its, ",")+"="+pgScriptTok(e.next))
		}
		sc.order = append(sc.order, cur)
		sc.ents[cur] = e
	}
	return sc, canon
}

// pgCurOf classifies a cursor for the op line / observation: for the SDK server with the
// implementation's own decodeCursor; for a scripted server the cursor is its own name.
func pgCurOf(st *pgState, kind, raw string) string {
	if st != nil && st.getScript(kind) != nil {
		if raw == "" {
			return "-"
		}
		return "k" + hxs(pgEffective(raw))
	}
	return pgCurTok(raw)
}

func (st *pgState) close() {
	if st == nil {
		return
	}
	for _, it := range st.iters {
		pgSafe(it.stop)
	}
	for _, h := range st.held {
		close(h.gate.release)
		select {
		case <-h.done:
		case <-time.After(10 * time.Second):
		}
	}
	st.held = nil
	if st.cs != nil {
		st.cs.Close()
	}
	if st.ss != nil {
		st.ss.Close()
	}
	if st.cancel != nil {
		st.cancel()
	}
}

func pgSafe(f func()) {
	defer func() { recover() }()
	f()
}

// pgPrefix maps an abstract key to the unique id of the feature kind (URIs need a scheme).
func pgUID(kind, key string) string {
	switch kind {
	case "resources":
		return "file:///" + key
	case "templates":
		return "file:///" + key + "{x}"
	}
	return key
}

func pgNewServer(psize int, version string) (*pgState, error) {
	st := &pgState{iters: map[string]*pgIter{}, lastNext: map[string]string{}, keys: map[string][]string{}, psize: psize, script: map[string]*pgScript{}}
	st.srv = NewServer(&Implementation{Name: "verif", Version: "1"}, &ServerOptions{PageSize: psize,
		CompletionHandler: func(context.Context, *CompleteRequest) (*CompleteResult, error) { return &CompleteResult{}, nil }})
	// A panic in a method handler would take the whole harness process down: turn it into an answer.
	st.srv.AddReceivingMiddleware(func(next MethodHandler) MethodHandler {
		return func(ctx context.Context, method string, req Request) (res Result, err error) {
			defer func() {
				if r := recover(); r != nil {
					res, err = nil, &jsonrpc.Error{Code: pgPanicCode, Message: fmt.Sprintf("verif-panic: %v", r)}
				}
			}()
			return next(ctx, method, req)
		}
	})
	// The foreign peer: a kind with a script is answered from the script.
	st.srv.AddReceivingMiddleware(func(next MethodHandler) MethodHandler {
		return func(ctx context.Context, method string, req Request) (Result, error) {
			if kind := pgMethodKind[method]; kind != "" {
				if sc := st.getScript(kind); sc != nil {
					return sc.answer(kind, req)
				}
			}
			return next(ctx, method, req)
		}
	})
	ctx, cancel := context.WithCancel(context.Background())
	st.cancel = cancel
	ct, stt := NewInMemoryTransports()
	ss, err := st.srv.Connect(ctx, stt, nil)
	if err != nil {
		return st, err
	}
	st.ss = ss
	c := NewClient(&Implementation{Name: "verif-client", Version: "1"}, nil)
	var opts *ClientSessionOptions
	if version != "default" {
		opts = &ClientSessionOptions{ProtocolVersion: version}
	}
	cs, err := c.Connect(ctx, ct, opts)
	if err != nil {
		return st, err
	}
	st.cs = cs
	return st, nil
}

func pgErrObs(err error) string {
	var je *jsonrpc.Error
	if errors.As(err, &je) {
		if je.Code == pgPanicCode {
			return "panic"
		}
		return fmt.Sprintf("err %d", je.Code)
	}
	if errors.Is(err, context.DeadlineExceeded) {
		return "err timeout"
	}
	return "err other"
}

// pgEffective is the cursor string the server receives: encoding/json replaces invalid UTF-8.
func pgEffective(raw string) string {
	b, err := json.Marshal(raw)
	if err != nil {
		return raw
	}
	var s string
	if json.Unmarshal(b, &s) != nil {
		return raw
	}
	return s
}

// pgCurTok classifies a cursor with the implementation's own decodeCursor (the abstract codec's `dec`).
func pgCurTok(raw string) (tok string) {
	if raw == "" {
		return "-"
	}
	defer func() {
		if r := recover(); r != nil {
			tok = "p" // decodeCursor itself panicked
		}
	}()
	t, err := decodeCursor(pgEffective(raw))
	if err != nil || t == nil {
		return "b"
	}
	return "k" + hxs(t.LastUID)
}

func pgRawTok(raw string) string {
	if raw == "" {
		return "-"
	}
	return "x" + hxs(raw)
}

func pgPageObs(st *pgState, kind string, items []pgItem, next string) string {
	var b strings.Builder
	b.WriteString("page")
	for _, it := range items {
		b.WriteString(" " + hxs(it.k) + ":" + hxs(it.v))
	}
	b.WriteString(" next=" + pgCurOf(st, kind, next))
	return b.String()
}

func pgList(st *pgState, kind, raw string) (items []pgItem, next string, err error) {
	ctx, cancel := context.WithTimeout(context.Background(), 20*time.Second)
	defer cancel()
	switch kind {
	case "tools":
		var p *ListToolsParams
		if raw != "" {
			p = &ListToolsParams{Cursor: raw}
		}
		r, e := st.cs.ListTools(ctx, p)
		if e != nil {
			return nil, "", e
		}
		for _, t := range r.Tools {
			items = append(items, pgItem{t.Name, t.Description})
		}
		return items, r.NextCursor, nil
	case "prompts":
		var p *ListPromptsParams
		if raw != "" {
			p = &ListPromptsParams{Cursor: raw}
		}
		r, e := st.cs.ListPrompts(ctx, p)
		if e != nil {
			return nil, "", e
		}
		for _, t := range r.Prompts {
			items = append(items, pgItem{t.Name, t.Description})
		}
		return items, r.NextCursor, nil
	case "resources":
		var p *ListResourcesParams
		if raw != "" {
			p = &ListResourcesParams{Cursor: raw}
		}
		r, e := st.cs.ListResources(ctx, p)
		if e != nil {
			return nil, "", e
		}
		for _, t := range r.Resources {
			items = append(items, pgItem{t.URI, t.Name})
		}
		return items, r.NextCursor, nil
	case "templates":
		var p *ListResourceTemplatesParams
		if raw != "" {
			p = &ListResourceTemplatesParams{Cursor: raw}
		}
		r, e := st.cs.ListResourceTemplates(ctx, p)
		if e != nil {
			return nil, "", e
		}
		for _, t := range r.ResourceTemplates {
			items = append(items, pgItem{t.URITemplate, t.Name})
		}
		return items, r.NextCursor, nil
	}
	return nil, "", fmt.Errorf("bad kind")
}

func pgSeq(ctx context.Context, st *pgState, kind, raw string) iter.Seq2[pgItem, error] {
	switch kind {
	case "tools":
		var p *ListToolsParams
		if raw != "" {
			p = &ListToolsParams{Cursor: raw}
		}
		return func(yield func(pgItem, error) bool) {
			for t, err := range st.cs.Tools(ctx, p) {
				var it pgItem
				if t != nil {
					it = pgItem{t.Name, t.Description}
				}
				if !yield(it, err) {
					return
				}
			}
		}
	case "prompts":
		var p *ListPromptsParams
		if raw != "" {
			p = &ListPromptsParams{Cursor: raw}
		}
		return func(yield func(pgItem, error) bool) {
			for t, err := range st.cs.Prompts(ctx, p) {
				var it pgItem
				if t != nil {
					it = pgItem{t.Name, t.Description}
				}
				if !yield(it, err) {
					return
				}
			}
		}
	case "resources":
		var p *ListResourcesParams
		if raw != "" {
			p = &ListResourcesParams{Cursor: raw}
		}
		return func(yield func(pgItem, error) bool) {
			for t, err := range st.cs.Resources(ctx, p) {
				var it pgItem
				if t != nil {
					it = pgItem{t.URI, t.Name}
				}
				if !yield(it, err) {
					return
				}
			}
		}
	default:
		var p *ListResourceTemplatesParams
		if raw != "" {
			p = &ListResourceTemplatesParams{Cursor: raw}
		}
		return func(yield func(pgItem, error) bool) {
			for t, err := range st.cs.ResourceTemplates(ctx, p) {
				var it pgItem
				if t != nil {
					it = pgItem{t.URITemplate, t.Name}
				}
				if !yield(it, err) {
					return
				}
			}
		}
	}
}

func pgUnhex(s string) string {
	s = strings.TrimPrefix(s, "x")
	b, _ := hex.DecodeString(s)
	return string(b)
}

// pgRawField picks the raw-cursor token of a list op: `list kind raw`, `list kind cur raw` or
// `list kind cur raw follow` (canonical forms are re-derived from the raw cursor on replay); `@`
// stands for the NextCursor of the previous answer for the kind.
func pgRawField(toks []string) string {
	for i := len(toks) - 1; i >= 2; i-- {
		if toks[i] == "-" || toks[i] == "@" || strings.HasPrefix(toks[i], "x") {
			return toks[i]
		}
	}
	return "-"
}

func pgRawOf(tok string) string {
	if tok == "-" {
		return ""
	}
	return pgUnhex(tok)
}

// pgApply runs one op against the real server/client and returns the canonical op line (cursor
// classification recomputed from the raw cursor), the observation and the tags.
func pgApply(stp **pgState, toks []string) (opline, obs string, tags []string) {
	opline = strings.Join(toks, " ")
	defer func() {
		if r := recover(); r != nil {
			obs = "panic"
			tags = append(tags, "panic")
		}
	}()
	st := *stp
	switch toks[0] {
	case "server":
		st.close()
		var n int
		fmt.Sscanf(toks[1], "%d", &n)
		ns, err := pgNewServer(n, toks[2])
		*stp = ns
		if err != nil {
			return opline, "err connect", []string{"server"}
		}
		return opline, "ok", []string{"server", "proto-" + toks[2]}
	case "add":
		kind := toks[1]
		for i := 2; i+1 < len(toks); i += 2 {
			k, v := pgUnhex(toks[i]), pgUnhex(toks[i+1])
			switch kind {
			case "tools":
				st.srv.AddTool(&Tool{Name: k, Description: v, InputSchema: json.RawMessage(`{"type":"object"}`)},
					func(context.Context, *CallToolRequest) (*CallToolResult, error) { return &CallToolResult{}, nil })
			case "prompts":
				st.srv.AddPrompt(&Prompt{Name: k, Description: v},
					func(context.Context, *GetPromptRequest) (*GetPromptResult, error) { return &GetPromptResult{}, nil })
			case "resources":
				st.srv.AddResource(&Resource{URI: k, Name: v},
					func(context.Context, *ReadResourceRequest) (*ReadResourceResult, error) {
						return &ReadResourceResult{Contents: []*ResourceContents{{Text: "x"}}}, nil
					})
			case "templates":
				st.srv.AddResourceTemplate(&ResourceTemplate{URITemplate: k, Name: v},
					func(context.Context, *ReadResourceRequest) (*ReadResourceResult, error) {
						return &ReadResourceResult{Contents: []*ResourceContents{{Text: "x"}}}, nil
					})
			}
		}
		return opline, "ok", []string{"add", "add-" + kind}
	case "addvia":
		// `addvia <variant> tools x<key> x<val> …`: the other ways of registering a tool
		variant, kind := toks[1], toks[2]
		if kind != "tools" {
			return opline, "bad-op", nil
		}
		for i := 3; i+1 < len(toks); i += 2 {
			pgAddVia(st.srv, variant, pgUnhex(toks[i]), pgUnhex(toks[i+1]))
		}
		return opline, "ok", []string{"add", "add-" + kind, "addvia-" + variant}
	case "addbad":
		// `addbad <kind> <variant> x<key> x<val>`: a registration the Add* function must refuse (it
		// panics); refused or not, answered `done` / `accepted` — what is registered must not change
		if len(toks) != 5 {
			return opline, "bad-op", nil
		}
		kind, variant, k, v := toks[1], toks[2], pgUnhex(toks[3]), pgUnhex(toks[4])
		refused := false
		func() {
			defer func() {
				if recover() != nil {
					refused = true
				}
			}()
			pgAddBad(st.srv, kind, variant, k, v)
		}()
		tags = []string{"addbad", "addbad-" + kind, "addbad-" + variant}
		if pgHas(st.keys[kind], k) {
			tags = append(tags, "addbad-replace")
		}
		if !refused {
			return opline, "accepted", append(tags, "addbad-accepted")
		}
		return opline, "done", tags
	case "addhold":
		// `addhold tools <in|out> x<key> x<val>`: Server.AddTool on another goroutine, parked inside its
		// validation section (the MarshalJSON of the input / output schema it was given)
		if len(toks) != 5 || toks[1] != "tools" || len(st.held) >= 3 {
			return opline, "bad-op", nil
		}
		h := &pgHeld{k: pgUnhex(toks[3]), v: pgUnhex(toks[4]), done: make(chan string, 1),
			gate: &pgGate{entered: make(chan struct{}), release: make(chan struct{})}}
		t := &Tool{Name: h.k, Description: h.v, InputSchema: json.RawMessage(`{"type":"object"}`)}
		if toks[2] == "out" {
			t.OutputSchema = h.gate
		} else {
			t.InputSchema = h.gate
		}
		go func() {
			defer func() {
				if recover() != nil {
					h.done <- "panic"
				}
			}()
			st.srv.AddTool(t, pgToolHandler)
			h.done <- "ok"
		}()
		tags = []string{"addhold", "addhold-" + toks[2]}
		if pgHas(st.keys["tools"], h.k) {
			tags = append(tags, "addhold-replace")
		} else {
			tags = append(tags, "addhold-new")
		}
		if len(st.held) > 0 {
			tags = append(tags, "addhold-second")
		}
		select {
		case <-h.gate.entered:
			st.held = append(st.held, h)
			return opline, "done", tags
		case r := <-h.done:
			return opline, "not-held " + r, tags
		case <-time.After(20 * time.Second):
			return opline, "err timeout", tags
		}
	case "addrelease":
		// `addrelease tools x<key> x<val>`: let the parked AddTool go on (its registering section) and wait
		// for it to return; with nothing parked (a minimised replay) the whole AddTool runs here
		if len(toks) != 4 || toks[1] != "tools" {
			return opline, "bad-op", nil
		}
		k, v := pgUnhex(toks[2]), pgUnhex(toks[3])
		var h *pgHeld
		for i, x := range st.held {
			if x.k == k && x.v == v {
				h = x
				st.held = append(append([]*pgHeld{}, st.held[:i]...), st.held[i+1:]...)
				break
			}
		}
		if h == nil {
			pgAddVia(st.srv, "", k, v)
			return opline, "ok", []string{"add", "add-tools", "addrelease-unheld"}
		}
		close(h.gate.release)
		select {
		case r := <-h.done:
			return opline, r, []string{"add", "add-tools", "addrelease"}
		case <-time.After(20 * time.Second):
			return opline, "err timeout", []string{"add", "add-tools", "addrelease"}
		}
	case "remove":
		kind := toks[1]
		var ks []string
		for _, h := range toks[2:] {
			ks = append(ks, pgUnhex(h))
		}
		switch kind {
		case "tools":
			st.srv.RemoveTools(ks...)
		case "prompts":
			st.srv.RemovePrompts(ks...)
		case "resources":
			st.srv.RemoveResources(ks...)
		case "templates":
			st.srv.RemoveResourceTemplates(ks...)
		}
		return opline, "ok", []string{"remove", "remove-" + kind}
	case "list":
		kind := toks[1]
		raw := pgRawOf(pgRawField(toks))
		if pgRawField(toks) == "@" { // hand-written corpus: "the cursor of the previous answer"
			raw = st.lastNext[kind]
		}
		cur := pgCurOf(st, kind, raw)
		opline = fmt.Sprintf("list %s %s %s", kind, cur, pgRawTok(raw))
		tags = []string{"list", "list-" + kind, "cur-" + cur[:1]}
		if raw != "" && raw == st.lastNext[kind] {
			// following the cursor of the previous answer for this kind
			opline += " follow"
			tags = append(tags, "follow")
		}
		scripted := st.getScript(kind) != nil
		if scripted {
			tags = append(tags, "scripted")
		}
		if len(raw) > 256 {
			tags = append(tags, "cur-long")
		}
		items, next, err := pgList(st, kind, raw)
		if err != nil {
			st.lastNext[kind] = ""
			o := pgErrObs(err)
			return opline, o, append(tags, strings.ReplaceAll(o, " ", ""))
		}
		st.lastNext[kind] = next
		if next != "" {
			st.issued = append(st.issued, next)
			tags = append(tags, "page-more")
		} else {
			tags = append(tags, "page-last")
		}
		if len(items) == 0 {
			tags = append(tags, "page-empty")
			if next != "" {
				tags = append(tags, "page-empty-more")
			}
		}
		return opline, pgPageObs(st, kind, items, next), tags
	case "tbegin", "tend":
		return opline, "ok", []string{toks[0]}
	case "script":
		kind := toks[1]
		sc, canon := pgParseScript(kind, toks[2:])
		st.setScript(kind, sc)
		st.lastNext[kind] = ""
		tags = []string{"script", "script-" + kind}
		for _, c := range sc.order {
			e := sc.ents[c]
			switch {
			case e.err:
				tags = append(tags, "script-error-entry")
			case len(e.items) == 0 && e.next != "":
				tags = append(tags, "script-empty-page-with-cursor")
			case len(e.items) == 0:
				tags = append(tags, "script-empty-last-page")
			}
			nbad := 0
			for _, it := range e.items {
				if it.bad {
					nbad++
				}
			}
			if nbad > 0 && nbad == len(e.items) && e.next != "" {
				tags = append(tags, "script-all-filtered-page-with-cursor")
			} else if nbad > 0 {
				tags = append(tags, "script-filtered-tool")
			}
		}
		return strings.Join(append([]string{"script", kind}, canon...), " "), "ok", tags
	case "unscript":
		st.setScript(toks[1], nil)
		st.lastNext[toks[1]] = ""
		return opline, "ok", []string{"unscript"}
	case "iopen":
		kind := toks[1]
		raw := pgRawOf(toks[len(toks)-1])
		cur := pgCurOf(st, kind, raw)
		opline = fmt.Sprintf("iopen %s %s %s", kind, cur, pgRawTok(raw))
		if old := st.iters[kind]; old != nil {
			old.stop()
		}
		ictx, icancel := context.WithCancel(context.Background())
		next, stop := iter.Pull2(pgSeq(ictx, st, kind, raw))
		st.iters[kind] = &pgIter{next: next, stop: func() { icancel(); stop() }, cancel: icancel}
		return opline, "ok", []string{"iopen"}
	case "ipull":
		kind := toks[1]
		var m int
		fmt.Sscanf(toks[2], "%d", &m)
		it := st.iters[kind]
		if it == nil {
			return opline, "noiter", []string{"ipull"}
		}
		var b strings.Builder
		b.WriteString("items")
		end := "more"
		var hung atomic.Bool
		watchdog := time.AfterFunc(20*time.Second, func() { hung.Store(true); it.cancel() })
		defer watchdog.Stop()
		for i := 0; i < m; i++ {
			x, err, ok := it.next()
			if !ok {
				end = "end"
				break
			}
			if err != nil {
				end = pgErrObs(err)
				if hung.Load() {
					end = "err timeout"
				}
				break
			}
			b.WriteString(" " + hxs(x.k) + ":" + hxs(x.v))
		}
		b.WriteString(" " + end)
		tags = []string{"ipull", "ipull-" + strings.Fields(end)[0]}
		if st.getScript(kind) != nil {
			tags = append(tags, "ipull-scripted")
		}
		return opline, b.String(), tags
	case "iclose":
		if it := st.iters[toks[1]]; it != nil {
			it.stop()
			delete(st.iters, toks[1])
		}
		return opline, "ok", []string{"iclose"}
	case "iterall":
		kind := toks[1]
		raw := pgRawOf(toks[len(toks)-1])
		cur := pgCurOf(st, kind, raw)
		opline = fmt.Sprintf("iterall %s %s %s", kind, cur, pgRawTok(raw))
		var b strings.Builder
		b.WriteString("items")
		end := "end"
		n := 0
		actx, acancel := context.WithTimeout(context.Background(), 60*time.Second)
		defer acancel()
		for x, err := range pgSeq(actx, st, kind, raw) {
			if err != nil {
				end = pgErrObs(err)
				break
			}
			b.WriteString(" " + hxs(x.k) + ":" + hxs(x.v))
			if n++; n > 3000 {
				end = "runaway"
				break
			}
		}
		b.WriteString(" " + end)
		tags = []string{"iterall", "iterall-" + strings.Fields(end)[0]}
		if st.getScript(kind) != nil {
			tags = append(tags, "iterall-scripted")
		}
		return opline, b.String(), tags
	case "ro":
		// a read-only request between the others: `ro <what>[.x<hex arg>] <touch>` (touch: the kind whose
		// sorted index the request walks — template lookup of a resources/read that is no static hit —, or `-`)
		if len(toks) != 3 {
			return opline, "bad-op", nil
		}
		ctx, cancel := context.WithTimeout(context.Background(), 20*time.Second)
		defer cancel()
		what, arg, _ := strings.Cut(toks[1], ".")
		a := pgUnhex(arg)
		var err error
		switch what {
		case "read":
			_, err = st.cs.ReadResource(ctx, &ReadResourceParams{URI: a})
		case "call":
			_, err = st.cs.CallTool(ctx, &CallToolParams{Name: a})
		case "prompt":
			_, err = st.cs.GetPrompt(ctx, &GetPromptParams{Name: a})
		case "complete":
			_, err = st.cs.Complete(ctx, &CompleteParams{Ref: &CompleteReference{Type: "ref/prompt", Name: a},
				Argument: CompleteParamsArgument{Name: "x", Value: "v"}})
		case "ping":
			err = st.cs.Ping(ctx, nil)
		default:
			return opline, "bad-op", nil
		}
		tags = []string{"ro", "ro-" + what, "touch-" + toks[2]}
		if err != nil {
			if o := pgErrObs(err); o == "panic" || o == "err timeout" {
				return opline, o, append(tags, "ro-"+strings.ReplaceAll(o, " ", ""))
			}
			return opline, "done", append(tags, "ro-"+what+"-refused")
		}
		return opline, "done", append(tags, "ro-"+what+"-served")
	case "roundtrip":
		k := pgUnhex(toks[1])
		c, err := encodeCursor(k)
		if err != nil {
			return opline, "encode-error", []string{"roundtrip"}
		}
		t, err := decodeCursor(c)
		switch {
		case err != nil || t == nil:
			return opline, "decode-error", []string{"roundtrip"}
		case c == "":
			return opline, "empty-cursor", []string{"roundtrip"}
		case t.LastUID != k:
			return opline, "differs", []string{"roundtrip"}
		}
		return opline, "same", []string{"roundtrip"}
	case "codec":
		// decodeCursor on raw bytes (no JSON in between): must return, never crash
		t, err := decodeCursor(pgUnhex(toks[1]))
		if err != nil || t == nil {
			return opline, "ok", []string{"codec", "codec-bad"}
		}
		return opline, "ok", []string{"codec", "codec-good"}
	}
	return opline, "bad-op", nil
}

// ---------------------------------------------------------------- generator

var pgSafeAlpha = []string{"a", "b", "c", "A", "Z", "0", "9", "-", "_", ".", "~", "\u00e9", "\u00df", "\u03a9", "\u4e2d", "\u00ff", "\u0100", "\u07ff", "\u0800", "\ue000", "\ufdcf", "\U00010000", "\U0001F600"}
var pgWildAlpha = []string{" ", "\"", "\\", "\x01", "\x7f", "\ufffd", "\uffff", "/", "{", "%", "\u00a0"}

type pgGen struct {
	rng *rand.Rand
	st  **pgState
	ctr int
	// name-length profile of the case: percentages of medium (8-40 symbols) and long (100-400
	// bytes) names; the rest are short (0-3 symbols). Long names mostly share one of `prefixes`.
	pMedium, pLong int
	prefixes       []string
}

var pgPathAlpha = []string{"a", "b", "e", "k", "s", "t", "x", "0", "1", "7", "-", "_", ".", "~", "/", "/", "A", "Q"}

// setProfile draws the name-length profile of a case.
func (g *pgGen) setProfile(nitems int) {
	switch r := g.rng.Intn(10); {
	case nitems > 100 || r < 5: // short names only
	case r < 7:
		g.pMedium, g.pLong = 35, 5
	case r < 9:
		g.pMedium, g.pLong = 20, 40
	default:
		g.pMedium, g.pLong = 0, 90
	}
	for i := 0; i < 1+g.rng.Intn(2); i++ {
		var b strings.Builder
		b.WriteString([]string{"", "srv/", "bucket.example.com/", "data/v1/objects/"}[g.rng.Intn(4)])
		want := 90 + g.rng.Intn(260)
		for b.Len() < want {
			b.WriteString(pgPathAlpha[g.rng.Intn(len(pgPathAlpha))])
		}
		g.prefixes = append(g.prefixes, b.String())
	}
}

func (g *pgGen) sym(kind string) string {
	if (kind == "tools" || kind == "prompts") && g.rng.Intn(10) == 0 {
		return pgWildAlpha[g.rng.Intn(len(pgWildAlpha))]
	}
	return pgSafeAlpha[g.rng.Intn(len(pgSafeAlpha))]
}

// key draws a feature name / URI path: short (0-3 symbols), medium (8-40 symbols) or long (100-400
// bytes: a shared long prefix plus a short or medium tail, its own bytes, or a strict prefix of the
// shared prefix), according to the case's profile.
func (g *pgGen) key(kind string) string {
	var b strings.Builder
	r := g.rng.Intn(100)
	switch {
	case r < g.pLong && len(g.prefixes) > 0:
		pre := g.prefixes[g.rng.Intn(len(g.prefixes))]
		switch g.rng.Intn(8) {
		case 0: // the bare prefix, or a cut of it (still long): neighbours in the order
			cut := len(pre) - g.rng.Intn(12)
			if cut < 1 {
				cut = len(pre)
			}
			b.WriteString(pre[:cut])
		case 1: // an unrelated long name
			n := 100 + g.rng.Intn(300)
			for b.Len() < n {
				b.WriteString(g.sym(kind))
			}
		case 2: // signed-URL style tail
			b.WriteString(pre)
			b.WriteString("?X-Signature=")
			for i := 0; i < 16+g.rng.Intn(48); i++ {
				b.WriteString(string("0123456789abcdef"[g.rng.Intn(16)]))
			}
		default:
			b.WriteString(pre)
			for i := 0; i < g.rng.Intn(4); i++ {
				b.WriteString(g.sym(kind))
			}
		}
	case r < g.pLong+g.pMedium:
		n := 8 + g.rng.Intn(33)
		for i := 0; i < n; i++ {
			b.WriteString(g.sym(kind))
		}
	default:
		n := 1 + g.rng.Intn(3)
		if g.rng.Intn(12) == 0 {
			n = 0
		}
		for i := 0; i < n; i++ {
			b.WriteString(g.sym(kind))
		}
	}
	return pgUID(kind, b.String())
}

func (g *pgGen) val() string {
	g.ctr++
	return fmt.Sprintf("v%d", g.ctr)
}

func (g *pgGen) kind() string { return pgKinds[g.rng.Intn(len(pgKinds))] }

func (g *pgGen) addOp(kind string, n int) string {
	st := *g.st
	toks := []string{"add", kind}
	if kind == "tools" && n <= 4 && g.rng.Intn(3) == 0 { // another way of registering a tool
		toks = []string{"addvia", pgAddVariants[g.rng.Intn(len(pgAddVariants))], kind}
	}
	for i := 0; i < n; i++ {
		var k string
		if ks := st.keys[kind]; len(ks) > 0 && g.rng.Intn(4) == 0 {
			k = ks[g.rng.Intn(len(ks))] // replace
		} else {
			k = g.key(kind)
		}
		toks = append(toks, "x"+hxs(k), "x"+hxs(g.val()))
		if !pgHas(st.keys[kind], k) {
			st.keys[kind] = append(st.keys[kind], k)
		}
	}
	return strings.Join(toks, " ")
}

func pgKindIdx(kind string) int {
	for i, k := range pgKinds {
		if k == kind {
			return i
		}
	}
	return 0
}

func pgHas(l []string, k string) bool {
	for _, x := range l {
		if x == k {
			return true
		}
	}
	return false
}

func (g *pgGen) removeOp(kind string) string {
	st := *g.st
	toks := []string{"remove", kind}
	n := 1 + g.rng.Intn(2)
	for i := 0; i < n; i++ {
		var k string
		if ks := st.keys[kind]; len(ks) > 0 && g.rng.Intn(5) != 0 {
			j := g.rng.Intn(len(ks))
			k = ks[j]
			st.keys[kind] = append(append([]string{}, ks[:j]...), ks[j+1:]...)
		} else {
			k = g.key(kind) // most likely absent
			var keep []string
			for _, x := range st.keys[kind] {
				if x != k {
					keep = append(keep, x)
				}
			}
			st.keys[kind] = keep
		}
		toks = append(toks, "x"+hxs(k))
	}
	return strings.Join(toks, " ")
}

// holdOp: a Server.AddTool that parks inside its validation section (2/3 of the time for a name that is
// registered: a replacement; sometimes for a name another parked AddTool carries).
func (g *pgGen) holdOp() string {
	st := *g.st
	const kind = "tools"
	var k string
	switch ks := st.keys[kind]; {
	case len(st.held) > 0 && g.rng.Intn(3) == 0:
		k = st.held[g.rng.Intn(len(st.held))].k
	case len(ks) > 0 && g.rng.Intn(3) != 0:
		k = ks[g.rng.Intn(len(ks))]
	default:
		k = g.key(kind)
	}
	return "addhold " + kind + " " + []string{"in", "out"}[g.rng.Intn(2)] + " x" + hxs(k) + " x" + hxs(g.val())
}

// releaseOp: one of the parked AddTool calls goes on to its registering section.
func (g *pgGen) releaseOp() string {
	st := *g.st
	h := st.held[g.rng.Intn(len(st.held))]
	if !pgHas(st.keys["tools"], h.k) {
		st.keys["tools"] = append(st.keys["tools"], h.k)
	}
	return "addrelease tools x" + hxs(h.k) + " x" + hxs(h.v)
}

func (g *pgGen) mutation(kind string) string {
	if st := *g.st; kind == "tools" && g.rng.Intn(6) == 0 {
		// the two sections of an AddTool anywhere a mutation can happen (between page fetches, iterator pulls)
		if len(st.held) > 0 && g.rng.Intn(2) == 0 {
			return g.releaseOp()
		}
		if len(st.held) < 2 {
			return g.holdOp()
		}
	}
	if g.rng.Intn(2) == 0 {
		return g.addOp(kind, 1+g.rng.Intn(2))
	}
	return g.removeOp(kind)
}

// readonly draws a read-only request: resources/read (a static resource, a URI matching a registered
// template, a miss), tools/call, prompts/get, completion/complete, ping. Whatever such traffic happens
// between two list requests, the listing must not change.
func (g *pgGen) readonly() string {
	st := *g.st
	pick := func(kind string) (string, bool) {
		if ks := st.keys[kind]; len(ks) > 0 && g.rng.Intn(4) != 0 {
			return ks[g.rng.Intn(len(ks))], true
		}
		return g.key(kind), false
	}
	if g.rng.Intn(8) == 0 {
		return g.addBad()
	}
	switch r := g.rng.Intn(100); {
	case r < 50:
		uri := ""
		switch g.rng.Intn(3) {
		case 0: // a static resource (mostly a hit: answered before any template is looked at)
			uri, _ = pick("resources")
		case 1: // a URI a registered template matches
			t, _ := pick("templates")
			uri = strings.Replace(t, "{x}", fmt.Sprintf("v%d", g.rng.Intn(9)), 1)
		default: // a miss
			uri = fmt.Sprintf("file:///no-such-resource-%d", g.rng.Intn(1000))
		}
		touch := "templates"
		if pgHas(st.keys["resources"], uri) {
			touch = "-"
		}
		return "ro read.x" + hxs(uri) + " " + touch
	case r < 65:
		k, _ := pick("tools")
		return "ro call.x" + hxs(k) + " -"
	case r < 80:
		k, _ := pick("prompts")
		return "ro prompt.x" + hxs(k) + " -"
	case r < 90:
		k, _ := pick("prompts")
		return "ro complete.x" + hxs(k) + " -"
	default:
		return "ro ping -"
	}
}

// addBad draws a registration that must be refused: a tool (half of the time under a registered name: a
// refused replacement keeps the old tool) with a missing / nil / non-object / unmarshalable input schema,
// an invalid x-mcp-header annotation, a broken output schema; a resource whose URI does not parse; a
// resource template that is not a URI template. What is registered must not change.
func (g *pgGen) addBad() string {
	st := *g.st
	kind := []string{"tools", "tools", "resources", "templates"}[g.rng.Intn(4)]
	vs := pgBadVariants[kind]
	variant := vs[g.rng.Intn(len(vs))]
	var k string
	switch kind {
	case "tools":
		if ks := st.keys[kind]; len(ks) > 0 && g.rng.Intn(2) == 0 {
			k = ks[g.rng.Intn(len(ks))]
		} else {
			k = g.key(kind)
		}
	case "resources":
		// in the path (url.Parse does not check the query), or a control character anywhere
		k = "file:///" + []string{"%zz", "%-", "\x7f", "%a/"}[g.rng.Intn(4)] + strings.TrimPrefix(g.key(kind), "file:///")
	default:
		k = strings.TrimSuffix(g.key(kind), "{x}") + []string{"{x", "{", "{x}{", "{x}}"}[g.rng.Intn(4)]
	}
	return "addbad " + kind + " " + variant + " x" + hxs(k) + " x" + hxs(g.val())
}

// heldAdd: Server.AddTool is parked inside its validation section (half of the time for a name that is
// registered: a replacement) while the tool is removed / other tools are added, removed / the listing is
// traversed (which rebuilds the sorted index); then it goes on and registers. Afterwards the tool is
// registered: a traversal must return it.
func (g *pgGen) heldAdd(emit pgEmit) {
	const kind = "tools"
	if st := *g.st; len(st.held) >= 2 {
		return
	}
	op := g.holdOp()
	if emit(op) != "done" {
		return
	}
	f := strings.Fields(op)
	k := pgUnhex(f[3])
	for i, n := 0, 1+g.rng.Intn(4); i < n; i++ {
		st := *g.st
		switch r := g.rng.Intn(12); {
		case r < 3: // the tool is removed while its (re-)registration is under way
			emit("remove " + kind + " x" + hxs(k))
			var keep []string
			for _, x := range st.keys[kind] {
				if x != k {
					keep = append(keep, x)
				}
			}
			st.keys[kind] = keep
		case r < 5:
			emit(g.mutation(kind))
		case r < 7:
			emit("list " + kind + " -")
		case r < 9:
			g.traversal(emit, kind, []int{0, 0, 50}[g.rng.Intn(3)])
		case r < 11:
			if st.iters[kind] == nil {
				g.iterRun(emit, kind, []int{0, 40}[g.rng.Intn(2)])
			}
		default:
			emit(g.readonly())
		}
	}
	g.releaseAll(emit)
}

// releaseAll: every parked AddTool registers (in a random order); afterwards all of them are registered:
// a traversal must return them.
func (g *pgGen) releaseAll(emit pgEmit) {
	st := *g.st
	if st == nil || len(st.held) == 0 {
		return
	}
	for st = *g.st; len(st.held) > 0; st = *g.st {
		if emit(g.releaseOp()) == "bad-op" {
			break
		}
	}
	if g.rng.Intn(4) != 0 {
		g.traversal(emit, "tools", 0)
	} else {
		emit("iterall tools -")
	}
}

type pgOther struct{ Other string }
type pgIntUID struct{ LastUID int }
type pgExtra struct {
	LastUID string
	Extra   []int
}

func pgGob(v any) []byte {
	var buf bytes.Buffer
	gob.NewEncoder(&buf).Encode(v)
	return buf.Bytes()
}

// garbage produces a cursor string the server did not issue.
func (g *pgGen) garbage(kind string) string {
	st := *g.st
	r := g.rng
	rb := func(n int) []byte {
		b := make([]byte, n)
		r.Read(b)
		return b
	}
	switch r.Intn(16) {
	case 0: // random bytes
		return string(rb(1 + r.Intn(24)))
	case 1: // printable junk
		return []string{"x", "null", "0", "AAAA", "====", "a b", "%%%", "Ω", "\x00", "e30=", "e30", "bnVsbA=="}[r.Intn(12)]
	case 2: // valid URL-base64 of random bytes
		return base64.URLEncoding.EncodeToString(rb(1 + r.Intn(40)))
	case 3: // std alphabet / no padding variants of a good cursor
		c, _ := encodeCursor(g.key(kind) + "??>>")
		b, _ := base64.URLEncoding.DecodeString(c)
		return []string{base64.StdEncoding.EncodeToString(b), base64.RawURLEncoding.EncodeToString(b), c + "=", c + "A", " " + c}[r.Intn(5)]
	case 4: // truncated good cursor
		c, _ := encodeCursor(g.key(kind))
		b, _ := base64.URLEncoding.DecodeString(c)
		return base64.URLEncoding.EncodeToString(b[:r.Intn(len(b))])
	case 5: // bit-flipped good cursor
		c, _ := encodeCursor(g.key(kind))
		b, _ := base64.URLEncoding.DecodeString(c)
		b[r.Intn(len(b))] ^= 1 << uint(r.Intn(8))
		return base64.URLEncoding.EncodeToString(b)
	case 6: // gob of other shapes
		return base64.URLEncoding.EncodeToString(pgGob([]any{pgOther{"x"}, pgIntUID{7}, pgExtra{g.key(kind), []int{1, 2}}, "plain", 42, pageToken{}}[r.Intn(6)]))
	case 7: // huge declared length
		return base64.URLEncoding.EncodeToString(append([]byte{0xf8, 0x7f, 0xff, 0xff, 0xff, 0xff, 0xff, 0xff, 0xff}, rb(8)...))
	case 8: // long
		return strings.Repeat("QUJD", 1000+r.Intn(3000))
	case 9, 10: // forged but well-formed: any key-like string, present or not
		c, _ := encodeCursor(g.key(kind))
		return c
	case 11: // forged: bytes that are not UTF-8
		c, _ := encodeCursor(string(rb(1 + r.Intn(4))))
		return c
	case 12, 13: // stale / foreign-kind issued cursor
		if len(st.issued) > 0 {
			return st.issued[r.Intn(len(st.issued))]
		}
		return "zz"
	case 14: // forged for an existing key
		if ks := st.keys[kind]; len(ks) > 0 {
			c, _ := encodeCursor(ks[r.Intn(len(ks))])
			return c
		}
		return "e30="
	default: // two gob messages back to back
		c, _ := encodeCursor(g.key(kind))
		b, _ := base64.URLEncoding.DecodeString(c)
		return base64.URLEncoding.EncodeToString(append(b, b...))
	}
}

type pgEmit func(op string) string

// traversal: follow cursors from the first page to the end, mutating between fetches.
func (g *pgGen) traversal(emit pgEmit, kind string, mutateProb int) {
	st := *g.st
	roProb := []int{0, 30, 60}[g.rng.Intn(3)] // read-only requests between the fetches
	// a second, concurrent traversal of the same listing: the client iterator, pulled between the fetches
	second := g.rng.Intn(4) == 0 && st.iters[kind] == nil
	for g.rng.Intn(100) < roProb {
		emit(g.readonly())
	}
	if second {
		emit("iopen " + kind + " -")
	}
	emit("tbegin " + kind)
	raw := ""
	for page := 0; page < 120; page++ {
		emit("list " + kind + " " + pgRawTok(raw))
		st = *g.st
		raw = st.lastNext[kind]
		if raw == "" {
			break
		}
		for g.rng.Intn(100) < roProb {
			emit(g.readonly())
		}
		if second && g.rng.Intn(2) == 0 {
			emit(fmt.Sprintf("ipull %s %d", kind, 1+g.rng.Intn(3)))
		}
		for g.rng.Intn(100) < mutateProb {
			k2 := kind
			if g.rng.Intn(5) == 0 {
				k2 = g.kind()
			}
			emit(g.mutation(k2))
		}
		if g.rng.Intn(25) == 0 { // an unrelated request (another kind) in between
			other := pgKinds[(g.rng.Intn(3)+1+pgKindIdx(kind))%4]
			emit("list " + other + " " + pgRawTok(g.garbage(kind)))
		}
	}
	emit("tend " + kind)
	if second {
		emit(fmt.Sprintf("ipull %s %d", kind, 1+g.rng.Intn(4)))
		emit("iclose " + kind)
	}
}

func (g *pgGen) iterRun(emit pgEmit, kind string, mutateProb int) {
	raw := ""
	if g.rng.Intn(6) == 0 {
		raw = g.garbage(kind)
	}
	emit("iopen " + kind + " " + pgRawTok(raw))
	for i := 0; i < 40; i++ {
		obs := emit(fmt.Sprintf("ipull %s %d", kind, 1+g.rng.Intn(4)))
		if !strings.HasSuffix(obs, " more") && g.rng.Intn(3) != 0 {
			break // ended (sometimes pull once more after the end)
		}
		for g.rng.Intn(100) < mutateProb {
			emit(g.mutation(kind))
		}
		for g.rng.Intn(100) < 25 {
			emit(g.readonly())
		}
		if g.rng.Intn(30) == 0 {
			break // consumer stops early
		}
	}
	emit("iclose " + kind)
}

// scriptCursor draws an opaque cursor of a foreign server (valid UTF-8, distinct by construction).
func (g *pgGen) scriptCursor(kind string, i int) string {
	tag := fmt.Sprintf("%d", i)
	switch g.rng.Intn(6) {
	case 0:
		return "c" + tag
	case 1:
		c, _ := encodeCursor(g.key(kind) + tag) // looks like one of the SDK's own
		return c
	case 2:
		return base64.StdEncoding.EncodeToString([]byte("page:" + tag + ":" + g.val()))
	case 3:
		return strings.Repeat("n", 250+g.rng.Intn(200)) + tag
	case 4:
		return "\u00e9 \"" + tag + "\" {offset}"
	default:
		return tag
	}
}

// script draws a foreign server's listing: a chain of 1-6 pages (each possibly empty; for tools
// possibly holding only tools the client must drop) linked by distinct cursors, plus sometimes a
// cursor that is answered with an error and a side chain.
func (g *pgGen) script(kind string) (op string, cursors []string) {
	r := g.rng
	np := 1 + r.Intn(6)
	curs := []string{""}
	for i := 1; i < np; i++ {
		curs = append(curs, g.scriptCursor(kind, i))
	}
	emptyProb := []int{0, 30, 30, 60}[r.Intn(4)]
	badProb := []int{0, 30, 60}[r.Intn(3)]
	var seen []string
	page := func() string {
		var its []string
		n := 1 + r.Intn(4)
		if r.Intn(100) < emptyProb {
			n = 0
		}
		allBad := kind == "tools" && r.Intn(5) == 0
		for j := 0; j < n; j++ {
			k := g.key(kind)
			if len(seen) > 0 && r.Intn(10) == 0 {
				k = seen[r.Intn(len(seen))] // a foreign server may repeat itself
			}
			seen = append(seen, k)
			w := hxs(k) + ":" + hxs(g.val())
			if kind == "tools" && (allBad || r.Intn(100) < badProb) {
				w += "!"
			}
			its = append(its, w)
		}
		return strings.Join(its, ",")
	}
	toks := []string{"script", kind}
	for i := 0; i < np; i++ {
		next := ""
		if i+1 < np {
			next = curs[i+1]
		}
		toks = append(toks, pgScriptTok(curs[i])+"="+page()+"="+pgScriptTok(next))
	}
	if r.Intn(3) == 0 { // a cursor the server refuses
		c := "gone" + g.val()
		toks = append(toks, pgScriptTok(c)+"=!")
		curs = append(curs, c)
	}
	if r.Intn(4) == 0 { // a side entry joining the chain (a resumable bookmark)
		c := "side" + g.val()
		toks = append(toks, pgScriptTok(c)+"="+page()+"="+pgScriptTok(curs[r.Intn(np)]))
		curs = append(curs, c)
	}
	return strings.Join(toks, " "), curs
}

// scriptRun: the client against a foreign server: manual paging, the iterator from the start and
// from cursors in the middle / refused / unknown, a pull-driven iterator with the server changing
// its listing in between.
func (g *pgGen) scriptRun(emit pgEmit, kind string) {
	r := g.rng
	op, curs := g.script(kind)
	emit(op)
	st := *g.st
	raw := ""
	for page := 0; page < 12; page++ { // manual paging
		emit("list " + kind + " " + pgRawTok(raw))
		raw = st.lastNext[kind]
		if raw == "" {
			break
		}
	}
	emit("iterall " + kind + " -")
	for i := 0; i < r.Intn(3); i++ {
		c := curs[r.Intn(len(curs))]
		if r.Intn(5) == 0 {
			c = "unknown" + g.val()
		}
		if r.Intn(2) == 0 {
			emit("list " + kind + " " + pgRawTok(c))
		}
		emit("iterall " + kind + " " + pgRawTok(c))
	}
	if r.Intn(2) == 0 {
		start := ""
		if r.Intn(4) == 0 {
			start = curs[r.Intn(len(curs))]
		}
		emit("iopen " + kind + " " + pgRawTok(start))
		for i := 0; i < 20; i++ {
			obs := emit(fmt.Sprintf("ipull %s %d", kind, 1+r.Intn(3)))
			if !strings.HasSuffix(obs, " more") && r.Intn(3) != 0 {
				break
			}
			if r.Intn(5) == 0 { // the foreign server's listing changes under the iterator
				op2, _ := g.script(kind)
				emit(op2)
			}
			if r.Intn(5) == 0 { // so does the SDK server's own registry (not visible while scripted)
				emit(g.mutation(kind))
			}
		}
		emit("iclose " + kind)
	}
	emit("unscript " + kind)
}

// pgHangs counts the cases of this run that ended in a request that was never answered (20 s each).
var pgHangs int

func pgRunCase(out *verifOut, cs string, c int) {
	rng := verifRng(int64(c))
	var st *pgState
	defer func() { st.close() }()
	g := &pgGen{rng: rng, st: &st}
	// A request that hangs is observed once (`err timeout`); the rest of the case is not run: every later
	// request to the stuck server would hang as long again.
	dead := false
	emit := func(op string) string {
		if dead {
			return "skipped"
		}
		opline, obs, tags := pgApply(&st, strings.Fields(op))
		out.line(cs, opline, obs, tags...)
		if obs == "err timeout" {
			dead = true
			pgHangs++
		}
		return obs
	}
	out.line(cs, "reset", "ok", "reset")
	psize := []int{1, 1, 2, 2, 3, 3, 4, 5, 7, 0}[rng.Intn(10)]
	if c%97 == 96 {
		psize = 1000
	}
	version := []string{"default", "2025-11-25", "2025-06-18", "2025-03-26", "2024-11-05"}[rng.Intn(5)]
	emit(fmt.Sprintf("server %d %s", psize, version))
	if st == nil || st.cs == nil {
		return
	}
	// initial registrations: 0..40 items spread over the kinds
	nitems := []int{0, 1, 2, 3, 5, 8, 13, 21, 40}[rng.Intn(9)]
	if psize == 0 && rng.Intn(3) == 0 {
		nitems = 1005 // crosses DefaultPageSize
	}
	g.setProfile(nitems)
	focus := g.kind()
	for nitems > 0 {
		n := 1 + rng.Intn(4)
		if nitems > 100 {
			n = 200
		}
		if n > nitems {
			n = nitems
		}
		k := focus
		if rng.Intn(3) == 0 {
			k = g.kind()
		}
		emit(g.addOp(k, n))
		nitems -= n
	}
	nsteps := 2 + rng.Intn(4)
	for i := 0; i < nsteps; i++ {
		kind := focus
		if rng.Intn(3) == 0 {
			kind = g.kind()
		}
		switch r := rng.Intn(122); {
		case r >= 112: // an AddTool parked between its validation and its registering section
			g.heldAdd(emit)
		case r >= 100: // the client against a foreign (scripted) server
			g.scriptRun(emit, kind)
		case r < 30:
			g.traversal(emit, kind, []int{0, 50, 50, 80}[rng.Intn(4)])
		case r < 40: // static traversal followed by the iterator on the same state
			g.traversal(emit, kind, 0)
			emit("iterall " + kind + " -")
		case r < 55:
			g.iterRun(emit, kind, []int{0, 40, 70}[rng.Intn(3)])
		case r < 62:
			emit("iterall " + kind + " " + pgRawTok(g.garbage(kind)))
		case r < 85:
			for j := 0; j < 1+rng.Intn(4); j++ {
				emit("list " + kind + " " + pgRawTok(g.garbage(kind)))
			}
		case r < 90:
			emit("roundtrip x" + hxs(g.key(kind)))
			b := make([]byte, rng.Intn(40))
			rng.Read(b)
			emit("codec x" + hx(b))
			emit("codec x" + hxs(g.garbage(kind)))
		default:
			emit(g.mutation(kind))
		}
	}
	g.releaseAll(emit)
}

func TestVerifPaginate(t *testing.T) {
	out := verifOpen(t)
	defer out.close()
	if p := os.Getenv("VERIF_REPLAY"); p != "" {
		pgReplayFile(t, out, p, "replay")
		return
	}
	if p := os.Getenv("VERIF_CORPUS"); p != "" {
		ents, _ := os.ReadDir(p)
		var names []string
		for _, e := range ents {
			if strings.HasSuffix(e.Name(), ".ops") {
				names = append(names, e.Name())
			}
		}
		sort.Strings(names)
		for _, n := range names {
			pgReplayFile(t, out, p+"/"+n, "corpus-"+strings.TrimSuffix(n, ".ops"))
		}
	}
	n := verifN(1200, 12000)
	for c := 0; c < n && pgHangs < 4; c++ { // four hangs observed: more of them only burn the time budget
		pgRunCase(out, fmt.Sprintf("g%d", c), c)
		// a hang or crash of a later case must not lose what has been observed so far
		out.mu.Lock()
		out.w.Flush()
		out.mu.Unlock()
	}
}

func pgReplayFile(t *testing.T, out *verifOut, path, cs string) {
	b, err := os.ReadFile(path)
	if err != nil {
		t.Fatal(err)
	}
	var st *pgState
	defer func() { st.close() }()
	started := false
	for _, ln := range strings.Split(string(b), "\n") {
		ln = strings.TrimSpace(ln)
		if ln == "" || strings.HasPrefix(ln, "#") {
			continue
		}
		toks := strings.Fields(ln)
		if toks[0] == "reset" || !started {
			started = true
			st.close()
			st = nil
			out.line(cs, "reset", "ok", "reset")
			if toks[0] == "reset" {
				continue
			}
		}
		if st == nil && toks[0] != "server" {
			out.line(cs, ln, "no-server", "corpus")
			continue
		}
		opline, obs, tags := pgApply(&st, toks)
		out.line(cs, opline, obs, append(tags, "corpus")...)
	}
}
