// E9 / C13, stream `http`, third family (records `kas side=shttp`): keep-alive of a real SERVER session behind the
// real StreamableHTTPHandler / StreamableServerTransport, against a scripted HTTP CLIENT that drives
// handler.ServeHTTP directly under testing/synctest (no sockets): POST initialize (legacy protocol version), POST
// notifications/initialized, a hanging GET (the standalone SSE stream, on which the server's pings travel), and per
// tick, on script: the ping is answered by a POSTed result after d (j<d>), by a POSTed JSON-RPC error -32601 (J<d>)
// or -32603 (x<d>), not at all (n), or — R0 — the client has NO standalone stream open at that tick (it dropped its
// GET a quarter interval before and reconnects a quarter interval before the next tick at which it is present): streamableServerConn.Write refuses the
// ping with jsonrpc2.ErrRejected ("undelivered message"), which is a failed ping. The harness ends the session
// with an HTTP DELETE. Observed: the instant of every ping ATTEMPT of the server session (sending middleware), the
// instant its Wait returned before the DELETE, attempts after the DELETE.

//go:build verif

package mcp

import (
	"bytes"
	"context"
	"encoding/json"
	"errors"
	"fmt"
	"net/http"
	"net/http/httptest"
	"log/slog"
	"strconv"
	"strings"
	"sync"
	"testing"
	"testing/synctest"
	"time"

	"github.com/modelcontextprotocol/go-sdk/internal/jsonrpc2"
	"github.com/modelcontextprotocol/go-sdk/jsonrpc"
)

// khStreamRW is the ResponseWriter of the hanging GET: SSE frames are handed to onData as they are written.
type khStreamRW struct {
	mu     sync.Mutex
	hdr    http.Header
	status int
	buf    []byte
	onData func(data []byte)
}

func (w *khStreamRW) Header() http.Header { return w.hdr }
func (w *khStreamRW) WriteHeader(code int) {
	w.mu.Lock()
	if w.status == 0 {
		w.status = code
	}
	w.mu.Unlock()
}
func (w *khStreamRW) Flush() {}
func (w *khStreamRW) Write(p []byte) (int, error) {
	w.WriteHeader(http.StatusOK)
	w.mu.Lock()
	w.buf = append(w.buf, p...)
	var frames [][]byte
	for {
		i := bytes.Index(w.buf, []byte("\n\n"))
		if i < 0 {
			break
		}
		frames = append(frames, append([]byte(nil), w.buf[:i]...))
		w.buf = w.buf[i+2:]
	}
	w.mu.Unlock()
	for _, f := range frames {
		var data []byte
		for _, ln := range bytes.Split(f, []byte("\n")) {
			if bytes.HasPrefix(ln, []byte("data:")) {
				data = append(data, bytes.TrimPrefix(bytes.TrimPrefix(ln, []byte("data:")), []byte(" "))...)
			}
		}
		if len(data) > 0 && w.onData != nil {
			w.onData(data)
		}
	}
	return len(p), nil
}

// khRunSrvHTTP runs one scenario of the family `shttp`.
func khRunSrvHTTP(t *testing.T, c *khCase) (obs string) {
	obs = "panic"
	synctest.Test(t, func(t *testing.T) {
		defer func() {
			if r := recover(); r != nil {
				obs = "panic"
			}
		}()
		I := time.Duration(c.I)
		t0 := time.Now()
		var mu sync.Mutex
		var attempts []int64
		server := NewServer(&Implementation{Name: "s", Version: "1"}, &ServerOptions{KeepAlive: I, KeepAliveFailureThreshold: c.T, Logger: kaLogger})
		server.AddSendingMiddleware(func(next MethodHandler) MethodHandler {
			return func(ctx context.Context, method string, req Request) (Result, error) {
				if method == "ping" {
					mu.Lock()
					attempts = append(attempts, time.Since(t0).Nanoseconds())
					mu.Unlock()
				}
				return next(ctx, method, req)
			}
		})
		hopts := &StreamableHTTPOptions{DisableLocalhostProtection: true, Logger: kaLogger}
		if c.mode == "store" {
			hopts.EventStore = NewMemoryEventStore(nil)
		}
		handler := NewStreamableHTTPHandler(func(*http.Request) *Server { return server }, hopts)
		sid := ""
		post := func(body string) *httptest.ResponseRecorder {
			req := httptest.NewRequest(http.MethodPost, "http://srv.example/mcp", strings.NewReader(body))
			req.Header.Set("Content-Type", "application/json")
			req.Header.Set("Accept", "application/json, text/event-stream")
			if sid != "" {
				req.Header.Set("Mcp-Session-Id", sid)
				req.Header.Set("Mcp-Protocol-Version", c.pv)
			}
			rec := httptest.NewRecorder()
			handler.ServeHTTP(rec, req)
			return rec
		}
		rec := post(fmt.Sprintf(`{"jsonrpc":"2.0","id":1,"method":"initialize","params":{"protocolVersion":%q,"capabilities":{},"clientInfo":{"name":"peer","version":"1"}}}`, c.pv))
		sid = rec.Header().Get("Mcp-Session-Id")
		if rec.Code != http.StatusOK || sid == "" {
			obs = "connect-failed"
			return
		}
		if rec := post(`{"jsonrpc":"2.0","method":"notifications/initialized","params":{}}`); rec.Code/100 != 2 {
			obs = "connect-failed"
			return
		}
		var ss *ServerSession
		for s := range server.Sessions() {
			ss = s
		}
		if ss == nil {
			obs = "connect-failed"
			return
		}
		start := time.Since(t0).Nanoseconds() // the handshake takes no virtual time
		closedAt := int64(-1)
		go func() {
			ss.Wait()
			mu.Lock()
			closedAt = time.Since(t0).Nanoseconds()
			mu.Unlock()
		}()
		// the peer's treatment of a ping that reaches it, by the tick it belongs to
		onData := func(data []byte) {
			msg, err := jsonrpc.DecodeMessage(data)
			req, ok := msg.(*jsonrpc.Request)
			if err != nil || !ok || !req.IsCall() || req.Method != "ping" {
				return
			}
			now := time.Since(t0).Nanoseconds() - start
			k := int((now + c.I/2) / c.I) // the tick this ping belongs to (1-based)
			st := khStep{kind: 'n'}
			if k >= 1 && k <= len(c.wire) {
				st = c.wire[k-1]
			}
			idb, _ := json.Marshal(req.ID.Raw())
			go func() {
				time.Sleep(time.Duration(st.d))
				switch st.kind {
				case 'j':
					post(fmt.Sprintf(`{"jsonrpc":"2.0","id":%s,"result":{}}`, idb))
				case 'J':
					post(fmt.Sprintf(`{"jsonrpc":"2.0","id":%s,"error":{"code":-32601,"message":"Method not found: ping"}}`, idb))
				case 'x':
					post(fmt.Sprintf(`{"jsonrpc":"2.0","id":%s,"error":{"code":-32603,"message":"peer failure"}}`, idb))
				}
			}()
		}
		// the standalone stream: open, except around the ticks of kind R
		var getCancel context.CancelFunc
		openGet := func() {
			ctx, cancel := context.WithCancel(context.Background())
			getCancel = cancel
			req := httptest.NewRequest(http.MethodGet, "http://srv.example/mcp", nil).WithContext(ctx)
			req.Header.Set("Accept", "text/event-stream")
			req.Header.Set("Mcp-Session-Id", sid)
			req.Header.Set("Mcp-Protocol-Version", c.pv)
			w := &khStreamRW{hdr: http.Header{}, onData: onData}
			go func() {
				defer func() { recover() }()
				handler.ServeHTTP(w, req)
			}()
		}
		openGet()
		synctest.Wait()
		done := make(chan struct{})
		go func() { // the client's connectivity script
			open := true
			for k := 1; k <= len(c.wire)+1; k++ {
				away := k <= len(c.wire) && (c.wire[k-1].kind == 'R' || c.wire[k-1].kind == 'G')
				at := time.Duration(int64(k)*c.I - c.I/4)
				select {
				case <-time.After(time.Until(t0.Add(time.Duration(start) + at))):
				case <-done:
					return
				}
				if away && open {
					getCancel()
					open = false
				} else if !away && !open {
					openGet()
					open = true
				}
			}
		}()
		time.Sleep(time.Duration(c.tc))
		synctest.Wait()
		mu.Lock()
		ca, before := closedAt, len(attempts)
		mu.Unlock()
		close(done)
		{ // the client ends the session
			req := httptest.NewRequest(http.MethodDelete, "http://srv.example/mcp", nil)
			req.Header.Set("Mcp-Session-Id", sid)
			req.Header.Set("Mcp-Protocol-Version", c.pv)
			handler.ServeHTTP(httptest.NewRecorder(), req)
		}
		getCancel()
		synctest.Wait()
		time.Sleep(3 * I)
		synctest.Wait()
		ss.Close()
		synctest.Wait()
		mu.Lock()
		defer mu.Unlock()
		closed := "-"
		if ca >= 0 {
			closed = strconv.FormatInt(ca-start, 10)
		}
		pings := make([]int64, before)
		for i := range pings {
			pings[i] = attempts[i] - start
		}
		obs = fmt.Sprintf("pings=%s to=- close=%s exit=1 late=%d", kaInts(pings), closed, len(attempts)-before)
	})
	return obs
}

// khRunStateless: `mode=stateless`. A stateless StreamableHTTPHandler serves every POST with a temporary session
// (Server.Connect, so keep-alive is started); the POST is a tools/call whose handler runs until `tc`. That session
// can make no requests: every keep-alive ping is refused by its transport, and after T of them keep-alive closes the
// session under the running call (ServerSession.Close is graceful: it returns, and Wait with it, only when the
// running handler is done; so "closed by keep-alive" is read off the loop's own ERROR record "closing session").
// Observed: the ping attempts (relative to the session's Connect), the instant of that record.
func khRunStateless(t *testing.T, c *khCase) (obs string) {
	obs = "panic"
	synctest.Test(t, func(t *testing.T) {
		defer func() {
			if r := recover(); r != nil {
				obs = "panic"
			}
		}()
		I := time.Duration(c.I)
		t0 := time.Now()
		var mu sync.Mutex
		var attempts []int64
		var ss *ServerSession
		closedAt := int64(-1)
		logger := slog.New(khLogTap(func(r slog.Record) {
			if r.Level >= slog.LevelError && strings.Contains(r.Message, "closing session") {
				mu.Lock()
				if closedAt < 0 {
					closedAt = time.Since(t0).Nanoseconds()
				}
				mu.Unlock()
			}
		}))
		server := NewServer(&Implementation{Name: "s", Version: "1"}, &ServerOptions{KeepAlive: I, KeepAliveFailureThreshold: c.T, Logger: logger})
		server.AddSendingMiddleware(func(next MethodHandler) MethodHandler {
			return func(ctx context.Context, method string, req Request) (Result, error) {
				if method == "ping" {
					mu.Lock()
					attempts = append(attempts, time.Since(t0).Nanoseconds())
					mu.Unlock()
				}
				return next(ctx, method, req)
			}
		})
		done := make(chan struct{})
		defer close(done)
		server.AddTool(&Tool{Name: "park", InputSchema: json.RawMessage(`{"type":"object"}`)}, func(ctx context.Context, req *CallToolRequest) (*CallToolResult, error) {
			mu.Lock()
			ss = req.Session
			mu.Unlock()
			select {
			case <-time.After(time.Duration(c.tc)):
			case <-ctx.Done():
			case <-done:
			}
			return &CallToolResult{}, nil
		})
		handler := NewStreamableHTTPHandler(func(*http.Request) *Server { return server }, &StreamableHTTPOptions{Stateless: true, DisableLocalhostProtection: true, Logger: kaLogger})
		req := httptest.NewRequest(http.MethodPost, "http://srv.example/mcp", strings.NewReader(`{"jsonrpc":"2.0","id":1,"method":"tools/call","params":{"name":"park","arguments":{}}}`))
		req.Header.Set("Content-Type", "application/json")
		req.Header.Set("Accept", "application/json, text/event-stream")
		req.Header.Set("Mcp-Protocol-Version", c.pv)
		rec := httptest.NewRecorder()
		postDone := make(chan struct{})
		go func() {
			defer close(postDone)
			defer func() { recover() }()
			handler.ServeHTTP(rec, req)
		}()
		time.Sleep(time.Duration(c.tc) - 1)
		synctest.Wait()
		mu.Lock()
		ca, before, sess := closedAt, len(attempts), ss
		mu.Unlock()
		if sess == nil {
			obs = "connect-failed"
			return
		}
		time.Sleep(1)
		synctest.Wait()
		<-postDone
		time.Sleep(3 * I)
		synctest.Wait()
		mu.Lock()
		defer mu.Unlock()
		closed := "-"
		if ca >= 0 {
			closed = strconv.FormatInt(ca, 10)
		}
		obs = fmt.Sprintf("pings=%s to=- close=%s exit=1 late=%d", kaInts(attempts[:before]), closed, len(attempts)-before)
	})
	return obs
}

// khLogTap is a slog.Handler that hands every record to f.
type khLogTap func(slog.Record)

func (f khLogTap) Enabled(context.Context, slog.Level) bool        { return true }
func (f khLogTap) Handle(_ context.Context, r slog.Record) error { f(r); return nil }
func (f khLogTap) WithAttrs([]slog.Attr) slog.Handler             { return f }
func (f khLogTap) WithGroup(string) slog.Handler                  { return f }

// khRunDelete: keep-alive versus Close on the HTTP path (records `kss side=s … scn=shttp|…`, judged by the session-level
// clauses of the monitor). The same set-up as khRunSrvHTTP (stateful, optionally with an EventStore); the client's
// DELETE arrives at `tc` — generated to fall while a ping is in flight (unanswered, answered late, or stored because
// the client has no standalone stream), or between two ticks. Observed like the stream `sessions`: every ping
// attempt of the server session (instant, what it was given until its deadline, result class, duration), every
// keep-alive log record, the instant the session's Wait returned, the presence of a startKeepalive goroutine
// right after the DELETE was served, just before the horizon and after the final Close; attempts and records after
// that.
func khRunDelete(t *testing.T, c *khCase) (op, obs string) {
	scn := "shttp|" + strings.ReplaceAll(strings.TrimPrefix(c.op(), "kas "), " ", "|")
	op = fmt.Sprintf("kss side=s I=%d T=%d script=- cancel=1 at=-,1 scn=%s", c.I, c.T, scn)
	obs = "panic"
	synctest.Test(t, func(t *testing.T) {
		defer func() {
			if r := recover(); r != nil {
				obs = "panic"
			}
		}()
		I := time.Duration(c.I)
		t0 := time.Now()
		now := func() int64 { return time.Since(t0).Nanoseconds() }
		var mu sync.Mutex
		var pings []ksPing
		var warns, errs []int64
		over, late := false, 0
		shut := int64(-1)
		logger := slog.New(khLogTap(func(r slog.Record) {
			if !strings.HasPrefix(r.Message, "keepalive") {
				return
			}
			mu.Lock()
			defer mu.Unlock()
			switch {
			case over:
				late++
			case r.Level >= slog.LevelError:
				errs = append(errs, now())
			default:
				warns = append(warns, now())
			}
		}))
		server := NewServer(&Implementation{Name: "s", Version: "1"}, &ServerOptions{KeepAlive: I, KeepAliveFailureThreshold: c.T, Logger: logger})
		server.AddSendingMiddleware(func(next MethodHandler) MethodHandler {
			return func(ctx context.Context, method string, req Request) (Result, error) {
				if method != "ping" {
					return next(ctx, method, req)
				}
				mu.Lock()
				if over {
					late++
					mu.Unlock()
					return next(ctx, method, req)
				}
				mu.Unlock()
				at := now()
				to := int64(-1 << 62)
				if dl, ok := ctx.Deadline(); ok {
					to = dl.Sub(t0).Nanoseconds() - at
				}
				res, err := next(ctx, method, req)
				k := byte('a')
				if err != nil {
					k = 'e'
					if errors.Is(err, jsonrpc2.ErrMethodNotFound) {
						k = 'm'
					}
				}
				mu.Lock()
				pings = append(pings, ksPing{at: at, dur: now() - at, to: to, kind: k})
				mu.Unlock()
				return res, err
			}
		})
		hopts := &StreamableHTTPOptions{DisableLocalhostProtection: true, Logger: kaLogger}
		if c.mode == "store" {
			hopts.EventStore = NewMemoryEventStore(nil)
		}
		handler := NewStreamableHTTPHandler(func(*http.Request) *Server { return server }, hopts)
		sid := ""
		post := func(body string) *httptest.ResponseRecorder {
			req := httptest.NewRequest(http.MethodPost, "http://srv.example/mcp", strings.NewReader(body))
			req.Header.Set("Content-Type", "application/json")
			req.Header.Set("Accept", "application/json, text/event-stream")
			if sid != "" {
				req.Header.Set("Mcp-Session-Id", sid)
				req.Header.Set("Mcp-Protocol-Version", c.pv)
			}
			rec := httptest.NewRecorder()
			handler.ServeHTTP(rec, req)
			return rec
		}
		rec := post(fmt.Sprintf(`{"jsonrpc":"2.0","id":1,"method":"initialize","params":{"protocolVersion":%q,"capabilities":{},"clientInfo":{"name":"peer","version":"1"}}}`, c.pv))
		sid = rec.Header().Get("Mcp-Session-Id")
		if rec.Code != http.StatusOK || sid == "" {
			obs = "connect-failed"
			return
		}
		post(`{"jsonrpc":"2.0","method":"notifications/initialized","params":{}}`)
		var ss *ServerSession
		for s := range server.Sessions() {
			ss = s
		}
		if ss == nil {
			obs = "connect-failed"
			return
		}
		phi := now()
		go func() {
			ss.Wait()
			mu.Lock()
			shut = now()
			mu.Unlock()
		}()
		onData := func(data []byte) {
			msg, err := jsonrpc.DecodeMessage(data)
			req, ok := msg.(*jsonrpc.Request)
			if err != nil || !ok || !req.IsCall() || req.Method != "ping" {
				return
			}
			k := int((now() - phi + c.I/2) / c.I)
			st := khStep{kind: 'n'}
			if k >= 1 && k <= len(c.wire) {
				st = c.wire[k-1]
			}
			idb, _ := json.Marshal(req.ID.Raw())
			go func() {
				time.Sleep(time.Duration(st.d))
				switch st.kind {
				case 'j':
					post(fmt.Sprintf(`{"jsonrpc":"2.0","id":%s,"result":{}}`, idb))
				case 'J':
					post(fmt.Sprintf(`{"jsonrpc":"2.0","id":%s,"error":{"code":-32601,"message":"Method not found: ping"}}`, idb))
				case 'x':
					post(fmt.Sprintf(`{"jsonrpc":"2.0","id":%s,"error":{"code":-32603,"message":"peer failure"}}`, idb))
				}
			}()
		}
		var getCancel context.CancelFunc
		openGet := func() {
			ctx, cancel := context.WithCancel(context.Background())
			getCancel = cancel
			req := httptest.NewRequest(http.MethodGet, "http://srv.example/mcp", nil).WithContext(ctx)
			req.Header.Set("Accept", "text/event-stream")
			req.Header.Set("Mcp-Session-Id", sid)
			req.Header.Set("Mcp-Protocol-Version", c.pv)
			w := &khStreamRW{hdr: http.Header{}, onData: onData}
			go func() {
				defer func() { recover() }()
				handler.ServeHTTP(w, req)
			}()
		}
		openGet()
		synctest.Wait()
		done := make(chan struct{})
		go func() {
			open := true
			for k := 1; k <= len(c.wire)+1; k++ {
				away := k <= len(c.wire) && (c.wire[k-1].kind == 'R' || c.wire[k-1].kind == 'G')
				select {
				case <-time.After(time.Until(t0.Add(time.Duration(phi + int64(k)*c.I - c.I/4)))):
				case <-done:
					return
				}
				if away && open {
					getCancel()
					open = false
				} else if !away && !open {
					openGet()
					open = true
				}
			}
		}()
		loops := func() int {
			n := 0
			for _, v := range ksLoops() {
				n += v
			}
			return n
		}
		time.Sleep(time.Duration(c.tc))
		synctest.Wait()
		callAt := now()
		close(done)
		{ // the client ends the session
			req := httptest.NewRequest(http.MethodDelete, "http://srv.example/mcp", nil)
			req.Header.Set("Mcp-Session-Id", sid)
			req.Header.Set("Mcp-Protocol-Version", c.pv)
			handler.ServeHTTP(httptest.NewRecorder(), req)
		}
		getCancel()
		synctest.Wait()
		s1, live1 := now(), loops()
		T := c.T
		if T < 1 {
			T = 1
		}
		time.Sleep(time.Duration(int64(T+2) * c.I))
		synctest.Wait()
		s2, live2 := now(), loops()
		ss.Close()
		synctest.Wait()
		mu.Lock()
		over = true
		mu.Unlock()
		time.Sleep(time.Duration(int64(T+3) * c.I))
		synctest.Wait()
		live3 := loops()
		mu.Lock()
		defer mu.Unlock()
		cancel := callAt - phi
		var script []kaStep
		var at, tos []int64
		inflight := false
		for _, p := range pings {
			script = append(script, kaStep{p.kind, p.dur})
			at = append(at, p.at)
			tos = append(tos, p.to)
			if p.at < callAt && callAt <= p.at+p.dur {
				inflight = true
			}
		}
		for n := 0; n < 1000; n++ { // pings that were due before the DELETE and were not tried
			starts, _ := kaSchedule(c.I, append(script[:len(script):len(script)], kaStep{'x', 0}))
			if starts[len(script)] >= cancel {
				break
			}
			script = append(script, kaStep{'x', 0})
		}
		sh := "-"
		if shut >= 0 {
			sh = strconv.FormatInt(shut-phi, 10)
		}
		exit := 1
		if live3 > 0 {
			exit = 0
		}
		op = fmt.Sprintf("kss side=s I=%d T=%d script=%s cancel=%d at=%d,%d scn=%s", c.I, c.T, strings.ReplaceAll(ksSteps(script), ".", ","), cancel, s1-phi, s2-phi, scn)
		obs = fmt.Sprintf("pings=%s to=%s close=%s exit=%d late=%d warn=%s shut=%s live=%d%d wblk=-", ksLocal(at, phi), kaTos(tos), ksLocal(errs, phi), exit, late,
			ksLocal(warns, phi), sh, min(live1, 1), min(live2, 1))
		if inflight {
			obs += "" // (tagged by the caller)
		}
	})
	return op, obs
}
