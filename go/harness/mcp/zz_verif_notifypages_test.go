// E14 correspondence harness, client caches with several pages (C18): one real Server whose tools/list has three
// pages (PageSize 2, six tools), one real 2026-07-28 client with a ToolListChangedHandler. Every page is cached
// under its own cursor (mcp/cache.go); a handled list_changed must drop ALL of them. Model: Notify.Cache (keys =
// cursors); monitor: lean/McpModel/Notify/Pages.lean.
//
// Op grammar (cases pg<n> / pgs<n> of the stream `sessions`; every op starts with `pages`):
//   pages config <ttlMs>      => ok               (first op)
//   pages ttl <ms>            => ok               (TTL the server puts on results from now on)
//   pages list <k>            => ret v<N> hit|miss        (ListTools with the cursor of page k)
//   pages listheld <k>        => held v<N> | ret v<N> hit  (the response is held between arrival and cache fill)
//   pages fill <k>            => ret v<N> miss | refused
//   pages change              => handled <n>      (every tool replaced: a burst; 20 ms pass; n = list_changed notifications the client handled)
//   pages tick <ms>           => ok
package mcp

import (
	"context"
	"fmt"
	"math/rand"
	"strconv"
	"strings"
	"sync"
	"testing"
	"testing/synctest"
	"time"

	"github.com/google/jsonschema-go/jsonschema"
)

type nfPagesHeld struct {
	release chan struct{}
	arrived string
	done    chan string
}

type nfPagesWorld struct {
	mu      sync.Mutex
	s       *Server
	cs      *ClientSession
	ss      *ServerSession
	ttl     int64
	epoch   int
	handled int
	cursors []string
	holdCur string // the next tools/list response for this cursor is held ("-" = none)
	held    map[int]*nfPagesHeld
	pending *nfPagesHeld
	served  int // tools/list requests the server has answered
}

func nfPagesVersion(res *ListToolsResult, err error) string {
	if err != nil || res == nil || len(res.Tools) == 0 {
		return "v?"
	}
	return "v" + strings.TrimPrefix(res.Tools[0].Description, "e")
}

func (w *nfPagesWorld) setTools() {
	for i := 0; i < 6; i++ {
		w.s.AddTool(&Tool{Name: fmt.Sprintf("t%d", i), Description: fmt.Sprintf("e%d", w.epoch), InputSchema: &jsonschema.Schema{Type: "object"}},
			func(context.Context, *CallToolRequest) (*CallToolResult, error) { return &CallToolResult{}, nil })
	}
}

func (w *nfPagesWorld) apply(toks []string) (obs string) {
	defer func() {
		if r := recover(); r != nil {
			obs = "panic"
		}
	}()
	if len(toks) < 2 || toks[0] != "pages" || (toks[1] != "config" && w.s == nil) {
		return "bad-op"
	}
	num := func(i int) (int, bool) {
		if len(toks) <= i {
			return 0, false
		}
		n, err := strconv.Atoi(toks[i])
		return n, err == nil && n >= 0
	}
	switch toks[1] {
	case "config":
		ttl, ok := num(2)
		if !ok || w.s != nil {
			return "bad-op"
		}
		w.s = NewServer(&Implementation{Name: "verif-pages-server", Version: "1"}, &ServerOptions{PageSize: 2})
		w.s.AddReceivingMiddleware(func(next MethodHandler) MethodHandler {
			return func(ctx context.Context, method string, req Request) (Result, error) {
				res, err := next(ctx, method, req)
				if r, ok := res.(*ListToolsResult); ok && err == nil {
					w.mu.Lock()
					r.TTLMs = int(w.ttl)
					w.served++
					w.mu.Unlock()
				}
				return res, err
			}
		})
		w.setTools()
		c := NewClient(&Implementation{Name: "verif-pages-client", Version: "1"}, &ClientOptions{
			ToolListChangedHandler: func(context.Context, *ToolListChangedRequest) {
				w.mu.Lock()
				w.handled++
				w.mu.Unlock()
			},
		})
		c.AddSendingMiddleware(func(next MethodHandler) MethodHandler {
			return func(ctx context.Context, method string, req Request) (Result, error) {
				res, err := next(ctx, method, req)
				if method != methodListTools {
					return res, err
				}
				cur := ""
				if p, ok := req.GetParams().(*ListToolsParams); ok && p != nil {
					cur = p.Cursor
				}
				var h *nfPagesHeld
				w.mu.Lock()
				if w.holdCur == cur && w.pending != nil {
					h = w.pending
					w.pending = nil
					w.holdCur = "-"
					lr, _ := res.(*ListToolsResult)
					h.arrived = nfPagesVersion(lr, err)
				}
				w.mu.Unlock()
				if h != nil {
					<-h.release
				}
				return res, err
			}
		})
		ct, st := NewInMemoryTransports()
		ss, err := w.s.Connect(context.Background(), st, nil)
		if err != nil {
			return "err"
		}
		cs, err := c.Connect(context.Background(), ct, &ClientSessionOptions{ProtocolVersion: protocolVersion20260728})
		if err != nil {
			return "err"
		}
		w.cs, w.ss = cs, ss
		synctest.Wait()
		// the cursors of the three pages (TTL 0: what this walk stores is never served)
		cur := ""
		for {
			w.cursors = append(w.cursors, cur)
			res, err := cs.ListTools(context.Background(), &ListToolsParams{Cursor: cur})
			if err != nil || res.NextCursor == "" || len(w.cursors) > 8 {
				break
			}
			cur = res.NextCursor
		}
		if len(w.cursors) != 3 {
			return fmt.Sprintf("err pages=%d", len(w.cursors))
		}
		w.mu.Lock()
		w.ttl = int64(ttl)
		w.mu.Unlock()
		return "ok"
	case "ttl":
		n, ok := num(2)
		if !ok {
			return "bad-op"
		}
		w.mu.Lock()
		w.ttl = int64(n)
		w.mu.Unlock()
		return "ok"
	case "tick":
		n, ok := num(2)
		if !ok {
			return "bad-op"
		}
		time.Sleep(time.Duration(n) * time.Millisecond)
		synctest.Wait()
		return "ok"
	case "change":
		w.epoch++
		w.mu.Lock()
		before := w.handled
		w.mu.Unlock()
		w.setTools()
		time.Sleep(20 * time.Millisecond)
		synctest.Wait()
		w.mu.Lock()
		n := w.handled - before
		w.mu.Unlock()
		return fmt.Sprintf("handled %d", n)
	case "list", "listheld":
		k, ok := num(2)
		if !ok || k >= len(w.cursors) {
			return "bad-op"
		}
		if toks[1] == "list" {
			w.mu.Lock()
			before := w.served
			w.mu.Unlock()
			res, err := w.cs.ListTools(context.Background(), &ListToolsParams{Cursor: w.cursors[k]})
			w.mu.Lock()
			hm := "hit"
			if w.served != before {
				hm = "miss" // the server saw a tools/list request
			}
			w.mu.Unlock()
			return "ret " + nfPagesVersion(res, err) + " " + hm
		}
		if w.held[k] != nil {
			return "refused"
		}
		h := &nfPagesHeld{release: make(chan struct{}), done: make(chan string, 1)}
		w.mu.Lock()
		w.pending = h
		w.holdCur = w.cursors[k]
		w.mu.Unlock()
		go func() {
			res, err := w.cs.ListTools(context.Background(), &ListToolsParams{Cursor: w.cursors[k]})
			h.done <- nfPagesVersion(res, err)
		}()
		synctest.Wait()
		select {
		case v := <-h.done: // served from the cache: nothing was sent
			w.mu.Lock()
			w.pending = nil
			w.holdCur = "-"
			w.mu.Unlock()
			return "ret " + v + " hit"
		default:
		}
		w.held[k] = h
		return "held " + h.arrived
	case "fill":
		k, ok := num(2)
		if !ok {
			return "bad-op"
		}
		h := w.held[k]
		if h == nil {
			return "refused"
		}
		delete(w.held, k)
		close(h.release)
		synctest.Wait()
		return "ret " + <-h.done + " miss"
	}
	return "bad-op"
}

func nfPagesRun(t *testing.T, emit nfEmit, next func(w *nfPagesWorld, step int) string) {
	synctest.Test(t, func(t *testing.T) {
		w := &nfPagesWorld{held: map[int]*nfPagesHeld{}, holdCur: "-"}
		emit("reset", "ok", "reset")
		for step := 0; ; step++ {
			op := next(w, step)
			if op == "" {
				break
			}
			toks := strings.Fields(op)
			obs := w.apply(toks)
			tag := "pages-bad"
			if len(toks) > 1 {
				tag = "pages-" + toks[1]
				if f := strings.Fields(obs); len(f) == 3 && f[0] == "ret" {
					tag += "-" + f[2]
				}
			}
			emit(op, obs, tag)
		}
		for k, h := range w.held {
			delete(w.held, k)
			close(h.release)
		}
		synctest.Wait()
		if w.cs != nil {
			w.cs.Close()
			synctest.Wait()
			w.ss.Wait()
		}
	})
}

func nfPagesIs(ops []string) bool {
	for _, op := range ops {
		f := strings.Fields(op)
		if len(f) == 0 || f[0] == "reset" || strings.HasPrefix(op, "#") {
			continue
		}
		return f[0] == "pages"
	}
	return false
}

func nfPagesRunOps(t *testing.T, emit nfEmit, ops []string) {
	i := 0
	nfPagesRun(t, emit, func(w *nfPagesWorld, step int) string {
		for i < len(ops) {
			op := ops[i]
			i++
			f := strings.Fields(op)
			if len(f) == 0 || f[0] == "reset" || strings.HasPrefix(op, "#") {
				continue
			}
			return op
		}
		return ""
	})
}

func nfPagesScripted(v int) []string {
	switch v {
	case 0: // all three pages cached for a minute, a change: every page must be fetched again
		return []string{"pages config 60000", "pages list 0", "pages list 1", "pages list 2", "pages list 2", "pages change", "pages list 2", "pages list 1", "pages list 0", "pages list 1"}
	case 1: // TTL expiry racing the notification: pages cached at different instants with a 25 ms TTL, the burst's 20 ms in between
		return []string{"pages config 25", "pages list 0", "pages tick 10", "pages list 1", "pages change", "pages list 0", "pages list 1", "pages tick 4", "pages list 1", "pages list 2", "pages tick 30", "pages list 2"}
	default: // a later page's response obtained before the change is put into the cache after the notification was handled
		return []string{"pages config 60000", "pages list 0", "pages listheld 2", "pages change", "pages fill 2", "pages list 2", "pages list 0", "pages listheld 1", "pages fill 1", "pages list 1"}
	}
}

func nfPagesGen(rng *rand.Rand) func(w *nfPagesWorld, step int) string {
	n := 8 + rng.Intn(16)
	ttl := []int{0, 15, 25, 60000, 60000}[rng.Intn(5)]
	return func(w *nfPagesWorld, step int) string {
		if step == 0 {
			return fmt.Sprintf("pages config %d", ttl)
		}
		if step > n {
			for k := 0; k < 3; k++ {
				if w.held[k] != nil {
					return fmt.Sprintf("pages fill %d", k)
				}
			}
			return ""
		}
		switch r := rng.Intn(100); {
		case r < 45:
			return fmt.Sprintf("pages list %d", rng.Intn(3))
		case r < 57:
			return fmt.Sprintf("pages listheld %d", rng.Intn(3))
		case r < 69:
			return fmt.Sprintf("pages fill %d", rng.Intn(3))
		case r < 84:
			return "pages change"
		case r < 94:
			return fmt.Sprintf("pages tick %d", []int{1, 5, 10, 15, 30}[rng.Intn(5)])
		default:
			return fmt.Sprintf("pages ttl %d", []int{0, 15, 25, 60000}[rng.Intn(4)])
		}
	}
}
