// Harness of engine cmdtransport (C05, stdio side): the REAL CommandTransport / pipeRWC.Close against a REAL
// child process (this test binary re-executed with VERIF_CMD_CHILD=<mode>; the child runs the real Server.Run
// over StdioTransport / IOTransport), and Server.Run in-process over IOTransport.
// Not part of the repository; grafted into package mcp by -overlay.
//
// Record (one per case, after `reset`):
//   close lvl=<conn|sess> eof=<x0|x3|slow|ign> term=<dfl|h0|hslow|ign> self=<no|x0|x2> out=<ok|garbage|hold|late>
//         td=<ms> dflt=<0|1> pre=<none|init> second=<no|conn|rwc> pending=<0|1> conc=<0|1> slack=<buckets>
//   ->    connect=<ok|err> res=<nil|exiterr|stdin|done|unresp|waited2|hang|other> eb=<n> death=<e0|en|st|sk|so|nr>
//         term=<tno|tneg|t<k>> eof=<0|1> gone=<0|1> leak=<0|1> second=<na|same|diff|stdin|nil|hang|other> pend=<na|ok|err|hang>
//   connecterr kind=<nostart|stdout|stdin>  ->  err=<0|1> started=<0|1> leak=<0|1>
//   srvrun via=<io> end=<eof|cancel|both> pre=<none|init>  ->  ret=<nil|err|canceled|hang> sessions=<n> leak=<0|1>
// Time appears only as BUCKETS in units of the case's TerminateDuration: eb = floor(elapsed of Close / TD),
// t<k> = floor((instant the child saw SIGTERM - instant Close was called) / TD).  The monitor judges lower
// bounds (a timer never fires early) and one generous upper bound (3 TD + slack), nothing tighter.
package mcp

import (
	"bytes"
	"context"
	"errors"
	"fmt"
	"io"
	"os"
	"os/exec"
	"os/signal"
	"path/filepath"
	"runtime"
	"strconv"
	"strings"
	"sync"
	"syscall"
	"testing"
	"time"

	"github.com/modelcontextprotocol/go-sdk/internal/jsonrpc2"
	"github.com/modelcontextprotocol/go-sdk/jsonrpc"
)

const (
	verifCmdChildEnv = "VERIF_CMD_CHILD"
	verifCmdLogEnv   = "VERIF_CMD_LOG"
	verifCmdTDEnv    = "VERIF_CMD_TD"
	verifCmdSlack    = 30 * time.Second // generous: the machine may be heavily loaded
)

// ---------------------------------------------------------------- the child

func verifCmdLog(format string, a ...any) {
	p := os.Getenv(verifCmdLogEnv)
	if p == "" {
		return
	}
	f, err := os.OpenFile(p, os.O_APPEND|os.O_CREATE|os.O_WRONLY, 0o644)
	if err != nil {
		return
	}
	fmt.Fprintf(f, format+"\n", a...)
	f.Close()
}

// verifSwallowEOF is a stdin that never reports EOF: a child that ignores the closing of its input.
type verifSwallowEOF struct {
	r      io.Reader
	closed chan struct{}
	once   sync.Once
}

func (s *verifSwallowEOF) Read(p []byte) (int, error) {
	n, err := s.r.Read(p)
	if err != nil {
		verifCmdLog("eof %d", time.Now().UnixNano())
		<-s.closed
		return 0, io.EOF
	}
	return n, nil
}
func (s *verifSwallowEOF) Close() error { s.once.Do(func() { close(s.closed) }); return nil }

func verifErrClass(err error) string {
	switch {
	case err == nil:
		return "nil"
	case errors.Is(err, context.Canceled):
		return "canceled"
	case errors.Is(err, io.EOF):
		return "eof"
	}
	return "err"
}

// TestVerifCmdChild is the child process: it only acts when the harness re-executed the binary.
func TestVerifCmdChild(t *testing.T) {
	mode := os.Getenv(verifCmdChildEnv)
	if mode == "" {
		t.Skip("child entry point of the cmdtransport harness")
	}
	verifCmdChild(mode)
	os.Exit(0)
}

func verifKV(s, sep string) map[string]string {
	m := map[string]string{}
	for _, f := range strings.FieldsFunc(s, func(r rune) bool { return r == ',' || r == ' ' }) {
		if i := strings.Index(f, sep); i > 0 {
			m[f[:i]] = f[i+1:]
		}
	}
	return m
}

func verifCmdChild(mode string) {
	kv := verifKV(mode, ":")
	tdms, _ := strconv.Atoi(os.Getenv(verifCmdTDEnv))
	td := time.Duration(tdms) * time.Millisecond
	go func() { time.Sleep(120 * time.Second); os.Exit(9) }() // never outlive a crashed harness for long
	sigc := make(chan os.Signal, 8)
	if kv["term"] != "dfl" {
		signal.Notify(sigc, syscall.SIGTERM)
	}
	verifCmdLog("start %d", time.Now().UnixNano())
	ctx, cancel := context.WithCancel(context.Background())
	defer cancel()
	selfExit := func() {
		code := 0
		if kv["self"] == "x2" {
			code = 2
		}
		time.Sleep(5 * time.Millisecond)
		verifCmdLog("self-exit")
		os.Exit(code)
	}
	server := NewServer(&Implementation{Name: "verif-child", Version: "v1"}, nil)
	// the parent pokes a session-level child that is to vanish or to talk garbage in the middle of the session
	// (the modern handshake sends no initialized notification to hang this on)
	AddTool(server, &Tool{Name: "poke"}, func(ctx context.Context, req *CallToolRequest, args map[string]any) (*CallToolResult, any, error) {
		verifCmdLog("poked")
		if kv["out"] == "late" {
			os.Stdout.WriteString("this is }{ not json either\n")
		}
		if kv["self"] != "no" {
			go selfExit()
		}
		return &CallToolResult{Content: []Content{&TextContent{Text: "ok"}}}, nil, nil
	})
	AddTool(server, &Tool{Name: "slow"}, func(ctx context.Context, req *CallToolRequest, args map[string]any) (*CallToolResult, any, error) {
		verifCmdLog("tool-start")
		select {
		case <-time.After(td / 3):
		case <-ctx.Done():
		}
		return &CallToolResult{Content: []Content{&TextContent{Text: "done"}}}, nil, nil
	})
	if kv["out"] == "garbage" {
		os.Stdout.WriteString("this is }{ not json\n")
	}
	if kv["out"] == "hold" {
		// a grandchild keeps the write end of our stdout open beyond our own exit
		gc := exec.Command("sleep", "2")
		gc.Stdout = os.Stdout
		if err := gc.Start(); err == nil {
			verifCmdLog("grandchild")
		}
	}
	var tr Transport = &StdioTransport{}
	if kv["eof"] == "ign" {
		tr = &IOTransport{Reader: &verifSwallowEOF{r: os.Stdin, closed: make(chan struct{})}, Writer: nopCloserWriter{os.Stdout}}
	}
	runDone := make(chan error, 1)
	go func() {
		err := server.Run(ctx, tr)
		verifCmdLog("run %s %d", verifErrClass(err), len(slicesCollectSessions(server)))
		runDone <- err
	}()
	if kv["self"] != "no" && kv["lvl"] == "conn" {
		go func() { time.Sleep(60 * time.Millisecond); selfExit() }()
	}
	for {
		select {
		case <-runDone:
			runDone = nil
			switch kv["eof"] {
			case "x0":
				os.Exit(0)
			case "x3":
				os.Exit(3)
			case "slow":
				time.Sleep(td / 2)
				os.Exit(0)
			}
			// ign: Run returned because the SIGTERM handler cancelled the context, or stdout broke; linger
		case <-sigc:
			verifCmdLog("term %d", time.Now().UnixNano())
			switch kv["term"] {
			case "h0":
				cancel()
				if runDone != nil {
					select {
					case <-runDone:
					case <-time.After(10 * time.Second):
					}
				}
				os.Exit(0)
			case "hslow":
				time.Sleep(td / 2)
				os.Exit(0)
			}
			// ign: go on
		}
	}
}

func slicesCollectSessions(s *Server) []*ServerSession {
	var out []*ServerSession
	for ss := range s.Sessions() {
		out = append(out, ss)
	}
	return out
}

// ---------------------------------------------------------------- the parent

type verifCmdCase struct {
	lvl, eof, term, self, out string
	tdms                      int
	dflt                      bool // TerminateDuration left zero: the default applies
	pre, second               string
	pending, conc             bool
}

func (c verifCmdCase) ops(tdEff time.Duration) string {
	b := func(x bool) int {
		if x {
			return 1
		}
		return 0
	}
	slack := int((verifCmdSlack+50*time.Second)/tdEff) + 1 // + the bounds of Connect and of waiting for the peer to vanish
	return fmt.Sprintf("close lvl=%s eof=%s term=%s self=%s out=%s td=%d dflt=%d pre=%s second=%s pending=%d conc=%d slack=%d",
		c.lvl, c.eof, c.term, c.self, c.out, c.tdms, b(c.dflt), c.pre, c.second, b(c.pending), b(c.conc), slack)
}

func verifParseCmdCase(op string) (verifCmdCase, bool) {
	f := strings.Fields(op)
	if len(f) == 0 || f[0] != "close" {
		return verifCmdCase{}, false
	}
	kv := verifKV(strings.Join(f[1:], " "), "=")
	c := verifCmdCase{lvl: kv["lvl"], eof: kv["eof"], term: kv["term"], self: kv["self"], out: kv["out"], pre: kv["pre"], second: kv["second"]}
	c.tdms, _ = strconv.Atoi(kv["td"])
	c.dflt = kv["dflt"] == "1"
	c.pending = kv["pending"] == "1"
	c.conc = kv["conc"] == "1"
	return c, c.lvl != "" && c.tdms > 0
}

func verifCloseClass(err error) string {
	var ee *exec.ExitError
	switch {
	case err == nil:
		return "nil"
	case errors.As(err, &ee):
		return "exiterr"
	case strings.Contains(err.Error(), "closing stdin"):
		return "stdin"
	case errors.Is(err, os.ErrProcessDone) || strings.Contains(err.Error(), "process already finished"):
		return "done"
	case strings.Contains(err.Error(), "unresponsive subprocess"):
		return "unresp"
	case strings.Contains(err.Error(), "Wait was already called"):
		return "waited2"
	case strings.Contains(err.Error(), "exit status") || strings.Contains(err.Error(), "signal: "):
		return "exiterr" // an ExitError flattened by %v somewhere on the way
	}
	return "other"
}

// verifSDKGoroutines counts goroutines (other than the caller's) that are in the code under test.
func verifSDKGoroutines() (int, string) {
	buf := make([]byte, 4<<20)
	buf = buf[:runtime.Stack(buf, true)]
	n, first := 0, ""
	for i, g := range strings.Split(string(buf), "\n\n") {
		if i == 0 {
			continue // the calling goroutine
		}
		if strings.Contains(g, "/mcp/cmd.go") || strings.Contains(g, "/internal/jsonrpc2/") || strings.Contains(g, "/mcp/transport.go") ||
			strings.Contains(g, "/mcp/client.go") || strings.Contains(g, "/mcp/server.go") || strings.Contains(g, "os/exec/exec.go") || strings.Contains(g, "/mcp/shared.go") {
			n++
			if first == "" {
				first = g
			}
		}
	}
	return n, first
}

func verifNoLeak(bound time.Duration) (bool, string) {
	deadline := time.Now().Add(bound)
	for {
		n, first := verifSDKGoroutines()
		if n == 0 {
			return true, ""
		}
		if time.Now().After(deadline) {
			return false, first
		}
		time.Sleep(20 * time.Millisecond)
	}
}

// verifWithin runs f and reports whether it returned within d.
func verifWithin(d time.Duration, f func()) bool {
	done := make(chan struct{})
	go func() { defer close(done); f() }()
	select {
	case <-done:
		return true
	case <-time.After(d):
		return false
	}
}

func verifRunCmdCase(dir string, idx int, c verifCmdCase) (obs string, tags []string) {
	defer func() {
		if r := recover(); r != nil {
			obs, tags = "panic", append(tags, "panic")
		}
	}()
	logp := filepath.Join(dir, fmt.Sprintf("child-%d.log", idx))
	os.Remove(logp)
	td := time.Duration(c.tdms) * time.Millisecond
	tdEff := td
	cmd := exec.Command(os.Args[0], "-test.run=^TestVerifCmdChild$", "-test.count=1")
	var env []string
	for _, e := range os.Environ() {
		if !strings.HasPrefix(e, "VERIF_") {
			env = append(env, e)
		}
	}
	mode := fmt.Sprintf("lvl:%s,eof:%s,term:%s,self:%s,out:%s", c.lvl, c.eof, c.term, c.self, c.out)
	cmd.Env = append(env, verifCmdChildEnv+"="+mode, verifCmdLogEnv+"="+logp, verifCmdTDEnv+"="+strconv.Itoa(c.tdms))
	tr := &CommandTransport{Command: cmd, TerminateDuration: td}
	if c.dflt {
		tr.TerminateDuration = 0
		tdEff = defaultTerminateDuration
	}
	hangAfter := 3*tdEff + verifCmdSlack + 10*time.Second
	ctx, cancelCtx := context.WithCancel(context.Background())
	defer cancelCtx()
	defer func() {
		if cmd.Process != nil {
			cmd.Process.Kill() // whatever happened, do not leave the child behind the harness
		}
	}()

	connect := "ok"
	tStart := time.Now()
	var closeFn func() error
	var rwc *pipeRWC
	var cs *ClientSession
	var conn Connection
	peerGone := make(chan struct{})
	if c.lvl == "conn" {
		var err error
		conn, err = tr.Connect(ctx)
		if err != nil {
			return "connect=err", []string{"connect-err"}
		}
		rwc, _ = conn.(*ioConn).rwc.(*pipeRWC)
		closeFn = conn.Close
		if c.pre == "init" && c.out != "garbage" {
			// pipeRWC.Write / Read with a real request: initialize and its answer
			msg, _ := jsonrpc2EncodeInit()
			wctx, wc := context.WithTimeout(ctx, 20*time.Second)
			if err := conn.Write(wctx, msg); err == nil {
				if _, err := conn.Read(wctx); err == nil {
					tags = append(tags, "pre-init-answered")
				}
			}
			wc()
		}
		if c.self != "no" || c.out == "garbage" {
			// wait until the reader has seen the peer vanish (EOF) or the garbage
			go func() {
				defer close(peerGone)
				rctx, rc := context.WithTimeout(ctx, 20*time.Second)
				defer rc()
				for {
					if _, err := conn.Read(rctx); err != nil {
						return
					}
				}
			}()
			<-peerGone
		}
	} else {
		client := NewClient(&Implementation{Name: "verif-parent", Version: "v1"}, nil)
		cctx, cc := context.WithTimeout(ctx, 30*time.Second)
		var err error
		cs, err = client.Connect(cctx, tr, nil)
		cc()
		if err != nil {
			connect = "err"
			tags = append(tags, "connect-err")
		} else {
			closeFn = cs.Close
			if c.self != "no" || c.out == "late" {
				// the peer vanishes / talks garbage: the SDK closes the connection by itself (pipeRWC.Close runs
				// before our Close); wait for that
				pctx, pc := context.WithTimeout(ctx, 20*time.Second)
				cs.CallTool(pctx, &CallToolParams{Name: "poke"})
				pc()
				if !verifWithin(20*time.Second, func() { cs.Wait() }) {
					tags = append(tags, "peer-gone-unnoticed")
					if os.Getenv("VERIF_CMD_DEBUG") != "" {
						buf := make([]byte, 1<<20)
						os.Stderr.Write(buf[:runtime.Stack(buf, true)])
					}
				}
			}
		}
	}
	if cmd.Process == nil {
		return "connect=" + connect + " nostart", append(tags, "nostart")
	}
	pid := cmd.Process.Pid

	pend := "na"
	pendDone := make(chan string, 1)
	if c.pending && cs != nil {
		go func() {
			pctx, pc := context.WithTimeout(ctx, hangAfter)
			defer pc()
			_, err := cs.CallTool(pctx, &CallToolParams{Name: "slow"})
			if err != nil {
				pendDone <- "err"
			} else {
				pendDone <- "ok"
			}
		}()
		// let the call get on its way (the child logs tool-start), but do not insist
		for i := 0; i < 100; i++ {
			if b, _ := os.ReadFile(logp); bytes.Contains(b, []byte("tool-start")) {
				tags = append(tags, "pending-in-handler")
				break
			}
			time.Sleep(5 * time.Millisecond)
		}
	}

	res, eb, death := "na", 0, "nr"
	var firstErr error
	t0 := time.Now()
	if c.lvl == "sess" && (c.self != "no" || c.out == "late" || c.out == "garbage") {
		// the SDK may have begun closing on its own, any time after tStart: the grace periods and the elapsed
		// buckets (lower bounds all) are judged from there
		t0 = tStart
	}
	if closeFn != nil {
		var err2 error
		var wg sync.WaitGroup
		ok := verifWithin(hangAfter, func() {
			if c.conc {
				wg.Add(1)
				go func() { defer wg.Done(); err2 = closeFn() }()
			}
			firstErr = closeFn()
			wg.Wait()
		})
		el := time.Since(t0)
		eb = int(el / tdEff)
		if eb > 99 {
			eb = 99
		}
		if !ok {
			res = "hang"
		} else {
			res = verifCloseClass(firstErr)
			if c.conc && verifCloseClass(err2) != res {
				tags = append(tags, "conc-differ")
			}
		}
	} else {
		// Connect failed: the SDK must already have shut the child down (its Close ran inside Connect, after
		// tStart: the grace periods are judged from there); Close is not ours to call
		eb = 0
		t0 = tStart
	}
	if res == "nil" || res == "exiterr" {
		// cmd.Wait returned and its result travelled through resChan to Close: ProcessState is set
		if ps := cmd.ProcessState; ps != nil {
			ws, _ := ps.Sys().(syscall.WaitStatus)
			switch {
			case ws.Signaled() && ws.Signal() == syscall.SIGTERM:
				death = "st"
			case ws.Signaled() && ws.Signal() == syscall.SIGKILL:
				death = "sk"
			case ws.Signaled():
				death = "so"
			case ws.ExitStatus() == 0:
				death = "e0"
			default:
				death = "en"
			}
		}
	}
	// the child must be gone (reaped: a zombie still answers signal 0)
	gone := "0"
	if res != "hang" {
		deadline := time.Now().Add(verifCmdSlack * 2 / 3)
		for {
			if err := syscall.Kill(pid, 0); err == syscall.ESRCH {
				gone = "1"
				break
			}
			if time.Now().After(deadline) {
				break
			}
			time.Sleep(10 * time.Millisecond)
		}
	}
	if c.pending && cs != nil {
		select {
		case pend = <-pendDone:
		case <-time.After(hangAfter):
			pend = "hang"
		}
	}
	second := "na"
	if res != "hang" && closeFn != nil {
		switch c.second {
		case "conn":
			var e2 error
			if !verifWithin(hangAfter, func() { e2 = closeFn() }) {
				second = "hang"
			} else if e2 == firstErr || (e2 != nil && firstErr != nil && e2.Error() == firstErr.Error()) {
				second = "same"
			} else {
				second = "diff"
			}
		case "rwc":
			if rwc != nil {
				var e2 error
				if !verifWithin(hangAfter, func() { e2 = rwc.Close() }) {
					second = "hang"
				} else {
					second = verifCloseClass(e2)
				}
			}
		}
	}
	termSeen, eofSeen := "tno", "0"
	if b, err := os.ReadFile(logp); err == nil {
		if os.Getenv("VERIF_CMD_DEBUG") != "" {
			os.Stderr.Write(b)
		}
		for _, l := range strings.Split(string(b), "\n") {
			f := strings.Fields(l)
			if len(f) >= 1 && (f[0] == "eof" || f[0] == "run") && termSeen == "tno" {
				eofSeen = "1" // the child saw EOF on its stdin (or Server.Run returned) before any SIGTERM it logged
			}
			if len(f) == 2 && f[0] == "term" && termSeen == "tno" {
				ns, _ := strconv.ParseInt(f[1], 10, 64)
				k := (ns - t0.UnixNano()) / int64(tdEff)
				if ns < t0.UnixNano() {
					k = -1
				}
				if k > 99 {
					k = 99
				}
				if k < 0 {
					termSeen = "tneg"
				} else {
					termSeen = "t" + strconv.FormatInt(k, 10)
				}
			}
			if len(f) >= 2 && f[0] == "run" {
				tags = append(tags, "child-run-"+f[1])
			}
			if len(f) >= 1 && f[0] == "eof" {
				tags = append(tags, "child-saw-eof")
			}
		}
	}
	cancelCtx()
	leak := "0"
	if res == "hang" || gone == "0" {
		cmd.Process.Kill() // the leak clause is about what is left once the child is gone
	}
	if ok, _ := verifNoLeak(verifCmdSlack); !ok {
		leak = "1"
	}
	tags = append(tags, "lvl-"+c.lvl, "res-"+res, "death-"+death, "eof-"+c.eof, "term-"+c.term, "self-"+c.self, "out-"+c.out, "term-seen-"+termSeen, "eb-"+strconv.Itoa(eb))
	if c.dflt {
		tags = append(tags, "default-td")
	}
	if c.second != "no" {
		tags = append(tags, "second-"+c.second)
	}
	if c.conc {
		tags = append(tags, "concurrent-close")
	}
	return fmt.Sprintf("connect=%s res=%s eb=%d death=%s term=%s eof=%s gone=%s leak=%s second=%s pend=%s", connect, res, eb, death, termSeen, eofSeen, gone, leak, second, pend), tags
}

func jsonrpc2EncodeInit() (jsonrpc.Message, error) {
	data := []byte(`{"jsonrpc":"2.0","id":1,"method":"initialize","params":{"protocolVersion":"2025-06-18","capabilities":{},"clientInfo":{"name":"verif","version":"v1"}}}`)
	return jsonrpc2.DecodeMessage(data)
}

// ---------------------------------------------------------------- Server.Run in-process

type verifSrvCase struct{ end, pre string }

func verifRunSrvCase(c verifSrvCase) (obs string, tags []string) {
	defer func() {
		if r := recover(); r != nil {
			obs, tags = "panic", append(tags, "panic")
		}
	}()
	server := NewServer(&Implementation{Name: "verif-run", Version: "v1"}, nil)
	pr, pw := io.Pipe()   // peer -> server
	or, ow := io.Pipe()   // server -> peer
	go io.Copy(io.Discard, or)
	ctx, cancel := context.WithCancel(context.Background())
	defer cancel()
	ret := make(chan error, 1)
	go func() { ret <- server.Run(ctx, &IOTransport{Reader: pr, Writer: ow}) }()
	if c.pre == "init" {
		io.WriteString(pw, `{"jsonrpc":"2.0","id":1,"method":"initialize","params":{"protocolVersion":"2025-06-18","capabilities":{},"clientInfo":{"name":"verif","version":"v1"}}}`+"\n")
		io.WriteString(pw, `{"jsonrpc":"2.0","method":"notifications/initialized"}`+"\n")
	}
	// the session must be registered before the end is triggered, else `cancel` can win against Connect
	for i := 0; i < 2000 && len(slicesCollectSessions(server)) == 0; i++ {
		time.Sleep(time.Millisecond)
	}
	switch c.end {
	case "eof":
		pw.Close()
	case "cancel":
		cancel()
	case "both":
		cancel()
		pw.Close()
	}
	r := "hang"
	select {
	case err := <-ret:
		r = verifErrClass(err)
		if r == "eof" {
			r = "err"
		}
	case <-time.After(verifCmdSlack):
	}
	n := len(slicesCollectSessions(server))
	pw.Close()
	or.Close()
	ow.Close()
	cancel()
	leak := "0"
	if ok, _ := verifNoLeak(verifCmdSlack); !ok {
		leak = "1"
	}
	return fmt.Sprintf("ret=%s sessions=%d leak=%s", r, n, leak), []string{"srvrun", "end-" + c.end, "ret-" + r}
}

// ---------------------------------------------------------------- Connect failing

func verifRunConnErr(kind string) (obs string, tags []string) {
	defer func() {
		if r := recover(); r != nil {
			obs, tags = "panic", append(tags, "panic")
		}
	}()
	var cmd *exec.Cmd
	switch kind {
	case "nostart":
		cmd = exec.Command("/nonexistent/verif-no-such-binary")
	case "stdout":
		cmd = exec.Command(os.Args[0], "-test.run=^$")
		cmd.Stdout = io.Discard // StdoutPipe fails: Stdout already set
	default: // stdin
		cmd = exec.Command(os.Args[0], "-test.run=^$")
		cmd.Stdin = strings.NewReader("") // StdinPipe fails: Stdin already set
	}
	conn, err := (&CommandTransport{Command: cmd, TerminateDuration: 200 * time.Millisecond}).Connect(context.Background())
	e, started := "0", "0"
	if err != nil {
		e = "1"
	} else if conn != nil {
		conn.Close()
	}
	if cmd.Process != nil {
		started = "1"
		cmd.Process.Kill()
	}
	leak := "0"
	if ok, _ := verifNoLeak(verifCmdSlack); !ok {
		leak = "1"
	}
	return fmt.Sprintf("err=%s started=%s leak=%s", e, started, leak), []string{"connecterr", "kind-" + kind}
}

// ---------------------------------------------------------------- generator

func TestVerifCmdTransport(t *testing.T) {
	out := verifOpen(t)
	defer out.close()
	out.noWatch.Store(true) // real time, real processes: the harness has its own hang bounds
	dir, err := os.MkdirTemp("", "verif-cmd-")
	if err != nil {
		t.Fatal(err)
	}
	defer os.RemoveAll(dir)
	rng := verifRng(0xC05)
	tdq := 250 + rng.Intn(4)*50 // ms
	emitClose := func(i int, c verifCmdCase) {
		cs := fmt.Sprintf("k%d", i)
		tdEff := time.Duration(c.tdms) * time.Millisecond
		if c.dflt {
			tdEff = defaultTerminateDuration
		}
		out.line(cs, "reset", "ok", "reset")
		obs, tags := verifRunCmdCase(dir, i, c)
		out.line(cs, c.ops(tdEff), obs, tags...)
		out.flush()
	}
	emitSrv := func(i int, c verifSrvCase) {
		cs := fmt.Sprintf("s%d", i)
		out.line(cs, "reset", "ok", "reset")
		obs, tags := verifRunSrvCase(c)
		out.line(cs, fmt.Sprintf("srvrun via=io end=%s pre=%s", c.end, c.pre), obs, tags...)
		out.flush()
	}
	emitConnErr := func(i int, kind string) {
		cs := fmt.Sprintf("e%d", i)
		out.line(cs, "reset", "ok", "reset")
		obs, tags := verifRunConnErr(kind)
		out.line(cs, "connecterr kind="+kind, obs, tags...)
		out.flush()
	}
	if rp := os.Getenv("VERIF_REPLAY"); rp != "" {
		b, err := os.ReadFile(rp)
		if err != nil {
			t.Fatal(err)
		}
		i := 0
		for _, l := range strings.Split(string(b), "\n") {
			l = strings.TrimSpace(l)
			if c, ok := verifParseCmdCase(l); ok {
				emitClose(i, c)
				i++
			} else if strings.HasPrefix(l, "connecterr") {
				emitConnErr(i, verifKV(l, "=")["kind"])
				i++
			} else if strings.HasPrefix(l, "srvrun") {
				kv := verifKV(l, "=")
				emitSrv(i, verifSrvCase{end: kv["end"], pre: kv["pre"]})
				i++
			}
		}
		return
	}
	base := func(lvl, eof, term string) verifCmdCase {
		return verifCmdCase{lvl: lvl, eof: eof, term: term, self: "no", out: "ok", tdms: tdq, pre: "none", second: "no"}
	}
	var cases []verifCmdCase
	// every behaviour class of the child once, at alternating levels (deterministic core) …
	core := [][2]string{{"x0", "dfl"}, {"x3", "dfl"}, {"slow", "dfl"}, {"ign", "dfl"}, {"ign", "h0"}, {"ign", "hslow"}, {"ign", "ign"}, {"x0", "ign"}, {"slow", "h0"}}
	for i, p := range core {
		lvl := []string{"conn", "sess"}[(i+int(verifSeed()))%2]
		cases = append(cases, base(lvl, p[0], p[1]))
	}
	{
		c := base("sess", "x0", "dfl"); c.self = "x0"; cases = append(cases, c)
		c = base("conn", "ign", "ign"); c.self = "x2"; cases = append(cases, c)
		c = base("conn", "x0", "dfl"); c.out = "garbage"; cases = append(cases, c)
		c = base("sess", "ign", "ign"); c.out = "garbage"; cases = append(cases, c)
		c = base("conn", "x0", "dfl"); c.dflt = true; c.pre = "init"; cases = append(cases, c)
		c = base("conn", "ign", "dfl"); c.second = "rwc"; cases = append(cases, c)
		c = base("sess", "x0", "h0"); c.second = "conn"; c.conc = true; cases = append(cases, c)
		c = base("sess", "x0", "dfl"); c.pending = true; cases = append(cases, c)
		c = base("sess", "ign", "h0"); c.pending = true; c.conc = true; cases = append(cases, c)
		c = base("conn", "x0", "dfl"); c.out = "hold"; cases = append(cases, c)
		c = base("sess", "ign", "hslow"); c.out = "late"; cases = append(cases, c)
	}
	// … then random combinations of all axes
	pick := func(xs ...string) string { return xs[rng.Intn(len(xs))] }
	for n := verifN(16, 240); n > 0; n-- {
		c := base(pick("conn", "sess"), pick("x0", "x3", "slow", "ign"), pick("dfl", "h0", "hslow", "ign"))
		c.tdms = 200 + rng.Intn(5)*50
		if rng.Intn(5) == 0 {
			c.self = pick("x0", "x2")
		}
		if rng.Intn(4) == 0 {
			c.out = pick("garbage", "hold", "late")
			if c.out == "late" && c.lvl == "conn" {
				c.out = "hold"
			}
		}
		if c.lvl == "conn" && rng.Intn(2) == 0 {
			c.pre = "init"
		}
		c.second = pick("no", "no", "conn", "rwc")
		if c.lvl == "sess" && c.second == "rwc" {
			c.second = "conn"
		}
		c.conc = rng.Intn(4) == 0
		c.pending = c.lvl == "sess" && c.self == "no" && c.out == "ok" && rng.Intn(3) == 0
		if (c.eof == "x0" || c.eof == "x3") && rng.Intn(6) == 0 {
			c.dflt = true
		}
		cases = append(cases, c)
	}
	if s := os.Getenv("VERIF_CASES"); s != "" {
		if n, err := strconv.Atoi(s); err == nil && n < len(cases) {
			cases = cases[:n]
		}
	}
	for i, c := range cases {
		emitClose(i, c)
	}
	srv := []verifSrvCase{{"eof", "none"}, {"eof", "init"}, {"cancel", "none"}, {"cancel", "init"}, {"both", "init"}}
	for i, c := range srv {
		emitSrv(i, c)
	}
	for i, k := range []string{"nostart", "stdout", "stdin"} {
		emitConnErr(i, k)
	}
}
