// E6 `write` stream (C01, client side): one message — a call (ping) or a notification (notifications/progress) —
// sent through the real ClientSession over the real StreamableClientTransport (streamableClientConn.Write,
// setMCPHeaders, checkResponse, handleJSON / handleSSE) against a scripted http.RoundTripper, with or without an
// OAuthHandler, inside testing/synctest.
//
//	reset
//	wscn kind=<call|notif> auth=<none|grant|deny|block> cancel=<0|1> a1=<ans> a2=<ans>     obs ok
//	posts      obs n=<POSTs carrying the message> tok=<per POST: Authorization header?> auth=<calls of Authorize in the whole case>
//	end        obs result | done | err:<kind> | hang
//	probe      obs ok | err | skipped          (a ping made afterwards on the same session; skipped when the message hangs)
//	close      obs delete=<DELETE requests made by Close>
//
// ans (the peer's answer to the first / second POST of the message): terr (RoundTrip fails), hang (accepted; the
// response headers never come: RoundTrip returns when the REQUEST's context ends), st<code>[r] (a status, r: with a
// JSON-RPC error response as body), ok:<json|jsonbad|jsoncut|sse|other>:<s|x> (200; the response as JSON / a body that
// is no JSON-RPC message / a JSON body that ends with a read error / the response as an SSE event / text/plain; s: the
// session's Mcp-Session-Id, x: another one).
// auth: the transport's OAuthHandler: none; grant (Authorize returns nil, TokenSource then yields a token); deny
// (Authorize returns an error); block (Authorize blocks until the context it was given ends).
// ts (with a handler): what the handler's token source does while the message is sent: tserr (TokenSource fails), tokerr
// (Token() fails), invalidgrant (Token() fails with oauth2 invalid_grant: the request goes out without a header).
// bg=posthang: another call of the same session is in flight the whole time (its POST accepted, never answered).
// proto=new: the session runs the 2026-07-28 protocol (server/discover instead of initialize): the peer sends no session
// id (an answer `…:x` still carries one), there is no standalone stream. strict=1: StreamableClientTransport.strict.
// close=w|f: ClientSession.Close is called 500 ms / 5 s after the message was started (record `closed`).
// cancel=1: the caller's context is cancelled one virtual hour after the message was started, if it is still on its
// way.  `hang`: the request method had not returned two virtual hours after the start (every goroutine blocked).
package mcp

import (
	"context"
	"errors"
	"fmt"
	"io"
	"net/http"
	"net/http/httptest"
	"os"
	"strconv"
	"strings"
	"sync"
	"testing"
	"testing/synctest"
	"time"

	"github.com/modelcontextprotocol/go-sdk/jsonrpc"
	"golang.org/x/oauth2"
)

type cwScenario struct {
	kind   string // call | notif
	auth   string // none | grant | deny | block
	ts     string // the handler's token source: "" = fine | tserr | tokerr | invalidgrant
	proto  string // "" (2025-11-25, initialize, a session) | new (2026-07-28 after server/discover: no session id, no standalone stream)
	strict bool   // StreamableClientTransport.strict
	close  string // "" | w | f: the session is CLOSED 500 ms (w) / 5 s (f) of virtual time after the message was started
	bg     string // "" | posthang: ANOTHER call of the same session is in flight meanwhile (its POST accepted, never answered)
	cancel bool
	a1, a2 string
}

func (s *cwScenario) op() string {
	c := 0
	if s.cancel {
		c = 1
	}
	ts := ""
	if s.ts != "" {
		ts = " ts=" + s.ts
	}
	if s.bg != "" {
		ts += " bg=" + s.bg
	}
	if s.close != "" {
		ts += " close=" + s.close
	}
	pre := ""
	if s.proto != "" {
		pre += "proto=" + s.proto + " "
	}
	if s.strict {
		pre += "strict=1 "
	}
	return fmt.Sprintf("wscn %skind=%s auth=%s%s cancel=%d a1=%s a2=%s", pre, s.kind, s.auth, ts, c, s.a1, s.a2)
}

func cwParseScenario(line string) (*cwScenario, error) {
	toks := strings.Fields(line)
	if len(toks) < 6 || toks[0] != "wscn" {
		return nil, fmt.Errorf("not a wscn op")
	}
	s := &cwScenario{}
	for _, t := range toks[1:] {
		k, v, _ := strings.Cut(t, "=")
		switch k {
		case "kind":
			s.kind = v
		case "auth":
			s.auth = v
		case "ts":
			if v != "fine" {
				s.ts = v
			}
		case "proto":
			if v != "new" {
				return nil, fmt.Errorf("bad proto")
			}
			s.proto = v
		case "strict":
			s.strict = v == "1"
		case "close":
			if v != "w" && v != "f" {
				return nil, fmt.Errorf("bad close")
			}
			s.close = v
		case "bg":
			if v != "posthang" {
				return nil, fmt.Errorf("bad bg")
			}
			s.bg = v
		case "cancel":
			s.cancel = v == "1"
		case "a1":
			s.a1 = v
		case "a2":
			s.a2 = v
		}
	}
	if (s.kind != "call" && s.kind != "notif") || s.a1 == "" || s.a2 == "" {
		return nil, fmt.Errorf("bad wscn")
	}
	return s, nil
}

// ---- the OAuth handler

type cwAuth struct {
	mode    string
	ts      string // how the token source behaves while `faulty` is set
	faulty  bool
	mu      sync.Mutex
	granted bool
	calls   int
}

var errCwDenied = errors.New("verif-auth-denied")

func (h *cwAuth) TokenSource(context.Context) (oauth2.TokenSource, error) {
	h.mu.Lock()
	defer h.mu.Unlock()
	if h.granted {
		return oauth2.StaticTokenSource(&oauth2.Token{AccessToken: "verif-token"}), nil
	}
	if h.faulty {
		switch h.ts {
		case "tserr":
			return nil, errCwTokenSource
		case "tokerr":
			return cwFailingSource{errCwTokenSource}, nil
		case "invalidgrant":
			return cwFailingSource{&oauth2.RetrieveError{ErrorCode: "invalid_grant"}}, nil
		}
	}
	return nil, nil
}

var errCwTokenSource = errors.New("verif-token-source-failed")

type cwFailingSource struct{ err error }

func (f cwFailingSource) Token() (*oauth2.Token, error) { return nil, f.err }

func (h *cwAuth) Authorize(ctx context.Context, req *http.Request, resp *http.Response) error {
	h.mu.Lock()
	h.calls++
	h.mu.Unlock()
	resp.Body.Close()
	switch h.mode {
	case "grant":
		h.mu.Lock()
		h.granted = true
		h.mu.Unlock()
		return nil
	case "deny":
		return errCwDenied
	}
	<-ctx.Done()
	return ctx.Err()
}

// ---- the scripted peer

type cwServer struct {
	s      *cwScenario
	mu     sync.Mutex
	phase  string // init | bg | test | probe
	bgPending int
	resumeFails bool // the served event stream was `ssecutt`: its resumption GETs fail in transport
	resumes   int // resumption GETs of the message's event stream
	deletes   int // DELETE requests (the session is deleted at Close unless the server has said that it is gone)
	posts  int
	toks   []bool
	bad    []string
}

type cwCutBody struct {
	data []byte
	pos  int
}

func (b *cwCutBody) Read(p []byte) (int, error) {
	if b.pos < len(b.data) {
		n := copy(p, b.data[b.pos:])
		b.pos += n
		return n, nil
	}
	return 0, errCsCut
}
func (b *cwCutBody) Close() error { return nil }

// cwOpenBody: the data, then the body stays open: Read returns when the request's context ends
type cwOpenBody struct {
	data []byte
	pos  int
	ctx  context.Context
}

func (b *cwOpenBody) Read(p []byte) (int, error) {
	if b.pos < len(b.data) {
		n := copy(p, b.data[b.pos:])
		b.pos += n
		return n, nil
	}
	<-b.ctx.Done()
	return 0, b.ctx.Err()
}
func (b *cwOpenBody) Close() error { return nil }

// cwHangBody: the body does not come; Read returns when the request's context ends
type cwHangBody struct{ ctx context.Context }

func (b *cwHangBody) Read(p []byte) (int, error) { <-b.ctx.Done(); return 0, b.ctx.Err() }
func (b *cwHangBody) Close() error               { return nil }

// sid: the session id the peer puts on its answers ("" under the sessionless protocol)
func (sv *cwServer) sid() string {
	if sv.s.proto == "new" {
		return ""
	}
	return "sess"
}

func (sv *cwServer) resp(req *http.Request, status int, ctype, sid, body string) *http.Response {
	h := http.Header{}
	if ctype != "" {
		h.Set("Content-Type", ctype)
	}
	if sid != "" {
		h.Set(sessionIDHeader, sid)
	}
	return &http.Response{StatusCode: status, Status: http.StatusText(status), Header: h, Body: io.NopCloser(strings.NewReader(body)), Request: req,
		Proto: "HTTP/1.1", ProtoMajor: 1, ProtoMinor: 1}
}

func (sv *cwServer) answer(req *http.Request, a string, idJSON string) (*http.Response, error) {
	result := fmt.Sprintf(`{"jsonrpc":"2.0","id":%s,"result":{}}`, idJSON)
	switch {
	case a == "terr":
		return nil, errors.New("verif: transport error")
	case a == "hang":
		<-req.Context().Done()
		return nil, req.Context().Err()
	case strings.HasPrefix(a, "st"):
		d := a[2:]
		rpc := strings.HasSuffix(d, "r")
		d = strings.TrimSuffix(d, "r")
		code, err := strconv.Atoi(d)
		if err != nil {
			break
		}
		if rpc {
			return sv.resp(req, code, "application/json", sv.sid(), fmt.Sprintf(`{"jsonrpc":"2.0","id":%s,"error":{"code":-32000,"message":"verif-rpc-error"}}`, idJSON)), nil
		}
		return sv.resp(req, code, "", sv.sid(), ""), nil
	case strings.HasPrefix(a, "ok:"):
		p := strings.Split(a, ":")
		if len(p) != 3 {
			break
		}
		sid := sv.sid()
		if p[2] == "x" {
			sid = "another-session"
		}
		switch p[1] {
		case "json":
			return sv.resp(req, 200, "application/json", sid, result), nil
		case "jsonbad":
			return sv.resp(req, 200, "application/json; charset=utf-8", sid, `<html>hello</html>`), nil
		case "jsoncut":
			r := sv.resp(req, 200, "application/json", sid, "")
			r.Body = &cwCutBody{data: []byte(result[:len(result)/2])}
			return r, nil
		case "jsonhang":
			r := sv.resp(req, 200, "application/json", sid, "")
			r.Body = &cwHangBody{ctx: req.Context()}
			return r, nil
		case "sse":
			rec := httptest.NewRecorder()
			writeEvent(rec, Event{Name: "message", Data: []byte(result)})
			return sv.resp(req, 200, "text/event-stream", sid, rec.Body.String()), nil
		case "sseopen", "ssecuth", "ssecutt":
			// an event stream that starts with a priming event carrying an id; sseopen: then stays open without events;
			// ssecuth / ssecutt: then ends cleanly, and the resumption GETs are accepted and never answered / fail in transport
			rec := httptest.NewRecorder()
			writeEvent(rec, Event{ID: "w_0", Data: []byte{}})
			r := sv.resp(req, 200, "text/event-stream", sid, rec.Body.String())
			sv.mu.Lock()
			sv.resumeFails = p[1] == "ssecutt" // how the resumption GETs of THIS stream are answered
			sv.mu.Unlock()
			if p[1] == "sseopen" {
				r.Body = &cwOpenBody{data: rec.Body.Bytes(), ctx: req.Context()}
			}
			return r, nil
		case "accepted":
			return sv.resp(req, http.StatusAccepted, "", sid, ""), nil
		case "other":
			return sv.resp(req, 200, "text/plain", sid, "hello"), nil
		}
	}
	sv.mu.Lock()
	sv.bad = append(sv.bad, "bad-answer-"+a)
	sv.mu.Unlock()
	return nil, errors.New("verif: bad answer token")
}

func (sv *cwServer) RoundTrip(req *http.Request) (*http.Response, error) {
	switch req.Method {
	case http.MethodDelete:
		sv.mu.Lock()
		sv.deletes++
		sv.mu.Unlock()
		return sv.resp(req, http.StatusNoContent, "", "", ""), nil
	case http.MethodGet:
		if req.Header.Get(lastEventIDHeader) != "" {
			// the resumption of the message's event stream (ssecuth / ssecutt)
			sv.mu.Lock()
			sv.resumes++
			sv.mu.Unlock()
			sv.mu.Lock()
			failing := sv.resumeFails
			sv.mu.Unlock()
			if failing {
				return nil, errors.New("verif: transport error")
			}
			<-req.Context().Done()
			return nil, req.Context().Err()
		}
		return sv.resp(req, http.StatusMethodNotAllowed, "", sv.sid(), ""), nil // no standalone stream
	case http.MethodPost:
		body, _ := io.ReadAll(req.Body)
		msg, err := jsonrpc.DecodeMessage(body)
		if err != nil {
			return sv.resp(req, 400, "", sv.sid(), ""), nil
		}
		r, ok := msg.(*jsonrpc.Request)
		if !ok {
			return sv.resp(req, http.StatusAccepted, "", sv.sid(), ""), nil
		}
		idJSON := "1" // a JSON-RPC error sent in answer to a notification names some id (with id null the SDK does not decode it as a response)
		if r.IsCall() {
			idJSON = fmt.Sprint(r.ID.Raw())
			if s, ok := r.ID.Raw().(string); ok {
				idJSON = strconv.Quote(s)
			}
		}
		sv.mu.Lock()
		phase := sv.phase
		under := phase == "test" && ((sv.s.kind == "call" && r.Method == methodPing) || (sv.s.kind == "notif" && r.Method == notificationProgress))
		n := 0
		if under {
			n = sv.posts
			sv.posts++
			sv.toks = append(sv.toks, req.Header.Get("Authorization") != "")
		}
		sv.mu.Unlock()
		if phase == "bg" && r.Method == methodPing {
			// the background call: accepted, never answered
			sv.mu.Lock()
			sv.bgPending++
			sv.mu.Unlock()
			<-req.Context().Done()
			sv.mu.Lock()
			sv.bgPending--
			sv.mu.Unlock()
			return nil, req.Context().Err()
		}
		if under {
			switch n {
			case 0:
				return sv.answer(req, sv.s.a1, idJSON)
			case 1:
				return sv.answer(req, sv.s.a2, idJSON)
			}
			return nil, errors.New("verif: transport error")
		}
		switch {
		case r.Method == methodDiscover:
			if sv.s.proto != "new" {
				return sv.resp(req, 400, "", sv.sid(), ""), nil
			}
			return sv.resp(req, 200, "application/json", "", fmt.Sprintf(`{"jsonrpc":"2.0","id":%s,"result":{"supportedVersions":[%q],"capabilities":{},"_meta":{%q:{"name":"verif","version":"0"}}}}`, idJSON, protocolVersion20260728, MetaKeyServerInfo)), nil
		case r.Method == methodInitialize:
			return sv.resp(req, 200, "application/json", sv.sid(), fmt.Sprintf(`{"jsonrpc":"2.0","id":%s,"result":{"capabilities":{},"protocolVersion":%q,"serverInfo":{"name":"verif","version":"0"}}}`, idJSON, protocolVersion20251125)), nil
		case !r.IsCall():
			return sv.resp(req, http.StatusAccepted, "", sv.sid(), ""), nil
		case r.Method == methodPing:
			return sv.resp(req, 200, "application/json", sv.sid(), fmt.Sprintf(`{"jsonrpc":"2.0","id":%s,"result":{}}`, idJSON)), nil
		}
		return sv.resp(req, 400, "", sv.sid(), ""), nil
	}
	return sv.resp(req, 405, "", "", ""), nil
}

// ---- one scenario

var cwStatusCodes = []int{401, 403, 503, 500, 429, 502, 504, 404, 400, 405, 409, 410, 300, 302, 304, 501, 511, 418}

func cwErrKind(err error) string {
	m := err.Error()
	switch {
	case strings.Contains(m, errCwDenied.Error()):
		return "auth"
	case strings.Contains(m, errCwTokenSource.Error()):
		return "token-source"
	case strings.Contains(m, "verif-rpc-error"):
		return "rpc"
	case errors.Is(err, ErrSessionMissing) || strings.Contains(m, ErrSessionMissing.Error()):
		return "session-missing"
	case strings.Contains(m, "mismatching session IDs"):
		return "mismatch"
	case strings.Contains(m, "unexpected status code"):
		return "unexpected-status"
	case strings.Contains(m, "unsupported content type"):
		return "ctype"
	case strings.Contains(m, "failed to read body"):
		return "body"
	case strings.Contains(m, "failed to decode response"):
		return "decode"
	case strings.Contains(m, "failed to reconnect"):
		return "reconnect"
	case strings.Contains(m, "verif: transport error"):
		return "terr"
	case errors.Is(err, context.Canceled) || strings.Contains(m, "context canceled") ||
		errors.Is(err, context.DeadlineExceeded) || strings.Contains(m, "context deadline exceeded"):
		return "ctx"
	}
	for c := 100; c < 600; c++ {
		if t := http.StatusText(c); t != "" && strings.Contains(m, t) {
			return fmt.Sprintf("st%d", c)
		}
	}
	return "other:" + hxs(m)
}

type cwResult struct {
	posts int
	toks  []bool
	auths int
	end   string
	probe string
	closed string // close scenarios: did Close return
	leak  bool
	dels  int
	bad   []string
}

func cwRun(t *testing.T, s *cwScenario) (res cwResult) {
	res.end, res.probe = "harness-aborted", "skipped"
	sv := &cwServer{s: s, phase: "init"}
	var ah *cwAuth
	func() {
		defer func() {
			if r := recover(); r != nil {
				if s.close != "" && strings.Contains(fmt.Sprint(r), "deadlock") {
					res.leak = true // goroutines remain blocked for ever after Close: the bubble cannot exit
				} else {
					sv.bad = append(sv.bad, "bubble:"+hxs(fmt.Sprint(r)))
				}
			}
		}()
		synctest.Test(t, func(t *testing.T) {
			defer func() {
				if r := recover(); r != nil {
					res.end = "panic"
					sv.bad = append(sv.bad, "panic:"+hxs(fmt.Sprint(r)))
				}
			}()
			client := NewClient(&Implementation{Name: "verif", Version: "0"}, nil)
			tr := &StreamableClientTransport{Endpoint: "http://verif.invalid/mcp", HTTPClient: &http.Client{Transport: sv}}
			tr.strict = s.strict
			pv := protocolVersion20251125
			if s.proto == "new" {
				pv = protocolVersion20260728
			}
			if s.auth != "none" {
				ah = &cwAuth{mode: s.auth, ts: s.ts}
				tr.OAuthHandler = ah
			}
			ctx, cancel := context.WithCancel(context.Background())
			defer cancel()
			cs, err := client.Connect(ctx, tr, &ClientSessionOptions{ProtocolVersion: pv})
			if err != nil {
				res.end = "connect-failed:" + cwErrKind(err)
				return
			}
			synctest.Wait()
			if s.bg == "posthang" {
				sv.mu.Lock()
				sv.phase = "bg"
				sv.mu.Unlock()
				bgCtx, bgCancel := context.WithCancel(ctx)
				defer bgCancel()
				go cs.Ping(bgCtx, nil)
				synctest.Wait()
				sv.mu.Lock()
				if sv.bgPending != 1 {
					sv.bad = append(sv.bad, fmt.Sprintf("bg-pending-%d", sv.bgPending))
				}
				sv.mu.Unlock()
			}
			sv.mu.Lock()
			sv.phase = "test"
			sv.mu.Unlock()
			if ah != nil {
				ah.mu.Lock()
				ah.faulty = true
				ah.mu.Unlock()
			}
			callCtx, cancelCall := context.WithCancel(ctx)
			defer cancelCall()
			if s.cancel {
				tm := time.AfterFunc(time.Hour, cancelCall)
				defer tm.Stop()
			}
			done := make(chan string, 1)
			go func() {
				var err error
				ok := "result"
				if s.kind == "call" {
					err = cs.Ping(callCtx, nil)
				} else {
					ok = "done"
					err = cs.NotifyProgress(callCtx, &ProgressNotificationParams{ProgressToken: "p", Progress: 1})
				}
				if err != nil {
					if s.close != "" && errors.Is(err, ErrConnectionClosed) {
						done <- "err:closed"
						return
					}
					done <- "err:" + cwErrKind(err)
					return
				}
				done <- ok
			}()
			closeDone := make(chan struct{})
			if s.close != "" {
				if s.close == "w" {
					time.Sleep(500 * time.Millisecond)
				} else {
					time.Sleep(5 * time.Second)
				}
				synctest.Wait()
				go func() {
					cs.Close()
					close(closeDone)
				}()
				time.Sleep(time.Minute)
				synctest.Wait()
				select {
				case <-closeDone:
					res.closed = "at1m=returned"
				default:
					res.closed = "at1m=blocked"
				}
			}
			time.Sleep(2 * time.Hour)
			synctest.Wait()
			if s.close != "" {
				select {
				case <-closeDone:
					res.closed += " final=returned"
				default:
					res.closed += " final=blocked"
				}
			}
			select {
			case e := <-done:
				res.end = e
			default:
				res.end = "hang"
			}
			if ah != nil {
				ah.mu.Lock()
				ah.faulty = false
				ah.mu.Unlock()
			}
			sv.mu.Lock()
			sv.phase = "probe"
			res.posts, res.toks = sv.posts, append([]bool(nil), sv.toks...)
			sv.mu.Unlock()
			if res.end != "hang" {
				pctx, stop := context.WithTimeout(ctx, time.Hour)
				if err := cs.Ping(pctx, nil); err != nil {
					res.probe = "err"
					if s.close != "" && errors.Is(err, ErrConnectionClosed) {
						res.probe = "closed"
					}
				} else {
					res.probe = "ok"
				}
				stop()
			}
			cancelCall()
			cancel()
			cs.Close()
			synctest.Wait()
			if res.end == "hang" {
				select {
				case <-done:
				default:
					res.end = "hang-uncancellable"
				}
			}
		})
	}()
	if ah != nil {
		ah.mu.Lock()
		res.auths = ah.calls
		ah.mu.Unlock()
	}
	sv.mu.Lock()
	res.bad = append([]string(nil), sv.bad...)
	res.dels = sv.deletes
	sv.mu.Unlock()
	return res
}

func cwEmit(out *verifOut, cs string, s *cwScenario, r cwResult, extra ...string) {
	out.line(cs, "reset", "ok")
	obs := "ok"
	if len(r.bad) > 0 {
		obs = "bad:" + strings.Join(r.bad, ",")
	}
	cls := func(a string) string {
		if i := strings.IndexByte(a, ':'); i >= 0 {
			return strings.ReplaceAll(a, ":", "-")
		}
		return a
	}
	if s.ts != "" {
		extra = append(extra, "ts-"+s.ts)
	}
	if s.proto != "" {
		extra = append(extra, "proto-"+s.proto)
	}
	if s.strict {
		extra = append(extra, "strict")
	}
	if s.bg != "" {
		extra = append(extra, "bg-"+s.bg)
	}
	tags := append([]string{"kind-" + s.kind, "auth-" + s.auth, "a1-" + cls(s.a1), fmt.Sprintf("cancel-%v", s.cancel)}, extra...)
	if r.posts >= 2 {
		tags = append(tags, "a2-"+cls(s.a2), "retried")
	}
	out.line(cs, s.op(), obs, tags...)
	tb := ""
	for _, b := range r.toks {
		if b {
			tb += "1"
		} else {
			tb += "0"
		}
	}
	if s.close != "" {
		lk := "none"
		if r.leak {
			lk = "leak"
		}
		out.line(cs, "closed", r.closed+" leak="+lk, "close-"+s.close)
	}
	out.line(cs, "posts", fmt.Sprintf("n=%d tok=%s auth=%d", r.posts, tb, r.auths), fmt.Sprintf("posts-%d", r.posts), fmt.Sprintf("authorize-%d", r.auths))
	e := r.end
	if strings.HasPrefix(e, "err:other:") {
		e = "err:other"
	}
	out.line(cs, "end", r.end, "end-"+strings.ReplaceAll(e, ":", "-"))
	out.line(cs, "probe", r.probe, "probe-"+r.probe)
	out.line(cs, "close", fmt.Sprintf("delete=%d", r.dels), fmt.Sprintf("close-delete-%d", r.dels))
}

// ---- the opening of the standalone stream (connectStandaloneSSE)
//
//	reset
//	oscn mr=<MaxRetries field> fails=<n> ans=st<code>[e]      obs ok
//	open                                                      obs gets=<GETs made>
//	probe                                                     obs ok | err
//	oclose                                                    obs <returned|blocked> leak=<none|leak>   (ClientSession.Close, one minute later)
//
// The first <fails> GETs fail in transport; the next one is answered with the status, `e`: under Content-Type
// text/event-stream (a 2xx event stream then stays open without events).

type coScenario struct {
	mr    int
	fails int
	code  int
	sse   bool
	strict bool // StreamableClientTransport.strict
}

func (s *coScenario) op() string {
	e := ""
	if s.sse {
		e = "e"
	}
	if s.strict {
		e += " strict=1"
	}
	return fmt.Sprintf("oscn mr=%d fails=%d ans=st%d%s", s.mr, s.fails, s.code, e)
}

func coParseScenario(line string) (*coScenario, error) {
	toks := strings.Fields(line)
	if len(toks) < 4 || toks[0] != "oscn" {
		return nil, fmt.Errorf("not an oscn op")
	}
	s := &coScenario{}
	for _, t := range toks[1:] {
		k, v, _ := strings.Cut(t, "=")
		var err error
		switch k {
		case "mr":
			s.mr, err = strconv.Atoi(v)
		case "strict":
			s.strict = v == "1"
		case "fails":
			s.fails, err = strconv.Atoi(v)
		case "ans":
			v = strings.TrimPrefix(v, "st")
			if strings.HasSuffix(v, "e") {
				s.sse = true
				v = strings.TrimSuffix(v, "e")
			}
			s.code, err = strconv.Atoi(v)
		}
		if err != nil {
			return nil, err
		}
	}
	return s, nil
}

type coServer struct {
	s    *coScenario
	mu   sync.Mutex
	gets int
}

func (sv *coServer) RoundTrip(req *http.Request) (*http.Response, error) {
	base := &cwServer{}
	switch req.Method {
	case http.MethodGet:
		sv.mu.Lock()
		n := sv.gets
		sv.gets++
		sv.mu.Unlock()
		if n < sv.s.fails {
			return nil, errors.New("verif: transport error")
		}
		ct := ""
		if sv.s.sse {
			ct = "text/event-stream"
		}
		r := base.resp(req, sv.s.code, ct, "sess", "")
		if sv.s.sse && sv.s.code >= 200 && sv.s.code < 300 {
			r.Body = &cwHangBody{ctx: req.Context()}
		}
		return r, nil
	case http.MethodPost:
		body, _ := io.ReadAll(req.Body)
		msg, err := jsonrpc.DecodeMessage(body)
		if err != nil {
			return base.resp(req, 400, "", "sess", ""), nil
		}
		r, ok := msg.(*jsonrpc.Request)
		if !ok || !r.IsCall() {
			return base.resp(req, http.StatusAccepted, "", "sess", ""), nil
		}
		idJSON := fmt.Sprint(r.ID.Raw())
		if r.Method == methodInitialize {
			return base.resp(req, 200, "application/json", "sess", fmt.Sprintf(`{"jsonrpc":"2.0","id":%s,"result":{"capabilities":{},"protocolVersion":%q,"serverInfo":{"name":"verif","version":"0"}}}`, idJSON, protocolVersion20251125)), nil
		}
		return base.resp(req, 200, "application/json", "sess", fmt.Sprintf(`{"jsonrpc":"2.0","id":%s,"result":{}}`, idJSON)), nil
	}
	return base.resp(req, http.StatusNoContent, "", "", ""), nil
}

func coRun(t *testing.T, s *coScenario) (gets int, probe string, bad string, closed string) {
	probe = "harness-aborted"
	closed = "not-reached"
	sv := &coServer{s: s}
	func() {
		defer func() {
			if r := recover(); r != nil {
				if strings.Contains(fmt.Sprint(r), "deadlock") && strings.HasPrefix(closed, "returned") {
					closed = "returned leak=leak" // goroutines remain blocked for ever after Close
				} else {
					bad = "bubble:" + hxs(fmt.Sprint(r))
				}
			}
		}()
		synctest.Test(t, func(t *testing.T) {
			client := NewClient(&Implementation{Name: "verif", Version: "0"}, nil)
			tr := &StreamableClientTransport{Endpoint: "http://verif.invalid/mcp", HTTPClient: &http.Client{Transport: sv}, MaxRetries: s.mr}
			tr.strict = s.strict
			ctx, cancel := context.WithCancel(context.Background())
			defer cancel()
			cs, err := client.Connect(ctx, tr, &ClientSessionOptions{ProtocolVersion: protocolVersion20251125})
			if err != nil {
				sv.mu.Lock()
				gets = sv.gets
				sv.mu.Unlock()
				probe = "err" // Connect itself fails when the opening of the standalone stream has failed the connection
				closed = "returned leak=none"
				return
			}
			time.Sleep(2 * time.Hour)
			synctest.Wait()
			sv.mu.Lock()
			gets = sv.gets
			sv.mu.Unlock()
			pctx, stop := context.WithTimeout(ctx, time.Hour)
			if err := cs.Ping(pctx, nil); err != nil {
				probe = "err"
			} else {
				probe = "ok"
			}
			stop()
			// Close while the standalone stream (if one was opened) is being read: no call is pending, so Close returns
			closeDone := make(chan struct{})
			go func() {
				cs.Close()
				close(closeDone)
			}()
			time.Sleep(time.Minute)
			synctest.Wait()
			select {
			case <-closeDone:
				closed = "returned leak=none"
			default:
				closed = "blocked leak=none"
			}
			cancel()
			synctest.Wait()
		})
	}()
	return
}

func coEmit(out *verifOut, cs string, s *coScenario, gets int, probe, bad, closed string, extra ...string) {
	out.line(cs, "reset", "ok")
	obs := "ok"
	if bad != "" {
		obs = "bad:" + bad
	}
	e := ""
	if s.sse {
		e = "e"
	}
	tags := append([]string{fmt.Sprintf("open-st%d%s", s.code, e), fmt.Sprintf("open-fails-%d", min(s.fails, 7)), fmt.Sprintf("mr%d", s.mr)}, extra...)
	out.line(cs, s.op(), obs, tags...)
	out.line(cs, "open", fmt.Sprintf("gets=%d", gets), fmt.Sprintf("open-gets-%d", min(gets, 9)))
	out.line(cs, "probe", probe, "probe-"+probe)
	out.line(cs, "oclose", closed, "oclose-"+strings.ReplaceAll(closed, " ", "-"))
}

// coGenerate: MaxRetries {default, 1, 2, none} x transport failures 0..budget+1 x the answers
func coGenerate(emit func(*coScenario)) {
	codes := []int{405, 200, 201, 204, 400, 401, 403, 404, 410, 429, 500, 502, 503, 300, 301, 304}
	for _, mr := range []int{0, 1, 2, -1} {
		budget := mr
		if mr == 0 {
			budget = 5
		} else if mr < 0 {
			budget = 0
		}
		for fails := 0; fails <= budget+2; fails++ {
			for _, code := range codes {
				for _, sse := range []bool{false, true} {
					if fails > 1 && fails < budget && code != 405 && code != 500 && code != 200 {
						continue
					}
					emit(&coScenario{mr: mr, fails: fails, code: code, sse: sse})
					if fails <= 1 {
						emit(&coScenario{mr: mr, fails: fails, code: code, sse: sse, strict: true})
					}
				}
			}
		}
	}
	rng := verifRng(4343)
	for i := 0; i < verifN(60, 600); i++ {
		c := 300 + rng.Intn(300)
		if http.StatusText(c) == "" {
			c = 200 + rng.Intn(7)
		}
		emit(&coScenario{mr: []int{0, 1, 2, 3, -1}[rng.Intn(5)], fails: rng.Intn(5), code: c, sse: rng.Intn(3) != 0, strict: rng.Intn(3) == 0})
	}
}

func cwAnswers() []string {
	return []string{"terr", "hang", "st401", "st403", "st401r", "st503", "st500r", "st429", "st404", "st404r", "st400", "st405", "st502",
		"ok:json:s", "ok:json:x", "ok:jsonbad:s", "ok:jsoncut:s", "ok:jsonhang:s", "ok:sse:s", "ok:sse:x", "ok:other:s", "ok:accepted:s", "ok:sseopen:s", "ok:ssecuth:s", "ok:ssecutt:s"}
}

func cwIsAuthStatus(a string) bool { return strings.HasPrefix(a, "st401") || strings.HasPrefix(a, "st403") }

// cwGenerate: the whole grid kind x auth x cancel x a1 (x a2 where a second POST can be made: auth=grant and a1 a
// 401/403), then scenarios with random status codes (300..599) and random other axes.
func cwGenerate(emit func(*cwScenario, string)) {
	limit := -1
	if v := os.Getenv("VERIF_CASES"); v != "" {
		if n, err := strconv.Atoi(v); err == nil {
			limit = n
		}
	}
	count := 0
	put := func(s *cwScenario, fam string) {
		if limit >= 0 && count >= limit {
			return
		}
		count++
		emit(s, fam)
	}
	ans := cwAnswers()
	for _, kind := range []string{"call", "notif"} {
		for _, auth := range []string{"none", "grant", "deny", "block"} {
			for _, cancel := range []bool{false, true} {
				for _, a1 := range ans {
					if auth == "grant" && cwIsAuthStatus(a1) {
						for _, a2 := range ans {
							put(&cwScenario{kind: kind, auth: auth, cancel: cancel, a1: a1, a2: a2}, "wg")
						}
					} else {
						put(&cwScenario{kind: kind, auth: auth, cancel: cancel, a1: a1, a2: "terr"}, "wg")
					}
				}
			}
		}
	}
	// the token source fails / has no valid grant while the message is sent: every handler x ctx x a sample of first answers
	for _, kind := range []string{"call", "notif"} {
		for _, auth := range []string{"grant", "deny", "block"} {
			for _, ts := range []string{"tserr", "tokerr", "invalidgrant"} {
				for _, cancel := range []bool{false, true} {
					for _, a1 := range []string{"ok:json:s", "st401", "st403r", "st503", "hang", "terr", "st404"} {
						a2s := []string{"terr"}
						if auth == "grant" && ts == "invalidgrant" && cwIsAuthStatus(a1) {
							a2s = []string{"ok:json:s", "ok:sse:s", "hang", "st401", "st503"}
						}
						for _, a2 := range a2s {
							put(&cwScenario{kind: kind, auth: auth, ts: ts, cancel: cancel, a1: a1, a2: a2}, "wt")
						}
					}
				}
			}
		}
	}
	// another call of the session is in flight (POST accepted, never answered) while the message is sent: the calls of
	// a session are independent
	for _, kind := range []string{"call", "notif"} {
		for _, auth := range []string{"none", "grant", "block"} {
			for _, cancel := range []bool{false, true} {
				for _, a1 := range ans {
					a2s := []string{"terr"}
					if auth == "grant" && cwIsAuthStatus(a1) {
						a2s = []string{"ok:json:s", "ok:sse:s", "hang", "st503", "st404", "ok:jsonhang:s"}
					}
					for _, a2 := range a2s {
						put(&cwScenario{kind: kind, auth: auth, cancel: cancel, a1: a1, a2: a2, bg: "posthang"}, "wb")
					}
				}
			}
		}
	}
	// ClientSession.Close while the message is on its way: every handler x ctx x close time x every answer (x the
	// waiting answers to a retried POST)
	for _, kind := range []string{"call", "notif"} {
		for _, auth := range []string{"none", "grant", "block"} {
			for _, cancel := range []bool{false, true} {
				for _, cl := range []string{"w", "f"} {
					for _, a1 := range ans {
						a2s := []string{"terr"}
						if auth == "grant" && cwIsAuthStatus(a1) {
							a2s = []string{"ok:json:s", "hang", "ok:jsonhang:s", "ok:sseopen:s", "ok:ssecuth:s", "ok:ssecutt:s", "st503"}
						}
						for _, a2 := range a2s {
							put(&cwScenario{kind: kind, auth: auth, cancel: cancel, a1: a1, a2: a2, close: cl}, "wc")
						}
					}
				}
			}
		}
	}
	// the modes: the sessionless protocol (2026-07-28 after server/discover: no session id, no standalone stream, no
	// DELETE at Close unless an answer brought an id) and strict mode, x kind x handler x ctx x every answer
	for _, mode := range [][2]string{{"new", ""}, {"", "1"}, {"new", "1"}} {
		for _, kind := range []string{"call", "notif"} {
			for _, auth := range []string{"none", "grant"} {
				for _, cancel := range []bool{false, true} {
					for _, a1 := range ans {
						a2s := []string{"terr"}
						if auth == "grant" && cwIsAuthStatus(a1) {
							a2s = []string{"ok:json:s", "ok:json:x", "ok:accepted:s", "ok:sse:x", "hang", "st404", "st503", "ok:other:s"}
						}
						for _, a2 := range a2s {
							put(&cwScenario{proto: mode[0], strict: mode[1] == "1", kind: kind, auth: auth, cancel: cancel, a1: a1, a2: a2}, "wm")
						}
					}
				}
			}
		}
	}
	rng := verifRng(4242)
	n := verifN(300, 3000)
	if limit >= 0 {
		n = limit
	}
	rnd := func() string {
		switch rng.Intn(3) {
		case 0:
			return ans[rng.Intn(len(ans))]
		case 1:
			return fmt.Sprintf("st%d", cwStatusCodes[rng.Intn(len(cwStatusCodes))])
		}
		c := 300 + rng.Intn(300)
		if http.StatusText(c) == "" {
			c = 500
		}
		if rng.Intn(4) == 0 {
			return fmt.Sprintf("st%dr", c)
		}
		return fmt.Sprintf("st%d", c)
	}
	for i := 0; i < n; i++ {
		s := &cwScenario{kind: []string{"call", "notif"}[rng.Intn(2)], auth: []string{"none", "grant", "grant", "deny", "block"}[rng.Intn(5)],
			cancel: rng.Intn(2) == 0, a1: rnd(), a2: rnd()}
		if s.auth != "none" && rng.Intn(4) == 0 {
			s.ts = []string{"tserr", "tokerr", "invalidgrant"}[rng.Intn(3)]
		}
		if rng.Intn(4) == 0 {
			s.bg = "posthang"
		}
		if rng.Intn(4) == 0 {
			s.proto = "new"
		}
		if rng.Intn(4) == 0 {
			s.strict = true
		}
		if rng.Intn(5) == 0 && s.bg == "" && s.ts == "" {
			// (with another call in flight Close waits for that one too; with a failing token source Close's DELETE is not sent)
			s.close = []string{"w", "f"}[rng.Intn(2)]
		}
		if s.auth == "grant" && rng.Intn(2) == 0 {
			s.a1 = []string{"st401", "st403", "st401r", "st403r"}[rng.Intn(4)]
		}
		put(s, "wr")
	}
}

func TestVerifClientWrite(t *testing.T) {
	out := verifOpen(t)
	defer out.close()
	replay := func(path, cs string) {
		b, err := os.ReadFile(path)
		if err != nil {
			t.Fatal(err)
		}
		for _, ln := range strings.Split(string(b), "\n") {
			ln = strings.TrimSpace(ln)
			if strings.HasPrefix(ln, "oscn ") {
				if s, err := coParseScenario(ln); err == nil {
					g, p, b, c := coRun(t, s)
					coEmit(out, cs, s, g, p, b, c, "corpus")
				} else {
					out.line(cs, "reset", "ok")
					out.line(cs, ln, "bad-op", "corpus")
				}
				continue
			}
			if !strings.HasPrefix(ln, "wscn ") {
				continue
			}
			s, err := cwParseScenario(ln)
			if err != nil {
				out.line(cs, "reset", "ok")
				out.line(cs, ln, "bad-op", "corpus")
				continue
			}
			cwEmit(out, cs, s, cwRun(t, s), "corpus")
		}
	}
	if p := os.Getenv("VERIF_REPLAY"); p != "" {
		replay(p, "replay")
		return
	}
	if p := os.Getenv("VERIF_CORPUS"); p != "" {
		ents, _ := os.ReadDir(p)
		for _, e := range ents {
			if strings.HasSuffix(e.Name(), ".ops") {
				replay(p+"/"+e.Name(), "corpus-"+strings.TrimSuffix(e.Name(), ".ops"))
			}
		}
	}
	n := 0
	if os.Getenv("VERIF_CASES") == "" {
		coGenerate(func(s *coScenario) {
			g, p, b, c := coRun(t, s)
			coEmit(out, fmt.Sprintf("wo%d", n), s, g, p, b, c, "fam-wo")
			n++
		})
	}
	cwGenerate(func(s *cwScenario, fam string) {
		cwEmit(out, fmt.Sprintf("%s%d", fam, n), s, cwRun(t, s), "fam-"+fam)
		n++
	})
}
