// E9 (C13) correspondence harness, stream `http`: a real Client with KeepAlive over
// StreamableClientTransport (legacy protocol version, so that keep-alive runs) against a FOREIGN
// streamable-HTTP server — an in-process http.RoundTripper under testing/synctest that answers
// initialize, accepts notifications with 202, refuses GET with 405, accepts DELETE, and treats the k-th
// ping as its script says:
//
//	j<d> 200 + JSON result            s<d> 200 + the result framed as one SSE event
//	J<d> 200 + JSON-RPC error -32601  S<d> the same error framed as one SSE event
//	4<d> / 0<d> / 5<d>  HTTP 404 / 400 / 501 carrying a JSON-RPC -32601 error body
//	i<d> / k<d>         HTTP 500 / 503 (statuses the client treats as transient) carrying a -32601 error body
//	x<d> 200 + JSON-RPC error -32603  y<d> HTTP 400 carrying a -32603 body   z<d> HTTP 500 carrying a -32603 body
//	r<d> HTTP 503 without body        t<d> the transport fails (RoundTrip returns an error)
//	n    silence: nothing comes back before the request is abandoned
//
// each after d ns (a delay beyond the ping timeout is a slow answer: the ping has timed out by then).
// The outcome pattern handed to the Lean model (`script=`) is derived from WHAT THE PEER SENT, not from
// the error value the SDK made of it: j/s = answered, J/S/4/0/5/i/k = the peer reports ping as unsupported
// (method-not-found), x/y/z/r/t = another failure, n = never.  Left out: a non-2xx status without a
// JSON-RPC body other than the transient ones (502/503/504/429): the transport treats that as the end of
// the connection (404: session gone), which ends the session but not by keep-alive.
package mcp

import (
	"bytes"
	"context"
	"encoding/json"
	"errors"
	"fmt"
	"io"
	"math/rand"
	"net/http"
	"os"
	"strconv"
	"strings"
	"sync"
	"testing"
	"testing/synctest"
	"time"

	"github.com/modelcontextprotocol/go-sdk/internal/jsonrpc2"
	"github.com/modelcontextprotocol/go-sdk/jsonrpc"
)

const khKinds = "jsJS405ikxyzrtn"

type khStep struct {
	kind byte
	d    int64
	ct   int // spelling of the Content-Type of a JSON-bodied reply (khCT); 0 = application/json
}

// khCT: spellings of the JSON media type a foreign server may use (RFC 9110: the type is case-insensitive, parameters
// and blanks around ";" are allowed); 5 and 6 (no header, text/plain) are only used on non-2xx replies, where the
// client reads the body whatever it is labelled.
var khCT = []string{"application/json", "application/json; charset=utf-8", "APPLICATION/JSON", "application/json;charset=UTF-8",
	"application/json ; charset=utf-8", "", "text/plain"}

func (st khStep) String() string {
	if st.kind == 'n' || st.kind == 'w' {
		return string(st.kind)
	}
	if st.ct != 0 {
		return fmt.Sprintf("%c%dc%d", st.kind, st.d, st.ct)
	}
	return fmt.Sprintf("%c%d", st.kind, st.d)
}

// khModel: the outcome the peer's behaviour amounts to, in the model's alphabet.
func (st khStep) model() kaStep {
	switch st.kind {
	case 'j', 's':
		return kaStep{'a', st.d}
	case 'J', 'S', '4', '0', '5', 'i', 'k':
		return kaStep{'m', st.d}
	case 'n', 'w':
		return kaStep{'n', 0}
	}
	return kaStep{'e', st.d}
}

type khCase struct {
	side   string // "http": StreamableClientTransport against the foreign HTTP server; "ctxw": a Client over a transport whose Write honours its context; "srvw": a Server session over the same transport (the peer is a scripted client)
	I      int64
	T      int
	wire   []khStep
	tc     int64
	pv     string
	script []kaStep
	mode   string // shttp: "" stateful without EventStore, "store" with one, "stateless" (a temporary session per POST)
	race   int64  // shttp: > 0 — the client's DELETE arrives this long after the last ping before `tc` was issued (while it is in flight)
}

func (c *khCase) derive() {
	c.script = c.script[:0]
	for _, w := range c.wire {
		if w.kind == 'G' { // the client has no standalone stream at this tick: KeepAlive.absentStream
			if c.mode == "store" {
				c.script = append(c.script, kaStep{'n', 0})
			} else {
				c.script = append(c.script, kaStep{'e', 0})
			}
			continue
		}
		c.script = append(c.script, w.model())
	}
}

func (c *khCase) op() string {
	var s, w []string
	for i, st := range c.script {
		if st.kind == 'n' {
			s = append(s, "n")
		} else {
			s = append(s, fmt.Sprintf("%c%d", st.kind, st.d))
		}
		w = append(w, c.wire[i].String())
	}
	sc, wi := "-", "-"
	if len(s) > 0 {
		sc, wi = strings.Join(s, ","), strings.Join(w, ",")
	}
	var tm []string // ticks at which method-not-found is reported on a transient HTTP status
	for i, w := range c.wire {
		if w.kind == 'i' || w.kind == 'k' {
			tm = append(tm, strconv.Itoa(i+1))
		}
	}
	tmnf := "-"
	if len(tm) > 0 {
		tmnf = strings.Join(tm, ",")
	}
	op := fmt.Sprintf("kas side=%s I=%d T=%d script=%s cancel=%d wire=%s pv=%s tmnf=%s", c.side, c.I, c.T, sc, c.tc, wi, c.pv, tmnf)
	if c.mode != "" {
		op += " mode=" + c.mode
	}
	if c.race > 0 {
		op += fmt.Sprintf(" race=%d", c.race)
	}
	return op
}

func khParse(op string) (*khCase, bool) {
	toks := strings.Fields(op)
	if len(toks) == 0 || toks[0] != "kas" {
		return nil, false
	}
	kv := map[string]string{}
	for _, t := range toks[1:] {
		if i := strings.IndexByte(t, '='); i > 0 {
			kv[t[:i]] = t[i+1:]
		}
	}
	if kv["side"] != "http" && kv["side"] != "ctxw" && kv["side"] != "srvw" && kv["side"] != "shttp" && kv["side"] != "ssec" && kv["side"] != "sses" {
		return nil, false
	}
	c := &khCase{side: kv["side"], pv: kv["pv"], mode: kv["mode"]}
	if c.mode != "" && c.mode != "store" && c.mode != "stateless" {
		return nil, false
	}
	if r := kv["race"]; r != "" {
		v, err := strconv.ParseInt(r, 10, 64)
		if err != nil || v <= 0 {
			return nil, false
		}
		c.race = v
	}
	var e1, e2, e3 error
	c.I, e1 = strconv.ParseInt(kv["I"], 10, 64)
	c.T, e2 = strconv.Atoi(kv["T"])
	c.tc, e3 = strconv.ParseInt(kv["cancel"], 10, 64)
	if e1 != nil || e2 != nil || e3 != nil || c.I <= 0 {
		return nil, false
	}
	if c.pv == "" {
		c.pv = protocolVersion20251125
	}
	if w := kv["wire"]; w != "" && w != "-" {
		for _, el := range strings.Split(w, ",") {
			if el == "n" || el == "w" {
				c.wire = append(c.wire, khStep{kind: el[0]})
				continue
			}
			if len(el) < 2 || !(strings.ContainsRune(khKinds, rune(el[0])) || el[0] == 'R' || el[0] == 'G') {
				return nil, false
			}
			ds, ct := el[1:], 0
			if i := strings.IndexByte(ds, 'c'); i >= 0 {
				v, err := strconv.Atoi(ds[i+1:])
				if err != nil || v < 0 || v >= len(khCT) {
					return nil, false
				}
				ds, ct = ds[:i], v
			}
			d, err := strconv.ParseInt(ds, 10, 64)
			if err != nil {
				return nil, false
			}
			c.wire = append(c.wire, khStep{el[0], d, ct})
		}
	}
	c.derive()
	return c, true
}

// khServer is the foreign server.
type khServer struct {
	mu      sync.Mutex
	t0      time.Time
	wire    []khStep
	idx     int
	pings   []int64
	deletes []int64
}

func khReply(req *http.Request, status int, contentType, body string) *http.Response {
	h := http.Header{}
	if contentType != "" {
		h.Set("Content-Type", contentType)
	}
	h.Set("Mcp-Session-Id", "foreign-1")
	return &http.Response{
		StatusCode: status, Status: fmt.Sprintf("%d %s", status, http.StatusText(status)),
		Proto: "HTTP/1.1", ProtoMajor: 1, ProtoMinor: 1, Header: h,
		Body: io.NopCloser(strings.NewReader(body)), ContentLength: int64(len(body)), Request: req,
	}
}

func (f *khServer) RoundTrip(req *http.Request) (*http.Response, error) {
	switch req.Method {
	case http.MethodGet:
		return khReply(req, http.StatusMethodNotAllowed, "", ""), nil // no standalone stream: allowed
	case http.MethodDelete:
		f.mu.Lock()
		f.deletes = append(f.deletes, time.Since(f.t0).Nanoseconds())
		f.mu.Unlock()
		return khReply(req, http.StatusNoContent, "", ""), nil
	case http.MethodPost:
	default:
		return khReply(req, http.StatusMethodNotAllowed, "", ""), nil
	}
	raw, err := io.ReadAll(req.Body)
	if err != nil {
		return nil, err
	}
	req.Body.Close()
	var msg struct {
		ID     json.RawMessage `json:"id"`
		Method string          `json:"method"`
		Params struct {
			ProtocolVersion string `json:"protocolVersion"`
		} `json:"params"`
	}
	if err := json.Unmarshal(bytes.TrimSpace(raw), &msg); err != nil {
		return khReply(req, http.StatusBadRequest, "text/plain", "bad json"), nil
	}
	if len(msg.ID) == 0 {
		return khReply(req, http.StatusAccepted, "", ""), nil // notification or response: accepted
	}
	result := func(res string) string { return fmt.Sprintf(`{"jsonrpc":"2.0","id":%s,"result":%s}`, msg.ID, res) }
	rpcErr := func(code int, m string) string {
		return fmt.Sprintf(`{"jsonrpc":"2.0","id":%s,"error":{"code":%d,"message":%q}}`, msg.ID, code, m)
	}
	sse := func(data string) string { return "event: message\ndata: " + data + "\n\n" }
	switch msg.Method {
	case "initialize":
		return khReply(req, 200, "application/json", result(fmt.Sprintf(
			`{"protocolVersion":%q,"capabilities":{},"serverInfo":{"name":"foreign","version":"1"}}`, msg.Params.ProtocolVersion))), nil
	case "ping":
	default:
		return khReply(req, 200, "application/json", rpcErr(-32601, "Method not found: "+msg.Method)), nil
	}
	f.mu.Lock()
	f.pings = append(f.pings, time.Since(f.t0).Nanoseconds())
	st := khStep{kind: 'n'}
	if f.idx < len(f.wire) {
		st = f.wire[f.idx]
	}
	f.idx++
	f.mu.Unlock()
	if st.kind == 'n' {
		<-req.Context().Done()
		return nil, req.Context().Err()
	}
	select {
	case <-time.After(time.Duration(st.d)):
	case <-req.Context().Done():
		return nil, req.Context().Err()
	}
	const mnf, other = "Method not found: ping", "peer failure"
	js := khCT[st.ct]
	switch st.kind {
	case 'j':
		return khReply(req, 200, js, result("{}")), nil
	case 's':
		return khReply(req, 200, "text/event-stream", sse(result("{}"))), nil
	case 'J':
		return khReply(req, 200, js, rpcErr(-32601, mnf)), nil
	case 'S':
		return khReply(req, 200, "text/event-stream", sse(rpcErr(-32601, mnf))), nil
	case '4':
		return khReply(req, 404, js, rpcErr(-32601, mnf)), nil
	case '0':
		return khReply(req, 400, js, rpcErr(-32601, mnf)), nil
	case '5':
		return khReply(req, 501, js, rpcErr(-32601, mnf)), nil
	case 'i':
		return khReply(req, 500, js, rpcErr(-32601, mnf)), nil
	case 'k':
		return khReply(req, 503, js, rpcErr(-32601, mnf)), nil
	case 'x':
		return khReply(req, 200, js, rpcErr(-32603, other)), nil
	case 'y':
		return khReply(req, 400, js, rpcErr(-32603, other)), nil
	case 'z':
		return khReply(req, 500, js, rpcErr(-32603, other)), nil
	case 'r':
		return khReply(req, 503, "", ""), nil
	}
	return nil, errors.New("foreign server: connection reset by peer")
}

// khRun runs one scenario. Observed: the instants at which the foreign server received a ping, the instant
// the session's Wait returned before the harness itself closed it ("closed by keep-alive"), pings received
// after the harness's Close.
func khRun(t *testing.T, c *khCase) (obs string) {
	obs = "panic"
	synctest.Test(t, func(t *testing.T) {
		defer func() {
			if r := recover(); r != nil {
				obs = "panic"
			}
		}()
		ctx := context.Background()
		srv := &khServer{wire: c.wire, t0: time.Now()}
		I := time.Duration(c.I)
		tr := &StreamableClientTransport{Endpoint: "http://foreign.invalid/mcp", HTTPClient: &http.Client{Transport: srv}, MaxRetries: -1}
		cl := NewClient(&Implementation{Name: "c", Version: "1"}, &ClientOptions{KeepAlive: I, KeepAliveFailureThreshold: c.T, Logger: kaLogger})
		cs, err := cl.Connect(ctx, tr, &ClientSessionOptions{ProtocolVersion: c.pv})
		if err != nil {
			obs = "connect-failed"
			return
		}
		start := time.Since(srv.t0).Nanoseconds() // the handshake takes no virtual time
		var mu sync.Mutex
		closedAt := int64(-1)
		go func() {
			cs.Wait()
			mu.Lock()
			closedAt = time.Since(srv.t0).Nanoseconds()
			mu.Unlock()
		}()
		time.Sleep(time.Duration(c.tc))
		synctest.Wait()
		mu.Lock()
		ca := closedAt
		mu.Unlock()
		srv.mu.Lock()
		before := len(srv.pings)
		srv.mu.Unlock()
		cs.Close()
		synctest.Wait()
		time.Sleep(3 * I)
		synctest.Wait()
		srv.mu.Lock()
		defer srv.mu.Unlock()
		closed := "-"
		if ca >= 0 {
			closed = strconv.FormatInt(ca-start, 10)
		}
		pings := make([]int64, before)
		for i := range pings {
			pings[i] = srv.pings[i] - start
		}
		obs = fmt.Sprintf("pings=%s to=- close=%s exit=1 late=%d", kaInts(pings), closed, len(srv.pings)-before)
	})
	return obs
}

func khTags(c *khCase, obs string) []string {
	if len(c.wire) == 0 {
		return []string{"len=0"}
	}
	tags := []string{fmt.Sprintf("T=%d", c.T), fmt.Sprintf("len=%d", len(c.wire)), "real-" + c.side, "pv:" + c.pv}
	if c.mode != "" {
		tags = append(tags, "mode:"+c.mode)
	}
	if c.race > 0 {
		tags = append(tags, "delete-during-ping")
	}
	f := strings.Fields(obs)
	if len(f) > 2 && f[2] != "close=-" {
		tags = append(tags, "closed")
	} else {
		tags = append(tags, "not-closed")
	}
	seen := map[string]bool{}
	starts, _ := kaSchedule(c.I, c.script)
	for i, w := range c.wire {
		if starts[i] >= c.tc {
			break
		}
		k := "wire:" + string(w.kind)
		if w.kind != 'n' && w.kind != 'w' && w.d >= c.I/2 {
			k += "-late"
		}
		if w.ct != 0 && !seen[fmt.Sprintf("ct:%d", w.ct)] {
			seen[fmt.Sprintf("ct:%d", w.ct)] = true
			tags = append(tags, fmt.Sprintf("ct:%d", w.ct))
		}
		if !seen[k] {
			seen[k] = true
			tags = append(tags, k)
		}
	}
	return tags
}

// khRandCT picks a Content-Type spelling for a reply of kind k: any of the JSON spellings for a JSON body, also a missing
// or wrong label for a non-2xx reply (the client reads an error body whatever it is labelled); SSE-framed, empty and
// failing replies have none to vary.
func khRandCT(rng *rand.Rand, k byte) int {
	switch k {
	case 'j', 'J', 'x':
		return []int{0, 0, 1, 2, 3, 4}[rng.Intn(6)]
	case '4', '0', '5', 'i', 'k', 'y', 'z':
		return []int{0, 0, 1, 2, 3, 4, 5, 6}[rng.Intn(8)]
	}
	return 0
}

// khCtxConn is the client side of a custom transport whose Write is bound to the caller's context, the way the SSE
// client's POST is: a write that cannot complete blocks until its context is done and returns the context's error.
// The peer behind it answers initialize and treats the k-th ping on script: j<d> result after d, J<d> -32601 after d,
// x<d> -32603 after d, n accepted and never answered, w the WRITE stalls (nothing is delivered) until the caller gives up,
// R<d> the transport REFUSES this one message after d (< the ping timeout): Write returns an error wrapping
// jsonrpc2.ErrRejected, the way the streamable transports refuse a request they cannot deliver right now (no
// standalone stream, a transient HTTP status) — the connection stays usable, the ping failed.
// With server set the same connection is the transport of a ServerSession: the peer is a scripted CLIENT that sends
// initialize (protocol version pv) and notifications/initialized and then treats the server's pings on script.
type khCtxConn struct {
	server bool
	pv     string
	mu     sync.Mutex
	t0     time.Time
	wire   []khStep
	idx    int
	pings  []int64
	in     chan jsonrpc.Message
	closed chan struct{}
	once   sync.Once
}

var khInitID, _ = jsonrpc.MakeID(float64(1))

func (c *khCtxConn) Connect(context.Context) (Connection, error) {
	if c.server {
		b, _ := json.Marshal(&InitializeParams{ProtocolVersion: c.pv, Capabilities: &ClientCapabilities{}, ClientInfo: &Implementation{Name: "peer", Version: "1"}})
		c.deliver(0, &jsonrpc.Request{ID: khInitID, Method: "initialize", Params: b})
	}
	return c, nil
}
func (c *khCtxConn) SessionID() string                          { return "" }
func (c *khCtxConn) Close() error                               { c.once.Do(func() { close(c.closed) }); return nil }

func (c *khCtxConn) Read(ctx context.Context) (jsonrpc.Message, error) {
	select {
	case m := <-c.in:
		return m, nil
	case <-c.closed:
		return nil, io.EOF
	case <-ctx.Done():
		return nil, ctx.Err()
	}
}

func (c *khCtxConn) deliver(d int64, m jsonrpc.Message) {
	go func() {
		time.Sleep(time.Duration(d))
		select {
		case c.in <- m:
		case <-c.closed:
		}
	}()
}

func (c *khCtxConn) Write(ctx context.Context, msg jsonrpc.Message) error {
	select {
	case <-c.closed:
		return io.ErrClosedPipe
	default:
	}
	if err := ctx.Err(); err != nil {
		return err
	}
	req, ok := msg.(*jsonrpc.Request)
	if !ok || !req.IsCall() {
		if resp, isResp := msg.(*jsonrpc.Response); isResp && c.server && resp.ID == khInitID {
			c.deliver(0, &jsonrpc.Request{Method: "notifications/initialized", Params: json.RawMessage("{}")})
		}
		return nil // responses, notifications/initialized, notifications/cancelled: accepted
	}
	switch req.Method {
	case "initialize":
		var ip InitializeParams
		json.Unmarshal(req.Params, &ip)
		b, _ := json.Marshal(&InitializeResult{ProtocolVersion: ip.ProtocolVersion, Capabilities: &ServerCapabilities{}, ServerInfo: &Implementation{Name: "peer", Version: "1"}})
		c.deliver(0, &jsonrpc.Response{ID: req.ID, Result: b})
		return nil
	case "ping":
	default:
		c.deliver(0, &jsonrpc.Response{ID: req.ID, Error: &jsonrpc.Error{Code: jsonrpc.CodeMethodNotFound, Message: "unsupported"}})
		return nil
	}
	c.mu.Lock()
	c.pings = append(c.pings, time.Since(c.t0).Nanoseconds())
	st := khStep{kind: 'n'}
	if c.idx < len(c.wire) {
		st = c.wire[c.idx]
	}
	c.idx++
	c.mu.Unlock()
	switch st.kind {
	case 'w':
		select {
		case <-ctx.Done():
			return ctx.Err()
		case <-c.closed:
			return io.ErrClosedPipe
		}
	case 'R':
		select {
		case <-time.After(time.Duration(st.d)):
		case <-ctx.Done():
			return ctx.Err()
		case <-c.closed:
			return io.ErrClosedPipe
		}
		return fmt.Errorf("%w: the transport cannot deliver %s now", jsonrpc2.ErrRejected, req.Method)
	case 'j':
		c.deliver(st.d, &jsonrpc.Response{ID: req.ID, Result: json.RawMessage("{}")})
	case 'J':
		c.deliver(st.d, &jsonrpc.Response{ID: req.ID, Error: &jsonrpc.Error{Code: jsonrpc.CodeMethodNotFound, Message: "Method not found: ping"}})
	case 'x':
		c.deliver(st.d, &jsonrpc.Response{ID: req.ID, Error: &jsonrpc.Error{Code: jsonrpc.CodeInternalError, Message: "peer failure"}})
	}
	return nil
}

// khRunCtx runs one scenario over the context-honouring transport (observations as in khRun).
func khRunCtx(t *testing.T, c *khCase) (obs string) {
	obs = "panic"
	synctest.Test(t, func(t *testing.T) {
		defer func() {
			if r := recover(); r != nil {
				obs = "panic"
			}
		}()
		ctx := context.Background()
		conn := &khCtxConn{server: c.side == "srvw", pv: c.pv, wire: c.wire, t0: time.Now(), in: make(chan jsonrpc.Message), closed: make(chan struct{})}
		I := time.Duration(c.I)
		var cs interface {
			Wait() error
			Close() error
		}
		if conn.server {
			srv := NewServer(&Implementation{Name: "s", Version: "1"}, &ServerOptions{KeepAlive: I, KeepAliveFailureThreshold: c.T, Logger: kaLogger})
			ss, err := srv.Connect(ctx, conn, nil)
			if err != nil {
				obs = "connect-failed"
				return
			}
			cs = ss
		} else {
			cl := NewClient(&Implementation{Name: "c", Version: "1"}, &ClientOptions{KeepAlive: I, KeepAliveFailureThreshold: c.T, Logger: kaLogger})
			s, err := cl.Connect(ctx, conn, &ClientSessionOptions{ProtocolVersion: c.pv})
			if err != nil {
				obs = "connect-failed"
				return
			}
			cs = s
		}
		start := time.Since(conn.t0).Nanoseconds()
		var mu sync.Mutex
		closedAt := int64(-1)
		go func() {
			cs.Wait()
			mu.Lock()
			closedAt = time.Since(conn.t0).Nanoseconds()
			mu.Unlock()
		}()
		time.Sleep(time.Duration(c.tc))
		synctest.Wait()
		mu.Lock()
		ca := closedAt
		mu.Unlock()
		conn.mu.Lock()
		before := len(conn.pings)
		conn.mu.Unlock()
		cs.Close()
		synctest.Wait()
		time.Sleep(3 * I)
		synctest.Wait()
		conn.mu.Lock()
		defer conn.mu.Unlock()
		closed := "-"
		if ca >= 0 {
			closed = strconv.FormatInt(ca-start, 10)
		}
		pings := make([]int64, before)
		for i := range pings {
			pings[i] = conn.pings[i] - start
		}
		obs = fmt.Sprintf("pings=%s to=- close=%s exit=1 late=%d", kaInts(pings), closed, len(conn.pings)-before)
	})
	return obs
}

func khRandomCtx(rng *rand.Rand, maxLen, maxT int) *khCase {
	I := []int64{1000, 5000, 30_000_000_000}[rng.Intn(3)]
	c := &khCase{side: []string{"ctxw", "srvw"}[rng.Intn(2)], I: I, T: rng.Intn(maxT+2) - 1, pv: []string{protocolVersion20251125, protocolVersion20250618}[rng.Intn(2)]}
	n := rng.Intn(maxLen + 1)
	pw := []int{20, 50, 80}[rng.Intn(3)]
	for i := 0; i < n; i++ {
		switch r := rng.Intn(100); {
		case r < pw/2:
			c.wire = append(c.wire, khStep{kind: 'w'})
		case r < pw:
			c.wire = append(c.wire, khStep{'R', []int64{0, 0, 1 + rng.Int63n(I/2-1)}[rng.Intn(3)], 0})
		case r < pw+(100-pw)*6/10:
			c.wire = append(c.wire, khStep{'j', khDelay(rng, I), 0})
		default:
			c.wire = append(c.wire, khStep{"Jxn"[rng.Intn(3)], khDelay(rng, I), 0})
		}
	}
	c.derive()
	k := n
	if rng.Intn(3) == 0 {
		k = rng.Intn(n + 1)
	}
	c.tc = kaBetween(I, k)
	return c
}

func khDelay(rng *rand.Rand, I int64) int64 {
	switch rng.Intn(6) {
	case 0:
		return 0
	case 1:
		return I/2 - 1
	case 2:
		return I/2 + 1 + rng.Int63n(I/2-1) // slow: after the ping timeout
	default:
		return 1 + rng.Int63n(I/2-1)
	}
}

func khRandom(rng *rand.Rand, maxLen, maxT int) *khCase {
	I := []int64{1000, 1000, 5000, 30_000_000_000}[rng.Intn(4)]
	c := &khCase{side: "http", I: I, T: rng.Intn(maxT+2) - 1, pv: []string{protocolVersion20251125, protocolVersion20250618}[rng.Intn(2)]}
	n := rng.Intn(maxLen + 1)
	for i := 0; i < n; i++ {
		k := khKinds[rng.Intn(len(khKinds))]
		if rng.Intn(3) == 0 {
			k = "js"[rng.Intn(2)] // keep the session alive for a while
		}
		c.wire = append(c.wire, khStep{k, khDelay(rng, I), khRandCT(rng, k)})
	}
	c.derive()
	// the end event (the harness closes the session): between the end of ping k and tick k+1, k = 0..n. (While a
	// ping is in flight the session's Close fails that ping at once, which the loop model does not describe:
	// that is the business of the stream `sessions`.)
	k := n
	if rng.Intn(3) == 0 {
		k = rng.Intn(n + 1)
	}
	c.tc = kaBetween(I, k)
	return c
}

func TestVerifKeepAliveHTTP(t *testing.T) {
	out := verifOpen(t)
	defer out.close()
	n := 0
	emit := func(prefix string, c *khCase) {
		id := fmt.Sprintf("%s%d", prefix, n)
		var obs string
		if c.side == "shttp" && c.race > 0 {
			op, o := khRunDelete(t, c)
			out.line(id, op, o, append(khTags(c, o), "http-delete")...)
			n++
			return
		}
		if c.side == "shttp" && c.mode == "stateless" {
			obs = khRunStateless(t, c)
		} else if c.side == "ssec" || c.side == "sses" {
			obs = khRunSSE(t, c)
		} else if c.side == "shttp" {
			obs = khRunSrvHTTP(t, c)
		} else if c.side == "ctxw" || c.side == "srvw" {
			obs = khRunCtx(t, c)
		} else {
			obs = khRun(t, c)
		}
		out.line(id, c.op(), obs, khTags(c, obs)...)
		n++
	}
	replay := func(path, cs string) {
		b, err := os.ReadFile(path)
		if err != nil {
			t.Fatal(err)
		}
		for _, ln := range strings.Split(string(b), "\n") {
			ln = strings.TrimSpace(ln)
			if strings.HasPrefix(ln, "kss ") {
				if i := strings.Index(ln, " scn=shttp|"); i >= 0 {
					ln = "kas " + strings.ReplaceAll(strings.Fields(ln[i+len(" scn=shttp|"):])[0], "|", " ")
				}
			}
			if !strings.HasPrefix(ln, "kas ") || !(strings.Contains(ln, " side=http ") || strings.Contains(ln, " side=ctxw ") || strings.Contains(ln, " side=srvw ") || strings.Contains(ln, " side=shttp ") || strings.Contains(ln, " side=ssec ") || strings.Contains(ln, " side=sses ")) {
				continue // the other lines belong to the streams `loop` and `sessions`
			}
			c, ok := khParse(ln)
			if !ok {
				out.line(cs, ln, "bad-op", "corpus")
				continue
			}
			emit(cs+"-", c)
		}
	}
	if p := os.Getenv("VERIF_REPLAY"); p != "" {
		replay(p, "replay")
		if n == 0 {
			out.line("replay", "reset", "ok", "reset") // a replay of another stream of this engine
		}
		return
	}
	if p := os.Getenv("VERIF_CORPUS"); p != "" {
		ents, _ := os.ReadDir(p)
		for _, e := range ents {
			if strings.HasSuffix(e.Name(), ".ops") {
				replay(p+"/"+e.Name(), "corpus-"+strings.TrimSuffix(e.Name(), ".ops"))
			}
		}
	}
	if os.Getenv("VERIF_CASES") == "" {
		// systematic: every kind of answer, in time and slow, as the first ping and as the ping after an
		// answered one, after a miss, and after two misses x thresholds 0..3
		const I = 1000
		pre := [][]khStep{nil, {{'j', 10, 0}}, {{'n', 0, 0}}, {{'r', 20, 0}, {'t', 30, 0}}, {{'s', 5, 0}, {'x', 7, 1}}}
		for _, p := range pre {
			for _, k := range []byte(khKinds) {
				for _, d := range []int64{3, I/2 + 101} {
					if k == 'n' && d != 3 {
						continue
					}
					for T := 0; T <= 3; T++ {
						w := append(append([]khStep{}, p...), khStep{k, d, 0}, khStep{'j', 11, 0}, khStep{kind: 'n'}, khStep{kind: 'n'}, khStep{kind: 'n'})
						c := &khCase{side: "http", I: I, T: T, wire: w, pv: []string{protocolVersion20251125, protocolVersion20250618}[(T+len(p))%2]}
						c.derive()
						c.tc = kaAfter(I, c.script)
						emit("y", c)
					}
				}
			}
		}
	}
	if os.Getenv("VERIF_CASES") == "" {
		// every Content-Type spelling on every JSON-bodied reply, first ping and after an answered one, thresholds 0 and 3
		const I = 1000
		for _, k := range []byte("jJx405ikyz") {
			for ct := 1; ct < len(khCT); ct++ {
				if ct >= 5 && (k == 'j' || k == 'J' || k == 'x') {
					continue // a 200 reply must be labelled as JSON
				}
				for _, T := range []int{0, 3} {
					for _, p := range [][]khStep{nil, {{'j', 10, ct % 5}}} {
						w := append(append([]khStep{}, p...), khStep{k, 7, ct}, khStep{'j', 11, 0}, khStep{kind: 'n'}, khStep{kind: 'n'}, khStep{kind: 'n'})
						c := &khCase{side: "http", I: I, T: T, wire: w, pv: protocolVersion20251125}
						c.derive()
						c.tc = kaAfter(I, c.script)
						emit("c", c)
					}
				}
			}
		}
		// the context-honouring transport: k stalled ping writes (k = 1..4) after 0..2 answered pings, then answers
		// again or goes on stalling x thresholds 0..4
		// the same for k REFUSED ping writes (jsonrpc2.ErrRejected), and for k failures of mixed kinds (a timed-out
		// ping, then refused ones); each on a Client session and on a Server session
		for _, side := range []string{"ctxw", "srvw"} {
			for _, miss := range []string{"w", "R", "nR"} {
				for pre := 0; pre <= 2; pre++ {
					for k := 1; k <= 4; k++ {
						for _, tail := range []byte{'j', miss[len(miss)-1]} {
							for T := 0; T <= 4; T++ {
								var w []khStep
								for i := 0; i < pre; i++ {
									w = append(w, khStep{'j', 10, 0})
								}
								for i := 0; i < k; i++ {
									m := miss[len(miss)-1]
									if i < len(miss) {
										m = miss[i]
									}
									if m == 'R' {
										w = append(w, khStep{'R', int64(7 * (i % 2)), 0})
									} else {
										w = append(w, khStep{kind: m})
									}
								}
								for i := 0; i < 3; i++ {
									if tail == 'j' {
										w = append(w, khStep{tail, 11, 0})
									} else if tail == 'R' {
										w = append(w, khStep{'R', 0, 0})
									} else {
										w = append(w, khStep{kind: tail})
									}
								}
								c := &khCase{side: side, I: I, T: T, wire: w, pv: protocolVersion20251125}
								c.derive()
								c.tc = kaAfter(I, c.script)
								emit("w", c)
							}
						}
					}
				}
			}
		}
	}
	if os.Getenv("VERIF_CASES") == "" {
		// the real streamable SERVER transport: every pattern of length 1..4 over {answered, the client has no
		// standalone stream at that tick (ping refused), never answered} — and -32601 / -32603 as the first reply —
		// followed by answers, x thresholds 0..3
		const I = 1000
		for l := 1; l <= 4; l++ {
			for code, total := 0, pow3(l); code < total; code++ {
				for T := 0; T <= 3; T++ {
					var w []khStep
					for i, cd := 0, code; i < l; i, cd = i+1, cd/3 {
						w = append(w, []khStep{{'j', int64(3 + 4*i), 0}, {'R', 0, 0}, {kind: 'n'}}[cd%3])
					}
					w = append(w, khStep{'j', 11, 0}, khStep{'j', 5, 0})
					c := &khCase{side: "shttp", I: I, T: T, wire: w, pv: []string{protocolVersion20251125, protocolVersion20250618}[(T+l)%2]}
					c.derive()
					c.tc = kaAfter(I, c.script)
					emit("g", c)
				}
			}
		}
		// the same transport with an EventStore (a ping without a standalone stream is appended to the store and times
		// out) and in stateless mode (a temporary session per POST, whose tool handler runs for 0.6 .. 4.6 intervals:
		// every ping of that session is refused): patterns over {answered, no stream, silent} resp. every duration x thresholds
		for l := 1; l <= 3; l++ {
			for code, total := 0, pow3(l); code < total; code++ {
				for T := 0; T <= 3; T++ {
					var w []khStep
					for i, cd := 0, code; i < l; i, cd = i+1, cd/3 {
						w = append(w, []khStep{{'j', int64(3 + 4*i), 0}, {'G', 0, 0}, {kind: 'n'}}[cd%3])
					}
					w = append(w, khStep{'j', 11, 0}, khStep{'G', 0, 0}, khStep{'j', 5, 0})
					for _, mode := range []string{"", "store"} {
						c := &khCase{side: "shttp", mode: mode, I: I, T: T, wire: w, pv: []string{protocolVersion20251125, protocolVersion20250618}[(T+l)%2]}
						c.derive()
						c.tc = kaAfter(I, c.script)
						emit("g", c)
					}
				}
			}
		}
		// DELETE versus keep-alive: the client's DELETE arrives r after tick k, whose ping is unanswered / answered
		// late / stored (no standalone stream, EventStore) / refused — or was answered at once (between two ticks) —
		// after 0..1 answered pings, x thresholds 1..3
		for _, mode := range []string{"", "store"} {
			for pre := 0; pre <= 1; pre++ {
				for _, k := range []khStep{{kind: 'n'}, {'j', I/2 + 211, 0}, {'G', 0, 0}, {'j', 3, 0}, {'x', 9, 0}} {
					for _, r := range []int64{1, 137, I/2 - 3, I/2 + 53} {
						for T := 1; T <= 3; T++ {
							var w []khStep
							for i := 0; i < pre; i++ {
								w = append(w, khStep{'j', 7, 0})
							}
							w = append(w, k, khStep{'j', 5, 0})
							c := &khCase{side: "shttp", mode: mode, I: I, T: T, wire: w, pv: protocolVersion20251125, race: r}
							c.derive()
							c.tc = int64(pre+1)*I + r
							emit("d", c)
						}
					}
				}
			}
		}
		for _, D := range []int64{607, 1311, 2503, 3709, 4603} {
			for T := 0; T <= 4; T++ {
				c := &khCase{side: "shttp", mode: "stateless", I: I, T: T, pv: protocolVersion20251125, tc: D}
				for i := int64(0); i <= D/I; i++ {
					c.wire = append(c.wire, khStep{'G', 0, 0})
				}
				c.derive()
				emit("g", c)
			}
		}
		for _, k := range []byte("Jx") {
			for _, d := range []int64{3, I/2 + 101} {
				for T := 0; T <= 2; T++ {
					w := []khStep{{'j', 7, 0}, {k, d, 0}, {'R', 0, 0}, {'j', 9, 0}}
					c := &khCase{side: "shttp", I: I, T: T, wire: w, pv: protocolVersion20251125}
					c.derive()
					c.tc = kaAfter(I, c.script)
					emit("g", c)
				}
			}
		}
	}
	if os.Getenv("VERIF_CASES") == "" {
		// the real SSE transports: every pattern of length 1..3 over {answered in time, lost, -32603, and — client
		// side — the POST stalls until the ping's context ends / — server side — answered too late} followed by two
		// answers, x thresholds 0..3 x keep-alive on the client / on the server; -32601 as the first reply
		const I = 1000
		for _, side := range []string{"ssec", "sses"} {
			for l, total := 1, 4; l <= 3; l, total = l+1, total*4 {
				for code := 0; code < total; code++ {
					for T := 0; T <= 3; T++ {
						var w []khStep
						for i, cd := 0, code; i < l; i, cd = i+1, cd/4 {
							k := []khStep{{'j', int64(3 + 4*i), 0}, {kind: 'n'}, {'x', int64(5 + 2*i), 0}, {kind: 'w'}}[cd%4]
							if k.kind == 'w' && side == "sses" {
								k = khStep{'j', I/2 + 57, 0}
							}
							w = append(w, k)
						}
						w = append(w, khStep{'j', 11, 0}, khStep{'j', 5, 0})
						c := &khCase{side: side, I: I, T: T, wire: w, pv: []string{protocolVersion20251125, protocolVersion20250618}[(T+l)%2]}
						c.derive()
						c.tc = kaAfter(I, c.script)
						emit("e", c)
					}
				}
			}
			for _, d := range []int64{3, I/2 + 101} {
				for T := 0; T <= 2; T++ {
					w := []khStep{{'j', 7, 0}, {'J', d, 0}, {kind: 'n'}, {'j', 9, 0}}
					c := &khCase{side: side, I: I, T: T, wire: w, pv: protocolVersion20251125}
					c.derive()
					c.tc = kaAfter(I, c.script)
					emit("e", c)
				}
			}
		}
	}
	rng := verifRng(1313)
	nr := verifN(600, 5000)
	for i := 0; i < nr; i++ {
		if verifThorough() {
			emit("h", khRandom(rng, 14, 6))
		} else {
			emit("h", khRandom(rng, 8, 4))
		}
		if i%3 == 0 {
			emit("v", khRandomCtx(rng, 8, 4))
		}
		if i%4 == 1 {
			emit("g", khRandomSrvHTTP(rng, 8, 4))
		}
		if i%4 == 2 {
			c := khRandomCtx(rng, 8, 4) // kinds j, J, x, n, w, R
			c.side = []string{"ssec", "sses"}[rng.Intn(2)]
			for j := range c.wire {
				if c.wire[j].kind == 'R' || (c.wire[j].kind == 'w' && c.side == "sses") {
					c.wire[j] = khStep{kind: 'n'}
				}
			}
			c.derive()
			emit("e", c)
		}
	}
}

func pow3(n int) int {
	r := 1
	for ; n > 0; n-- {
		r *= 3
	}
	return r
}

func khRandomSrvHTTP(rng *rand.Rand, maxLen, maxT int) *khCase {
	I := []int64{1000, 5000, 30_000_000_000}[rng.Intn(3)]
	c := &khCase{side: "shttp", mode: []string{"", "", "store"}[rng.Intn(3)], I: I, T: rng.Intn(maxT+2) - 1, pv: []string{protocolVersion20251125, protocolVersion20250618}[rng.Intn(2)]}
	n := rng.Intn(maxLen + 1)
	pr := []int{15, 40, 70}[rng.Intn(3)]
	for i := 0; i < n; i++ {
		switch r := rng.Intn(100); {
		case r < pr:
			k := byte('G') // `R` claims that the transport refused the ping, which a server with an EventStore does not do
			if c.mode == "" && rng.Intn(2) == 0 {
				k = 'R'
			}
			c.wire = append(c.wire, khStep{k, 0, 0})
		case r < pr+(100-pr)*6/10:
			c.wire = append(c.wire, khStep{'j', khDelay(rng, I), 0})
		default:
			c.wire = append(c.wire, khStep{"Jxn"[rng.Intn(3)], khDelay(rng, I), 0})
		}
	}
	c.derive()
	k := n
	if rng.Intn(3) == 0 {
		k = rng.Intn(n + 1)
	}
	c.tc = kaBetween(I, k)
	return c
}
