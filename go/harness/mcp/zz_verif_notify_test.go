// E14 correspondence harness (C18): a real Server with 0-3 real client sessions over in-memory
// transports, driven label by label under testing/synctest. See DESIGN.md §4 E14, §5 C18 and
// lean/McpModel/Notify/Driver.lean for the op grammar.
package mcp

import (
	"context"
	"fmt"
	"math/rand"
	"os"
	"sort"
	"strconv"
	"strings"
	"sync"
	"testing"
	"testing/synctest"
	"time"

	"github.com/google/jsonschema-go/jsonschema"
	"github.com/modelcontextprotocol/go-sdk/jsonrpc"
)

var nfKinds = []string{"tools", "prompts", "resources"}
var nfSets = []string{"tools", "prompts", "resources", "templates"}

func nfKindOfMethod(m string) string {
	switch m {
	case notificationToolListChanged:
		return "tools"
	case notificationPromptListChanged:
		return "prompts"
	case notificationResourceListChanged:
		return "resources"
	}
	return ""
}

func nfNotification(kind string) string {
	switch kind {
	case "tools":
		return notificationToolListChanged
	case "prompts":
		return notificationPromptListChanged
	case "resources":
		return notificationResourceListChanged
	}
	return ""
}

type nfEvent struct {
	slot   int
	method string
	stamp  string
	hk     string // which user handler ran: t p r u<i> or -
}

type nfHeld struct {
	pre, post chan struct{}
	phase     string // "pre", "held", "done"
	arrived   string
	result    string
	done      chan struct{}
}

type nfSlot struct {
	idx        int
	sid        int
	modern     bool
	mask       string
	connected  bool
	client     *Client
	cs         *ClientSession
	ss         *ServerSession
	listenGate chan struct{} // non-nil while the connect-time listen is held
	connDone   chan error
	ackWant    string            // which listen the next ack belongs to: "m" or "r<i>"
	ids        map[string]string // printed listen request id -> "m" / "r<i>"
	lastAck    string
	rsubs      map[int]bool
	held       map[string]*nfHeld
	reached    map[string]bool
	listed     []string // keys this slot has asked for (generator only)
	holdNext   bool                     // park the server handler of the next listen right after its ack write
	ackParked  map[string]chan struct{} // handlers parked there: "m" / "r<i>" / "L<n>" -> release channel
	live       map[string]bool               // listens opened here that were granted something and not ended: "m", "L<n>"
	xl         map[string]context.CancelFunc // raw listens opened by xlisten: "L<n>" -> cancel
	grant      map[string][]string           // live listens (also "r<i>") -> what the ack granted: "t" "p" "r" "u<j>"
	order      []string                      // … in the order they were acknowledged
	holdCancel   string                   // the next notifications/cancelled this client writes is held, under this listen name
	cancelParked map[string]chan struct{} // listens whose cancellation is held in the client's transport (or, unsubMode, whose clean-up is parked in the server's UnsubscribeHandler) -> release channel
	raw          *nfHoldConn              // the client's end of the connection (`close c<i> drop` cuts it)
	parkUnsub    string                   // the next UnsubscribeHandler call the server makes for this session parks, under this listen name
	unsubMode    map[string]bool          // entries of cancelParked that are parked in the UnsubscribeHandler: released by `unsubdone`
}

// nfHoldTransport wraps the client's transport: a notifications/cancelled message can be held before
// it is written (the goroutine that ClientSession.Unsubscribe / a cancelled listen context starts has
// not got round to sending it), until the `canceldone` label. Nothing else is delayed.
type nfHoldTransport struct {
	inner Transport
	w     *nfWorld
	sl    *nfSlot
}

func (t *nfHoldTransport) Connect(ctx context.Context) (Connection, error) {
	c, err := t.inner.Connect(ctx)
	if err != nil {
		return nil, err
	}
	hc := &nfHoldConn{Connection: c, w: t.w, sl: t.sl}
	t.w.mu.Lock()
	t.sl.raw = hc
	t.w.mu.Unlock()
	return hc, nil
}

type nfHoldConn struct {
	Connection
	w  *nfWorld
	sl *nfSlot
}

func (c *nfHoldConn) Write(ctx context.Context, msg jsonrpc.Message) error {
	if r, ok := msg.(*jsonrpc.Request); ok && r.Method == notificationCancelled {
		var ch chan struct{}
		c.w.mu.Lock()
		if name := c.sl.holdCancel; name != "" {
			c.sl.holdCancel = ""
			ch = make(chan struct{})
			c.sl.cancelParked[name] = ch
		}
		c.w.mu.Unlock()
		if ch != nil {
			<-ch
		}
	}
	return c.Connection.Write(ctx, msg)
}

// nfFanSend: a write of a held notifySessions fan-out, parked in the server's sending middleware.
type nfFanSend struct {
	ch chan struct{}
	ss *ServerSession
}

func nfAckGrant(ack string) []string {
	f := strings.Fields(ack)
	var g []string
	if len(f) < 2 || f[0] != "ack" {
		return nil
	}
	if f[1] != "-" {
		for _, ch := range f[1] {
			g = append(g, string(ch))
		}
	}
	for _, u := range f[2:] {
		if strings.HasPrefix(u, "u") {
			g = append(g, u)
		}
	}
	return g
}

// opened records an acknowledged listen; it reports whether it shares a grant with a live one.
func (sl *nfSlot) opened(name, ack string) string {
	g := nfAckGrant(ack)
	if len(g) == 0 {
		return ""
	}
	overlap := false
	for _, other := range sl.order {
		for _, a := range sl.grant[other] {
			for _, b := range g {
				if a == b {
					overlap = true
				}
			}
		}
	}
	sl.grant[name] = g
	sl.order = append(sl.order, name)
	if overlap {
		return "listen-overlap"
	}
	return ""
}

// endedListen forgets a listen that ended; it reports whether a live one shares a grant with it, and
// whether that one is newer or older.
func (sl *nfSlot) endedListen(name string) string {
	g, ok := sl.grant[name]
	if !ok {
		return ""
	}
	tag := ""
	seen := false
	for _, other := range sl.order {
		if other == name {
			seen = true
			continue
		}
		for _, a := range sl.grant[other] {
			for _, b := range g {
				if a == b {
					if seen {
						tag = "end-older-of-overlap"
					} else if tag == "" {
						tag = "end-newer-of-overlap"
					}
				}
			}
		}
	}
	delete(sl.grant, name)
	var rest []string
	for _, o := range sl.order {
		if o != name {
			rest = append(rest, o)
		}
	}
	sl.order = rest
	return tag
}

type nfWorld struct {
	noHandlers bool // the server has neither SubscribeHandler nor UnsubscribeHandler
	mu      sync.Mutex
	t0      time.Time
	s       *Server
	hook    bool
	ttl     int
	slots   [3]*nfSlot
	closed  map[*ServerSession]int // closed server sessions -> sid
	events  []nfEvent
	parked  map[string][]chan struct{}
	fired   []string
	win     map[string]*nfWindow
	content [3]int
	descCtr int
	ended   bool
	xtag    string // an extra tag for the record of the op that just ran
	refuse    map[int]bool          // URIs the SubscribeHandler refuses
	stepKind  string                // the list-changed sends of this kind made now belong to a held fan-out: park them
	fanParked map[string]*nfFanSend // kind -> the write the held fan-out of that kind is blocked in
	renameTo  int                   // >= 0: resources/updated notifications sent now name this URI instead
	everListed map[string]bool     // keys some client has listed in this case (an emptied set shows the content of version 0 again: the generator empties a set only while nobody can hold that content)
}

// nfWindow: the features of one set are w<lo>..w<hi>; every effective change makes a content never seen before.
type nfWindow struct {
	lo, hi int
	desc   map[int]int
	ver    int
	byText map[string]int
}

func (w *nfWindow) text(extra string) string {
	var parts []string
	for i := w.lo; i <= w.hi; i++ {
		parts = append(parts, fmt.Sprintf("w%d=d%d", i, w.desc[i]))
	}
	sort.Strings(parts)
	return extra + strings.Join(parts, ",")
}

func nfURI(i int) string { return fmt.Sprintf("file:///u/%d", i) }
func nfURIIndex(u string) int {
	for i := 0; i < 3; i++ {
		if u == nfURI(i) {
			return i
		}
	}
	return -1
}

func (w *nfWorld) now() int64 { return time.Since(w.t0).Milliseconds() }

func (w *nfWorld) slotOfSS(ss *ServerSession) string {
	for _, sl := range w.slots {
		if sl != nil && sl.ss == ss {
			return fmt.Sprintf("c%d", sl.idx)
		}
	}
	if sid, ok := w.closed[ss]; ok {
		return fmt.Sprintf("x%d", sid)
	}
	return "x?"
}

// ---- setting up the server

func nfCap(tok string) (bool, bool) { // (set, listChanged)
	switch tok {
	case "on":
		return true, true
	case "off":
		return true, false
	}
	return false, false
}

func (w *nfWorld) newServer(capT, capP, capR string) {
	opts := &ServerOptions{
		SubscribeHandler: func(_ context.Context, req *SubscribeRequest) error {
			w.mu.Lock()
			defer w.mu.Unlock()
			if req.Params != nil && w.refuse[nfURIIndex(req.Params.URI)] {
				return fmt.Errorf("subscription to %s refused", req.Params.URI)
			}
			return nil
		},
		// Schedule point "the stream has ended, none of its deferred critical sections has run":
		// application code called from unsubscribeListen (outside the server lock, for the LAST URI the
		// stream was granted: the deferred calls run in reverse) parks until `unsubdone`.
		UnsubscribeHandler: func(_ context.Context, req *UnsubscribeRequest) error {
			var ch chan struct{}
			w.mu.Lock()
			for _, sl := range w.slots {
				if sl != nil && sl.ss == req.Session && sl.parkUnsub != "" {
					ch = make(chan struct{})
					sl.cancelParked[sl.parkUnsub] = ch
					sl.unsubMode[sl.parkUnsub] = true
					sl.parkUnsub = ""
				}
			}
			refuse := req.Params != nil && w.refuse[nfURIIndex(req.Params.URI)]
			w.mu.Unlock()
			if ch != nil {
				<-ch
			}
			if refuse {
				// the application refuses (policy u<j> refuse covers both handlers): resources/unsubscribe of a
				// legacy session fails and the subscription stays; the clean-up of a stream ignores the error
				return fmt.Errorf("unsubscription from %s refused", req.Params.URI)
			}
			return nil
		},
		PageSize:           1000,
	}
	caps := &ServerCapabilities{}
	any := false
	if set, lc := nfCap(capT); set {
		caps.Tools = &ToolCapabilities{ListChanged: lc}
		any = true
	}
	if set, lc := nfCap(capP); set {
		caps.Prompts = &PromptCapabilities{ListChanged: lc}
		any = true
	}
	if set, lc := nfCap(capR); set {
		caps.Resources = &ResourceCapabilities{ListChanged: lc, Subscribe: true}
		any = true
	}
	if any {
		opts.Capabilities = caps
	}
	if w.noHandlers {
		opts.SubscribeHandler, opts.UnsubscribeHandler = nil, nil
	}
	w.s = NewServer(&Implementation{Name: "verif-server", Version: "1"}, opts)
	w.s.AddReceivingMiddleware(func(next MethodHandler) MethodHandler {
		return func(ctx context.Context, method string, req Request) (Result, error) {
			res, err := next(ctx, method, req)
			if err == nil {
				w.mu.Lock()
				ttl := w.ttl
				w.mu.Unlock()
				switch r := res.(type) {
				case *ListToolsResult:
					r.TTLMs = ttl
				case *ListPromptsResult:
					r.TTLMs = ttl
				case *ListResourcesResult:
					r.TTLMs = ttl
				case *ListResourceTemplatesResult:
					r.TTLMs = ttl
				case *ReadResourceResult:
					r.TTLMs = ttl
				}
			}
			return res, err
		}
	})
	// Schedule point "right after the acknowledgement write": the goroutine that runs a
	// subscriptions/listen handler is parked once notifySubscriptionAcked's write has returned (the
	// client has the ack), holding no lock, until the `ackdone` label. Whatever the handler still has
	// to do after acknowledging happens after every label scheduled into that window.
	w.s.AddSendingMiddleware(func(next MethodHandler) MethodHandler {
		return func(ctx context.Context, method string, req Request) (Result, error) {
			res, err := next(ctx, method, req)
			if method != notificationSubscriptionsAck || err != nil {
				return res, err
			}
			ss, _ := req.GetSession().(*ServerSession)
			var ch chan struct{}
			w.mu.Lock()
			for _, sl := range w.slots {
				if sl != nil && sl.ss == ss && sl.holdNext {
					sl.holdNext = false
					ch = make(chan struct{})
					sl.ackParked[sl.ackWant] = ch
				}
			}
			w.mu.Unlock()
			if ch != nil {
				<-ch
			}
			return res, err
		}
	})
	// Schedule points inside the fan-out loop of notifySessions: while the harness is stepping the
	// fan-out of a kind (`cbrun <kind> step`, `fsend <kind>`), every list-changed send of that kind
	// parks BEFORE the write (a transport whose write blocks, a slow sending middleware), holding no
	// lock; `fsend` lets it go on. And: a server that reports a sub-resource (`rupdated u<j> names u<k>`).
	w.s.AddSendingMiddleware(func(next MethodHandler) MethodHandler {
		return func(ctx context.Context, method string, req Request) (Result, error) {
			if k := nfKindOfMethod(method); k != "" {
				var ch chan struct{}
				w.mu.Lock()
				if w.stepKind == k {
					ss, _ := req.GetSession().(*ServerSession)
					ch = make(chan struct{})
					w.fanParked[k] = &nfFanSend{ch: ch, ss: ss}
				}
				w.mu.Unlock()
				if ch != nil {
					<-ch
				}
			}
			if method == notificationResourceUpdated {
				w.mu.Lock()
				v := w.renameTo
				w.mu.Unlock()
				if p, ok := req.GetParams().(*ResourceUpdatedNotificationParams); ok && p != nil && v >= 0 {
					q := *p
					q.URI = nfURI(v)
					ss, _ := req.GetSession().(*ServerSession)
					req = &ServerRequest[*ResourceUpdatedNotificationParams]{Session: ss, Params: &q}
				}
			}
			return next(ctx, method, req)
		}
	})
	// two permanent resources whose content the harness versions
	for i := 0; i < 2; i++ {
		i := i
		w.s.AddResource(&Resource{URI: nfURI(i), Name: fmt.Sprintf("u%d", i)}, func(context.Context, *ReadResourceRequest) (*ReadResourceResult, error) {
			w.mu.Lock()
			v := w.content[i]
			w.mu.Unlock()
			return &ReadResourceResult{Contents: []*ResourceContents{{URI: nfURI(i), Text: fmt.Sprintf("v%d", v)}}}, nil
		})
	}
	w.win = map[string]*nfWindow{}
	for _, fs := range nfSets {
		nw := &nfWindow{lo: 1, hi: 0, desc: map[int]int{}, byText: map[string]int{}}
		if fs == "resources" {
			nw.ver = 2
		}
		nw.byText[nw.text("")] = nw.ver
		w.win[fs] = nw
	}
}

// change performs one feature-set mutation through the public API.
func (w *nfWorld) change(fs, eff string) string {
	nw := w.win[fs]
	switch eff {
	case "add":
		nw.hi++
		w.descCtr++
		nw.desc[nw.hi] = w.descCtr
		w.addFeature(fs, nw.hi, w.descCtr)
	case "replace":
		if nw.hi < nw.lo {
			return "refused"
		}
		w.descCtr++
		nw.desc[nw.hi] = w.descCtr
		w.addFeature(fs, nw.hi, w.descCtr)
	case "remove":
		if nw.hi < nw.lo {
			return "refused"
		}
		w.removeFeature(fs, nw.lo)
		delete(nw.desc, nw.lo)
		nw.lo++
	case "noop":
		w.removeFeature(fs, 1_000_000)
		return "ok"
	default:
		return "bad-op"
	}
	nw.ver++
	nw.byText[nw.text("")] = nw.ver
	return "ok"
}

// removeNames performs ONE Remove*(names...) call through the public API. pattern: p = the next registered
// feature (w<lo>, w<lo+1>, ...), a = a name that was never registered, d = a name already named in this call
// (removed by the time featureSet.remove reaches it). The call is a change iff the pattern has a p.
func (w *nfWorld) removeNames(fs, pattern string) string {
	nw := w.win[fs]
	var names []string
	np := 0
	nameOf := func(n int) string {
		switch fs {
		case "resources":
			return fmt.Sprintf("file:///w/w%d", n)
		case "templates":
			return fmt.Sprintf("tmpl://w%d/{x}", n)
		}
		return fmt.Sprintf("w%d", n)
	}
	for _, c := range pattern {
		switch c {
		case 'p':
			if nw.lo+np > nw.hi {
				return "refused"
			}
			names = append(names, nameOf(nw.lo+np))
			np++
		case 'a':
			w.descCtr++
			names = append(names, fmt.Sprintf("never-registered-%d", w.descCtr))
		case 'd':
			if len(names) == 0 {
				return "bad-op"
			}
			names = append(names, names[len(names)-1])
		default:
			return "bad-op"
		}
	}
	if len(names) == 0 {
		return "bad-op"
	}
	switch fs {
	case "tools":
		w.s.RemoveTools(names...)
	case "prompts":
		w.s.RemovePrompts(names...)
	case "resources":
		w.s.RemoveResources(names...)
	case "templates":
		w.s.RemoveResourceTemplates(names...)
	default:
		return "bad-op"
	}
	if np == 0 {
		return "ok"
	}
	for j := 0; j < np; j++ {
		delete(nw.desc, nw.lo)
		nw.lo++
	}
	nw.ver++
	nw.byText[nw.text("")] = nw.ver
	return "ok"
}

func (w *nfWorld) addFeature(fs string, n, d int) {
	name, desc := fmt.Sprintf("w%d", n), fmt.Sprintf("d%d", d)
	switch fs {
	case "tools":
		w.s.AddTool(&Tool{Name: name, Description: desc, InputSchema: &jsonschema.Schema{Type: "object"}}, nil)
	case "prompts":
		w.s.AddPrompt(&Prompt{Name: name, Description: desc}, nil)
	case "resources":
		w.s.AddResource(&Resource{URI: "file:///w/" + name, Name: name, Description: desc}, nil)
	case "templates":
		w.s.AddResourceTemplate(&ResourceTemplate{URITemplate: "tmpl://" + name + "/{x}", Name: name, Description: desc}, nil)
	}
}

func (w *nfWorld) removeFeature(fs string, n int) {
	name := fmt.Sprintf("w%d", n)
	switch fs {
	case "tools":
		w.s.RemoveTools(name)
	case "prompts":
		w.s.RemovePrompts(name)
	case "resources":
		w.s.RemoveResources("file:///w/" + name)
	case "templates":
		w.s.RemoveResourceTemplates("tmpl://" + name + "/{x}")
	}
}

// ---- clients

func nfStamp(sl *nfSlot, meta Meta) string {
	if meta == nil {
		return "plain"
	}
	raw, ok := meta[MetaKeySubscriptionID]
	if !ok {
		return "plain"
	}
	if n, ok := sl.ids[fmt.Sprint(raw)]; ok {
		return n
	}
	return "x"
}

func (w *nfWorld) setHK(sl *nfSlot, hk string) {
	w.mu.Lock()
	defer w.mu.Unlock()
	for i := len(w.events) - 1; i >= 0; i-- {
		if w.events[i].slot == sl.idx {
			w.events[i].hk = hk
			return
		}
	}
}

func nfListKey(method string, req Request) string {
	switch method {
	case methodListTools:
		return "tools"
	case methodListPrompts:
		return "prompts"
	case methodListResources:
		return "resources"
	case methodListResourceTemplates:
		return "templates"
	case methodReadResource:
		if p, ok := req.GetParams().(*ReadResourceParams); ok && p != nil {
			return fmt.Sprintf("read:%d", nfURIIndex(p.URI))
		}
		return "read:?"
	}
	return ""
}

func (w *nfWorld) newClient(sl *nfSlot) {
	opts := &ClientOptions{
		ResourceUpdatedHandler: func(_ context.Context, req *ResourceUpdatedNotificationRequest) {
			w.setHK(sl, fmt.Sprintf("u%d", nfURIIndex(req.Params.URI)))
		},
	}
	if strings.Contains(sl.mask, "t") {
		opts.ToolListChangedHandler = func(context.Context, *ToolListChangedRequest) { w.setHK(sl, "t") }
	}
	if strings.Contains(sl.mask, "p") {
		opts.PromptListChangedHandler = func(context.Context, *PromptListChangedRequest) { w.setHK(sl, "p") }
	}
	if strings.Contains(sl.mask, "r") {
		opts.ResourceListChangedHandler = func(context.Context, *ResourceListChangedRequest) { w.setHK(sl, "r") }
	}
	c := NewClient(&Implementation{Name: fmt.Sprintf("verif-client-%d", sl.idx), Version: "1"}, opts)
	c.AddReceivingMiddleware(func(next MethodHandler) MethodHandler {
		return func(ctx context.Context, method string, req Request) (Result, error) {
			switch method {
			case notificationSubscriptionsAck:
				if cr, ok := req.(*ClientRequest[*SubscriptionsAcknowledgedParams]); ok && cr.Params != nil {
					w.mu.Lock()
					id := fmt.Sprint(cr.Params.Meta[MetaKeySubscriptionID])
					sl.ids[id] = sl.ackWant
					a := cr.Params.Notifications
					ks := ""
					if a.ToolsListChanged {
						ks += "t"
					}
					if a.PromptsListChanged {
						ks += "p"
					}
					if a.ResourcesListChanged {
						ks += "r"
					}
					if ks == "" {
						ks = "-"
					}
					var us []string
					for _, u := range a.ResourceSubscriptions {
						us = append(us, fmt.Sprintf("u%d", nfURIIndex(u)))
					}
					sort.Strings(us)
					sl.lastAck = strings.TrimSpace("ack " + ks + " " + strings.Join(us, " "))
					w.mu.Unlock()
				}
			case notificationToolListChanged, notificationPromptListChanged, notificationResourceListChanged, notificationResourceUpdated:
				var meta Meta
				if p := req.GetParams(); p != nil && !p.isNil() {
					meta = p.GetMeta()
				}
				w.mu.Lock()
				w.events = append(w.events, nfEvent{slot: sl.idx, method: method, stamp: nfStamp(sl, meta), hk: "-"})
				w.mu.Unlock()
			}
			return next(ctx, method, req)
		}
	})
	c.AddSendingMiddleware(func(next MethodHandler) MethodHandler {
		return func(ctx context.Context, method string, req Request) (Result, error) {
			if method == methodSubscriptionsListen {
				w.mu.Lock()
				g := sl.listenGate
				w.mu.Unlock()
				if g != nil {
					<-g
				}
				return next(ctx, method, req)
			}
			key := nfListKey(method, req)
			if key == "" {
				return next(ctx, method, req)
			}
			w.mu.Lock()
			sl.reached[key] = true
			h := sl.held[key]
			if h != nil && h.phase != "" {
				h = nil // a second, unheld call for the same key
			}
			var pre chan struct{}
			if h != nil {
				pre = h.pre
				if pre != nil {
					h.phase = "pre"
				} else {
					h.phase = "flight"
				}
			}
			w.mu.Unlock()
			if pre != nil {
				<-pre
			}
			res, err := next(ctx, method, req)
			if h != nil {
				w.mu.Lock()
				h.phase = "held"
				h.arrived = w.versionOf(key, res, err)
				w.mu.Unlock()
				<-h.post
			}
			return res, err
		}
	})
	sl.client = c
}

// versionOf maps a list/read result to the server version it shows ("v?" = no state the server ever had).
// Caller holds w.mu.
func (w *nfWorld) versionOf(key string, res Result, err error) string {
	if err != nil {
		return "err"
	}
	look := func(fs string, parts []string, extra string) string {
		sort.Strings(parts)
		if v, ok := w.win[fs].byText[extra+strings.Join(parts, ",")]; ok {
			return fmt.Sprintf("v%d", v)
		}
		return "v?"
	}
	switch r := res.(type) {
	case *ListToolsResult:
		var p []string
		for _, t := range r.Tools {
			p = append(p, t.Name+"="+t.Description)
		}
		return look("tools", p, "")
	case *ListPromptsResult:
		var p []string
		for _, t := range r.Prompts {
			p = append(p, t.Name+"="+t.Description)
		}
		return look("prompts", p, "")
	case *ListResourcesResult:
		var p []string
		base := 0
		for _, t := range r.Resources {
			if nfURIIndex(t.URI) >= 0 {
				base++
				continue
			}
			p = append(p, t.Name+"="+t.Description)
		}
		if base != 2 {
			return "v?"
		}
		return look("resources", p, "")
	case *ListResourceTemplatesResult:
		var p []string
		for _, t := range r.ResourceTemplates {
			p = append(p, t.Name+"="+t.Description)
		}
		return look("templates", p, "")
	case *ReadResourceResult:
		if len(r.Contents) == 1 && strings.HasPrefix(r.Contents[0].Text, "v") {
			return r.Contents[0].Text
		}
		return "v?"
	}
	return "v?"
}

func (w *nfWorld) call(sl *nfSlot, key string) (Result, error) {
	ctx := context.Background()
	switch key {
	case "tools":
		return sl.cs.ListTools(ctx, nil)
	case "prompts":
		return sl.cs.ListPrompts(ctx, nil)
	case "resources":
		return sl.cs.ListResources(ctx, nil)
	case "templates":
		return sl.cs.ListResourceTemplates(ctx, nil)
	case "read:0", "read:1":
		i, _ := strconv.Atoi(key[5:])
		return sl.cs.ReadResource(ctx, &ReadResourceParams{URI: nfURI(i)})
	}
	return nil, fmt.Errorf("bad key")
}

// ---- events

func (w *nfWorld) takeEvents() []nfEvent {
	w.mu.Lock()
	defer w.mu.Unlock()
	ev := w.events
	w.events = nil
	return ev
}

func nfTokens(ev []nfEvent) string {
	var toks []string
	for _, e := range ev {
		toks = append(toks, fmt.Sprintf("c%d:%s:%s:%s", e.slot, e.method, e.stamp, e.hk))
	}
	sort.Strings(toks)
	return strings.Join(toks, " ")
}

func (w *nfWorld) sent(ev []nfEvent) string {
	return strings.TrimSpace(fmt.Sprintf("sent@%d %s", w.now(), nfTokens(ev)))
}

// withStray appends anything that arrived although the label does not deliver notifications.
func (w *nfWorld) withStray(obs string) string {
	if ev := w.takeEvents(); len(ev) > 0 {
		return obs + " stray " + nfTokens(ev)
	}
	return obs
}

func (w *nfWorld) tracked(kind string) bool {
	w.s.mu.Lock()
	defer w.s.mu.Unlock()
	return w.s.pendingNotifications[nfNotification(kind)] != nil
}

func (w *nfWorld) tables() string {
	w.s.mu.Lock()
	defer w.s.mu.Unlock()
	idName := func(ss *ServerSession, id any) string {
		for _, sl := range w.slots {
			if sl != nil && sl.ss == ss {
				if !sl.modern {
					return "q"
				}
				if n, ok := sl.ids[fmt.Sprint(id)]; ok {
					return n
				}
				return "x"
			}
		}
		return "x"
	}
	dump := func(m map[*ServerSession]jsonrpc.ID) string {
		var p []string
		for ss, id := range m {
			p = append(p, w.slotOfSS(ss)+"="+idName(ss, id.Raw()))
		}
		sort.Strings(p)
		return "[" + strings.Join(p, " ") + "]"
	}
	out := "T" + dump(w.s.toolChangeSubscriptions) + " P" + dump(w.s.promptChangeSubscriptions) + " R" + dump(w.s.resourceChangeSubscriptions)
	for i := 0; i < 3; i++ {
		out += fmt.Sprintf(" U%d", i) + dump(w.s.resourceSubscriptions[nfURI(i)])
	}
	var sess []string
	for _, ss := range w.s.sessions {
		sess = append(sess, w.slotOfSS(ss))
	}
	sort.Strings(sess)
	return out + " S[" + strings.Join(sess, " ") + "]"
}

// ---- one label

func (w *nfWorld) apply(toks []string) (obs string) {
	defer func() {
		if r := recover(); r != nil {
			obs = "panic"
		}
	}()
	slot := func(i int) (*nfSlot, bool) {
		if len(toks) <= i || len(toks[i]) != 2 || toks[i][0] != 'c' || toks[i][1] < '0' || toks[i][1] > '2' {
			return nil, false
		}
		return w.slots[toks[i][1]-'0'], true
	}
	switch toks[0] {
	case "config":
		if len(toks) == 6 && toks[5] == "nohandlers" {
			// a server without Subscribe/UnsubscribeHandler whose explicit capabilities still say
			// resources.subscribe (with inferred capabilities `subscribe` is simply not advertised and no URI is
			// ever granted: that mode needs the resources capability set)
			if toks[3] == "unset" || w.s != nil {
				return "bad-op"
			}
			w.noHandlers = true
		} else if len(toks) != 5 {
			return "bad-op"
		}
		w.newServer(toks[1], toks[2], toks[3])
		// toks[4] (hook0|hook1) states what the harness detected; it is an input of the model
		return "ok"
	case "ttl":
		n, _ := strconv.Atoi(toks[1])
		w.mu.Lock()
		w.ttl = n
		w.mu.Unlock()
		return "ok"
	case "change":
		var obs string
		if toks[2] == "rm" && len(toks) == 4 {
			obs = w.removeNames(toks[1], toks[3])
		} else {
			obs = w.change(toks[1], toks[2])
		}
		synctest.Wait()
		return w.withStray(obs)
	case "advance":
		d, _ := strconv.Atoi(toks[1])
		time.Sleep(time.Duration(d) * time.Millisecond)
		synctest.Wait()
		if !w.hook {
			return "ok" // hook-less tree: the callbacks have run; the caller emits their records
		}
		w.mu.Lock()
		f := w.fired
		w.fired = nil
		w.mu.Unlock()
		sort.Slice(f, func(i, j int) bool { return nfKindIndex(f[i]) < nfKindIndex(f[j]) })
		return w.withStray(strings.TrimSpace("fired " + strings.Join(f, " ")))
	case "cbrun":
		step := len(toks) == 3 && toks[2] == "step"
		if len(toks) > 3 || (len(toks) == 3 && !step) {
			return "bad-op"
		}
		k := toks[1]
		w.mu.Lock()
		if step && (!w.hook || w.fanParked[k] != nil) {
			w.mu.Unlock()
			return "refused" // no schedule point before the snapshot, or a held fan-out of the kind is in progress
		}
		q := w.parked[k]
		if len(q) == 0 {
			w.mu.Unlock()
			return "none"
		}
		w.parked[k] = q[1:]
		if step {
			w.stepKind = k
		}
		w.mu.Unlock()
		close(q[0])
		synctest.Wait()
		if !step {
			return w.sent(w.takeEvents())
		}
		w.mu.Lock()
		w.stepKind = ""
		open := w.fanParked[k] != nil
		w.mu.Unlock()
		if open {
			return w.withStray("fan open")
		}
		return w.withStray("fan done")
	case "fsend":
		// the write the held fan-out of that kind is blocked in goes on; the loop runs to its next write
		if len(toks) != 2 {
			return "bad-op"
		}
		k := toks[1]
		w.mu.Lock()
		fp := w.fanParked[k]
		if fp == nil {
			w.mu.Unlock()
			return "refused"
		}
		delete(w.fanParked, k)
		w.stepKind = k
		w.mu.Unlock()
		addr := w.slotOfSS(fp.ss)
		close(fp.ch)
		synctest.Wait()
		w.mu.Lock()
		w.stepKind = ""
		more := w.fanParked[k] != nil
		w.mu.Unlock()
		obs := addr + " " + w.sent(w.takeEvents())
		if more {
			return obs + " more"
		}
		return obs + " done"
	case "policy":
		if len(toks) != 3 || !strings.HasPrefix(toks[1], "u") || (toks[2] != "refuse" && toks[2] != "accept") {
			return "bad-op"
		}
		u, err := strconv.Atoi(toks[1][1:])
		if err != nil {
			return "bad-op"
		}
		w.mu.Lock()
		if toks[2] == "refuse" {
			w.refuse[u] = true
		} else {
			delete(w.refuse, u)
		}
		w.mu.Unlock()
		return "ok"
	case "connect":
		i := int(toks[1][1] - '0')
		if w.slots[i] != nil {
			return "refused"
		}
		sid, _ := strconv.Atoi(toks[2])
		sl := &nfSlot{idx: i, sid: sid, modern: toks[3] == "modern", mask: toks[4], ids: map[string]string{},
			rsubs: map[int]bool{}, held: map[string]*nfHeld{}, reached: map[string]bool{}, ackWant: "m",
			ackParked: map[string]chan struct{}{}, live: map[string]bool{}, xl: map[string]context.CancelFunc{},
			grant: map[string][]string{}, cancelParked: map[string]chan struct{}{}, unsubMode: map[string]bool{}}
		w.newClient(sl)
		ct, st := NewInMemoryTransports()
		ss, err := w.s.Connect(context.Background(), st, nil)
		if err != nil {
			return "err"
		}
		sl.ss = ss
		ver := protocolVersion20251125
		if sl.modern {
			ver = protocolVersion20260728
			if strings.Trim(sl.mask, "-") != "" {
				sl.listenGate = make(chan struct{})
			}
		}
		sl.connDone = make(chan error, 1)
		w.slots[i] = sl
		go func() {
			cs, err := sl.client.Connect(context.Background(), &nfHoldTransport{inner: ct, w: w, sl: sl}, &ClientSessionOptions{ProtocolVersion: ver})
			w.mu.Lock()
			sl.cs = cs
			w.mu.Unlock()
			sl.connDone <- err
		}()
		synctest.Wait()
		if sl.listenGate != nil {
			return w.withStray("ok listen-held")
		}
		if err := <-sl.connDone; err != nil {
			return "err"
		}
		sl.connected = true
		return w.withStray("ok")
	case "listen":
		sl, ok := slot(1)
		hold := len(toks) == 3 && toks[2] == "hold"
		if !ok || len(toks) > 3 || (len(toks) == 3 && !hold) {
			return "bad-op"
		}
		if sl == nil || sl.listenGate == nil {
			return "refused"
		}
		w.mu.Lock()
		g := sl.listenGate
		sl.listenGate = nil
		sl.ackWant = "m"
		sl.lastAck = "noack"
		sl.holdNext = hold
		w.mu.Unlock()
		close(g)
		synctest.Wait()
		if err := <-sl.connDone; err != nil {
			return "err"
		}
		sl.connected = true
		w.mu.Lock()
		a := sl.lastAck
		sl.holdNext = false
		sl.live["m"] = a != "noack" && a != "ack -"
		w.xtag = sl.opened("m", a)
		if sl.ackParked["m"] != nil {
			a += " parked"
		}
		w.mu.Unlock()
		return w.withStray(a)
	case "xlisten":
		// xlisten c<i> L<n> <mask|-> [u<j>] [hold]: a further subscriptions/listen of the session, opened
		// below the public API (ClientSession opens one list-changed listen per session and one per URI)
		sl, ok := slot(1)
		if !ok || len(toks) < 4 || len(toks) > 9 {
			return "bad-op"
		}
		name, mask, rest := toks[2], toks[3], toks[4:]
		var uris []int
		seenURI := map[int]bool{}
		dupURI := false
		for len(rest) > 0 && strings.HasPrefix(rest[0], "u") {
			n, err := strconv.Atoi(rest[0][1:])
			if err != nil {
				return "bad-op"
			}
			if seenURI[n] {
				dupURI = true
			}
			seenURI[n] = true
			uris, rest = append(uris, n), rest[1:]
		}
		hold := len(rest) == 1 && rest[0] == "hold"
		if len(rest) > 1 || (len(rest) == 1 && !hold) {
			return "bad-op"
		}
		if name != "m" {
			if n, err := strconv.Atoi(strings.TrimPrefix(name, "L")); err != nil || !strings.HasPrefix(name, "L") || n < 0 {
				return "bad-op"
			}
		}
		subs := &NotificationSubscriptions{
			ToolsListChanged:     strings.Contains(mask, "t"),
			PromptsListChanged:   strings.Contains(mask, "p"),
			ResourcesListChanged: strings.Contains(mask, "r"),
		}
		if sl == nil || !sl.connected || !sl.modern || name == "m" || dupURI || sl.live[name] {
			return "refused"
		}
		w.mu.Lock()
		held := sl.ackParked[name]
		heldC := sl.cancelParked[name]
		w.mu.Unlock()
		if held != nil || heldC != nil {
			return "refused" // a handler of that name (granted nothing) is still held after its ack write
		}
		for _, u := range uris {
			subs.ResourceSubscriptions = append(subs.ResourceSubscriptions, nfURI(u))
		}
		w.mu.Lock()
		sl.ackWant = name
		sl.lastAck = "noack"
		sl.holdNext = hold
		w.mu.Unlock()
		lctx, cancel := context.WithCancel(context.Background())
		if err := sl.cs.subscriptionsListen(lctx, &SubscriptionsListenParams{Notifications: subs}); err != nil {
			cancel()
			return "err"
		}
		synctest.Wait()
		w.mu.Lock()
		a := sl.lastAck
		sl.holdNext = false
		if a != "noack" && a != "ack -" {
			sl.live[name] = true
			sl.xl[name] = cancel
			w.xtag = sl.opened(name, a)
		}
		if sl.ackParked[name] != nil {
			a += " parked"
		}
		w.mu.Unlock()
		if !sl.live[name] {
			// granted nothing, or refused by the SubscribeHandler: the call is over; retire it
			cancel()
			synctest.Wait()
		}
		return w.withStray(a)
	case "xend":
		// xend c<i> <m|L<n>>: the client cancels that listen; its handler on the server ends
		sl, ok := slot(1)
		park := len(toks) == 4 && toks[3] == "park"
		holdC := len(toks) == 4 && (toks[3] == "hold" || park)
		if !ok || len(toks) < 3 || len(toks) > 4 || (len(toks) == 4 && !holdC) {
			return "bad-op"
		}
		name := toks[2]
		if park && (sl == nil || !sl.grantsURI(name)) {
			return "bad-op" // only the end of a stream that was granted a URI calls the UnsubscribeHandler
		}
		if name != "m" {
			if _, err := strconv.Atoi(strings.TrimPrefix(name, "L")); err != nil || !strings.HasPrefix(name, "L") {
				return "bad-op"
			}
		}
		if sl == nil || !sl.connected || !sl.modern {
			return "refused"
		}
		w.mu.Lock()
		p := sl.ackParked[name]
		pc := sl.cancelParked[name]
		w.mu.Unlock()
		if p != nil || pc != nil || !sl.live[name] {
			return "refused"
		}
		if holdC {
			w.mu.Lock()
			if park {
				sl.parkUnsub = name
			} else {
				sl.holdCancel = name
			}
			w.mu.Unlock()
		}
		if name == "m" {
			sl.cs.listenCancel()
		} else {
			sl.xl[name]()
			delete(sl.xl, name)
		}
		synctest.Wait()
		if holdC {
			w.mu.Lock()
			parked := sl.cancelParked[name] != nil
			sl.holdCancel = ""
			sl.parkUnsub = ""
			w.mu.Unlock()
			if parked && park {
				return w.withStray("ok unsub-held")
			}
			if parked {
				return w.withStray("ok cancel-held")
			}
		}
		delete(sl.live, name)
		w.xtag = sl.endedListen(name)
		return w.withStray("ok")
	case "canceldone", "unsubdone":
		// canceldone c<i> <m|r<j>|L<n>>: the held notifications/cancelled of that listen is written
		// unsubdone  c<i> <r<j>|L<n>>: the UnsubscribeHandler call the clean-up of that listen is parked in returns
		sl, ok := slot(1)
		if !ok || len(toks) != 3 {
			return "bad-op"
		}
		if sl == nil {
			return "refused"
		}
		name := toks[2]
		w.mu.Lock()
		ch := sl.cancelParked[name]
		if ch != nil && sl.unsubMode[name] != (toks[0] == "unsubdone") {
			w.mu.Unlock()
			return "bad-op"
		}
		delete(sl.cancelParked, name)
		delete(sl.unsubMode, name)
		w.mu.Unlock()
		if ch == nil {
			return "refused"
		}
		close(ch)
		synctest.Wait()
		delete(sl.live, name)
		w.xtag = sl.endedListen(name)
		return w.withStray("ok")
	case "subscribe", "unsubscribe":
		sl, ok := slot(1)
		park := len(toks) == 4 && toks[3] == "park" && toks[0] == "unsubscribe"
		hold := len(toks) == 4 && (toks[3] == "hold" || park)
		if !ok || len(toks) < 3 || len(toks) > 4 || (len(toks) == 4 && !hold) {
			return "bad-op"
		}
		if sl == nil || !sl.connected {
			return "refused"
		}
		u, _ := strconv.Atoi(strings.TrimPrefix(toks[2], "u"))
		var err error
		obs := "ok"
		name := fmt.Sprintf("r%d", u)
		if park && !sl.grantsURI(name) {
			return "bad-op" // only the end of a stream that was granted a URI calls the UnsubscribeHandler
		}
		w.mu.Lock()
		pa := sl.ackParked[name]
		pc := sl.cancelParked[name]
		w.mu.Unlock()
		if toks[0] == "subscribe" {
			if hold && !sl.modern {
				return "refused"
			}
			if sl.modern && pc != nil {
				return "refused" // the stream ClientSession.Unsubscribe cancelled is still open on the server
			}
			was := sl.rsubs[u]
			w.mu.Lock()
			sl.ackWant = name
			sl.lastAck = "noack"
			sl.holdNext = hold && !was
			w.mu.Unlock()
			err = sl.cs.Subscribe(context.Background(), &SubscribeParams{URI: nfURI(u)})
			synctest.Wait()
			if sl.modern {
				if was {
					obs = "noop"
				} else {
					sl.rsubs[u] = true
					w.mu.Lock()
					obs = sl.lastAck
					w.xtag = sl.opened(name, obs)
					sl.holdNext = false
					if sl.ackParked[name] != nil {
						obs += " parked"
					}
					w.mu.Unlock()
				}
			}
		} else {
			if pa != nil || pc != nil {
				return "refused" // the handler that would see the cancellation is held, or a cancellation is already on its way
			}
			if hold && (!sl.modern || !sl.rsubs[u]) {
				return "refused"
			}
			if hold {
				w.mu.Lock()
				if park {
					sl.parkUnsub = name
				} else {
					sl.holdCancel = name
				}
				w.mu.Unlock()
			}
			err = sl.cs.Unsubscribe(context.Background(), &UnsubscribeParams{URI: nfURI(u)})
			synctest.Wait()
			if err == nil || sl.modern {
				delete(sl.rsubs, u)
			}
			held := false
			if hold {
				w.mu.Lock()
				held = sl.cancelParked[name] != nil
				sl.holdCancel = ""
				sl.parkUnsub = ""
				w.mu.Unlock()
			}
			if held && park {
				obs = "ok unsub-held"
			} else if held {
				obs = "ok cancel-held"
			} else if sl.modern {
				w.xtag = sl.endedListen(name)
			}
		}
		if err != nil {
			obs = "err"
		}
		return w.withStray(obs)
	case "close":
		sl, ok := slot(1)
		if !ok || sl == nil || !sl.connected || len(sl.held) > 0 || len(sl.ackParked) > 0 || len(sl.cancelParked) > 0 {
			return "refused"
		}
		if len(toks) == 3 && toks[2] == "drop" {
			// the connection is cut under the client: no notifications/cancelled for its open listens, no
			// orderly ClientSession.Close; the server reads EOF, the handlers of the open
			// subscriptions/listen streams are cancelled by the connection, their clean-up runs, then
			// Server.disconnect
			w.mu.Lock()
			raw := sl.raw
			w.mu.Unlock()
			if raw == nil {
				return "refused"
			}
			raw.Connection.Close()
			synctest.Wait()
			// the server session must end by itself; if it does not (a parked handler that nothing cancels
			// keeps the connection from becoming idle) the harness reports it instead of deadlocking
			ended := make(chan struct{})
			go func() { sl.ss.Wait(); close(ended) }()
			obs := "ok"
			select {
			case <-ended:
			case <-time.After(time.Hour):
				obs = "hung"
			}
			for _, cancel := range sl.xl {
				cancel()
			}
			sl.cs.Close()
			synctest.Wait()
			w.closed[sl.ss] = sl.sid
			w.slots[sl.idx] = nil
			return w.withStray(obs)
		} else if len(toks) != 2 {
			return "bad-op"
		}
		// the raw listens are outstanding calls of the connection: like ClientSession.Close does for the
		// listens it opened itself, cancel them first (jsonrpc2's Close waits for outstanding calls)
		for _, cancel := range sl.xl {
			cancel()
		}
		synctest.Wait()
		sl.cs.Close()
		synctest.Wait()
		sl.ss.Wait()
		w.closed[sl.ss] = sl.sid
		w.slots[sl.idx] = nil
		return w.withStray("ok")
	case "ackdone":
		sl, ok := slot(1)
		if !ok || len(toks) != 3 {
			return "bad-op"
		}
		if sl == nil {
			return "refused"
		}
		w.mu.Lock()
		ch := sl.ackParked[toks[2]]
		delete(sl.ackParked, toks[2])
		w.mu.Unlock()
		if ch == nil {
			return "refused"
		}
		close(ch)
		synctest.Wait()
		return w.withStray("ok")
	case "rupdated":
		// rupdated u<j> [names u<k>]: ResourceUpdated(u<j>); with `names` the notification the subscribers
		// get names u<k> (whose content is what changed): a server that reports sub-resources
		if len(toks) != 2 && !(len(toks) == 4 && toks[2] == "names") {
			return "bad-op"
		}
		u, err := strconv.Atoi(strings.TrimPrefix(toks[1], "u"))
		if err != nil || u < 0 || u > 2 {
			return "bad-op"
		}
		v := u
		if len(toks) == 4 {
			if v, err = strconv.Atoi(strings.TrimPrefix(toks[3], "u")); err != nil || v < 0 || v > 2 {
				return "bad-op"
			}
		}
		w.mu.Lock()
		w.content[v]++
		if len(toks) == 4 {
			w.renameTo = v
		}
		w.mu.Unlock()
		err = w.s.ResourceUpdated(context.Background(), &ResourceUpdatedNotificationParams{URI: nfURI(u)})
		synctest.Wait()
		w.mu.Lock()
		w.renameTo = -1
		w.mu.Unlock()
		if err != nil {
			return "err"
		}
		return w.sent(w.takeEvents())
	case "list":
		sl, ok := slot(1)
		if !ok || sl == nil || !sl.connected || len(toks) != 4 {
			return "refused"
		}
		key := toks[2]
		if sl.held[key] != nil {
			return "refused"
		}
		w.mu.Lock()
		sl.reached[key] = false
		if w.everListed == nil {
			w.everListed = map[string]bool{}
		}
		w.everListed[key] = true
		w.mu.Unlock()
		if toks[3] == "n" {
			res, err := w.call(sl, key)
			synctest.Wait()
			w.mu.Lock()
			v := w.versionOf(key, res, err)
			hit := !sl.reached[key]
			w.mu.Unlock()
			return w.withStray(nfRet(v, hit))
		}
		h := &nfHeld{post: make(chan struct{}), done: make(chan struct{})}
		if toks[3] == "pre" {
			h.pre = make(chan struct{})
		}
		w.mu.Lock()
		sl.held[key] = h
		w.mu.Unlock()
		go func() {
			res, err := w.call(sl, key)
			w.mu.Lock()
			h.result = w.versionOf(key, res, err)
			if h.phase == "" {
				h.phase = "hit"
			} else {
				h.phase = "done"
			}
			w.mu.Unlock()
			close(h.done)
		}()
		synctest.Wait()
		w.mu.Lock()
		defer w.mu.Unlock()
		switch h.phase {
		case "hit":
			delete(sl.held, key)
			return nfRet(h.result, true)
		case "pre":
			return "pre"
		case "held":
			return "held " + h.arrived
		}
		return "stuck " + h.phase
	case "send":
		sl, ok := slot(1)
		if !ok || sl == nil {
			return "refused"
		}
		h := sl.held[toks[2]]
		if h == nil || h.phase != "pre" {
			return "refused"
		}
		close(h.pre)
		synctest.Wait()
		w.mu.Lock()
		defer w.mu.Unlock()
		if h.phase == "held" {
			return "held " + h.arrived
		}
		return "stuck " + h.phase
	case "fill":
		sl, ok := slot(1)
		if !ok || sl == nil {
			return "refused"
		}
		h := sl.held[toks[2]]
		if h == nil || h.phase != "held" {
			return "refused"
		}
		close(h.post)
		synctest.Wait()
		<-h.done
		w.mu.Lock()
		delete(sl.held, toks[2])
		r := h.result
		w.mu.Unlock()
		return w.withStray(nfRet(r, false))
	case "tables":
		return w.tables()
	case "end":
		return w.withStray("ok")
	}
	return "bad-op"
}

// ackWindows lists the listen handlers that are held right after their ack write, as "c<i> <name>".
func (w *nfWorld) ackWindows() []string {
	w.mu.Lock()
	defer w.mu.Unlock()
	var out []string
	for i, sl := range w.slots {
		if sl == nil {
			continue
		}
		var names []string
		for n := range sl.ackParked {
			names = append(names, n)
		}
		sort.Strings(names)
		for _, n := range names {
			out = append(out, fmt.Sprintf("c%d %s", i, n))
		}
	}
	return out
}

// cancelWindows lists the listens whose cancellation is held in the client's transport, as "c<i> <name>".
func (w *nfWorld) cancelWindows() []string {
	w.mu.Lock()
	defer w.mu.Unlock()
	var out []string
	for i, sl := range w.slots {
		if sl == nil {
			continue
		}
		var names []string
		for n := range sl.cancelParked {
			names = append(names, n)
		}
		sort.Strings(names)
		for _, n := range names {
			out = append(out, fmt.Sprintf("c%d %s", i, n))
		}
	}
	return out
}

// doneOp is the label that releases the window `c<i> <name>` of cancelWindows.
func (w *nfWorld) doneOp(win string) string {
	f := strings.Fields(win)
	w.mu.Lock()
	defer w.mu.Unlock()
	if sl := w.slots[int(f[0][1]-'0')]; sl != nil && sl.unsubMode[f[1]] {
		return "unsubdone " + win
	}
	return "canceldone " + win
}

// grantsURI reports whether the live listen of that name was granted a resource subscription.
func (sl *nfSlot) grantsURI(name string) bool {
	for _, g := range sl.grant[name] {
		if strings.HasPrefix(g, "u") {
			return true
		}
	}
	return false
}

// fansOpen lists the kinds whose held fan-out is blocked in a write.
func (w *nfWorld) fansOpen() []string {
	w.mu.Lock()
	defer w.mu.Unlock()
	var out []string
	for _, k := range nfKinds {
		if w.fanParked[k] != nil {
			out = append(out, k)
		}
	}
	return out
}

func nfRet(v string, hit bool) string {
	if hit {
		return "ret " + v + " hit"
	}
	return "ret " + v + " miss"
}

func nfKindIndex(k string) int {
	for i, x := range nfKinds {
		if x == k {
			return i
		}
	}
	return 9
}

// cleanup releases everything that is parked and closes every session so that the bubble can end.
func (w *nfWorld) cleanup() {
	for _, sl := range w.slots {
		if sl == nil {
			continue
		}
		w.mu.Lock()
		if sl.listenGate != nil {
			close(sl.listenGate)
			sl.listenGate = nil
		}
		for _, h := range sl.held {
			if h.pre != nil && h.phase == "pre" {
				close(h.pre)
			}
		}
		sl.holdNext = false
		for k, ch := range sl.ackParked {
			close(ch)
			delete(sl.ackParked, k)
		}
		sl.holdCancel = ""
		sl.parkUnsub = ""
		for k, ch := range sl.cancelParked {
			close(ch)
			delete(sl.cancelParked, k)
		}
		w.mu.Unlock()
	}
	synctest.Wait()
	for rounds := 0; rounds < 8; rounds++ {
		w.mu.Lock()
		w.stepKind = ""
		n := len(w.fanParked)
		for k, fp := range w.fanParked {
			close(fp.ch)
			delete(w.fanParked, k)
		}
		w.mu.Unlock()
		if n == 0 {
			break
		}
		synctest.Wait()
	}
	for _, sl := range w.slots {
		if sl == nil {
			continue
		}
		w.mu.Lock()
		for _, h := range sl.held {
			if h.phase == "held" {
				close(h.post)
			}
		}
		w.mu.Unlock()
	}
	synctest.Wait()
	for rounds := 0; rounds < 4; rounds++ {
		time.Sleep(50 * time.Millisecond)
		synctest.Wait()
		w.mu.Lock()
		for k, q := range w.parked {
			for _, ch := range q {
				close(ch)
			}
			w.parked[k] = nil
		}
		w.mu.Unlock()
		synctest.Wait()
	}
	for _, sl := range w.slots {
		if sl == nil {
			continue
		}
		select {
		case <-sl.connDone:
		default:
		}
		for _, cancel := range sl.xl {
			cancel()
		}
		synctest.Wait()
		if sl.cs != nil {
			sl.cs.Close()
		}
		synctest.Wait()
		if sl.ss != nil {
			sl.ss.Close()
		}
	}
	synctest.Wait()
}

// ---- running a case

type nfEmit func(op, obs string, tags ...string)

func nfTag(toks []string, obs string) string {
	switch toks[0] {
	case "change":
		if toks[2] == "rm" && len(toks) == 4 {
			switch {
			case !strings.Contains(toks[3], "p"):
				return "change-rm-only-absent"
			case strings.ContainsAny(toks[3], "ad") && !strings.HasSuffix(toks[3], "p"):
				return "change-rm-mixed-last-absent"
			case strings.ContainsAny(toks[3], "ad"):
				return "change-rm-mixed"
			}
			return "change-rm-several"
		}
		return "change-" + toks[2]
	case "connect":
		return "connect-" + toks[3]
	case "listen", "subscribe", "xlisten":
		if strings.HasSuffix(obs, " parked") {
			return toks[0] + "-hold"
		}
		if obs == "noack" || obs == "err" {
			return toks[0] + "-refused-by-handler"
		}
		if toks[0] == "xlisten" && strings.Count(obs, " u") >= 2 {
			return "xlisten-multi-uri"
		}
		return toks[0]
	case "list":
		f := strings.Fields(obs)
		t := "list-" + toks[3]
		if strings.HasPrefix(toks[2], "read") {
			t = "read-" + toks[3]
		}
		if len(f) == 3 {
			t += "-" + f[2]
		}
		return t
	case "cbrun", "rupdated":
		if len(toks) == 3 && toks[2] == "step" {
			return "cbrun-step-" + strings.ReplaceAll(obs, " ", "-")
		}
		name := toks[0]
		if len(toks) == 4 && toks[2] == "names" {
			name = "rupdated-names"
		}
		if len(strings.Fields(obs)) > 1 {
			return name + "-delivered"
		}
		return name + "-nobody"
	case "fsend":
		f := strings.Fields(obs)
		if len(f) >= 3 {
			t := "fsend-" + f[len(f)-1]
			if len(f) == 3 {
				t += "-dropped"
			}
			return t
		}
		return "fsend"
	case "unsubscribe", "xend":
		if strings.HasSuffix(obs, "cancel-held") {
			return toks[0] + "-cancel-held"
		}
		if strings.HasSuffix(obs, "unsub-held") {
			return toks[0] + "-unsub-held"
		}
		return toks[0]
	case "close":
		if len(toks) == 3 {
			return "close-" + toks[2]
		}
		return toks[0]
	case "advance":
		if strings.HasPrefix(obs, "fired ") {
			return "advance-fired"
		}
		return "advance"
	}
	return toks[0]
}

// nfRunCase runs one scenario in its own bubble. next returns the next op ("" = stop); it may look at
// the world to keep the schedule meaningful.
func nfRunCase(t *testing.T, hook bool, emit nfEmit, next func(w *nfWorld, step int) string) {
	synctest.Test(t, func(t *testing.T) {
		w := &nfWorld{t0: time.Now(), hook: hook, closed: map[*ServerSession]int{}, parked: map[string][]chan struct{}{},
			refuse: map[int]bool{}, fanParked: map[string]*nfFanSend{}, renameTo: -1}
		if hook {
			fn := func(site, detail string) {
				if site != "notifySessions" {
					return
				}
				k := nfKindOfMethod(detail)
				ch := make(chan struct{})
				w.mu.Lock()
				w.parked[k] = append(w.parked[k], ch)
				w.fired = append(w.fired, k)
				w.mu.Unlock()
				<-ch
			}
			verifYieldHook.Store(&fn)
			defer verifYieldHook.Store(nil)
		}
		emit("reset", "ok", "reset")
		for step := 0; ; step++ {
			op := next(w, step)
			if op == "" {
				break
			}
			toks := strings.Fields(op)
			if w.s == nil && toks[0] != "config" {
				emit(op, "bad-op", "bad")
				continue
			}
			var before [3]bool
			if toks[0] == "advance" && !w.hook && w.s != nil {
				for i, k := range nfKinds {
					before[i] = w.tracked(k)
				}
			}
			inWindow := w.s != nil && len(w.ackWindows()) > 0
			var wtags []string
			if w.s != nil && toks[0] != "advance" {
				if len(w.fansOpen()) > 0 {
					wtags = append(wtags, "fanwin-"+toks[0]) // the op ran while a fan-out was blocked between two sessions
				}
				if len(w.cancelWindows()) > 0 {
					wtags = append(wtags, "cancelwin-"+toks[0]) // … while a listen's cancellation was on its way
				}
			}
			w.xtag = ""
			obs := w.apply(toks)
			if w.xtag != "" {
				xt := w.xtag
				w.xtag = ""
				if inWindow {
					emit(op, obs, append([]string{nfTag(toks, obs), xt, "ackwin-" + toks[0]}, wtags...)...)
				} else {
					emit(op, obs, append([]string{nfTag(toks, obs), xt}, wtags...)...)
				}
				continue
			}
			if inWindow && toks[0] != "advance" {
				// the op ran while a listen handler was held right after its ack write
				emit(op, obs, append([]string{nfTag(toks, obs), "ackwin-" + toks[0]}, wtags...)...)
				continue
			}
			if len(wtags) > 0 {
				emit(op, obs, append([]string{nfTag(toks, obs)}, wtags...)...)
				continue
			}
			if toks[0] == "advance" && !w.hook && w.s != nil {
				emit(op, obs, nfTag(toks, obs))
				// hook-less tree: the callbacks that were due have run inside the advance
				ev := w.takeEvents()
				for i, k := range nfKinds {
					if before[i] && !w.tracked(k) {
						var mine, rest []nfEvent
						for _, e := range ev {
							if nfKindOfMethod(e.method) == k {
								mine = append(mine, e)
							} else {
								rest = append(rest, e)
							}
						}
						ev = rest
						o := w.sent(mine)
						emit("cbrun "+k, o, nfTag([]string{"cbrun", k}, o))
					}
				}
				if len(ev) > 0 {
					emit("stray", "stray "+nfTokens(ev), "stray")
				}
				continue
			}
			emit(op, obs, nfTag(toks, obs))
		}
		if w.s != nil {
			w.cleanup()
		}
	})
}

// nfDetectHook: is the verifYield call present in Server.notifySessions of the tree under test?
func nfDetectHook(t *testing.T) bool {
	called := false
	synctest.Test(t, func(t *testing.T) {
		fn := func(site, detail string) {
			if site == "notifySessions" {
				called = true
			}
		}
		verifYieldHook.Store(&fn)
		defer verifYieldHook.Store(nil)
		s := NewServer(&Implementation{Name: "probe", Version: "1"}, nil)
		ct, st := NewInMemoryTransports()
		ss, err := s.Connect(context.Background(), st, nil)
		if err != nil {
			t.Fatal(err)
		}
		c := NewClient(&Implementation{Name: "probe", Version: "1"}, nil)
		cs, err := c.Connect(context.Background(), ct, &ClientSessionOptions{ProtocolVersion: protocolVersion20251125})
		if err != nil {
			t.Fatal(err)
		}
		s.AddTool(&Tool{Name: "t", InputSchema: &jsonschema.Schema{Type: "object"}}, nil)
		time.Sleep(2 * notificationDelay)
		synctest.Wait()
		cs.Close()
		ss.Wait()
	})
	return called
}

// ---- generator

type nfGen struct {
	rng     *rand.Rand
	n       int
	nextSid int
	tail    []string
	hook    string
	focus   int // 0 mixed, 1 debounce window, 2 cache races, 3 subscriptions, 4 windows after an ack write, 5 overlapping listens of one session, 6 read cache against updates outside the Subscribe table, 7 fan-outs blocked between two sessions, 8 multi-URI listens and a refusing SubscribeHandler, 9 capability switches (feature sets emptied and refilled under inferred capabilities; Remove* calls naming several features), 10 three sessions of mixed generations and bursts that straddle the debounce window, 11 sessions closing and connecting while a fan-out is blocked between three sessions
	steps   int
	loaded  bool // focus 10 / 11: the three sessions of mixed generations are connected
	emptied map[string]bool // focus 9: feature sets that have been emptied once
}

func (g *nfGen) pick(xs ...string) string { return xs[g.rng.Intn(len(xs))] }

func (g *nfGen) next(w *nfWorld, step int) string {
	if len(g.tail) > 0 {
		op := g.tail[0]
		g.tail = g.tail[1:]
		return op
	}
	if step == 0 {
		caps := []string{"unset", "on", "off"}
		pc := func() string {
			if g.rng.Intn(4) == 0 {
				return caps[g.rng.Intn(3)]
			}
			return g.pick("unset", "on")
		}
		if g.focus == 9 {
			// inferred capabilities (unset) mostly: they follow the feature sets
			ic := func() string { return g.pick("unset", "unset", "unset", "off", "on") }
			return fmt.Sprintf("config %s %s %s %s", ic(), ic(), g.pick("unset", "on", "off"), g.hook)
		}
		if g.focus == 3 && g.rng.Intn(4) == 0 {
			// no Subscribe/UnsubscribeHandler at all: every subscription attempt must leave nobody entitled
			return fmt.Sprintf("config %s %s %s %s nohandlers", pc(), pc(), g.pick("on", "on", "off"), g.hook)
		}
		return fmt.Sprintf("config %s %s %s %s", pc(), pc(), pc(), g.hook)
	}
	if step == 1 {
		if g.focus == 6 {
			return "ttl 60000"
		}
		return "ttl " + g.pick("0", "1", "60000", "60000", "60000")
	}
	return g.body(w)
}

func (g *nfGen) body(w *nfWorld) string {
	var conn, free, gated []int
	for i, sl := range w.slots {
		switch {
		case sl == nil:
			free = append(free, i)
		case sl.listenGate != nil:
			gated = append(gated, i)
		case sl.connected:
			conn = append(conn, i)
		}
	}
	w.mu.Lock()
	var parked []string
	for _, k := range nfKinds {
		if len(w.parked[k]) > 0 {
			parked = append(parked, k)
		}
	}
	w.mu.Unlock()
	fs := func() string {
		if g.focus == 1 || g.focus == 2 || g.focus == 10 {
			return g.pick("tools", "tools", "tools", "prompts", "resources", "templates")
		}
		if g.focus == 9 {
			return g.pick("tools", "tools", "prompts", "prompts", "resources", "templates")
		}
		return nfSets[g.rng.Intn(4)]
	}
	key := func() string {
		if g.focus == 6 {
			return g.pick("read:0", "read:0", "read:1", "read:1", "tools")
		}
		if g.focus == 2 {
			return g.pick("tools", "tools", "tools", "prompts", "resources", "templates", "read:0", "read:1")
		}
		return g.pick("tools", "prompts", "resources", "templates", "read:0", "read:1")
	}
	// a set may be emptied (focus 9) once, and only while no client has listed it: the empty list is the one
	// content that repeats, and a cached or held empty result could not be told from the new one
	canEmpty := func(f string) bool {
		if g.focus != 9 {
			return false
		}
		if g.emptied == nil {
			g.emptied = map[string]bool{}
		}
		w.mu.Lock()
		defer w.mu.Unlock()
		return !g.emptied[f] && !w.everListed[f]
	}
	var changeOf func(f string) string
	changeOp := func() string { return changeOf(fs()) }
	changeOf = func(f string) string {
		nw := w.win[f]
		size := nw.hi - nw.lo + 1
		// ONE Remove*(names…) call naming several features: registered (p), never registered (a), repeated (d),
		// the absent ones first, in the middle, last; only absent names (then nothing is owed)
		if mr := map[int]int{9: 30}[g.focus]; g.rng.Intn(100) < mr+8 {
			pats := []string{"a", "aa", "ad"}
			keep := 1 // features that stay
			if canEmpty(f) {
				keep = 0
			}
			if size-1 >= keep {
				pats = append(pats, "pa", "ap", "pd", "apa", "aap", "paa", "pad", "pa", "pd")
			}
			if size-2 >= keep {
				pats = append(pats, "pp", "pap", "ppa", "app", "pdp", "ppd")
			}
			if size-3 >= keep {
				pats = append(pats, "ppp", "papa")
			}
			pat := pats[g.rng.Intn(len(pats))]
			if strings.Count(pat, "p") == size && size > 0 {
				g.emptied[f] = true
			}
			return "change " + f + " rm " + pat
		}
		if size == 1 && canEmpty(f) && g.rng.Intn(3) == 0 {
			g.emptied[f] = true
			return "change " + f + " remove" // the set is emptied: an inferred capability is switched off
		}
		switch r := g.rng.Intn(10); {
		case size == 0 || r < 4:
			return "change " + f + " add"
		case r < 6:
			return "change " + f + " replace"
		case r < 9 && size >= 2:
			return "change " + f + " remove"
		case r == 9:
			return "change " + f + " noop"
		}
		return "change " + f + " replace"
	}
	// which URIs have a subscriber, which keys a slot has listed before (to get cache hits)
	subscribed := []int{}
	for _, i := range conn {
		for u := range w.slots[i].rsubs {
			subscribed = append(subscribed, u)
		}
		for _, gr := range w.slots[i].grant {
			for _, x := range gr {
				if x == "u0" || x == "u1" || x == "u2" {
					subscribed = append(subscribed, int(x[1]-'0'))
				}
			}
		}
	}
	sort.Ints(subscribed)
	if (g.focus == 10 || g.focus == 11) && !g.loaded && len(free) == 3 {
		// three sessions of mixed protocol generations, with different opt-ins
		g.loaded = true
		perm := g.rng.Perm(3)
		m1 := g.pick("tpr", "tpr", "tp", "t")
		m2 := g.pick("t", "tp", "tpr", "r")
		g.nextSid += 3
		g.tail = append(g.tail,
			fmt.Sprintf("connect c%d %d legacy -", perm[0], g.nextSid-2),
			fmt.Sprintf("connect c%d %d modern %s", perm[1], g.nextSid-1, m1),
			fmt.Sprintf("listen c%d", perm[1]),
			fmt.Sprintf("connect c%d %d %s %s", perm[2], g.nextSid, g.pick("modern", "modern", "legacy"), m2))
		return "change " + g.pick("tools", "prompts", "tools") + " add"
	}
	if g.steps < 3 && g.rng.Intn(10) < 7 {
		g.steps++
		return "change " + g.pick("tools", "prompts", "tools", "templates") + " add"
	}
	g.steps++
	if g.focus == 10 && len(w.ackWindows()) == 0 && len(w.fansOpen()) == 0 && g.rng.Intn(100) < 35 {
		// a burst that straddles the debounce window: every change pushes the deadline back, the gaps end
		// just before / at / just after the deadline the previous change had set
		d := int(notificationDelay / time.Millisecond)
		f := fs()
		n := 2 + g.rng.Intn(3)
		for j := 0; j < n; j++ {
			if j > 0 {
				g.tail = append(g.tail, "change "+f+" "+g.pick("add", "add", "replace"))
			}
			gap := []int{d - 1, 1, d - 2, 2, d - 1, d}[g.rng.Intn(6)]
			if j == n-1 {
				gap = []int{1, d - 1, d, d + 1}[g.rng.Intn(4)]
			}
			g.tail = append(g.tail, fmt.Sprintf("advance %d", gap))
		}
		return "change " + f + " add"
	}
	if g.focus == 7 && len(conn)+len(gated) < 2 && len(free) > 0 && g.rng.Intn(10) < 7 {
		g.nextSid++
		return fmt.Sprintf("connect c%d %d %s %s", free[g.rng.Intn(len(free))], g.nextSid, g.pick("legacy", "legacy", "modern"), g.pick("tpr", "t", "tp", "-"))
	}
	if len(conn)+len(gated) == 0 && len(free) > 0 && g.rng.Intn(10) < 6 {
		g.nextSid++
		gen := g.pick("legacy", "modern", "modern")
		if g.focus == 4 || g.focus == 5 || g.focus == 6 || g.focus == 8 {
			gen = "modern"
		}
		return fmt.Sprintf("connect c%d %d %s %s", free[g.rng.Intn(len(free))], g.nextSid, gen, g.pick("tpr", "tpr", "t", "tp", "r", "-"))
	}
	holdP := 3 // out of 10: how often a listen's handler is held right after its ack write
	if g.focus == 4 {
		holdP = 8
	}
	hold := func() string {
		if g.rng.Intn(10) < holdP {
			return " hold"
		}
		return ""
	}
	wins := w.ackWindows()
	if len(wins) > 0 {
		// a window is open: mostly the labels whose outcome depends on the tables (changes and
		// their timers and callbacks, ResourceUpdated, table dumps), sometimes the end of the window
		switch r := g.rng.Intn(100); {
		case r < 12:
			return "ackdone " + wins[g.rng.Intn(len(wins))]
		case r < 22 && len(parked) > 0:
			return "cbrun " + parked[g.rng.Intn(len(parked))]
		case r < 34:
			return changeOp()
		case r < 44:
			d := int(notificationDelay / time.Millisecond)
			return fmt.Sprintf("advance %d", []int{d, d, d + 1, 1, 2 * d}[g.rng.Intn(5)])
		case r < 50:
			return "tables"
		case r < 56:
			f := strings.Fields(wins[g.rng.Intn(len(wins))])
			if strings.HasPrefix(f[1], "r") {
				return "rupdated u" + f[1][1:]
			}
			if sl := w.slots[int(f[0][1]-'0')]; sl != nil {
				for _, gr := range sl.grant[f[1]] {
					if strings.HasPrefix(gr, "u") {
						return "rupdated " + gr
					}
				}
			}
		}
	}
	// a fan-out is blocked between two sessions: mostly what matters there — a further change of the
	// same kind, the timer it arms, the next write, a callback of the re-armed timer running
	// concurrently, a session closing or connecting
	if fans := w.fansOpen(); len(fans) > 0 {
		k := fans[g.rng.Intn(len(fans))]
		kfs := k
		if k == "resources" && g.rng.Intn(2) == 0 {
			kfs = "templates"
		}
		if g.focus == 11 {
			// a session closes, or a new one connects (also into the slot of a closed one), between two writes
			switch r2 := g.rng.Intn(100); {
			case r2 < 22 && len(conn) > 0:
				i := conn[g.rng.Intn(len(conn))]
				if len(w.slots[i].held) == 0 && len(w.slots[i].ackParked) == 0 && len(w.slots[i].cancelParked) == 0 {
					if g.rng.Intn(2) == 0 {
						g.tail = append(g.tail, "tables")
					}
					return fmt.Sprintf("close c%d%s", i, g.pick("", "", " drop"))
				}
			case r2 < 36 && len(free) > 0:
				g.nextSid++
				return fmt.Sprintf("connect c%d %d %s %s", free[g.rng.Intn(len(free))], g.nextSid, g.pick("legacy", "modern"), g.pick("-", "t", "tpr"))
			}
		}
		switch r := g.rng.Intn(100); {
		case r < 30:
			return "fsend " + k
		case r < 55:
			return changeOf(kfs)
		case r < 68:
			d := int(notificationDelay / time.Millisecond)
			return fmt.Sprintf("advance %d", []int{d, d, 1, d - 1, 2 * d}[g.rng.Intn(5)])
		case r < 76 && len(parked) > 0:
			return "cbrun " + parked[g.rng.Intn(len(parked))]
		case r < 80 && len(conn) > 0:
			i := conn[g.rng.Intn(len(conn))]
			if len(w.slots[i].held) == 0 && len(w.slots[i].ackParked) == 0 && len(w.slots[i].cancelParked) == 0 {
				return fmt.Sprintf("close c%d%s", i, g.pick("", "", " drop"))
			}
		case r < 84 && len(conn) > 0:
			return fmt.Sprintf("list c%d %s n", conn[g.rng.Intn(len(conn))], map[string]string{"tools": "tools", "prompts": "prompts", "resources": "resources"}[k])
		}
	}
	// the cancellation of a listen is on its way: updates of its URI, reads, bursts of its kinds, the arrival
	if cw := w.cancelWindows(); len(cw) > 0 {
		f := strings.Fields(cw[g.rng.Intn(len(cw))])
		ci := int(f[0][1] - '0')
		switch r := g.rng.Intn(100); {
		case r < 22:
			return w.doneOp(f[0] + " " + f[1])
		case r < 50:
			if strings.HasPrefix(f[1], "r") {
				return "rupdated u" + f[1][1:]
			}
			if sl := w.slots[ci]; sl != nil {
				for _, gr := range sl.grant[f[1]] {
					if strings.HasPrefix(gr, "u") {
						return "rupdated " + gr
					}
				}
			}
			return changeOp()
		case r < 65:
			if strings.HasPrefix(f[1], "r") && f[1] != "r2" {
				return fmt.Sprintf("list c%d read:%s %s", ci, f[1][1:], g.pick("n", "n", "post"))
			}
		case r < 72:
			return "tables"
		case r < 90:
			// the same session subscribes to a URI of the ending stream again, on a further stream (a client
			// that cancels a stream and opens a new one at once), while the old one is still unwinding
			if sl := w.slots[ci]; sl != nil && sl.connected && sl.modern {
				var us []string
				for _, gr := range sl.grant[f[1]] {
					if strings.HasPrefix(gr, "u") {
						us = append(us, gr)
					}
				}
				for _, n := range []string{"L1", "L2", "L3"} {
					w.mu.Lock()
					busy := sl.ackParked[n] != nil || sl.cancelParked[n] != nil
					w.mu.Unlock()
					if !sl.live[n] && !busy && len(us) > 0 {
						g.tail = append(g.tail, w.doneOp(f[0]+" "+f[1]), "rupdated "+us[0], "tables")
						return fmt.Sprintf("xlisten c%d %s - %s", ci, n, us[g.rng.Intn(len(us))])
					}
				}
			}
		}
	}
	// further listens of a connected 2026-07-28 session, overlapping the live ones in kinds or in a URI,
	// and the end of any live listen (connect-time, per-URI, raw), in any order
	xp := 7
	if g.focus == 5 {
		xp = 40
	} else if g.focus == 3 || g.focus == 6 {
		xp = 15
	} else if g.focus == 8 {
		xp = 45
	} else if g.focus == 9 {
		xp = 25
	}
	// the cancellation of the listen that ends is held on its way; or (a listen that was granted a URI) its
	// clean-up on the server is parked in the application's UnsubscribeHandler
	holdC := func(sl *nfSlot, name string) string {
		if g.rng.Intn(10) < 3 || (g.focus == 6 && g.rng.Intn(2) == 0) {
			if sl != nil && sl.grantsURI(name) && g.rng.Intn(2) == 0 {
				return " park"
			}
			return " hold"
		}
		return ""
	}
	var modernConn []int
	for _, i := range conn {
		if w.slots[i].modern {
			modernConn = append(modernConn, i)
		}
	}
	if len(modernConn) > 0 && g.rng.Intn(100) < xp {
		i := modernConn[g.rng.Intn(len(modernConn))]
		sl := w.slots[i]
		var ends []string // listens that can be ended now
		for _, n := range sl.order {
			w.mu.Lock()
			p := sl.ackParked[n]
			pc := sl.cancelParked[n]
			w.mu.Unlock()
			if p == nil && pc == nil {
				ends = append(ends, n)
			}
		}
		if len(ends) > 0 && (len(sl.order) >= 3 || g.rng.Intn(100) < 40) {
			n := ends[g.rng.Intn(len(ends))]
			if g.rng.Intn(4) > 0 {
				g.tail = append(g.tail, "tables")
			}
			if strings.HasPrefix(n, "r") {
				return fmt.Sprintf("unsubscribe c%d u%s%s", i, n[1:], holdC(sl, n))
			}
			return fmt.Sprintf("xend c%d %s%s", i, n, holdC(sl, n))
		}
		var free []string
		for _, n := range []string{"L1", "L2", "L3"} {
			w.mu.Lock()
			p := sl.ackParked[n]
			pc := sl.cancelParked[n]
			w.mu.Unlock()
			if !sl.live[n] && p == nil && pc == nil {
				free = append(free, n)
			}
		}
		if len(free) > 0 {
			n := free[g.rng.Intn(len(free))]
			// mostly something a live listen of the session was granted too
			var live []string
			for _, o := range sl.order {
				live = append(live, sl.grant[o]...)
			}
			what := g.pick("t", "tp", "tpr", "p", "r", "u0", "u1", "pr", "u2")
			if len(live) > 0 && g.rng.Intn(4) > 0 {
				what = live[g.rng.Intn(len(live))]
				if !strings.HasPrefix(what, "u") && g.rng.Intn(2) == 0 {
					what = g.pick("t", "tp", "tpr", "pr", "r", "p")
				}
			}
			if g.rng.Intn(3) == 0 || g.focus == 8 {
				g.tail = append(g.tail, "tables")
			}
			// a raw peer may put several URIs, and kinds beside them, into one request
			if mp := map[int]int{8: 70, 3: 30, 5: 20, 6: 20}[g.focus]; g.rng.Intn(100) < mp+8 {
				perm := g.rng.Perm(3)
				us := ""
				for _, u := range perm[:2+g.rng.Intn(2)] {
					us += fmt.Sprintf(" u%d", u)
				}
				mask := "-"
				if !strings.HasPrefix(what, "u") {
					mask = what
				} else if g.rng.Intn(3) == 0 {
					mask = g.pick("t", "tp", "r")
				}
				if g.focus == 8 && len(w.refuse) > 0 && g.rng.Intn(2) == 0 {
					g.tail = append(g.tail, fmt.Sprintf("rupdated u%d", perm[0]))
				}
				return fmt.Sprintf("xlisten c%d %s %s%s%s", i, n, mask, us, hold())
			}
			if strings.HasPrefix(what, "u") {
				return fmt.Sprintf("xlisten c%d %s - %s%s", i, n, what, hold())
			}
			return fmt.Sprintf("xlisten c%d %s %s%s", i, n, what, hold())
		}
	}
	for tries := 0; tries < 20; tries++ {
		r := g.rng.Intn(100)
		switch {
		case len(gated) > 0 && r < 35:
			return fmt.Sprintf("listen c%d%s", gated[g.rng.Intn(len(gated))], hold())
		case len(parked) > 0 && r < 45:
			k := parked[g.rng.Intn(len(parked))]
			if sp := map[int]int{7: 75, 1: 25, 11: 75, 10: 20}[g.focus]; w.hook && w.fanParked[k] == nil && g.rng.Intn(100) < sp+10 {
				return "cbrun " + k + " step"
			}
			return "cbrun " + k
		case g.focus == 8 && r >= 95:
			if len(w.refuse) > 0 && g.rng.Intn(3) == 0 {
				for u := 0; u < 3; u++ {
					if w.refuse[u] {
						return fmt.Sprintf("policy u%d accept", u)
					}
				}
			}
			return fmt.Sprintf("policy u%d refuse", g.rng.Intn(3))
		case g.focus == 6 && r >= 90 && len(subscribed) > 0:
			return fmt.Sprintf("rupdated u%d names u%d", subscribed[g.rng.Intn(len(subscribed))], g.rng.Intn(2))
		case r < 20:
			return changeOp()
		case r < 36:
			d := int(notificationDelay / time.Millisecond)
			return fmt.Sprintf("advance %d", []int{1, d - 1, d, d + 1, 1, d, 2 * d}[g.rng.Intn(7)])
		case r < 45:
			if len(free) == 0 {
				continue
			}
			g.nextSid++
			gen := g.pick("legacy", "modern", "modern")
			mask := g.pick("tpr", "tpr", "t", "tp", "r", "-")
			return fmt.Sprintf("connect c%d %d %s %s", free[g.rng.Intn(len(free))], g.nextSid, gen, mask)
		case r < 50:
			if len(conn) == 0 {
				continue
			}
			i := conn[g.rng.Intn(len(conn))]
			if len(w.slots[i].held) > 0 || len(w.slots[i].ackParked) > 0 {
				continue
			}
			g.tail = append(g.tail, "tables")
			return fmt.Sprintf("close c%d%s", i, g.pick("", "", " drop"))
		case r < 58:
			if len(conn) == 0 {
				continue
			}
			i := conn[g.rng.Intn(len(conn))]
			u := g.rng.Intn(2)
			if g.rng.Intn(5) == 0 {
				u = 2
			}
			if sl := w.slots[i]; sl.modern && !sl.rsubs[u] {
				if h := hold(); h != "" {
					return fmt.Sprintf("subscribe c%d u%d hold", i, u)
				}
			}
			if g.rng.Intn(3) == 0 {
				g.tail = append(g.tail, "tables")
			}
			return fmt.Sprintf("subscribe c%d u%d", i, u)
		case r < 62:
			if len(conn) == 0 {
				continue
			}
			g.tail = append(g.tail, "tables")
			i := conn[g.rng.Intn(len(conn))]
			u := g.rng.Intn(2)
			for x := range w.slots[i].rsubs {
				if g.rng.Intn(2) == 0 {
					u = x
				}
			}
			if sl := w.slots[i]; sl.modern && sl.rsubs[u] && sl.ackParked[fmt.Sprintf("r%d", u)] == nil && sl.cancelParked[fmt.Sprintf("r%d", u)] == nil {
				return fmt.Sprintf("unsubscribe c%d u%d%s", i, u, holdC(sl, fmt.Sprintf("r%d", u)))
			}
			return fmt.Sprintf("unsubscribe c%d u%d", i, u)
		case r < 68:
			if len(subscribed) > 0 && g.rng.Intn(4) > 0 {
				u := subscribed[g.rng.Intn(len(subscribed))]
				if g.rng.Intn(6) == 0 {
					return fmt.Sprintf("rupdated u%d names u%d", u, g.rng.Intn(3))
				}
				return fmt.Sprintf("rupdated u%d", u)
			}
			if g.rng.Intn(8) == 0 {
				return fmt.Sprintf("policy u%d %s", g.rng.Intn(3), g.pick("refuse", "refuse", "accept"))
			}
			return fmt.Sprintf("rupdated u%d", g.rng.Intn(3))
		case r < 70:
			return "ttl " + g.pick("0", "1", "60000")
		case r < 72:
			return "tables"
		default:
			if len(conn) == 0 {
				continue
			}
			i := conn[g.rng.Intn(len(conn))]
			sl := w.slots[i]
			// progress a held call first, most of the time
			hk := make([]string, 0, len(sl.held))
			for k := range sl.held {
				hk = append(hk, k)
			}
			sort.Strings(hk)
			for _, k := range hk {
				if g.rng.Intn(3) > 0 {
					if sl.held[k].phase == "pre" {
						return fmt.Sprintf("send c%d %s", i, k)
					}
					return fmt.Sprintf("fill c%d %s", i, k)
				}
			}
			k := key()
			if len(sl.listed) > 0 && g.rng.Intn(2) == 0 {
				k = sl.listed[g.rng.Intn(len(sl.listed))]
			}
			if sl.held[k] != nil {
				continue
			}
			sl.listed = append(sl.listed, k)
			return fmt.Sprintf("list c%d %s %s", i, k, g.pick("n", "n", "n", "post", "post", "pre"))
		}
	}
	return changeOp()
}

const nfScriptedShapes = 33

// nfScripted: the shapes the property is about, placed at random offsets (so that quick runs always reach them).
func nfScripted(rng *rand.Rand, hook string, variant int) []string {
	d := int(notificationDelay / time.Millisecond)
	ops := []string{fmt.Sprintf("config unset unset unset %s", hook), "ttl 60000"}
	switch variant % nfScriptedShapes {
	case 0: // F7 shape: held response, change, notification handled, fill, list
		ops = append(ops, "change tools add", "connect c0 1 modern tpr", "listen c0", "list c0 tools post", "change tools add",
			fmt.Sprintf("advance %d", d))
		if hook == "hook1" {
			ops = append(ops, "cbrun tools")
		}
		ops = append(ops, "fill c0 tools", "list c0 tools n")
	case 1: // change while the callback is pending
		ops = append(ops, "change tools add", "connect c0 1 legacy -", "connect c1 2 modern t", "listen c1", "change tools add", fmt.Sprintf("advance %d", d))
		if hook == "hook1" {
			ops = append(ops, "change tools add", "cbrun tools", "change tools replace", fmt.Sprintf("advance %d", d), "cbrun tools", "cbrun tools")
		} else {
			ops = append(ops, "change tools add", fmt.Sprintf("advance %d", d-1), "change tools replace", "advance 1", fmt.Sprintf("advance %d", d-1))
		}
	case 2: // subscribe/unsubscribe next to the list-changed subscription of the same session
		ops = append(ops, "change tools add", "connect c0 1 modern tp", "listen c0", "subscribe c0 u0", "tables", "unsubscribe c0 u0", "tables",
			"change tools add", fmt.Sprintf("advance %d", d))
		if hook == "hook1" {
			ops = append(ops, "cbrun tools")
		}
	case 3: // close forgets, updated reaches exactly the subscribers
		ops = append(ops, "connect c0 1 legacy -", "connect c1 2 modern r", "listen c1", "subscribe c0 u1", "subscribe c1 u1", "rupdated u1",
			"close c0", "tables", "rupdated u1", "unsubscribe c1 u1", "rupdated u1", "close c1", "tables")
	case 4: // read cache against resource-updated
		ops = append(ops, "connect c0 1 modern -", "subscribe c0 u0", "list c0 read:0 n", "list c0 read:0 n", "list c0 read:0 post",
			"rupdated u0", "fill c0 read:0", "list c0 read:0 n", "advance 1", "list c0 read:0 n")
	case 6: // a session connects between the timer firing and the callback's snapshot, then another change
		ops = append(ops, "change tools add", "connect c0 1 legacy -", "change tools add", fmt.Sprintf("advance %d", d),
			"connect c1 2 legacy t", "change tools add")
		if hook == "hook1" {
			ops = append(ops, "cbrun tools", fmt.Sprintf("advance %d", d), "cbrun tools")
		} else {
			ops = append(ops, fmt.Sprintf("advance %d", d))
		}
	case 7: // a burst inside the window between a listen's ack write and the handler's next step, then one after it
		ops = append(ops, "change tools add", "connect c0 1 modern tpr", "listen c0 hold", "tables", "change tools add", fmt.Sprintf("advance %d", d))
		if hook == "hook1" {
			ops = append(ops, "cbrun tools")
		}
		ops = append(ops, "list c0 tools n", "ackdone c0 m", "tables", "change tools add", fmt.Sprintf("advance %d", d))
		if hook == "hook1" {
			ops = append(ops, "cbrun tools")
		}
	case 8: // ResourceUpdated inside the window after the ack of a per-URI listen
		ops = append(ops, "connect c0 1 modern -", "connect c1 2 legacy -", "subscribe c1 u0", "subscribe c0 u0 hold", "tables", "rupdated u0",
			"unsubscribe c0 u0", "ackdone c0 r0", "rupdated u0", "unsubscribe c0 u0", "tables", "rupdated u0")
	case 9: // the change precedes the listen; its timer fires inside the window
		ops = append(ops, "change prompts add", "connect c0 1 modern p", "change prompts add", "listen c0 hold", fmt.Sprintf("advance %d", d))
		if hook == "hook1" {
			ops = append(ops, "cbrun prompts")
		}
		ops = append(ops, "close c0", "ackdone c0 m", "close c0", "tables")
	case 10: // two listens of one session opted in to the same kind; the OLDER one (connect-time) ends: a client replacing its stream
		ops = append(ops, "change tools add", "connect c0 1 modern t", "listen c0", "xlisten c0 L1 t", "tables", "change tools add", fmt.Sprintf("advance %d", d))
		if hook == "hook1" {
			ops = append(ops, "cbrun tools")
		}
		ops = append(ops, "xend c0 m", "tables", "change tools add", fmt.Sprintf("advance %d", d))
		if hook == "hook1" {
			ops = append(ops, "cbrun tools")
		}
		ops = append(ops, "xend c0 L1", "tables", "change tools add", fmt.Sprintf("advance %d", d))
		if hook == "hook1" {
			ops = append(ops, "cbrun tools")
		}
	case 11: // … the NEWER one ends: the older, still live listen must go on being served
		ops = append(ops, "change tools add", "change prompts add", "connect c0 1 modern tp", "listen c0", "xlisten c0 L1 tpr", "tables", "xend c0 L1", "tables",
			"change tools add", "change prompts add", fmt.Sprintf("advance %d", d))
		if hook == "hook1" {
			ops = append(ops, "cbrun tools", "cbrun prompts")
		}
	case 12: // two listens on one URI (ClientSession.Subscribe and a raw one); the older ends, then the newer
		ops = append(ops, "connect c0 1 modern -", "connect c1 2 legacy -", "subscribe c1 u0", "subscribe c0 u0", "xlisten c0 L1 - u0", "tables", "rupdated u0",
			"unsubscribe c0 u0", "tables", "rupdated u0", "xend c0 L1", "tables", "rupdated u0")
	case 13: // … the newer ends first
		ops = append(ops, "connect c0 1 modern -", "subscribe c0 u1", "xlisten c0 L2 - u1", "rupdated u1", "xend c0 L2", "tables", "rupdated u1",
			"list c0 read:1 n", "rupdated u1", "list c0 read:1 n", "unsubscribe c0 u1", "tables", "rupdated u1")
	case 14: // three streams over the same kinds, ended middle, newest, oldest, a burst after each end; a legacy bystander
		ops = append(ops, "change tools add", "change prompts add", "connect c1 2 legacy -", "connect c0 1 modern tp", "listen c0", "xlisten c0 L1 tp", "xlisten c0 L2 t",
			"xlisten c0 L3 - u0", "tables", "xend c0 L1", "tables", "change tools add", "change prompts add", fmt.Sprintf("advance %d", d))
		if hook == "hook1" {
			ops = append(ops, "cbrun tools", "cbrun prompts")
		}
		ops = append(ops, "xend c0 L2", "tables", "change tools add", fmt.Sprintf("advance %d", d))
		if hook == "hook1" {
			ops = append(ops, "cbrun tools")
		}
		ops = append(ops, "rupdated u0", "xend c0 m", "tables", "change tools add", "change prompts add", fmt.Sprintf("advance %d", d))
		if hook == "hook1" {
			ops = append(ops, "cbrun tools", "cbrun prompts")
		}
		ops = append(ops, "rupdated u0", "close c0", "tables")
	case 15: // the older listen ends inside the window that follows the acknowledgement write of the newer one
		ops = append(ops, "change tools add", "connect c0 1 modern t", "listen c0", "xlisten c0 L1 t hold", "xend c0 m", "tables", "change tools add", fmt.Sprintf("advance %d", d))
		if hook == "hook1" {
			ops = append(ops, "cbrun tools")
		}
		ops = append(ops, "ackdone c0 L1", "tables", "xlisten c0 L2 - u1 hold", "subscribe c0 u1", "rupdated u1", "unsubscribe c0 u1", "rupdated u1", "ackdone c0 L2", "xend c0 L2", "tables", "rupdated u1")
	case 16: // a fan-out blocked between two sessions; a further change lands after the first was written to
		ops = append(ops, "change tools add", "connect c0 1 legacy -", "connect c1 2 modern t", "listen c1", "change tools add", fmt.Sprintf("advance %d", d))
		if hook == "hook1" {
			ops = append(ops, "cbrun tools step", "fsend tools", "change tools add", "list c0 tools n", "fsend tools", fmt.Sprintf("advance %d", d), "cbrun tools")
		}
		ops = append(ops, "list c1 tools n")
	case 17: // three sessions; the re-armed timer's callback runs WHILE the first fan-out is still blocked; a session closes under the blocked loop
		ops = append(ops, "change prompts add", "connect c0 1 legacy -", "connect c1 2 legacy p", "connect c2 3 modern p", "listen c2", "change prompts add", fmt.Sprintf("advance %d", d))
		if hook == "hook1" {
			ops = append(ops, "cbrun prompts step", "fsend prompts", "change prompts replace", fmt.Sprintf("advance %d", d), "cbrun prompts", "close c1", "fsend prompts", "fsend prompts",
				"change prompts add", fmt.Sprintf("advance %d", d), "cbrun prompts step", "change prompts add", "fsend prompts", "fsend prompts")
		}
	case 18: // a multi-URI listen refused at its second URI leaves nothing behind; accepted, it subscribes to all of them
		ops = append(ops, "change tools add", "connect c0 1 modern -", "policy u1 refuse", "xlisten c0 L1 - u0 u1", "tables", "rupdated u0", "rupdated u1",
			"policy u1 accept", "xlisten c0 L1 t u0 u1 u2", "tables", "rupdated u2", "rupdated u0", "xend c0 L1", "tables", "rupdated u0")
	case 19: // a refused request that had shadowed a live stream: the older stream has its entries back; a legacy subscribe refused
		ops = append(ops, "change tools add", "connect c0 1 modern t", "listen c0", "subscribe c0 u0", "connect c1 2 legacy -", "policy u2 refuse", "xlisten c0 L1 t u0 u2", "tables",
			"rupdated u0", "subscribe c1 u2", "subscribe c0 u2", "tables", "rupdated u2", "change tools add", fmt.Sprintf("advance %d", d))
		if hook == "hook1" {
			ops = append(ops, "cbrun tools")
		}
		ops = append(ops, "policy u2 accept", "subscribe c1 u2", "rupdated u2", "unsubscribe c0 u2", "tables")
	case 20: // the update names a sub-resource of what the client subscribed to: the read cache entry of the NAMED URI goes
		ops = append(ops, "connect c0 1 modern -", "subscribe c0 u2", "list c0 read:0 n", "list c0 read:0 n", "rupdated u2 names u0", "list c0 read:0 n", "list c0 read:0 n",
			"list c0 read:1 n", "rupdated u2 names u1", "list c0 read:1 n", "rupdated u2", "list c0 read:1 n")
	case 21: // the update overtakes the cancellation that ClientSession.Unsubscribe sent on its way
		ops = append(ops, "connect c0 1 modern -", "subscribe c0 u0", "list c0 read:0 n", "list c0 read:0 n", "unsubscribe c0 u0 hold", "rupdated u0", "list c0 read:0 n", "tables",
			"canceldone c0 r0", "tables", "rupdated u0", "list c0 read:0 n")
	case 22: // a stream opened below ClientSession.Subscribe: its updates invalidate too; its cancellation held
		ops = append(ops, "connect c0 1 modern -", "xlisten c0 L1 - u1", "list c0 read:1 n", "rupdated u1", "list c0 read:1 n", "list c0 read:1 n", "xend c0 L1 hold", "rupdated u1",
			"list c0 read:1 n", "canceldone c0 L1", "rupdated u1", "list c0 read:1 n", "tables")
	case 23, 24, 25, 26: // ONE Remove*(names…) call that names a registered feature and absent / repeated names, the absent one last, first, in the middle — for each feature set; then a call naming only absent names (nothing is owed)
		f := []string{"tools", "prompts", "resources", "templates"}[variant%nfScriptedShapes-23]
		k := map[string]string{"tools": "tools", "prompts": "prompts", "resources": "resources", "templates": "resources"}[f]
		m := map[string]string{"tools": "t", "prompts": "p", "resources": "r"}[k]
		ops = append(ops, "change "+f+" add", "change "+f+" add", "change "+f+" add", "change "+f+" add", "change "+f+" add",
			"change "+f+" add", "change "+f+" add", "connect c0 1 legacy -", "connect c1 2 modern "+m, "listen c1", fmt.Sprintf("advance %d", 2*d))
		if hook == "hook1" {
			ops = append(ops, "cbrun "+k)
		}
		for _, pat := range []string{"pa", "ap", "pd", "apa", "a", "ppa"}[rng.Intn(2):] {
			ops = append(ops, "change "+f+" rm "+pat, "list c1 "+f+" n", fmt.Sprintf("advance %d", d))
			if hook == "hook1" && strings.Contains(pat, "p") {
				ops = append(ops, "cbrun "+k)
			}
			ops = append(ops, "list c1 "+f+" n")
		}
	case 27: // the clean-up of the stream ClientSession.Unsubscribe cancelled is parked in the application's UnsubscribeHandler; the session subscribes to the URI again on a further stream meanwhile
		ops = append(ops, "connect c0 1 modern -", "subscribe c0 u1", "rupdated u1", "unsubscribe c0 u1 park", "tables", "rupdated u1", "xlisten c0 L1 - u1", "tables", "rupdated u1",
			"unsubdone c0 r1", "tables", "rupdated u1", "list c0 read:1 n", "xend c0 L1", "rupdated u1", "tables")
	case 28: // the same with raw streams of several URIs (the parked call is the one for the LAST URI), a second session subscribed beside, and the older stream surviving
		ops = append(ops, "connect c0 1 modern r", "listen c0", "connect c1 2 legacy -", "subscribe c1 u0", "xlisten c0 L1 - u0 u2", "xlisten c0 L2 t u2", "xend c0 L2 park", "rupdated u2", "tables",
			"xlisten c0 L3 - u2 u0", "rupdated u2", "unsubdone c0 L2", "tables", "rupdated u2", "rupdated u0", "xend c0 L1 park", "xend c0 L3", "rupdated u0", "unsubdone c0 L1", "tables", "rupdated u0", "rupdated u2")
	case 29: // parked clean-up, the session closes its other streams, a burst and an update inside the window; park asked of a stream that was granted no URI
		ops = append(ops, "connect c0 1 modern t", "listen c0", "xend c0 m park", "subscribe c0 u0", "xlisten c0 L1 t u0", "unsubscribe c0 u0 park", "change tools add", fmt.Sprintf("advance %d", d))
		if hook == "hook1" {
			ops = append(ops, "cbrun tools")
		}
		ops = append(ops, "rupdated u0", "xend c0 L1", "rupdated u0", "tables", "subscribe c0 u0", "unsubdone c0 r0", "rupdated u0", "tables")
	case 30: // the connection is cut under a client with open streams (no cancellations, no orderly Close): everything of the session goes; a second session keeps its own
		ops = append(ops, "connect c0 1 modern tr", "listen c0", "subscribe c0 u0", "xlisten c0 L1 p u0 u1", "connect c1 2 modern t", "listen c1", "subscribe c1 u0", "connect c2 3 legacy -", "subscribe c2 u1",
			"tables", "close c0 drop", "tables", "rupdated u0", "rupdated u1", "change tools add", fmt.Sprintf("advance %d", d))
		if hook == "hook1" {
			ops = append(ops, "cbrun tools")
		}
		ops = append(ops, "close c2 drop", "tables", "rupdated u1", "close c1 drop", "tables")
	case 31: // the application refuses to unsubscribe: resources/unsubscribe of a legacy session fails and the session stays subscribed; the clean-up of a 2026-07-28 stream ignores the refusal
		ops = append(ops, "connect c0 1 legacy -", "connect c1 2 modern -", "subscribe c0 u0", "subscribe c1 u0", "policy u0 refuse", "unsubscribe c0 u0", "tables", "rupdated u0",
			"unsubscribe c1 u0", "tables", "rupdated u0", "policy u0 accept", "unsubscribe c0 u0", "rupdated u0", "tables")
	case 32: // a server without Subscribe/UnsubscribeHandler: resources/subscribe and resources/unsubscribe fail, a listen naming a URI is refused; nobody is entitled to updates, list-changed subscriptions are unaffected
		ops[0] = fmt.Sprintf("config on on on %s nohandlers", hook)
		ops = append(ops, "connect c0 1 legacy -", "connect c1 2 modern r", "listen c1", "subscribe c0 u0", "subscribe c1 u0", "subscribe c0 u2", "tables", "rupdated u0", "rupdated u2",
			"xlisten c1 L1 t u1 u0", "xlisten c1 L2 t", "tables", "unsubscribe c0 u0", "unsubscribe c1 u0", "policy u0 accept", "subscribe c0 u0", "rupdated u0", "rupdated u1",
			"change resources add", "change tools add", fmt.Sprintf("advance %d", d))
		if hook == "hook1" {
			ops = append(ops, "cbrun tools", "cbrun resources")
		}
		ops = append(ops, "tables")
	case 5: // capability inferred at listen time: nothing to list yet
		ops = append(ops, "connect c0 1 modern tpr", "listen c0", "tables", "change prompts add", fmt.Sprintf("advance %d", d+1))
		if hook == "hook1" {
			ops = append(ops, "cbrun prompts")
		}
	}
	_ = rng
	return ops
}

func TestVerifNotify(t *testing.T) {
	out := verifOpen(t)
	defer out.close()
	hook := nfDetectHook(t)
	hookTok := "hook0"
	if hook {
		hookTok = "hook1"
	}
	runOps := func(cs string, ops []string, tag string) {
		emit := func(op, obs string, tags ...string) {
			if tag != "" {
				tags = append(tags, tag)
			}
			out.line(cs, op, obs, tags...)
		}
		if nfPagesIs(ops) {
			nfPagesRunOps(t, emit, ops) // client caches with several pages (zz_verif_notifypages_test.go)
			return
		}
		if nfRootsIs(ops) {
			nfRootsRunOps(t, emit, ops) // a client-side case (zz_verif_notifyroots_test.go)
			return
		}
		i := 0
		drained := false
		nfRunCase(t, hook, emit, func(w *nfWorld, step int) string {
			for i < len(ops) {
				op := ops[i]
				i++
				f := strings.Fields(op)
				if len(f) == 0 || f[0] == "reset" || strings.HasPrefix(op, "#") {
					continue
				}
				if f[0] == "config" && len(f) >= 5 {
					f[4] = hookTok // a replay adapts to the tree it runs on
					op = strings.Join(f, " ")
				}
				if f[0] == "cbrun" && !hook {
					continue // emitted by the harness itself on a hook-less tree
				}
				if f[0] == "end" {
					continue
				}
				return op
			}
			return nfDrain(w, &drained)
		})
	}
	if p := os.Getenv("VERIF_CORPUS"); p != "" {
		ents, _ := os.ReadDir(p)
		for _, e := range ents {
			if strings.HasSuffix(e.Name(), ".ops") {
				b, err := os.ReadFile(p + "/" + e.Name())
				if err == nil {
					runOps("corpus-"+strings.TrimSuffix(e.Name(), ".ops"), strings.Split(string(b), "\n"), "corpus")
				}
			}
		}
	}
	if p := os.Getenv("VERIF_REPLAY"); p != "" {
		b, err := os.ReadFile(p)
		if err != nil {
			t.Fatal(err)
		}
		runOps("replay", strings.Split(string(b), "\n"), "replay")
		return
	}
	for v := 0; v < nfScriptedShapes; v++ {
		runOps(fmt.Sprintf("s%d", v), nfScripted(verifRng(int64(v)), hookTok, v), "scripted")
	}
	// client caches with several pages: one entry per cursor, a handled list_changed drops them all
	for v := 0; v < 3; v++ {
		runOps(fmt.Sprintf("pgs%d", v), nfPagesScripted(v), "scripted")
	}
	for c, np := 0, verifN(300, 4000); c < np; c++ {
		emit := func(op, obs string, tags ...string) { out.line(fmt.Sprintf("pg%d", c), op, obs, tags...) }
		nfPagesRun(t, emit, nfPagesGen(verifRng(int64(700000+c))))
	}
	// client side: the client's roots against every configuration of its roots capability
	for i, cfg := range nfRootsConfigs {
		runOps(fmt.Sprintf("rs%d", i), nfRootsScripted(cfg), "scripted")
	}
	for c, nr := 0, verifN(400, 6000); c < nr; c++ {
		emit := func(op, obs string, tags ...string) { out.line(fmt.Sprintf("r%d", c), op, obs, tags...) }
		nfRootsRun(t, emit, nfRootsGen(verifRng(int64(500000+c))))
	}
	n := verifN(3000, 40000)
	for c := 0; c < n; c++ {
		rng := verifRng(int64(1000 + c))
		g := &nfGen{rng: rng, n: 8 + rng.Intn(20), hook: hookTok, focus: c % 12}
		emit := func(op, obs string, tags ...string) { out.line(fmt.Sprintf("g%d", c), op, obs, tags...) }
		drained := false
		nfRunCase(t, hook, emit, func(w *nfWorld, step int) string {
			if step < g.n || len(g.tail) > 0 {
				if step < 2 {
					return g.next(w, step)
				}
				if len(g.tail) > 0 {
					op := g.tail[0]
					g.tail = g.tail[1:]
					return op
				}
				return g.body(w)
			}
			return nfDrain(w, &drained)
		})
	}
}

// nfDrain ends a case: every timer fires, every parked callback runs, then `end` lets the monitor
// look at what is still owed.
func nfDrain(w *nfWorld, state *bool) string {
	if w.s == nil {
		return ""
	}
	d := int(notificationDelay / time.Millisecond)
	if !*state {
		*state = true
		return fmt.Sprintf("advance %d", 2*d)
	}
	// the held fan-outs run to their end, then every callback that is due
	if fans := w.fansOpen(); len(fans) > 0 {
		return "fsend " + fans[0]
	}
	w.mu.Lock()
	for _, k := range nfKinds {
		if len(w.parked[k]) > 0 {
			w.mu.Unlock()
			return "cbrun " + k
		}
	}
	w.mu.Unlock()
	if cw := w.cancelWindows(); len(cw) > 0 {
		return w.doneOp(cw[0])
	}
	// every callback has taken its snapshot: now the handlers held after their ack write go on
	if wins := w.ackWindows(); len(wins) > 0 {
		return "ackdone " + wins[0]
	}
	if !w.ended {
		w.ended = true
		return "end"
	}
	return ""
}
