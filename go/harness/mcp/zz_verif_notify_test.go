// E14 correspondence harness (C18): a real Server with 0-3 real client sessions over in-memory
// transports, driven label by label under testing/synctest. See DESIGN.md §4 E14, §5 C18 and
// lean/McpModel/Notify/Driver.lean for the op grammar.
package mcp

import (
	"context"
	"fmt"
	"math/rand"
	"os"
	"sort"
	"strconv"
	"strings"
	"sync"
	"testing"
	"testing/synctest"
	"time"

	"github.com/google/jsonschema-go/jsonschema"
	"github.com/modelcontextprotocol/go-sdk/jsonrpc"
)

var nfKinds = []string{"tools", "prompts", "resources"}
var nfSets = []string{"tools", "prompts", "resources", "templates"}

func nfKindOfMethod(m string) string {
	switch m {
	case notificationToolListChanged:
		return "tools"
	case notificationPromptListChanged:
		return "prompts"
	case notificationResourceListChanged:
		return "resources"
	}
	return ""
}

func nfNotification(kind string) string {
	switch kind {
	case "tools":
		return notificationToolListChanged
	case "prompts":
		return notificationPromptListChanged
	case "resources":
		return notificationResourceListChanged
	}
	return ""
}

type nfEvent struct {
	slot   int
	method string
	stamp  string
	hk     string // which user handler ran: t p r u<i> or -
}

type nfHeld struct {
	pre, post chan struct{}
	phase     string // "pre", "held", "done"
	arrived   string
	result    string
	done      chan struct{}
}

type nfSlot struct {
	idx        int
	sid        int
	modern     bool
	mask       string
	connected  bool
	client     *Client
	cs         *ClientSession
	ss         *ServerSession
	listenGate chan struct{} // non-nil while the connect-time listen is held
	connDone   chan error
	ackWant    string            // which listen the next ack belongs to: "m" or "r<i>"
	ids        map[string]string // printed listen request id -> "m" / "r<i>"
	lastAck    string
	rsubs      map[int]bool
	held       map[string]*nfHeld
	reached    map[string]bool
	listed     []string // keys this slot has asked for (generator only)
	holdNext   bool                     // park the server handler of the next listen right after its ack write
	ackParked  map[string]chan struct{} // handlers parked there: "m" / "r<i>" / "L<n>" -> release channel
	live       map[string]bool               // listens opened here that were granted something and not ended: "m", "L<n>"
	xl         map[string]context.CancelFunc // raw listens opened by xlisten: "L<n>" -> cancel
	grant      map[string][]string           // live listens (also "r<i>") -> what the ack granted: "t" "p" "r" "u<j>"
	order      []string                      // … in the order they were acknowledged
}

func nfAckGrant(ack string) []string {
	f := strings.Fields(ack)
	var g []string
	if len(f) < 2 || f[0] != "ack" {
		return nil
	}
	if f[1] != "-" {
		for _, ch := range f[1] {
			g = append(g, string(ch))
		}
	}
	for _, u := range f[2:] {
		if strings.HasPrefix(u, "u") {
			g = append(g, u)
		}
	}
	return g
}

// opened records an acknowledged listen; it reports whether it shares a grant with a live one.
func (sl *nfSlot) opened(name, ack string) string {
	g := nfAckGrant(ack)
	if len(g) == 0 {
		return ""
	}
	overlap := false
	for _, other := range sl.order {
		for _, a := range sl.grant[other] {
			for _, b := range g {
				if a == b {
					overlap = true
				}
			}
		}
	}
	sl.grant[name] = g
	sl.order = append(sl.order, name)
	if overlap {
		return "listen-overlap"
	}
	return ""
}

// endedListen forgets a listen that ended; it reports whether a live one shares a grant with it, and
// whether that one is newer or older.
func (sl *nfSlot) endedListen(name string) string {
	g, ok := sl.grant[name]
	if !ok {
		return ""
	}
	tag := ""
	seen := false
	for _, other := range sl.order {
		if other == name {
			seen = true
			continue
		}
		for _, a := range sl.grant[other] {
			for _, b := range g {
				if a == b {
					if seen {
						tag = "end-older-of-overlap"
					} else if tag == "" {
						tag = "end-newer-of-overlap"
					}
				}
			}
		}
	}
	delete(sl.grant, name)
	var rest []string
	for _, o := range sl.order {
		if o != name {
			rest = append(rest, o)
		}
	}
	sl.order = rest
	return tag
}

type nfWorld struct {
	mu      sync.Mutex
	t0      time.Time
	s       *Server
	hook    bool
	ttl     int
	slots   [3]*nfSlot
	closed  map[*ServerSession]int // closed server sessions -> sid
	events  []nfEvent
	parked  map[string][]chan struct{}
	fired   []string
	win     map[string]*nfWindow
	content [2]int
	descCtr int
	ended   bool
	xtag    string // an extra tag for the record of the op that just ran
}

// nfWindow: the features of one set are w<lo>..w<hi>; every effective change makes a content never seen before.
type nfWindow struct {
	lo, hi int
	desc   map[int]int
	ver    int
	byText map[string]int
}

func (w *nfWindow) text(extra string) string {
	var parts []string
	for i := w.lo; i <= w.hi; i++ {
		parts = append(parts, fmt.Sprintf("w%d=d%d", i, w.desc[i]))
	}
	sort.Strings(parts)
	return extra + strings.Join(parts, ",")
}

func nfURI(i int) string { return fmt.Sprintf("file:///u/%d", i) }
func nfURIIndex(u string) int {
	for i := 0; i < 2; i++ {
		if u == nfURI(i) {
			return i
		}
	}
	return -1
}

func (w *nfWorld) now() int64 { return time.Since(w.t0).Milliseconds() }

func (w *nfWorld) slotOfSS(ss *ServerSession) string {
	for _, sl := range w.slots {
		if sl != nil && sl.ss == ss {
			return fmt.Sprintf("c%d", sl.idx)
		}
	}
	if sid, ok := w.closed[ss]; ok {
		return fmt.Sprintf("x%d", sid)
	}
	return "x?"
}

// ---- setting up the server

func nfCap(tok string) (bool, bool) { // (set, listChanged)
	switch tok {
	case "on":
		return true, true
	case "off":
		return true, false
	}
	return false, false
}

func (w *nfWorld) newServer(capT, capP, capR string) {
	opts := &ServerOptions{
		SubscribeHandler:   func(context.Context, *SubscribeRequest) error { return nil },
		UnsubscribeHandler: func(context.Context, *UnsubscribeRequest) error { return nil },
		PageSize:           1000,
	}
	caps := &ServerCapabilities{}
	any := false
	if set, lc := nfCap(capT); set {
		caps.Tools = &ToolCapabilities{ListChanged: lc}
		any = true
	}
	if set, lc := nfCap(capP); set {
		caps.Prompts = &PromptCapabilities{ListChanged: lc}
		any = true
	}
	if set, lc := nfCap(capR); set {
		caps.Resources = &ResourceCapabilities{ListChanged: lc, Subscribe: true}
		any = true
	}
	if any {
		opts.Capabilities = caps
	}
	w.s = NewServer(&Implementation{Name: "verif-server", Version: "1"}, opts)
	w.s.AddReceivingMiddleware(func(next MethodHandler) MethodHandler {
		return func(ctx context.Context, method string, req Request) (Result, error) {
			res, err := next(ctx, method, req)
			if err == nil {
				w.mu.Lock()
				ttl := w.ttl
				w.mu.Unlock()
				switch r := res.(type) {
				case *ListToolsResult:
					r.TTLMs = ttl
				case *ListPromptsResult:
					r.TTLMs = ttl
				case *ListResourcesResult:
					r.TTLMs = ttl
				case *ListResourceTemplatesResult:
					r.TTLMs = ttl
				case *ReadResourceResult:
					r.TTLMs = ttl
				}
			}
			return res, err
		}
	})
	// Schedule point "right after the acknowledgement write": the goroutine that runs a
	// subscriptions/listen handler is parked once notifySubscriptionAcked's write has returned (the
	// client has the ack), holding no lock, until the `ackdone` label. Whatever the handler still has
	// to do after acknowledging happens after every label scheduled into that window.
	w.s.AddSendingMiddleware(func(next MethodHandler) MethodHandler {
		return func(ctx context.Context, method string, req Request) (Result, error) {
			res, err := next(ctx, method, req)
			if method != notificationSubscriptionsAck || err != nil {
				return res, err
			}
			ss, _ := req.GetSession().(*ServerSession)
			var ch chan struct{}
			w.mu.Lock()
			for _, sl := range w.slots {
				if sl != nil && sl.ss == ss && sl.holdNext {
					sl.holdNext = false
					ch = make(chan struct{})
					sl.ackParked[sl.ackWant] = ch
				}
			}
			w.mu.Unlock()
			if ch != nil {
				<-ch
			}
			return res, err
		}
	})
	// two permanent resources whose content the harness versions
	for i := 0; i < 2; i++ {
		i := i
		w.s.AddResource(&Resource{URI: nfURI(i), Name: fmt.Sprintf("u%d", i)}, func(context.Context, *ReadResourceRequest) (*ReadResourceResult, error) {
			w.mu.Lock()
			v := w.content[i]
			w.mu.Unlock()
			return &ReadResourceResult{Contents: []*ResourceContents{{URI: nfURI(i), Text: fmt.Sprintf("v%d", v)}}}, nil
		})
	}
	w.win = map[string]*nfWindow{}
	for _, fs := range nfSets {
		nw := &nfWindow{lo: 1, hi: 0, desc: map[int]int{}, byText: map[string]int{}}
		if fs == "resources" {
			nw.ver = 2
		}
		nw.byText[nw.text("")] = nw.ver
		w.win[fs] = nw
	}
}

// change performs one feature-set mutation through the public API.
func (w *nfWorld) change(fs, eff string) string {
	nw := w.win[fs]
	switch eff {
	case "add":
		nw.hi++
		w.descCtr++
		nw.desc[nw.hi] = w.descCtr
		w.addFeature(fs, nw.hi, w.descCtr)
	case "replace":
		if nw.hi < nw.lo {
			return "refused"
		}
		w.descCtr++
		nw.desc[nw.hi] = w.descCtr
		w.addFeature(fs, nw.hi, w.descCtr)
	case "remove":
		if nw.hi < nw.lo {
			return "refused"
		}
		w.removeFeature(fs, nw.lo)
		delete(nw.desc, nw.lo)
		nw.lo++
	case "noop":
		w.removeFeature(fs, 1_000_000)
		return "ok"
	default:
		return "bad-op"
	}
	nw.ver++
	nw.byText[nw.text("")] = nw.ver
	return "ok"
}

func (w *nfWorld) addFeature(fs string, n, d int) {
	name, desc := fmt.Sprintf("w%d", n), fmt.Sprintf("d%d", d)
	switch fs {
	case "tools":
		w.s.AddTool(&Tool{Name: name, Description: desc, InputSchema: &jsonschema.Schema{Type: "object"}}, nil)
	case "prompts":
		w.s.AddPrompt(&Prompt{Name: name, Description: desc}, nil)
	case "resources":
		w.s.AddResource(&Resource{URI: "file:///w/" + name, Name: name, Description: desc}, nil)
	case "templates":
		w.s.AddResourceTemplate(&ResourceTemplate{URITemplate: "tmpl://" + name + "/{x}", Name: name, Description: desc}, nil)
	}
}

func (w *nfWorld) removeFeature(fs string, n int) {
	name := fmt.Sprintf("w%d", n)
	switch fs {
	case "tools":
		w.s.RemoveTools(name)
	case "prompts":
		w.s.RemovePrompts(name)
	case "resources":
		w.s.RemoveResources("file:///w/" + name)
	case "templates":
		w.s.RemoveResourceTemplates("tmpl://" + name + "/{x}")
	}
}

// ---- clients

func nfStamp(sl *nfSlot, meta Meta) string {
	if meta == nil {
		return "plain"
	}
	raw, ok := meta[MetaKeySubscriptionID]
	if !ok {
		return "plain"
	}
	if n, ok := sl.ids[fmt.Sprint(raw)]; ok {
		return n
	}
	return "x"
}

func (w *nfWorld) setHK(sl *nfSlot, hk string) {
	w.mu.Lock()
	defer w.mu.Unlock()
	for i := len(w.events) - 1; i >= 0; i-- {
		if w.events[i].slot == sl.idx {
			w.events[i].hk = hk
			return
		}
	}
}

func nfListKey(method string, req Request) string {
	switch method {
	case methodListTools:
		return "tools"
	case methodListPrompts:
		return "prompts"
	case methodListResources:
		return "resources"
	case methodListResourceTemplates:
		return "templates"
	case methodReadResource:
		if p, ok := req.GetParams().(*ReadResourceParams); ok && p != nil {
			return fmt.Sprintf("read:%d", nfURIIndex(p.URI))
		}
		return "read:?"
	}
	return ""
}

func (w *nfWorld) newClient(sl *nfSlot) {
	opts := &ClientOptions{
		ResourceUpdatedHandler: func(_ context.Context, req *ResourceUpdatedNotificationRequest) {
			w.setHK(sl, fmt.Sprintf("u%d", nfURIIndex(req.Params.URI)))
		},
	}
	if strings.Contains(sl.mask, "t") {
		opts.ToolListChangedHandler = func(context.Context, *ToolListChangedRequest) { w.setHK(sl, "t") }
	}
	if strings.Contains(sl.mask, "p") {
		opts.PromptListChangedHandler = func(context.Context, *PromptListChangedRequest) { w.setHK(sl, "p") }
	}
	if strings.Contains(sl.mask, "r") {
		opts.ResourceListChangedHandler = func(context.Context, *ResourceListChangedRequest) { w.setHK(sl, "r") }
	}
	c := NewClient(&Implementation{Name: fmt.Sprintf("verif-client-%d", sl.idx), Version: "1"}, opts)
	c.AddReceivingMiddleware(func(next MethodHandler) MethodHandler {
		return func(ctx context.Context, method string, req Request) (Result, error) {
			switch method {
			case notificationSubscriptionsAck:
				if cr, ok := req.(*ClientRequest[*SubscriptionsAcknowledgedParams]); ok && cr.Params != nil {
					w.mu.Lock()
					id := fmt.Sprint(cr.Params.Meta[MetaKeySubscriptionID])
					sl.ids[id] = sl.ackWant
					a := cr.Params.Notifications
					ks := ""
					if a.ToolsListChanged {
						ks += "t"
					}
					if a.PromptsListChanged {
						ks += "p"
					}
					if a.ResourcesListChanged {
						ks += "r"
					}
					if ks == "" {
						ks = "-"
					}
					var us []string
					for _, u := range a.ResourceSubscriptions {
						us = append(us, fmt.Sprintf("u%d", nfURIIndex(u)))
					}
					sort.Strings(us)
					sl.lastAck = strings.TrimSpace("ack " + ks + " " + strings.Join(us, " "))
					w.mu.Unlock()
				}
			case notificationToolListChanged, notificationPromptListChanged, notificationResourceListChanged, notificationResourceUpdated:
				var meta Meta
				if p := req.GetParams(); p != nil && !p.isNil() {
					meta = p.GetMeta()
				}
				w.mu.Lock()
				w.events = append(w.events, nfEvent{slot: sl.idx, method: method, stamp: nfStamp(sl, meta), hk: "-"})
				w.mu.Unlock()
			}
			return next(ctx, method, req)
		}
	})
	c.AddSendingMiddleware(func(next MethodHandler) MethodHandler {
		return func(ctx context.Context, method string, req Request) (Result, error) {
			if method == methodSubscriptionsListen {
				w.mu.Lock()
				g := sl.listenGate
				w.mu.Unlock()
				if g != nil {
					<-g
				}
				return next(ctx, method, req)
			}
			key := nfListKey(method, req)
			if key == "" {
				return next(ctx, method, req)
			}
			w.mu.Lock()
			sl.reached[key] = true
			h := sl.held[key]
			if h != nil && h.phase != "" {
				h = nil // a second, unheld call for the same key
			}
			var pre chan struct{}
			if h != nil {
				pre = h.pre
				if pre != nil {
					h.phase = "pre"
				} else {
					h.phase = "flight"
				}
			}
			w.mu.Unlock()
			if pre != nil {
				<-pre
			}
			res, err := next(ctx, method, req)
			if h != nil {
				w.mu.Lock()
				h.phase = "held"
				h.arrived = w.versionOf(key, res, err)
				w.mu.Unlock()
				<-h.post
			}
			return res, err
		}
	})
	sl.client = c
}

// versionOf maps a list/read result to the server version it shows ("v?" = no state the server ever had).
// Caller holds w.mu.
func (w *nfWorld) versionOf(key string, res Result, err error) string {
	if err != nil {
		return "err"
	}
	look := func(fs string, parts []string, extra string) string {
		sort.Strings(parts)
		if v, ok := w.win[fs].byText[extra+strings.Join(parts, ",")]; ok {
			return fmt.Sprintf("v%d", v)
		}
		return "v?"
	}
	switch r := res.(type) {
	case *ListToolsResult:
		var p []string
		for _, t := range r.Tools {
			p = append(p, t.Name+"="+t.Description)
		}
		return look("tools", p, "")
	case *ListPromptsResult:
		var p []string
		for _, t := range r.Prompts {
			p = append(p, t.Name+"="+t.Description)
		}
		return look("prompts", p, "")
	case *ListResourcesResult:
		var p []string
		base := 0
		for _, t := range r.Resources {
			if nfURIIndex(t.URI) >= 0 {
				base++
				continue
			}
			p = append(p, t.Name+"="+t.Description)
		}
		if base != 2 {
			return "v?"
		}
		return look("resources", p, "")
	case *ListResourceTemplatesResult:
		var p []string
		for _, t := range r.ResourceTemplates {
			p = append(p, t.Name+"="+t.Description)
		}
		return look("templates", p, "")
	case *ReadResourceResult:
		if len(r.Contents) == 1 && strings.HasPrefix(r.Contents[0].Text, "v") {
			return r.Contents[0].Text
		}
		return "v?"
	}
	return "v?"
}

func (w *nfWorld) call(sl *nfSlot, key string) (Result, error) {
	ctx := context.Background()
	switch key {
	case "tools":
		return sl.cs.ListTools(ctx, nil)
	case "prompts":
		return sl.cs.ListPrompts(ctx, nil)
	case "resources":
		return sl.cs.ListResources(ctx, nil)
	case "templates":
		return sl.cs.ListResourceTemplates(ctx, nil)
	case "read:0", "read:1":
		i, _ := strconv.Atoi(key[5:])
		return sl.cs.ReadResource(ctx, &ReadResourceParams{URI: nfURI(i)})
	}
	return nil, fmt.Errorf("bad key")
}

// ---- events

func (w *nfWorld) takeEvents() []nfEvent {
	w.mu.Lock()
	defer w.mu.Unlock()
	ev := w.events
	w.events = nil
	return ev
}

func nfTokens(ev []nfEvent) string {
	var toks []string
	for _, e := range ev {
		toks = append(toks, fmt.Sprintf("c%d:%s:%s:%s", e.slot, e.method, e.stamp, e.hk))
	}
	sort.Strings(toks)
	return strings.Join(toks, " ")
}

func (w *nfWorld) sent(ev []nfEvent) string {
	return strings.TrimSpace(fmt.Sprintf("sent@%d %s", w.now(), nfTokens(ev)))
}

// withStray appends anything that arrived although the label does not deliver notifications.
func (w *nfWorld) withStray(obs string) string {
	if ev := w.takeEvents(); len(ev) > 0 {
		return obs + " stray " + nfTokens(ev)
	}
	return obs
}

func (w *nfWorld) tracked(kind string) bool {
	w.s.mu.Lock()
	defer w.s.mu.Unlock()
	return w.s.pendingNotifications[nfNotification(kind)] != nil
}

func (w *nfWorld) tables() string {
	w.s.mu.Lock()
	defer w.s.mu.Unlock()
	idName := func(ss *ServerSession, id any) string {
		for _, sl := range w.slots {
			if sl != nil && sl.ss == ss {
				if !sl.modern {
					return "q"
				}
				if n, ok := sl.ids[fmt.Sprint(id)]; ok {
					return n
				}
				return "x"
			}
		}
		return "x"
	}
	dump := func(m map[*ServerSession]jsonrpc.ID) string {
		var p []string
		for ss, id := range m {
			p = append(p, w.slotOfSS(ss)+"="+idName(ss, id.Raw()))
		}
		sort.Strings(p)
		return "[" + strings.Join(p, " ") + "]"
	}
	out := "T" + dump(w.s.toolChangeSubscriptions) + " P" + dump(w.s.promptChangeSubscriptions) + " R" + dump(w.s.resourceChangeSubscriptions)
	for i := 0; i < 2; i++ {
		out += fmt.Sprintf(" U%d", i) + dump(w.s.resourceSubscriptions[nfURI(i)])
	}
	var sess []string
	for _, ss := range w.s.sessions {
		sess = append(sess, w.slotOfSS(ss))
	}
	sort.Strings(sess)
	return out + " S[" + strings.Join(sess, " ") + "]"
}

// ---- one label

func (w *nfWorld) apply(toks []string) (obs string) {
	defer func() {
		if r := recover(); r != nil {
			obs = "panic"
		}
	}()
	slot := func(i int) (*nfSlot, bool) {
		if len(toks) <= i || len(toks[i]) != 2 || toks[i][0] != 'c' || toks[i][1] < '0' || toks[i][1] > '2' {
			return nil, false
		}
		return w.slots[toks[i][1]-'0'], true
	}
	switch toks[0] {
	case "config":
		if len(toks) != 5 {
			return "bad-op"
		}
		w.newServer(toks[1], toks[2], toks[3])
		// toks[4] (hook0|hook1) states what the harness detected; it is an input of the model
		return "ok"
	case "ttl":
		n, _ := strconv.Atoi(toks[1])
		w.mu.Lock()
		w.ttl = n
		w.mu.Unlock()
		return "ok"
	case "change":
		obs := w.change(toks[1], toks[2])
		synctest.Wait()
		return w.withStray(obs)
	case "advance":
		d, _ := strconv.Atoi(toks[1])
		time.Sleep(time.Duration(d) * time.Millisecond)
		synctest.Wait()
		if !w.hook {
			return "ok" // hook-less tree: the callbacks have run; the caller emits their records
		}
		w.mu.Lock()
		f := w.fired
		w.fired = nil
		w.mu.Unlock()
		sort.Slice(f, func(i, j int) bool { return nfKindIndex(f[i]) < nfKindIndex(f[j]) })
		return w.withStray(strings.TrimSpace("fired " + strings.Join(f, " ")))
	case "cbrun":
		w.mu.Lock()
		q := w.parked[toks[1]]
		if len(q) == 0 {
			w.mu.Unlock()
			return "none"
		}
		w.parked[toks[1]] = q[1:]
		w.mu.Unlock()
		close(q[0])
		synctest.Wait()
		return w.sent(w.takeEvents())
	case "connect":
		i := int(toks[1][1] - '0')
		if w.slots[i] != nil {
			return "refused"
		}
		sid, _ := strconv.Atoi(toks[2])
		sl := &nfSlot{idx: i, sid: sid, modern: toks[3] == "modern", mask: toks[4], ids: map[string]string{},
			rsubs: map[int]bool{}, held: map[string]*nfHeld{}, reached: map[string]bool{}, ackWant: "m",
			ackParked: map[string]chan struct{}{}, live: map[string]bool{}, xl: map[string]context.CancelFunc{},
			grant: map[string][]string{}}
		w.newClient(sl)
		ct, st := NewInMemoryTransports()
		ss, err := w.s.Connect(context.Background(), st, nil)
		if err != nil {
			return "err"
		}
		sl.ss = ss
		ver := protocolVersion20251125
		if sl.modern {
			ver = protocolVersion20260728
			if strings.Trim(sl.mask, "-") != "" {
				sl.listenGate = make(chan struct{})
			}
		}
		sl.connDone = make(chan error, 1)
		w.slots[i] = sl
		go func() {
			cs, err := sl.client.Connect(context.Background(), ct, &ClientSessionOptions{ProtocolVersion: ver})
			w.mu.Lock()
			sl.cs = cs
			w.mu.Unlock()
			sl.connDone <- err
		}()
		synctest.Wait()
		if sl.listenGate != nil {
			return w.withStray("ok listen-held")
		}
		if err := <-sl.connDone; err != nil {
			return "err"
		}
		sl.connected = true
		return w.withStray("ok")
	case "listen":
		sl, ok := slot(1)
		hold := len(toks) == 3 && toks[2] == "hold"
		if !ok || len(toks) > 3 || (len(toks) == 3 && !hold) {
			return "bad-op"
		}
		if sl == nil || sl.listenGate == nil {
			return "refused"
		}
		w.mu.Lock()
		g := sl.listenGate
		sl.listenGate = nil
		sl.ackWant = "m"
		sl.lastAck = "noack"
		sl.holdNext = hold
		w.mu.Unlock()
		close(g)
		synctest.Wait()
		if err := <-sl.connDone; err != nil {
			return "err"
		}
		sl.connected = true
		w.mu.Lock()
		a := sl.lastAck
		sl.holdNext = false
		sl.live["m"] = a != "noack" && a != "ack -"
		w.xtag = sl.opened("m", a)
		if sl.ackParked["m"] != nil {
			a += " parked"
		}
		w.mu.Unlock()
		return w.withStray(a)
	case "xlisten":
		// xlisten c<i> L<n> <mask|-> [u<j>] [hold]: a further subscriptions/listen of the session, opened
		// below the public API (ClientSession opens one list-changed listen per session and one per URI)
		sl, ok := slot(1)
		if !ok || len(toks) < 4 || len(toks) > 6 {
			return "bad-op"
		}
		name, mask, rest := toks[2], toks[3], toks[4:]
		uri := -1
		if len(rest) > 0 && strings.HasPrefix(rest[0], "u") {
			n, err := strconv.Atoi(rest[0][1:])
			if err != nil {
				return "bad-op"
			}
			uri, rest = n, rest[1:]
		}
		hold := len(rest) == 1 && rest[0] == "hold"
		if len(rest) > 1 || (len(rest) == 1 && !hold) {
			return "bad-op"
		}
		if name != "m" {
			if n, err := strconv.Atoi(strings.TrimPrefix(name, "L")); err != nil || !strings.HasPrefix(name, "L") || n < 0 {
				return "bad-op"
			}
		}
		subs := &NotificationSubscriptions{
			ToolsListChanged:     strings.Contains(mask, "t"),
			PromptsListChanged:   strings.Contains(mask, "p"),
			ResourcesListChanged: strings.Contains(mask, "r"),
		}
		anyKind := subs.ToolsListChanged || subs.PromptsListChanged || subs.ResourcesListChanged
		if sl == nil || !sl.connected || !sl.modern || name == "m" || (anyKind && uri >= 0) || sl.live[name] {
			return "refused"
		}
		w.mu.Lock()
		held := sl.ackParked[name]
		w.mu.Unlock()
		if held != nil {
			return "refused" // a handler of that name (granted nothing) is still held after its ack write
		}
		if uri >= 0 {
			subs.ResourceSubscriptions = []string{nfURI(uri)}
		}
		w.mu.Lock()
		sl.ackWant = name
		sl.lastAck = "noack"
		sl.holdNext = hold
		w.mu.Unlock()
		lctx, cancel := context.WithCancel(context.Background())
		if err := sl.cs.subscriptionsListen(lctx, &SubscriptionsListenParams{Notifications: subs}); err != nil {
			cancel()
			return "err"
		}
		synctest.Wait()
		w.mu.Lock()
		a := sl.lastAck
		sl.holdNext = false
		if a != "noack" && a != "ack -" {
			sl.live[name] = true
			sl.xl[name] = cancel
			w.xtag = sl.opened(name, a)
		} else {
			defer cancel()
		}
		if sl.ackParked[name] != nil {
			a += " parked"
		}
		w.mu.Unlock()
		return w.withStray(a)
	case "xend":
		// xend c<i> <m|L<n>>: the client cancels that listen; its handler on the server ends
		sl, ok := slot(1)
		if !ok || len(toks) != 3 {
			return "bad-op"
		}
		name := toks[2]
		if name != "m" {
			if _, err := strconv.Atoi(strings.TrimPrefix(name, "L")); err != nil || !strings.HasPrefix(name, "L") {
				return "bad-op"
			}
		}
		if sl == nil || !sl.connected || !sl.modern {
			return "refused"
		}
		w.mu.Lock()
		p := sl.ackParked[name]
		w.mu.Unlock()
		if p != nil || !sl.live[name] {
			return "refused"
		}
		if name == "m" {
			sl.cs.listenCancel()
		} else {
			sl.xl[name]()
			delete(sl.xl, name)
		}
		synctest.Wait()
		delete(sl.live, name)
		w.xtag = sl.endedListen(name)
		return w.withStray("ok")
	case "subscribe", "unsubscribe":
		sl, ok := slot(1)
		hold := toks[0] == "subscribe" && len(toks) == 4 && toks[3] == "hold"
		if !ok || len(toks) < 3 || len(toks) > 4 || (len(toks) == 4 && !hold) {
			return "bad-op"
		}
		if sl == nil || !sl.connected {
			return "refused"
		}
		u, _ := strconv.Atoi(strings.TrimPrefix(toks[2], "u"))
		var err error
		obs := "ok"
		name := fmt.Sprintf("r%d", u)
		if toks[0] == "subscribe" {
			if hold && !sl.modern {
				return "refused"
			}
			was := sl.rsubs[u]
			w.mu.Lock()
			sl.ackWant = name
			sl.lastAck = "noack"
			sl.holdNext = hold && !was
			w.mu.Unlock()
			err = sl.cs.Subscribe(context.Background(), &SubscribeParams{URI: nfURI(u)})
			synctest.Wait()
			if sl.modern {
				if was {
					obs = "noop"
				} else {
					sl.rsubs[u] = true
					w.mu.Lock()
					obs = sl.lastAck
					w.xtag = sl.opened(name, obs)
					sl.holdNext = false
					if sl.ackParked[name] != nil {
						obs += " parked"
					}
					w.mu.Unlock()
				}
			}
		} else {
			w.mu.Lock()
			p := sl.ackParked[name]
			w.mu.Unlock()
			if p != nil {
				return "refused" // the handler that would see the cancellation is held
			}
			err = sl.cs.Unsubscribe(context.Background(), &UnsubscribeParams{URI: nfURI(u)})
			synctest.Wait()
			delete(sl.rsubs, u)
			if sl.modern {
				w.xtag = sl.endedListen(name)
			}
		}
		if err != nil {
			obs = "err"
		}
		return w.withStray(obs)
	case "close":
		sl, ok := slot(1)
		if !ok || sl == nil || !sl.connected || len(sl.held) > 0 || len(sl.ackParked) > 0 {
			return "refused"
		}
		// the raw listens are outstanding calls of the connection: like ClientSession.Close does for the
		// listens it opened itself, cancel them first (jsonrpc2's Close waits for outstanding calls)
		for _, cancel := range sl.xl {
			cancel()
		}
		synctest.Wait()
		sl.cs.Close()
		synctest.Wait()
		sl.ss.Wait()
		w.closed[sl.ss] = sl.sid
		w.slots[sl.idx] = nil
		return w.withStray("ok")
	case "ackdone":
		sl, ok := slot(1)
		if !ok || len(toks) != 3 {
			return "bad-op"
		}
		if sl == nil {
			return "refused"
		}
		w.mu.Lock()
		ch := sl.ackParked[toks[2]]
		delete(sl.ackParked, toks[2])
		w.mu.Unlock()
		if ch == nil {
			return "refused"
		}
		close(ch)
		synctest.Wait()
		return w.withStray("ok")
	case "rupdated":
		u, _ := strconv.Atoi(strings.TrimPrefix(toks[1], "u"))
		w.mu.Lock()
		w.content[u]++
		w.mu.Unlock()
		if err := w.s.ResourceUpdated(context.Background(), &ResourceUpdatedNotificationParams{URI: nfURI(u)}); err != nil {
			return "err"
		}
		synctest.Wait()
		return w.sent(w.takeEvents())
	case "list":
		sl, ok := slot(1)
		if !ok || sl == nil || !sl.connected || len(toks) != 4 {
			return "refused"
		}
		key := toks[2]
		if sl.held[key] != nil {
			return "refused"
		}
		w.mu.Lock()
		sl.reached[key] = false
		w.mu.Unlock()
		if toks[3] == "n" {
			res, err := w.call(sl, key)
			synctest.Wait()
			w.mu.Lock()
			v := w.versionOf(key, res, err)
			hit := !sl.reached[key]
			w.mu.Unlock()
			return w.withStray(nfRet(v, hit))
		}
		h := &nfHeld{post: make(chan struct{}), done: make(chan struct{})}
		if toks[3] == "pre" {
			h.pre = make(chan struct{})
		}
		w.mu.Lock()
		sl.held[key] = h
		w.mu.Unlock()
		go func() {
			res, err := w.call(sl, key)
			w.mu.Lock()
			h.result = w.versionOf(key, res, err)
			if h.phase == "" {
				h.phase = "hit"
			} else {
				h.phase = "done"
			}
			w.mu.Unlock()
			close(h.done)
		}()
		synctest.Wait()
		w.mu.Lock()
		defer w.mu.Unlock()
		switch h.phase {
		case "hit":
			delete(sl.held, key)
			return nfRet(h.result, true)
		case "pre":
			return "pre"
		case "held":
			return "held " + h.arrived
		}
		return "stuck " + h.phase
	case "send":
		sl, ok := slot(1)
		if !ok || sl == nil {
			return "refused"
		}
		h := sl.held[toks[2]]
		if h == nil || h.phase != "pre" {
			return "refused"
		}
		close(h.pre)
		synctest.Wait()
		w.mu.Lock()
		defer w.mu.Unlock()
		if h.phase == "held" {
			return "held " + h.arrived
		}
		return "stuck " + h.phase
	case "fill":
		sl, ok := slot(1)
		if !ok || sl == nil {
			return "refused"
		}
		h := sl.held[toks[2]]
		if h == nil || h.phase != "held" {
			return "refused"
		}
		close(h.post)
		synctest.Wait()
		<-h.done
		w.mu.Lock()
		delete(sl.held, toks[2])
		r := h.result
		w.mu.Unlock()
		return w.withStray(nfRet(r, false))
	case "tables":
		return w.tables()
	case "end":
		return w.withStray("ok")
	}
	return "bad-op"
}

// ackWindows lists the listen handlers that are held right after their ack write, as "c<i> <name>".
func (w *nfWorld) ackWindows() []string {
	w.mu.Lock()
	defer w.mu.Unlock()
	var out []string
	for i, sl := range w.slots {
		if sl == nil {
			continue
		}
		var names []string
		for n := range sl.ackParked {
			names = append(names, n)
		}
		sort.Strings(names)
		for _, n := range names {
			out = append(out, fmt.Sprintf("c%d %s", i, n))
		}
	}
	return out
}

func nfRet(v string, hit bool) string {
	if hit {
		return "ret " + v + " hit"
	}
	return "ret " + v + " miss"
}

func nfKindIndex(k string) int {
	for i, x := range nfKinds {
		if x == k {
			return i
		}
	}
	return 9
}

// cleanup releases everything that is parked and closes every session so that the bubble can end.
func (w *nfWorld) cleanup() {
	for _, sl := range w.slots {
		if sl == nil {
			continue
		}
		w.mu.Lock()
		if sl.listenGate != nil {
			close(sl.listenGate)
			sl.listenGate = nil
		}
		for _, h := range sl.held {
			if h.pre != nil && h.phase == "pre" {
				close(h.pre)
			}
		}
		sl.holdNext = false
		for k, ch := range sl.ackParked {
			close(ch)
			delete(sl.ackParked, k)
		}
		w.mu.Unlock()
	}
	synctest.Wait()
	for _, sl := range w.slots {
		if sl == nil {
			continue
		}
		w.mu.Lock()
		for _, h := range sl.held {
			if h.phase == "held" {
				close(h.post)
			}
		}
		w.mu.Unlock()
	}
	synctest.Wait()
	for rounds := 0; rounds < 4; rounds++ {
		time.Sleep(50 * time.Millisecond)
		synctest.Wait()
		w.mu.Lock()
		for k, q := range w.parked {
			for _, ch := range q {
				close(ch)
			}
			w.parked[k] = nil
		}
		w.mu.Unlock()
		synctest.Wait()
	}
	for _, sl := range w.slots {
		if sl == nil {
			continue
		}
		select {
		case <-sl.connDone:
		default:
		}
		for _, cancel := range sl.xl {
			cancel()
		}
		synctest.Wait()
		if sl.cs != nil {
			sl.cs.Close()
		}
		synctest.Wait()
		if sl.ss != nil {
			sl.ss.Close()
		}
	}
	synctest.Wait()
}

// ---- running a case

type nfEmit func(op, obs string, tags ...string)

func nfTag(toks []string, obs string) string {
	switch toks[0] {
	case "change":
		return "change-" + toks[2]
	case "connect":
		return "connect-" + toks[3]
	case "listen", "subscribe", "xlisten":
		if strings.HasSuffix(obs, " parked") {
			return toks[0] + "-hold"
		}
		return toks[0]
	case "list":
		f := strings.Fields(obs)
		t := "list-" + toks[3]
		if strings.HasPrefix(toks[2], "read") {
			t = "read-" + toks[3]
		}
		if len(f) == 3 {
			t += "-" + f[2]
		}
		return t
	case "cbrun", "rupdated":
		if len(strings.Fields(obs)) > 1 {
			return toks[0] + "-delivered"
		}
		return toks[0] + "-nobody"
	case "advance":
		if strings.HasPrefix(obs, "fired ") {
			return "advance-fired"
		}
		return "advance"
	}
	return toks[0]
}

// nfRunCase runs one scenario in its own bubble. next returns the next op ("" = stop); it may look at
// the world to keep the schedule meaningful.
func nfRunCase(t *testing.T, hook bool, emit nfEmit, next func(w *nfWorld, step int) string) {
	synctest.Test(t, func(t *testing.T) {
		w := &nfWorld{t0: time.Now(), hook: hook, closed: map[*ServerSession]int{}, parked: map[string][]chan struct{}{}}
		if hook {
			fn := func(site, detail string) {
				if site != "notifySessions" {
					return
				}
				k := nfKindOfMethod(detail)
				ch := make(chan struct{})
				w.mu.Lock()
				w.parked[k] = append(w.parked[k], ch)
				w.fired = append(w.fired, k)
				w.mu.Unlock()
				<-ch
			}
			verifYieldHook.Store(&fn)
			defer verifYieldHook.Store(nil)
		}
		emit("reset", "ok", "reset")
		for step := 0; ; step++ {
			op := next(w, step)
			if op == "" {
				break
			}
			toks := strings.Fields(op)
			if w.s == nil && toks[0] != "config" {
				emit(op, "bad-op", "bad")
				continue
			}
			var before [3]bool
			if toks[0] == "advance" && !w.hook && w.s != nil {
				for i, k := range nfKinds {
					before[i] = w.tracked(k)
				}
			}
			inWindow := w.s != nil && len(w.ackWindows()) > 0
			w.xtag = ""
			obs := w.apply(toks)
			if w.xtag != "" {
				xt := w.xtag
				w.xtag = ""
				if inWindow {
					emit(op, obs, nfTag(toks, obs), xt, "ackwin-"+toks[0])
				} else {
					emit(op, obs, nfTag(toks, obs), xt)
				}
				continue
			}
			if inWindow && toks[0] != "advance" {
				// the op ran while a listen handler was held right after its ack write
				emit(op, obs, nfTag(toks, obs), "ackwin-"+toks[0])
				continue
			}
			if toks[0] == "advance" && !w.hook && w.s != nil {
				emit(op, obs, nfTag(toks, obs))
				// hook-less tree: the callbacks that were due have run inside the advance
				ev := w.takeEvents()
				for i, k := range nfKinds {
					if before[i] && !w.tracked(k) {
						var mine, rest []nfEvent
						for _, e := range ev {
							if nfKindOfMethod(e.method) == k {
								mine = append(mine, e)
							} else {
								rest = append(rest, e)
							}
						}
						ev = rest
						o := w.sent(mine)
						emit("cbrun "+k, o, nfTag([]string{"cbrun", k}, o))
					}
				}
				if len(ev) > 0 {
					emit("stray", "stray "+nfTokens(ev), "stray")
				}
				continue
			}
			emit(op, obs, nfTag(toks, obs))
		}
		if w.s != nil {
			w.cleanup()
		}
	})
}

// nfDetectHook: is the verifYield call present in Server.notifySessions of the tree under test?
func nfDetectHook(t *testing.T) bool {
	called := false
	synctest.Test(t, func(t *testing.T) {
		fn := func(site, detail string) {
			if site == "notifySessions" {
				called = true
			}
		}
		verifYieldHook.Store(&fn)
		defer verifYieldHook.Store(nil)
		s := NewServer(&Implementation{Name: "probe", Version: "1"}, nil)
		ct, st := NewInMemoryTransports()
		ss, err := s.Connect(context.Background(), st, nil)
		if err != nil {
			t.Fatal(err)
		}
		c := NewClient(&Implementation{Name: "probe", Version: "1"}, nil)
		cs, err := c.Connect(context.Background(), ct, &ClientSessionOptions{ProtocolVersion: protocolVersion20251125})
		if err != nil {
			t.Fatal(err)
		}
		s.AddTool(&Tool{Name: "t", InputSchema: &jsonschema.Schema{Type: "object"}}, nil)
		time.Sleep(2 * notificationDelay)
		synctest.Wait()
		cs.Close()
		ss.Wait()
	})
	return called
}

// ---- generator

type nfGen struct {
	rng     *rand.Rand
	n       int
	nextSid int
	tail    []string
	hook    string
	focus   int // 0 mixed, 1 debounce window, 2 cache races, 3 subscriptions, 4 windows after an ack write, 5 overlapping listens of one session
	steps   int
}

func (g *nfGen) pick(xs ...string) string { return xs[g.rng.Intn(len(xs))] }

func (g *nfGen) next(w *nfWorld, step int) string {
	if len(g.tail) > 0 {
		op := g.tail[0]
		g.tail = g.tail[1:]
		return op
	}
	if step == 0 {
		caps := []string{"unset", "on", "off"}
		pc := func() string {
			if g.rng.Intn(4) == 0 {
				return caps[g.rng.Intn(3)]
			}
			return g.pick("unset", "on")
		}
		return fmt.Sprintf("config %s %s %s %s", pc(), pc(), pc(), g.hook)
	}
	if step == 1 {
		return "ttl " + g.pick("0", "1", "60000", "60000", "60000")
	}
	return g.body(w)
}

func (g *nfGen) body(w *nfWorld) string {
	var conn, free, gated []int
	for i, sl := range w.slots {
		switch {
		case sl == nil:
			free = append(free, i)
		case sl.listenGate != nil:
			gated = append(gated, i)
		case sl.connected:
			conn = append(conn, i)
		}
	}
	w.mu.Lock()
	var parked []string
	for _, k := range nfKinds {
		if len(w.parked[k]) > 0 {
			parked = append(parked, k)
		}
	}
	w.mu.Unlock()
	fs := func() string {
		if g.focus == 1 || g.focus == 2 {
			return g.pick("tools", "tools", "tools", "prompts", "resources", "templates")
		}
		return nfSets[g.rng.Intn(4)]
	}
	key := func() string {
		if g.focus == 2 {
			return g.pick("tools", "tools", "tools", "prompts", "resources", "templates", "read:0", "read:1")
		}
		return g.pick("tools", "prompts", "resources", "templates", "read:0", "read:1")
	}
	changeOp := func() string {
		f := fs()
		nw := w.win[f]
		size := nw.hi - nw.lo + 1
		switch r := g.rng.Intn(10); {
		case size == 0 || r < 4:
			return "change " + f + " add"
		case r < 6:
			return "change " + f + " replace"
		case r < 9 && size >= 2:
			return "change " + f + " remove"
		case r == 9:
			return "change " + f + " noop"
		}
		return "change " + f + " replace"
	}
	// which URIs have a subscriber, which keys a slot has listed before (to get cache hits)
	subscribed := []int{}
	for _, i := range conn {
		for u := range w.slots[i].rsubs {
			subscribed = append(subscribed, u)
		}
		for _, gr := range w.slots[i].grant {
			for _, x := range gr {
				if x == "u0" || x == "u1" {
					subscribed = append(subscribed, int(x[1]-'0'))
				}
			}
		}
	}
	sort.Ints(subscribed)
	if g.steps < 3 && g.rng.Intn(10) < 7 {
		g.steps++
		return "change " + g.pick("tools", "prompts", "tools", "templates") + " add"
	}
	g.steps++
	if len(conn)+len(gated) == 0 && len(free) > 0 && g.rng.Intn(10) < 6 {
		g.nextSid++
		gen := g.pick("legacy", "modern", "modern")
		if g.focus == 4 || g.focus == 5 {
			gen = "modern"
		}
		return fmt.Sprintf("connect c%d %d %s %s", free[g.rng.Intn(len(free))], g.nextSid, gen, g.pick("tpr", "tpr", "t", "tp", "r", "-"))
	}
	holdP := 3 // out of 10: how often a listen's handler is held right after its ack write
	if g.focus == 4 {
		holdP = 8
	}
	hold := func() string {
		if g.rng.Intn(10) < holdP {
			return " hold"
		}
		return ""
	}
	wins := w.ackWindows()
	if len(wins) > 0 {
		// a window is open: mostly the labels whose outcome depends on the tables (changes and
		// their timers and callbacks, ResourceUpdated, table dumps), sometimes the end of the window
		switch r := g.rng.Intn(100); {
		case r < 12:
			return "ackdone " + wins[g.rng.Intn(len(wins))]
		case r < 22 && len(parked) > 0:
			return "cbrun " + parked[g.rng.Intn(len(parked))]
		case r < 34:
			return changeOp()
		case r < 44:
			d := int(notificationDelay / time.Millisecond)
			return fmt.Sprintf("advance %d", []int{d, d, d + 1, 1, 2 * d}[g.rng.Intn(5)])
		case r < 50:
			return "tables"
		case r < 56:
			f := strings.Fields(wins[g.rng.Intn(len(wins))])
			if strings.HasPrefix(f[1], "r") {
				return "rupdated u" + f[1][1:]
			}
			if sl := w.slots[int(f[0][1]-'0')]; sl != nil {
				for _, gr := range sl.grant[f[1]] {
					if strings.HasPrefix(gr, "u") {
						return "rupdated " + gr
					}
				}
			}
		}
	}
	// further listens of a connected 2026-07-28 session, overlapping the live ones in kinds or in a URI,
	// and the end of any live listen (connect-time, per-URI, raw), in any order
	xp := 7
	if g.focus == 5 {
		xp = 40
	} else if g.focus == 3 {
		xp = 15
	}
	var modernConn []int
	for _, i := range conn {
		if w.slots[i].modern {
			modernConn = append(modernConn, i)
		}
	}
	if len(modernConn) > 0 && g.rng.Intn(100) < xp {
		i := modernConn[g.rng.Intn(len(modernConn))]
		sl := w.slots[i]
		var ends []string // listens that can be ended now
		for _, n := range sl.order {
			w.mu.Lock()
			p := sl.ackParked[n]
			w.mu.Unlock()
			if p == nil {
				ends = append(ends, n)
			}
		}
		if len(ends) > 0 && (len(sl.order) >= 3 || g.rng.Intn(100) < 40) {
			n := ends[g.rng.Intn(len(ends))]
			if g.rng.Intn(4) > 0 {
				g.tail = append(g.tail, "tables")
			}
			if strings.HasPrefix(n, "r") {
				return fmt.Sprintf("unsubscribe c%d u%s", i, n[1:])
			}
			return fmt.Sprintf("xend c%d %s", i, n)
		}
		var free []string
		for _, n := range []string{"L1", "L2", "L3"} {
			w.mu.Lock()
			p := sl.ackParked[n]
			w.mu.Unlock()
			if !sl.live[n] && p == nil {
				free = append(free, n)
			}
		}
		if len(free) > 0 {
			n := free[g.rng.Intn(len(free))]
			// mostly something a live listen of the session was granted too
			var live []string
			for _, o := range sl.order {
				live = append(live, sl.grant[o]...)
			}
			what := g.pick("t", "tp", "tpr", "p", "r", "u0", "u1", "pr")
			if len(live) > 0 && g.rng.Intn(4) > 0 {
				what = live[g.rng.Intn(len(live))]
				if !strings.HasPrefix(what, "u") && g.rng.Intn(2) == 0 {
					what = g.pick("t", "tp", "tpr", "pr", "r", "p")
				}
			}
			if g.rng.Intn(3) == 0 {
				g.tail = append(g.tail, "tables")
			}
			if strings.HasPrefix(what, "u") {
				return fmt.Sprintf("xlisten c%d %s - %s%s", i, n, what, hold())
			}
			return fmt.Sprintf("xlisten c%d %s %s%s", i, n, what, hold())
		}
	}
	for tries := 0; tries < 20; tries++ {
		r := g.rng.Intn(100)
		switch {
		case len(gated) > 0 && r < 35:
			return fmt.Sprintf("listen c%d%s", gated[g.rng.Intn(len(gated))], hold())
		case len(parked) > 0 && r < 45:
			return "cbrun " + parked[g.rng.Intn(len(parked))]
		case r < 20:
			return changeOp()
		case r < 36:
			d := int(notificationDelay / time.Millisecond)
			return fmt.Sprintf("advance %d", []int{1, d - 1, d, d + 1, 1, d, 2 * d}[g.rng.Intn(7)])
		case r < 45:
			if len(free) == 0 {
				continue
			}
			g.nextSid++
			gen := g.pick("legacy", "modern", "modern")
			mask := g.pick("tpr", "tpr", "t", "tp", "r", "-")
			return fmt.Sprintf("connect c%d %d %s %s", free[g.rng.Intn(len(free))], g.nextSid, gen, mask)
		case r < 50:
			if len(conn) == 0 {
				continue
			}
			i := conn[g.rng.Intn(len(conn))]
			if len(w.slots[i].held) > 0 || len(w.slots[i].ackParked) > 0 {
				continue
			}
			g.tail = append(g.tail, "tables")
			return fmt.Sprintf("close c%d", i)
		case r < 58:
			if len(conn) == 0 {
				continue
			}
			i := conn[g.rng.Intn(len(conn))]
			u := g.rng.Intn(2)
			if sl := w.slots[i]; sl.modern && !sl.rsubs[u] {
				if h := hold(); h != "" {
					return fmt.Sprintf("subscribe c%d u%d hold", i, u)
				}
			}
			if g.rng.Intn(3) == 0 {
				g.tail = append(g.tail, "tables")
			}
			return fmt.Sprintf("subscribe c%d u%d", i, u)
		case r < 62:
			if len(conn) == 0 {
				continue
			}
			g.tail = append(g.tail, "tables")
			i := conn[g.rng.Intn(len(conn))]
			u := g.rng.Intn(2)
			for x := range w.slots[i].rsubs {
				if g.rng.Intn(2) == 0 {
					u = x
				}
			}
			return fmt.Sprintf("unsubscribe c%d u%d", i, u)
		case r < 68:
			if len(subscribed) > 0 && g.rng.Intn(4) > 0 {
				return fmt.Sprintf("rupdated u%d", subscribed[g.rng.Intn(len(subscribed))])
			}
			return fmt.Sprintf("rupdated u%d", g.rng.Intn(2))
		case r < 70:
			return "ttl " + g.pick("0", "1", "60000")
		case r < 72:
			return "tables"
		default:
			if len(conn) == 0 {
				continue
			}
			i := conn[g.rng.Intn(len(conn))]
			sl := w.slots[i]
			// progress a held call first, most of the time
			hk := make([]string, 0, len(sl.held))
			for k := range sl.held {
				hk = append(hk, k)
			}
			sort.Strings(hk)
			for _, k := range hk {
				if g.rng.Intn(3) > 0 {
					if sl.held[k].phase == "pre" {
						return fmt.Sprintf("send c%d %s", i, k)
					}
					return fmt.Sprintf("fill c%d %s", i, k)
				}
			}
			k := key()
			if len(sl.listed) > 0 && g.rng.Intn(2) == 0 {
				k = sl.listed[g.rng.Intn(len(sl.listed))]
			}
			if sl.held[k] != nil {
				continue
			}
			sl.listed = append(sl.listed, k)
			return fmt.Sprintf("list c%d %s %s", i, k, g.pick("n", "n", "n", "post", "post", "pre"))
		}
	}
	return changeOp()
}

const nfScriptedShapes = 16

// nfScripted: the shapes the property is about, placed at random offsets (so that quick runs always reach them).
func nfScripted(rng *rand.Rand, hook string, variant int) []string {
	d := int(notificationDelay / time.Millisecond)
	ops := []string{fmt.Sprintf("config unset unset unset %s", hook), "ttl 60000"}
	switch variant % nfScriptedShapes {
	case 0: // F7 shape: held response, change, notification handled, fill, list
		ops = append(ops, "change tools add", "connect c0 1 modern tpr", "listen c0", "list c0 tools post", "change tools add",
			fmt.Sprintf("advance %d", d))
		if hook == "hook1" {
			ops = append(ops, "cbrun tools")
		}
		ops = append(ops, "fill c0 tools", "list c0 tools n")
	case 1: // change while the callback is pending
		ops = append(ops, "change tools add", "connect c0 1 legacy -", "connect c1 2 modern t", "listen c1", "change tools add", fmt.Sprintf("advance %d", d))
		if hook == "hook1" {
			ops = append(ops, "change tools add", "cbrun tools", "change tools replace", fmt.Sprintf("advance %d", d), "cbrun tools", "cbrun tools")
		} else {
			ops = append(ops, "change tools add", fmt.Sprintf("advance %d", d-1), "change tools replace", "advance 1", fmt.Sprintf("advance %d", d-1))
		}
	case 2: // subscribe/unsubscribe next to the list-changed subscription of the same session
		ops = append(ops, "change tools add", "connect c0 1 modern tp", "listen c0", "subscribe c0 u0", "tables", "unsubscribe c0 u0", "tables",
			"change tools add", fmt.Sprintf("advance %d", d))
		if hook == "hook1" {
			ops = append(ops, "cbrun tools")
		}
	case 3: // close forgets, updated reaches exactly the subscribers
		ops = append(ops, "connect c0 1 legacy -", "connect c1 2 modern r", "listen c1", "subscribe c0 u1", "subscribe c1 u1", "rupdated u1",
			"close c0", "tables", "rupdated u1", "unsubscribe c1 u1", "rupdated u1", "close c1", "tables")
	case 4: // read cache against resource-updated
		ops = append(ops, "connect c0 1 modern -", "subscribe c0 u0", "list c0 read:0 n", "list c0 read:0 n", "list c0 read:0 post",
			"rupdated u0", "fill c0 read:0", "list c0 read:0 n", "advance 1", "list c0 read:0 n")
	case 6: // a session connects between the timer firing and the callback's snapshot, then another change
		ops = append(ops, "change tools add", "connect c0 1 legacy -", "change tools add", fmt.Sprintf("advance %d", d),
			"connect c1 2 legacy t", "change tools add")
		if hook == "hook1" {
			ops = append(ops, "cbrun tools", fmt.Sprintf("advance %d", d), "cbrun tools")
		} else {
			ops = append(ops, fmt.Sprintf("advance %d", d))
		}
	case 7: // a burst inside the window between a listen's ack write and the handler's next step, then one after it
		ops = append(ops, "change tools add", "connect c0 1 modern tpr", "listen c0 hold", "tables", "change tools add", fmt.Sprintf("advance %d", d))
		if hook == "hook1" {
			ops = append(ops, "cbrun tools")
		}
		ops = append(ops, "list c0 tools n", "ackdone c0 m", "tables", "change tools add", fmt.Sprintf("advance %d", d))
		if hook == "hook1" {
			ops = append(ops, "cbrun tools")
		}
	case 8: // ResourceUpdated inside the window after the ack of a per-URI listen
		ops = append(ops, "connect c0 1 modern -", "connect c1 2 legacy -", "subscribe c1 u0", "subscribe c0 u0 hold", "tables", "rupdated u0",
			"unsubscribe c0 u0", "ackdone c0 r0", "rupdated u0", "unsubscribe c0 u0", "tables", "rupdated u0")
	case 9: // the change precedes the listen; its timer fires inside the window
		ops = append(ops, "change prompts add", "connect c0 1 modern p", "change prompts add", "listen c0 hold", fmt.Sprintf("advance %d", d))
		if hook == "hook1" {
			ops = append(ops, "cbrun prompts")
		}
		ops = append(ops, "close c0", "ackdone c0 m", "close c0", "tables")
	case 10: // two listens of one session opted in to the same kind; the OLDER one (connect-time) ends: a client replacing its stream
		ops = append(ops, "change tools add", "connect c0 1 modern t", "listen c0", "xlisten c0 L1 t", "tables", "change tools add", fmt.Sprintf("advance %d", d))
		if hook == "hook1" {
			ops = append(ops, "cbrun tools")
		}
		ops = append(ops, "xend c0 m", "tables", "change tools add", fmt.Sprintf("advance %d", d))
		if hook == "hook1" {
			ops = append(ops, "cbrun tools")
		}
		ops = append(ops, "xend c0 L1", "tables", "change tools add", fmt.Sprintf("advance %d", d))
		if hook == "hook1" {
			ops = append(ops, "cbrun tools")
		}
	case 11: // … the NEWER one ends: the older, still live listen must go on being served
		ops = append(ops, "change tools add", "change prompts add", "connect c0 1 modern tp", "listen c0", "xlisten c0 L1 tpr", "tables", "xend c0 L1", "tables",
			"change tools add", "change prompts add", fmt.Sprintf("advance %d", d))
		if hook == "hook1" {
			ops = append(ops, "cbrun tools", "cbrun prompts")
		}
	case 12: // two listens on one URI (ClientSession.Subscribe and a raw one); the older ends, then the newer
		ops = append(ops, "connect c0 1 modern -", "connect c1 2 legacy -", "subscribe c1 u0", "subscribe c0 u0", "xlisten c0 L1 - u0", "tables", "rupdated u0",
			"unsubscribe c0 u0", "tables", "rupdated u0", "xend c0 L1", "tables", "rupdated u0")
	case 13: // … the newer ends first
		ops = append(ops, "connect c0 1 modern -", "subscribe c0 u1", "xlisten c0 L2 - u1", "rupdated u1", "xend c0 L2", "tables", "rupdated u1",
			"list c0 read:1 n", "rupdated u1", "list c0 read:1 n", "unsubscribe c0 u1", "tables", "rupdated u1")
	case 14: // three streams over the same kinds, ended middle, newest, oldest, a burst after each end; a legacy bystander
		ops = append(ops, "change tools add", "change prompts add", "connect c1 2 legacy -", "connect c0 1 modern tp", "listen c0", "xlisten c0 L1 tp", "xlisten c0 L2 t",
			"xlisten c0 L3 - u0", "tables", "xend c0 L1", "tables", "change tools add", "change prompts add", fmt.Sprintf("advance %d", d))
		if hook == "hook1" {
			ops = append(ops, "cbrun tools", "cbrun prompts")
		}
		ops = append(ops, "xend c0 L2", "tables", "change tools add", fmt.Sprintf("advance %d", d))
		if hook == "hook1" {
			ops = append(ops, "cbrun tools")
		}
		ops = append(ops, "rupdated u0", "xend c0 m", "tables", "change tools add", "change prompts add", fmt.Sprintf("advance %d", d))
		if hook == "hook1" {
			ops = append(ops, "cbrun tools", "cbrun prompts")
		}
		ops = append(ops, "rupdated u0", "close c0", "tables")
	case 15: // the older listen ends inside the window that follows the acknowledgement write of the newer one
		ops = append(ops, "change tools add", "connect c0 1 modern t", "listen c0", "xlisten c0 L1 t hold", "xend c0 m", "tables", "change tools add", fmt.Sprintf("advance %d", d))
		if hook == "hook1" {
			ops = append(ops, "cbrun tools")
		}
		ops = append(ops, "ackdone c0 L1", "tables", "xlisten c0 L2 - u1 hold", "subscribe c0 u1", "rupdated u1", "unsubscribe c0 u1", "rupdated u1", "ackdone c0 L2", "xend c0 L2", "tables", "rupdated u1")
	case 5: // capability inferred at listen time: nothing to list yet
		ops = append(ops, "connect c0 1 modern tpr", "listen c0", "tables", "change prompts add", fmt.Sprintf("advance %d", d+1))
		if hook == "hook1" {
			ops = append(ops, "cbrun prompts")
		}
	}
	_ = rng
	return ops
}

func TestVerifNotify(t *testing.T) {
	out := verifOpen(t)
	defer out.close()
	hook := nfDetectHook(t)
	hookTok := "hook0"
	if hook {
		hookTok = "hook1"
	}
	runOps := func(cs string, ops []string, tag string) {
		emit := func(op, obs string, tags ...string) {
			if tag != "" {
				tags = append(tags, tag)
			}
			out.line(cs, op, obs, tags...)
		}
		i := 0
		drained := false
		nfRunCase(t, hook, emit, func(w *nfWorld, step int) string {
			for i < len(ops) {
				op := ops[i]
				i++
				f := strings.Fields(op)
				if len(f) == 0 || f[0] == "reset" || strings.HasPrefix(op, "#") {
					continue
				}
				if f[0] == "config" && len(f) == 5 {
					f[4] = hookTok // a replay adapts to the tree it runs on
					op = strings.Join(f, " ")
				}
				if f[0] == "cbrun" && !hook {
					continue // emitted by the harness itself on a hook-less tree
				}
				if f[0] == "end" {
					continue
				}
				return op
			}
			return nfDrain(w, &drained)
		})
	}
	if p := os.Getenv("VERIF_CORPUS"); p != "" {
		ents, _ := os.ReadDir(p)
		for _, e := range ents {
			if strings.HasSuffix(e.Name(), ".ops") {
				b, err := os.ReadFile(p + "/" + e.Name())
				if err == nil {
					runOps("corpus-"+strings.TrimSuffix(e.Name(), ".ops"), strings.Split(string(b), "\n"), "corpus")
				}
			}
		}
	}
	if p := os.Getenv("VERIF_REPLAY"); p != "" {
		b, err := os.ReadFile(p)
		if err != nil {
			t.Fatal(err)
		}
		runOps("replay", strings.Split(string(b), "\n"), "replay")
		return
	}
	for v := 0; v < nfScriptedShapes; v++ {
		runOps(fmt.Sprintf("s%d", v), nfScripted(verifRng(int64(v)), hookTok, v), "scripted")
	}
	n := verifN(3000, 40000)
	for c := 0; c < n; c++ {
		rng := verifRng(int64(1000 + c))
		g := &nfGen{rng: rng, n: 8 + rng.Intn(20), hook: hookTok, focus: c % 6}
		emit := func(op, obs string, tags ...string) { out.line(fmt.Sprintf("g%d", c), op, obs, tags...) }
		drained := false
		nfRunCase(t, hook, emit, func(w *nfWorld, step int) string {
			if step < g.n || len(g.tail) > 0 {
				if step < 2 {
					return g.next(w, step)
				}
				if len(g.tail) > 0 {
					op := g.tail[0]
					g.tail = g.tail[1:]
					return op
				}
				return g.body(w)
			}
			return nfDrain(w, &drained)
		})
	}
}

// nfDrain ends a case: every timer fires, every parked callback runs, then `end` lets the monitor
// look at what is still owed.
func nfDrain(w *nfWorld, state *bool) string {
	if w.s == nil {
		return ""
	}
	d := int(notificationDelay / time.Millisecond)
	if !*state {
		*state = true
		return fmt.Sprintf("advance %d", 2*d)
	}
	w.mu.Lock()
	for _, k := range nfKinds {
		if len(w.parked[k]) > 0 {
			w.mu.Unlock()
			return "cbrun " + k
		}
	}
	w.mu.Unlock()
	// every callback has taken its snapshot: now the handlers held after their ack write go on
	if wins := w.ackWindows(); len(wins) > 0 {
		return "ackdone " + wins[0]
	}
	if !w.ended {
		w.ended = true
		return "end"
	}
	return ""
}
