//go:build race

package mcp

// pfRace: the harness binary was built with -race (thorough tier, last seed): fewer cases, same generators.
const pfRace = true
