// Engine `order` (C03, end-to-end half): real mcp Client and Server sessions over every transport,
// under testing/synctest virtual time.  One goroutine (plus goroutines it spawns for overlapping
// calls) issues a PRNG-chosen sequence of notifications and calls; the peer's handlers have
// PRNG-chosen durations.  Observed, per message: `snd` (the sender's API call begins), `ret` (it
// returns), `beg`/`fin` (the peer's handler — the outermost receiving middleware — starts/ends), each
// with a global sequence number and the virtual time in ms.  The Lean driver (McpModel/Order/Driver)
// checks that the log is a run of the proved model and evaluates the property monitor on it.
//
// Wave 5: raw peer over a pair of pipes (rp: newline-delimited JSON, JSON-RPC batches as one line, responses read back —
// batched by the server when the calls came in one batch); every second raw body mixes calls and notifications; the
// resume scenario runs in half of ALL she/shje cases, with calls among the messages sent while the stream is detached
// and, in a third of the cases, a second cut and resume.
// Wave 4: handler durations up to 90 s; sessionless servers sn/snj (GetSessionID returns ""), also for the raw peer
// (rs = Stateless, rn = GetSessionID ""); transport run (Server.Run over pipes); calls whose context is cancelled
// (kind x, cx=) with the receiving connection's Cancel goroutine scheduled late (cfg ck=, verif hook site K1);
// callbacks CreateMessageWithTools / Elicit from inside handlers.
//
// Besides the SDK's own client there is a RAW streamable peer (transports rw, rwj, rh, rs, rn): it speaks HTTP
// to the server side directly (ServeHTTP of a StreamableServerTransport that the test connected itself,
// or of the StreamableHTTPHandler), with a legacy protocol version, and POSTs bodies that the SDK
// client never produces: JSON-RPC batches of 1..16 messages (legal before 2025-06-18, the version
// assumed when the Mcp-Protocol-Version header is absent), followed — after the POST was answered — by
// further POSTs.  On rw/rwj the session's reader can be made to pause after reading a given message
// (`rs=`), so that the session's intake channel backs up while a body is being handed over.
//
// Not part of the repository; grafted into package mcp by -overlay.  See DESIGN.md §5 C03, §6 F14.
package mcp

import (
	"bytes"
	"context"
	"encoding/json"
	"fmt"
	"io"
	"math/rand"
	"net/http"
	"os"
	"runtime"
	"sort"
	"strconv"
	"strings"
	"sync"
	"testing"
	"testing/synctest"
	"time"

	"github.com/modelcontextprotocol/go-sdk/internal/jsonrpc2"
	"github.com/modelcontextprotocol/go-sdk/jsonrpc"
)

// ---------------------------------------------------------------------------------------------
// In-process HTTP: an http.RoundTripper that runs handler.ServeHTTP in a goroutine.  Like net/http,
// the status line and headers reach the client only when the handler flushes or returns (WriteHeader
// alone is buffered), bodies are streamed, the request context ends when the client abandons the
// response body or the handler returns.

type ordBuf struct {
	mu     sync.Mutex
	cond   *sync.Cond
	data   []byte
	wclose bool
	rclose bool
}

func newOrdBuf() *ordBuf { b := &ordBuf{}; b.cond = sync.NewCond(&b.mu); return b }

func (b *ordBuf) Read(p []byte) (int, error) {
	b.mu.Lock()
	defer b.mu.Unlock()
	for len(b.data) == 0 && !b.wclose && !b.rclose {
		b.cond.Wait()
	}
	if b.rclose {
		return 0, io.ErrClosedPipe
	}
	if len(b.data) == 0 {
		return 0, io.EOF
	}
	n := copy(p, b.data)
	b.data = b.data[n:]
	return n, nil
}

func (b *ordBuf) write(p []byte) error {
	b.mu.Lock()
	defer b.mu.Unlock()
	if b.rclose {
		return io.ErrClosedPipe
	}
	b.data = append(b.data, p...)
	b.cond.Broadcast()
	return nil
}

func (b *ordBuf) closeW() { b.mu.Lock(); b.wclose = true; b.cond.Broadcast(); b.mu.Unlock() }
func (b *ordBuf) closeR() { b.mu.Lock(); b.rclose = true; b.cond.Broadcast(); b.mu.Unlock() }

type ordBody struct {
	b      *ordBuf
	cancel context.CancelFunc
}

func (r *ordBody) Read(p []byte) (int, error) { return r.b.Read(p) }
func (r *ordBody) Close() error               { r.b.closeR(); r.cancel(); return nil }

type ordRW struct {
	mu      sync.Mutex
	hdr     http.Header
	sent    http.Header
	status  int
	pending []byte
	body    *ordBuf
	ready   chan struct{}
	isReady bool
	// a slow client connection: the first Write whose bytes contain stallOn is held back by onStall
	stallOn []byte
	onStall func()
	stalled bool
}

func (w *ordRW) Header() http.Header { return w.hdr }
func (w *ordRW) WriteHeader(code int) {
	w.mu.Lock()
	defer w.mu.Unlock()
	if w.status == 0 {
		w.status = code
		w.sent = w.hdr.Clone()
	}
}
func (w *ordRW) Write(p []byte) (int, error) {
	w.WriteHeader(http.StatusOK)
	w.mu.Lock()
	hold := w.stallOn != nil && !w.stalled && bytes.Contains(p, w.stallOn)
	if hold {
		w.stalled = true
	}
	w.mu.Unlock()
	if hold && w.onStall != nil {
		w.onStall()
	}
	w.mu.Lock()
	defer w.mu.Unlock()
	w.pending = append(w.pending, p...)
	return len(p), nil
}
func (w *ordRW) Flush() {
	w.WriteHeader(http.StatusOK)
	w.mu.Lock()
	defer w.mu.Unlock()
	if !w.isReady {
		w.isReady = true
		close(w.ready)
	}
	if len(w.pending) > 0 {
		w.body.write(w.pending)
		w.pending = nil
	}
}

type ordRT struct {
	h   http.Handler
	obs *ordH // when set: remembers the hanging GET (so that the case can cut it) and slows a resumed one down
}

// ordGet is the client's hanging GET as the in-process transport sees it.
type ordGet struct {
	body   *ordBuf
	cancel context.CancelFunc
}

func (rt *ordRT) RoundTrip(req *http.Request) (*http.Response, error) {
	var body []byte
	if req.Body != nil {
		body, _ = io.ReadAll(req.Body)
		req.Body.Close()
	}
	ctx, cancel := context.WithCancel(context.WithoutCancel(req.Context()))
	stop := context.AfterFunc(req.Context(), cancel)
	sreq := req.Clone(ctx)
	sreq.Body = io.NopCloser(bytes.NewReader(body))
	sreq.ContentLength = int64(len(body))
	sreq.RequestURI = req.URL.RequestURI()
	sreq.RemoteAddr = "192.0.2.1:1234"
	if sreq.Host == "" {
		sreq.Host = req.URL.Host
	}
	w := &ordRW{hdr: http.Header{}, body: newOrdBuf(), ready: make(chan struct{})}
	if h := rt.obs; h != nil && req.Method == http.MethodGet {
		h.mu.Lock()
		h.curGet = &ordGet{w.body, cancel}
		if req.Header.Get(lastEventIDHeader) != "" && h.stallTag >= 0 && h.c.stall > 0 {
			// a resumed stream over a slow connection: the frame of the first message sent while the stream was cut takes a while
			w.stallOn = []byte(fmt.Sprintf(`"vtag":%d}`, h.stallTag))
			w.onStall = h.holdReplay
		}
		h.mu.Unlock()
	}
	go func() {
		defer func() {
			recover()
			w.Flush()
			w.body.closeW()
			stop()
			cancel()
		}()
		rt.h.ServeHTTP(w, sreq)
	}()
	select {
	case <-w.ready:
	case <-req.Context().Done():
		cancel()
		return nil, req.Context().Err()
	}
	w.mu.Lock()
	st, hd := w.status, w.sent
	w.mu.Unlock()
	return &http.Response{
		Status: strconv.Itoa(st) + " " + http.StatusText(st), StatusCode: st, Proto: "HTTP/1.1", ProtoMajor: 1, ProtoMinor: 1,
		Header: hd, Body: &ordBody{w.body, cancel}, ContentLength: -1, Request: req,
	}, nil
}

// ---------------------------------------------------------------------------------------------
// Scenario

type ordMsg struct {
	dir  string // c2s | s2c
	kind byte   // i initialize (synchronous call) · n notification · c call, sender waits · g call in its own goroutine, sender continues once everything is quiet · r call in its own goroutine, racing · x like r, and the caller's context is cancelled cx ms after the call was issued
	meth string
	d    int // handler duration, virtual ms
	gap  int // pause of the sender after issuing it, virtual ms
	cb   bool // the handler first calls back into the peer on its own context (ListRoots/Ping, ListTools/Ping), then works for d ms
	b    int  // raw peer: messages with the same b != 0 travel in one POST body (a JSON-RPC batch), in this order
	rs   int  // raw peer on rw/rwj: the session's reader pauses rs virtual ms after it has read this message
	to   int  // fan-out cases: the receiving peer
	of   int  // fan-out cases: the fan-out (1, 2, …) this message is the per-session copy of; 0 = a directed message
	lat  int  // fan-out cases: virtual ms a sending middleware adds to this message's send path
	cut  bool // s2c on a streamable server with an event store: before this message is sent the client's hanging GET is cut (the stream is detached: sends are stored only, until the client resumes with Last-Event-ID)
	cx   int  // kind x: the context of the sending call is cancelled cx virtual ms after the call began (the call returns with the context's error, the SDK sends notifications/cancelled to the peer)
	rsm  bool // …: this message is sent the instant the resumed GET begins to write the backlog (the frame of the first message sent while detached takes `stall` ms)
}

// ordFan is one notifying method that addresses several sessions.
type ordFan struct {
	g        int
	meth     string // roots (Client.AddRoots/RemoveRoots) · resupd (Server.ResourceUpdated) · tools/prompts/resources (Server.AddTool/AddPrompt/AddResource: debounced list_changed)
	detached bool   // the notifying method only arms the debounce timer; the sends happen later on the timer's goroutine
}

type ordCase struct {
	tr   string // mem io sse sh shj she shje sl slj · raw peer: rw rwj (own StreamableServerTransport, gated reader) rh (StreamableHTTPHandler)
	dir  string // c2s · s2c (server goroutine, background context: the session's shared stream) · s2ci (inside a tool handler, request context: the call's own stream)
	pv   string
	msgs []ordMsg
	// fan-out cases (np > 1): ONE Client connected to np servers (dir c2s) or ONE Server with np client sessions (dir s2c)
	ck    int // the goroutine that performs a cancellation on the receiving jsonrpc2 connection (`go conn.Cancel(id)`, started by the preempter) is scheduled ck virtual ms late (site K1, before it touches the connection's state)
	stall int // resume scenario: how long (hundreds of scheduler yields, at most) the first replayed frame is held back on the resumed connection
	np    int
	pvs   []string // protocol version per peer
	sub  []bool   // dir s2c: is peer p subscribed to the resource?
	fans []ordFan
}

func (c *ordCase) cfgOp() string {
	if c.np > 1 {
		sub := ""
		for _, b := range c.sub {
			if b {
				sub += "1"
			} else {
				sub += "0"
			}
		}
		if sub != "" && c.dir != "c2s" {
			sub = " sub=" + sub
		} else {
			sub = ""
		}
		if c.ck > 0 {
			sub += fmt.Sprintf(" ck=%d", c.ck)
		}
		return fmt.Sprintf("cfg tr=%s dir=%s pv=%s np=%d%s", c.tr, c.dir, strings.Join(c.pvs, ","), c.np, sub)
	}
	if c.stall > 0 {
		return fmt.Sprintf("cfg tr=%s dir=%s pv=%s stall=%d", c.tr, c.dir, c.pv, c.stall)
	}
	if c.ck > 0 {
		return fmt.Sprintf("cfg tr=%s dir=%s pv=%s ck=%d", c.tr, c.dir, c.pv, c.ck)
	}
	return fmt.Sprintf("cfg tr=%s dir=%s pv=%s", c.tr, c.dir, c.pv)
}
func (f *ordFan) op() string {
	mode := "sync"
	if f.detached {
		mode = "detached"
	}
	return fmt.Sprintf("f %d meth=%s mode=%s", f.g, f.meth, mode)
}
func (m *ordMsg) op(i int) string {
	cb := 0
	if m.cb {
		cb = 1
	}
	s := fmt.Sprintf("m %d dir=%s kind=%c meth=%s d=%d gap=%d cb=%d", i, m.dir, m.kind, m.meth, m.d, m.gap, cb)
	if m.b != 0 {
		s += fmt.Sprintf(" b=%d", m.b)
	}
	if m.rs != 0 {
		s += fmt.Sprintf(" rs=%d", m.rs)
	}
	if m.kind == 'x' {
		s += fmt.Sprintf(" cx=%d", m.cx)
	}
	if m.cut {
		s += " cut=1"
	}
	if m.rsm {
		s += " rsm=1"
	}
	return s
}

// fanOp is the op of a message of a fan-out case.
func (m *ordMsg) fanOp(i int) string {
	s := m.op(i) + fmt.Sprintf(" to=%d", m.to)
	if m.of != 0 {
		s += fmt.Sprintf(" of=%d", m.of)
	}
	if m.lat != 0 {
		s += fmt.Sprintf(" lat=%d", m.lat)
	}
	return s
}

type ordEv struct {
	what string // snd ret err beg fin
	id   int
	ms   int64
}

type ordTagKey struct{}

const ordIgnore = -2

type ordH struct {
	mu      sync.Mutex
	t0      time.Time
	evs     []ordEv
	mainTag int
	c       *ordCase
	carrier int // id of the carrier call of an s2ci scenario (-1: none)
	cbres   map[int]string
	script  func(ctx context.Context, ss *ServerSession)
	fan     *ordFanState
	// resume scenario
	curGet   *ordGet
	stallTag int
	cuts     int
	resumeCh chan struct{}
	resumed  bool
	cutDone  bool
}

// cutStream cuts the client's hanging GET (a broken connection: the client's read fails, the server's request
// context ends) after everything sent so far has arrived; message i will be the first one sent while detached.
func (h *ordH) cutStream(i int) {
	synctest.Wait()
	h.mu.Lock()
	g := h.curGet
	h.stallTag = i
	h.cutDone = g != nil
	if h.resumed {
		// a further cut of the same case: the next resume is a new one
		h.resumed = false
		h.resumeCh = make(chan struct{})
	}
	h.cuts++
	h.mu.Unlock()
	if g != nil {
		g.body.closeR()
		g.cancel()
	}
	synctest.Wait()
}

// holdReplay is called by the goroutine that writes the backlog of a resumed stream when it is about to write the
// frame of the first message sent while the stream was cut.  It lets the script's goroutine send its next message
// (rsm) and holds the frame back until that message has gone out — or, when its Write is waiting for the replay
// to end, for `stall` hundred scheduler yields.  (Not a sleep: a goroutine that sleeps while another one waits for
// a sync.Mutex it holds stops the virtual clock for good.)
func (h *ordH) holdReplay() {
	h.mu.Lock()
	if !h.resumed {
		h.resumed = true
		close(h.resumeCh)
	}
	tag := -1
	for i, m := range h.c.msgs {
		if m.rsm && i > h.stallTag && tag < 0 {
			tag = i // the message the script sends the instant THIS replay begins
		}
	}
	h.mu.Unlock()
	for n := 0; n < 100*h.c.stall; n++ {
		h.mu.Lock()
		out := false
		for _, e := range h.evs {
			if e.id == tag && (e.what == "ret" || e.what == "err" || e.what == "enq" || e.what == "beg") {
				out = true
			}
		}
		h.mu.Unlock()
		if out {
			return
		}
		runtime.Gosched()
	}
}

// awaitResume parks until the resumed GET begins to write the backlog (or 10 virtual seconds have passed).
func (h *ordH) awaitResume() {
	h.mu.Lock()
	ch := h.resumeCh
	h.mu.Unlock()
	select {
	case <-ch:
	case <-time.After(10 * time.Second):
	}
}

func (h *ordH) log(what string, id int) {
	h.mu.Lock()
	h.evs = append(h.evs, ordEv{what, id, time.Since(h.t0).Milliseconds()})
	h.mu.Unlock()
}

// ordHookEnq makes the jsonrpc2 connections of the case report every request that enters a handler queue
// (site A2 of acceptRequest, the instant before it is appended; one reader goroutine per connection, so the
// reports of one connection are in queue order): event `enq`.  The hook is global: one case at a time.
func (h *ordH) hookEnq() {
	jsonrpc2.VerifHook = func(_ *jsonrpc2.Connection, site string, subj any) {
		if site == "K1" && h.c.ck > 0 {
			// the goroutine that is to cancel an incoming call gets the processor late (a schedule)
			time.Sleep(time.Duration(h.c.ck) * time.Millisecond)
		}
		if site == "A1" && (h.c.tr == "rh" || h.c.tr == "rs" || h.c.tr == "rn") {
			// a slow session reader on the StreamableHTTPHandler paths (rh, rs, rn): the connection's reader goroutine
			// pauses before it accepts this message (on rw/rwj the wrapping connection pauses after Read instead)
			if req, ok := subj.(*jsonrpc2.Request); ok && req != nil {
				if tag := ordRawTag(req.Params); tag >= 0 && tag < len(h.c.msgs) && h.c.msgs[tag].rs > 0 {
					time.Sleep(time.Duration(h.c.msgs[tag].rs) * time.Millisecond)
				}
			}
		}
		if site != "A2" {
			return
		}
		if req, ok := subj.(*jsonrpc2.Request); ok && req != nil {
			if tag := ordRawTag(req.Params); tag >= 0 && tag < len(h.c.msgs) {
				h.log("enq", tag)
			}
		}
	}
}

func ordCtx(id int) context.Context { return context.WithValue(context.Background(), ordTagKey{}, id) }

func (h *ordH) sendMW(next MethodHandler) MethodHandler {
	return func(ctx context.Context, method string, req Request) (Result, error) {
		tag, ok := ctx.Value(ordTagKey{}).(int)
		if !ok {
			h.mu.Lock()
			tag = h.mainTag
			h.mu.Unlock()
		}
		if tag != ordIgnore && method == notificationInitialized {
			tag++
		}
		if p := req.GetParams(); p != nil && !p.isNil() {
			m := p.GetMeta()
			if m == nil {
				m = map[string]any{}
			}
			m["vtag"] = tag
			p.SetMeta(m)
		}
		if tag == ordIgnore {
			return next(ctx, method, req)
		}
		h.log("snd", tag)
		res, err := next(ctx, method, req)
		if err != nil {
			h.log("err", tag)
		} else {
			h.log("ret", tag)
		}
		return res, err
	}
}

func (h *ordH) recvMW(next MethodHandler) MethodHandler { return h.recvMWp(-1)(next) }

// recvMWp is the receiving middleware of peer p (p < 0: the receiver is not bound to a peer): a message
// addressed to another peer is logged as unknown.
func (h *ordH) recvMWp(peer int) Middleware {
	return func(next MethodHandler) MethodHandler { return h.recvMWat(peer, next) }
}

func (h *ordH) recvMWat(peer int, next MethodHandler) MethodHandler {
	return func(ctx context.Context, method string, req Request) (Result, error) {
		tag := -1
		if p := req.GetParams(); p != nil && !p.isNil() {
			switch v := p.GetMeta()["vtag"].(type) {
			case float64:
				tag = int(v)
			case int:
				tag = v
			}
		}
		if peer >= 0 && tag >= 0 && tag < len(h.c.msgs) && h.c.msgs[tag].to != peer {
			tag = -1
		}
		if tag == ordIgnore || method == notificationCancelled {
			// the SDK's own cancellation notice (sent by a call whose context ended) is not a message of the script
			return next(ctx, method, req)
		}
		h.log("beg", tag)
		if tag >= 0 && tag < len(h.c.msgs) && h.c.msgs[tag].cb {
			// call back into the peer with the handler's own context, then keep working
			cctx := context.WithValue(ctx, ordTagKey{}, ordIgnore)
			var err error
			switch sess := req.GetSession().(type) {
			case *ServerSession:
				switch tag % 4 {
				case 0:
					_, err = sess.ListRoots(cctx, &ListRootsParams{})
				case 1:
					err = sess.Ping(cctx, &PingParams{})
				case 2:
					_, err = sess.CreateMessageWithTools(cctx, &CreateMessageWithToolsParams{MaxTokens: 5,
						Messages: []*SamplingMessageV2{{Role: "user", Content: []Content{&TextContent{Text: "x"}}}},
						Tools:    []*Tool{{Name: "t", InputSchema: map[string]any{"type": "object"}}}})
				default:
					_, err = sess.Elicit(cctx, &ElicitParams{Message: "x"})
				}
			case *ClientSession:
				if tag%2 == 0 {
					_, err = sess.ListTools(cctx, &ListToolsParams{})
				} else {
					err = sess.Ping(cctx, &PingParams{})
				}
			}
			h.mu.Lock()
			if err != nil {
				h.cbres[tag] = "cb-err"
			} else {
				h.cbres[tag] = "cb-ok"
			}
			h.mu.Unlock()
		}
		if tag >= 0 && tag < len(h.c.msgs) && h.c.msgs[tag].d > 0 {
			time.Sleep(time.Duration(h.c.msgs[tag].d) * time.Millisecond)
		}
		res, err := next(ctx, method, req)
		h.log("fin", tag)
		return res, err
	}
}

// issue performs message i through the public API of the sending side.
func (h *ordH) issue(ctx context.Context, i int, cs *ClientSession, ss *ServerSession, client *Client) error {
	m := h.c.msgs[i]
	ctx = context.WithValue(ctx, ordTagKey{}, i)
	if m.kind == 'x' {
		cctx, cancel := context.WithCancel(ctx)
		tm := time.AfterFunc(time.Duration(m.cx)*time.Millisecond, cancel)
		defer tm.Stop()
		defer cancel()
		ctx = cctx
	}
	var err error
	if m.dir == "c2s" {
		switch m.meth {
		case "roots":
			h.mu.Lock()
			h.mainTag = i
			h.mu.Unlock()
			if i%3 == 2 && i >= 3 {
				// RemoveRoots notifies only if something was removed: r(i-1) exists iff message i-1 was a roots message
				if prev := h.c.msgs[i-1]; prev.meth == "roots" && (i-1)%3 != 2 {
					client.RemoveRoots(fmt.Sprintf("file:///r%d", i-1))
					break
				}
			}
			client.AddRoots(&Root{URI: fmt.Sprintf("file:///r%d", i)})
		case "prog":
			err = cs.NotifyProgress(ctx, &ProgressNotificationParams{ProgressToken: "tok", Progress: float64(i), Message: "p"})
		case "tool":
			_, err = cs.CallTool(ctx, &CallToolParams{Name: "t", Arguments: map[string]any{"i": i}})
		case "ping":
			err = cs.Ping(ctx, &PingParams{})
		case "ltools":
			_, err = cs.ListTools(ctx, &ListToolsParams{})
		case "lres":
			_, err = cs.ListResources(ctx, &ListResourcesParams{})
		case "lprompts":
			_, err = cs.ListPrompts(ctx, &ListPromptsParams{})
		case "level":
			err = cs.SetLoggingLevel(ctx, &SetLoggingLevelParams{Level: "debug"})
		default:
			err = fmt.Errorf("bad method %q", m.meth)
		}
	} else {
		switch m.meth {
		case "log":
			err = ss.Log(ctx, &LoggingMessageParams{Level: "warning", Logger: "v", Data: i})
		case "prog":
			err = ss.NotifyProgress(ctx, &ProgressNotificationParams{ProgressToken: "tok", Progress: float64(i), Message: "p"})
		case "lroots":
			_, err = ss.ListRoots(ctx, &ListRootsParams{})
		case "sample":
			_, err = ss.CreateMessage(ctx, &CreateMessageParams{MaxTokens: 5, Messages: []*SamplingMessage{{Role: "user", Content: &TextContent{Text: "x"}}}})
		case "elicit":
			_, err = ss.Elicit(ctx, &ElicitParams{Message: "x"})
		case "samplet":
			_, err = ss.CreateMessageWithTools(ctx, &CreateMessageWithToolsParams{MaxTokens: 5,
				Messages: []*SamplingMessageV2{{Role: "user", Content: []Content{&TextContent{Text: "x"}}}},
				Tools:    []*Tool{{Name: "t", InputSchema: map[string]any{"type": "object"}}}})
		case "ping":
			err = ss.Ping(ctx, &PingParams{})
		default:
			err = fmt.Errorf("bad method %q", m.meth)
		}
	}
	return err
}

// runScript issues messages from..len-1 whose direction is dir, from the calling goroutine.
func (h *ordH) runScript(ctx context.Context, dir string, from int, cs *ClientSession, ss *ServerSession, client *Client) {
	var wg sync.WaitGroup
	for i := from; i < len(h.c.msgs); i++ {
		m := h.c.msgs[i]
		if m.dir != dir || i == h.carrier {
			continue
		}
		if m.cut {
			h.cutStream(i)
		}
		if m.rsm {
			h.awaitResume()
		}
		switch m.kind {
		case 'n', 'c':
			h.issue(ctx, i, cs, ss, client)
		case 'g', 'r', 'x':
			wg.Add(1)
			go func() {
				defer wg.Done()
				h.issue(ctx, i, cs, ss, client)
			}()
			if m.kind == 'g' {
				synctest.Wait()
			}
		}
		if m.gap > 0 {
			time.Sleep(time.Duration(m.gap) * time.Millisecond)
		}
	}
	wg.Wait()
}

// ---------------------------------------------------------------------------------------------
// Raw streamable peer

// ordGateTransport connects the wrapped StreamableServerTransport and hands out a connection whose
// Read can pause after a message (a slow session reader: a schedule, nothing the peer controls).
type ordGateTransport struct {
	*StreamableServerTransport
	h *ordH
}

func (g *ordGateTransport) Connect(ctx context.Context) (Connection, error) {
	c, err := g.StreamableServerTransport.Connect(ctx)
	if err != nil {
		return nil, err
	}
	return &ordGateConn{streamableServerConn: c.(*streamableServerConn), h: g.h}, nil
}

type ordGateConn struct {
	*streamableServerConn
	h *ordH
}

func ordRawTag(params json.RawMessage) int {
	var p struct {
		Meta map[string]any `json:"_meta"`
	}
	if json.Unmarshal(params, &p) == nil {
		if v, ok := p.Meta["vtag"].(float64); ok {
			return int(v)
		}
	}
	return -1
}

func (g *ordGateConn) Read(ctx context.Context) (jsonrpc.Message, error) {
	msg, err := g.streamableServerConn.Read(ctx)
	if req, ok := msg.(*jsonrpc.Request); ok && err == nil {
		if tag := ordRawTag(req.Params); tag >= 0 && tag < len(g.h.c.msgs) && g.h.c.msgs[tag].rs > 0 {
			time.Sleep(time.Duration(g.h.c.msgs[tag].rs) * time.Millisecond)
		}
	}
	return msg, err
}

var ordRawMethod = map[string]string{
	"initialize": "initialize", "initialized": "notifications/initialized", "prog": "notifications/progress",
	"roots": "notifications/roots/list_changed", "tool": "tools/call", "ping": "ping", "ltools": "tools/list",
	"lres": "resources/list", "lprompts": "prompts/list", "level": "logging/setLevel",
}

func ordRawID(i int) int { return 1000 + i }

// ordRawJSON is message i as the raw peer writes it.
func (h *ordH) rawJSON(i int) string {
	m := h.c.msgs[i]
	meta := fmt.Sprintf(`"_meta":{"vtag":%d}`, i)
	var params string
	switch m.meth {
	case "initialize":
		params = fmt.Sprintf(`{"protocolVersion":%q,"capabilities":{"roots":{"listChanged":true}},"clientInfo":{"name":"raw","version":"1"},%s}`, h.c.pv, meta)
	case "prog":
		params = fmt.Sprintf(`{"progressToken":"tok","progress":%d,"message":"p",%s}`, i, meta)
	case "tool":
		params = fmt.Sprintf(`{"name":"t","arguments":{"i":%d},%s}`, i, meta)
	case "level":
		params = fmt.Sprintf(`{"level":"debug",%s}`, meta)
	default:
		params = "{" + meta + "}"
	}
	if m.kind == 'n' {
		return fmt.Sprintf(`{"jsonrpc":"2.0","method":%q,"params":%s}`, ordRawMethod[m.meth], params)
	}
	return fmt.Sprintf(`{"jsonrpc":"2.0","id":%d,"method":%q,"params":%s}`, ordRawID(i), ordRawMethod[m.meth], params)
}

// ordPipePeer is the raw peer's end of a pair of pipes (transport rp): it writes newline-delimited JSON — a single
// message or a JSON-RPC batch per line — and reads the server's responses (single or batched) on a goroutine of its own.
type ordPipePeer struct {
	w    io.WriteCloser
	mu   sync.Mutex
	got  map[int]bool
	wait map[int]chan struct{}
}

func newOrdPipePeer(r io.Reader, w io.WriteCloser) *ordPipePeer {
	p := &ordPipePeer{w: w, got: map[int]bool{}, wait: map[int]chan struct{}{}}
	go func() {
		dec := json.NewDecoder(r)
		for {
			var raw json.RawMessage
			if err := dec.Decode(&raw); err != nil {
				return
			}
			var many []json.RawMessage
			if json.Unmarshal(raw, &many) != nil {
				many = []json.RawMessage{raw}
			}
			for _, one := range many {
				var m struct {
					ID     *int   `json:"id"`
					Method string `json:"method"`
				}
				if json.Unmarshal(one, &m) == nil && m.ID != nil && m.Method == "" {
					p.mu.Lock()
					p.got[*m.ID] = true
					if ch, ok := p.wait[*m.ID]; ok {
						close(ch)
						delete(p.wait, *m.ID)
					}
					p.mu.Unlock()
				}
			}
		}
	}()
	return p
}

// answered parks until the response with that id has arrived (or 10 virtual minutes have passed).
func (p *ordPipePeer) answered(id int) bool {
	p.mu.Lock()
	if p.got[id] {
		p.mu.Unlock()
		return true
	}
	ch := make(chan struct{})
	p.wait[id] = ch
	p.mu.Unlock()
	select {
	case <-ch:
		return true
	case <-time.After(10 * time.Minute):
		return false
	}
}

type ordRaw struct {
	pipe    *ordPipePeer
	h       *ordH
	hc      *http.Client
	url     string
	session string // Mcp-Session-Id (rh)
	pvHdr   string // Mcp-Protocol-Version header, "" = absent
}

// post sends the messages ids as ONE POST body (a JSON array if batch) and waits for the complete
// response.  `snd` of every message is logged before, `ret`/`err` of every message after.
func (r *ordRaw) post(ids []int, batch bool) {
	var parts []string
	hasCall := false
	for _, i := range ids {
		parts = append(parts, r.h.rawJSON(i))
		if r.h.c.msgs[i].kind != 'n' {
			hasCall = true
		}
	}
	body := parts[0]
	if batch {
		body = "[" + strings.Join(parts, ",") + "]"
	}
	if r.pipe != nil {
		// one line on the pipe; the frame is accepted when the Write has returned, calls are over when answered
		for _, i := range ids {
			r.h.log("snd", i)
		}
		_, err := r.pipe.w.Write([]byte(body + "\n"))
		for _, i := range ids {
			good := err == nil
			if good && r.h.c.msgs[i].kind != 'n' {
				good = r.pipe.answered(ordRawID(i))
			}
			if good {
				r.h.log("ret", i)
			} else {
				r.h.log("err", i)
			}
		}
		return
	}
	req, err := http.NewRequest(http.MethodPost, r.url, strings.NewReader(body))
	ok := err == nil
	var data []byte
	if ok {
		req.Header.Set("Content-Type", "application/json")
		req.Header.Set("Accept", "application/json, text/event-stream")
		if r.session != "" {
			req.Header.Set(sessionIDHeader, r.session)
		}
		if r.pvHdr != "" {
			req.Header.Set(protocolVersionHeader, r.pvHdr)
		}
		for _, i := range ids {
			r.h.log("snd", i)
		}
		resp, err := r.hc.Do(req)
		if err != nil {
			ok = false
		} else {
			data, _ = io.ReadAll(resp.Body)
			resp.Body.Close()
			if hasCall {
				ok = resp.StatusCode == http.StatusOK
			} else {
				ok = resp.StatusCode == http.StatusAccepted
			}
			if sid := resp.Header.Get(sessionIDHeader); sid != "" && r.session == "" {
				r.session = sid
			}
		}
	}
	for _, i := range ids {
		good := ok
		if good && r.h.c.msgs[i].kind != 'n' {
			id := fmt.Sprintf(`"id":%d`, ordRawID(i))
			good = bytes.Contains(data, []byte(id+",")) || bytes.Contains(data, []byte(id+"}"))
		}
		if good {
			r.h.log("ret", i)
		} else {
			r.h.log("err", i)
		}
	}
}

// run plays messages from.. of the case: consecutive messages with the same b != 0 are one body.
func (r *ordRaw) run(from int) {
	var wg sync.WaitGroup
	msgs := r.h.c.msgs
	for i := from; i < len(msgs); {
		j := i + 1
		if msgs[i].b != 0 {
			for j < len(msgs) && msgs[j].b == msgs[i].b {
				j++
			}
		}
		ids := make([]int, 0, j-i)
		for k := i; k < j; k++ {
			ids = append(ids, k)
		}
		last := msgs[j-1]
		if msgs[i].b == 0 && (last.kind == 'g' || last.kind == 'r') {
			wg.Add(1)
			go func() {
				defer wg.Done()
				r.post(ids, false)
			}()
			if last.kind == 'g' {
				synctest.Wait()
			}
		} else {
			r.post(ids, msgs[i].b != 0)
		}
		if last.gap > 0 {
			time.Sleep(time.Duration(last.gap) * time.Millisecond)
		}
		i = j
	}
	wg.Wait()
}

func ordRunCase(t *testing.T, out *verifOut, id string, c *ordCase) {
	if c.np > 1 {
		ordRunFanCase(t, out, id, c)
		return
	}
	var recs [][3]string
	recs = append(recs, [3]string{"reset", "ok", "reset"})
	flushed := false
	flush := func() {
		if flushed {
			return
		}
		flushed = true
		for _, r := range recs {
			out.line(id, r[0], r[1], r[2])
		}
		out.flush()
	}
	defer flush()
	synctest.Test(t, func(t *testing.T) {
		h := &ordH{t0: time.Now(), c: c, carrier: -1, mainTag: 0, cbres: map[int]string{}, stallTag: -1, resumeCh: make(chan struct{})}
		h.hookEnq()
		defer func() { jsonrpc2.VerifHook = nil }()
		status := "ok"
		defer func() {
			if r := recover(); r != nil {
				status = "panic"
				recs = append(recs, [3]string{c.cfgOp(), "panic", "panic"})
				flush()
			}
		}()
		sopts := &ServerOptions{
			RootsListChangedHandler:     func(context.Context, *RootsListChangedRequest) {},
			ProgressNotificationHandler: func(context.Context, *ProgressNotificationServerRequest) {},
		}
		if strings.HasPrefix(c.tr, "sn") || c.tr == "rn" {
			sopts.GetSessionID = func() string { return "" } // no session ids: every POST gets a temporary session
		}
		server := NewServer(&Implementation{Name: "s", Version: "1"}, sopts)
		server.AddReceivingMiddleware(h.recvMW)
		server.AddSendingMiddleware(h.sendMW)
		server.AddTool(&Tool{Name: "t", InputSchema: map[string]any{"type": "object"}}, func(ctx context.Context, req *CallToolRequest) (*CallToolResult, error) {
			return &CallToolResult{Content: []Content{&TextContent{Text: "ok"}}}, nil
		})
		server.AddTool(&Tool{Name: "drive", InputSchema: map[string]any{"type": "object"}}, func(ctx context.Context, req *CallToolRequest) (*CallToolResult, error) {
			if h.script != nil {
				h.script(ctx, req.Session)
			}
			return &CallToolResult{Content: []Content{&TextContent{Text: "ok"}}}, nil
		})
		client := NewClient(&Implementation{Name: "c", Version: "1"}, &ClientOptions{
			CreateMessageHandler: func(context.Context, *CreateMessageRequest) (*CreateMessageResult, error) {
				return &CreateMessageResult{Model: "m", Role: "assistant", Content: &TextContent{Text: "y"}}, nil
			},
			ElicitationHandler: func(context.Context, *ElicitRequest) (*ElicitResult, error) {
				return &ElicitResult{Action: "decline"}, nil
			},
			LoggingMessageHandler:       func(context.Context, *LoggingMessageRequest) {},
			ProgressNotificationHandler: func(context.Context, *ProgressNotificationClientRequest) {},
		})
		client.AddRoots(&Root{URI: "file:///base"})
		client.AddReceivingMiddleware(h.recvMW)
		client.AddSendingMiddleware(h.sendMW)

		var ct Transport
		var cleanup []func()
		var ss *ServerSession
		var raw *ordRaw
		getServer := func(*http.Request) *Server { return server }
		url := "http://verif.invalid/mcp"
		switch c.tr {
		case "mem":
			a, b := NewInMemoryTransports()
			s, err := server.Connect(context.Background(), a, nil)
			if err != nil {
				status = "connect-fail"
			}
			ss, ct = s, b
		case "io":
			r1, w1 := io.Pipe()
			r2, w2 := io.Pipe()
			s, err := server.Connect(context.Background(), &IOTransport{Reader: r1, Writer: w2}, nil)
			if err != nil {
				status = "connect-fail"
			}
			ss, ct = s, &IOTransport{Reader: r2, Writer: w1}
		case "run":
			// the server side is Server.Run over a pair of pipes (what a stdio server does with os.Stdin/os.Stdout)
			r1, w1 := io.Pipe()
			r2, w2 := io.Pipe()
			rctx, rcancel := context.WithCancel(context.Background())
			runDone := make(chan error, 1)
			go func() { runDone <- server.Run(rctx, &IOTransport{Reader: r1, Writer: w2}) }()
			cleanup = append(cleanup, func() { rcancel(); <-runDone })
			ct = &IOTransport{Reader: r2, Writer: w1}
		case "sse":
			hd := NewSSEHandler(getServer, nil)
			ct = &SSEClientTransport{Endpoint: url, HTTPClient: &http.Client{Transport: &ordRT{h: hd}}}
		case "rw", "rwj":
			// the application connects a StreamableServerTransport itself and serves HTTP with it (public API)
			tp := &StreamableServerTransport{SessionID: "verif-raw", jsonResponse: c.tr == "rwj"}
			s, err := server.Connect(context.Background(), &ordGateTransport{tp, h}, nil)
			if err != nil {
				status = "connect-fail"
			}
			ss = s
			raw = &ordRaw{h: h, hc: &http.Client{Transport: &ordRT{h: tp}}, url: url}
		case "rp":
			// the raw peer speaks newline-delimited JSON over a pair of pipes to a session connected over an IOTransport
			r1, w1 := io.Pipe()
			r2, w2 := io.Pipe()
			s, err := server.Connect(context.Background(), &IOTransport{Reader: r1, Writer: w2}, nil)
			if err != nil {
				status = "connect-fail"
			}
			ss = s
			raw = &ordRaw{h: h, pipe: newOrdPipePeer(r2, w1)}
			cleanup = append(cleanup, func() { w1.Close(); r2.Close() })
		case "rh", "rs", "rn":
			// rs: a stateless handler; rn: a stateful handler of a server that hands out no session ids (sopts above):
			// every POST of the raw peer — a whole JSON-RPC batch included — is served by one temporary session
			hd := NewStreamableHTTPHandler(getServer, &StreamableHTTPOptions{Stateless: c.tr == "rs"})
			cleanup = append(cleanup, hd.closeAll)
			raw = &ordRaw{h: h, hc: &http.Client{Transport: &ordRT{h: hd}}, url: url}
			if c.pv >= protocolVersion20250618 || len(c.msgs)%2 == 0 {
				raw.pvHdr = c.pv
			}
		default:
			o := &StreamableHTTPOptions{}
			rest := c.tr[2:]
			o.Stateless = strings.HasPrefix(c.tr, "sl")
			o.JSONResponse = strings.Contains(rest, "j")
			if strings.Contains(rest, "e") {
				o.EventStore = NewMemoryEventStore(nil)
			}
			hd := NewStreamableHTTPHandler(getServer, o)
			cleanup = append(cleanup, hd.closeAll)
			ct = &StreamableClientTransport{Endpoint: url, HTTPClient: &http.Client{Transport: &ordRT{h: hd, obs: h}}}
		}
		var cs *ClientSession
		if status == "ok" && raw != nil {
			// handshake by hand, then the script; everything is a POST of the raw peer
			hdr := raw.pvHdr
			raw.pvHdr = ""
			raw.post([]int{0}, false)
			raw.pvHdr = hdr
			raw.post([]int{1}, false)
			synctest.Wait()
			raw.run(2)
			synctest.Wait()
			settle := 2 * time.Second
			for _, m := range c.msgs {
				settle += time.Duration(m.d+m.rs) * time.Millisecond
			}
			time.Sleep(settle)
			synctest.Wait()
		}
		if status == "ok" && raw == nil {
			var err error
			cs, err = client.Connect(ordCtx(0), ct, &ClientSessionOptions{ProtocolVersion: c.pv})
			if err != nil {
				status = "connect-fail"
			}
		}
		if status == "ok" && raw == nil {
			synctest.Wait()
			if ss == nil {
				for s := range server.Sessions() {
					ss = s
				}
			}
			ig := ordCtx(ordIgnore)
			if c.dir != "c2s" && c.pv < protocolVersion20260728 {
				if err := cs.SetLoggingLevel(ig, &SetLoggingLevelParams{Level: "debug"}); err != nil {
					status = "setup-fail"
				}
				synctest.Wait()
			}
			first := 2
			if c.pv >= protocolVersion20260728 {
				first = 1
			}
			switch c.dir {
			case "c2s":
				h.runScript(context.Background(), "c2s", first, cs, nil, client)
			case "s2c":
				if ss == nil {
					status = "no-server-session"
				} else {
					h.runScript(context.Background(), "s2c", first, nil, ss, nil)
				}
			case "s2ci":
				h.carrier = first
				h.script = func(ctx context.Context, s *ServerSession) { h.runScript(ctx, "s2c", first+1, nil, s, nil) }
				_, err := cs.CallTool(ordCtx(first), &CallToolParams{Name: "drive", Arguments: map[string]any{}})
				if err != nil {
					status = "carrier-fail"
				}
			}
			synctest.Wait()
			settle := 2 * time.Second // every handler still queued gets the time it needs
			for _, m := range c.msgs {
				settle += time.Duration(m.d) * time.Millisecond
				if m.cut {
					settle += 5 * time.Second // the client reconnects after 1-2 s
				}
			}
			time.Sleep(settle)
			synctest.Wait()
		}
		h.mu.Lock()
		evs := append([]ordEv(nil), h.evs...)
		h.mu.Unlock()
		total := time.Since(h.t0).Milliseconds()
		// teardown (not observed)
		h.mu.Lock()
		h.mainTag = ordIgnore
		h.mu.Unlock()
		if cs != nil {
			cs.Close()
		}
		synctest.Wait()
		for s := range server.Sessions() {
			s.Close()
		}
		for _, f := range cleanup {
			f()
		}
		synctest.Wait()

		recs = append(recs, [3]string{c.cfgOp(), status, strings.Join([]string{"tr=" + c.tr, "dir=" + c.dir, "pv=" + c.pv, status}, ",")})
		extra := 0
		per := make([]map[string]string, len(c.msgs))
		cnt := make([]int, len(c.msgs))
		for i := range per {
			per[i] = map[string]string{}
		}
		for seq, e := range evs {
			if e.id < 0 || e.id >= len(c.msgs) {
				extra++
				continue
			}
			if e.what == "beg" {
				cnt[e.id]++
			}
			if _, dup := per[e.id][e.what]; dup {
				continue
			}
			per[e.id][e.what] = fmt.Sprintf("%d@%d", seq, e.ms)
		}
		get := func(i int, k string) string {
			if v, ok := per[i][k]; ok {
				return v
			}
			return "-"
		}
		overlap := ordOverlaps(evs)
		for i, m := range c.msgs {
			ret, e := get(i, "ret"), "0"
			if v, ok := per[i]["err"]; ok {
				ret, e = v, "1"
			}
			obs := fmt.Sprintf("snd=%s ret=%s err=%s beg=%s fin=%s n=%d enq=%s", get(i, "snd"), ret, e, get(i, "beg"), get(i, "fin"), cnt[i], get(i, "enq"))
			tags := []string{"kind=" + string(m.kind), m.dir + ":" + m.meth, "tr=" + c.tr + "/" + string(m.kind)}
			if e == "1" {
				tags = append(tags, "senderr")
			}
			if overlap[i] {
				tags = append(tags, "overlapped")
			}
			if m.kind == 'x' {
				switch {
				case e == "0":
					tags = append(tags, "cancel-too-late")
				case cnt[i] == 0:
					tags = append(tags, "cancelled-unhandled") // cancelled while still queued (or before it arrived): never handed to a handler
				default:
					tags = append(tags, "cancelled-running")
				}
				if c.ck > 0 {
					tags = append(tags, "cancel-goroutine-late")
				}
			}
			if m.cb {
				tags = append(tags, "callback", h.cbres[i])
			}
			if m.b != 0 && m.kind != 'n' {
				tags = append(tags, "body-call")
			}
			if m.b != 0 {
				n := 0
				for _, x := range c.msgs {
					if x.b == m.b {
						n++
					}
				}
				tags = append(tags, "body", fmt.Sprintf("body=%d", n))
			}
			if m.rs != 0 {
				tags = append(tags, "readerstall")
			}
			if m.cut {
				if h.cutDone {
					tags = append(tags, "stream-cut")
				} else {
					tags = append(tags, "stream-cut-missed")
				}
			}
			if m.rsm {
				if h.resumed {
					tags = append(tags, "sent-during-replay")
				} else {
					tags = append(tags, "replay-not-seen")
				}
			}
			if b, s := per[i]["beg"], per[i]["snd"]; b != "" && s != "" && b[strings.Index(b, "@"):] != s[strings.Index(s, "@"):] {
				tags = append(tags, "waited")
			}
			recs = append(recs, [3]string{m.op(i), obs, strings.Join(tags, ",")})
		}
		recs = append(recs, [3]string{"end", fmt.Sprintf("extra=%d t=%d", extra, total), "end"})
		flush()
	})
}

// ordOverlaps marks the messages whose handler ran while another handler was running.
func ordOverlaps(evs []ordEv) map[int]bool {
	res := map[int]bool{}
	running := map[int]bool{}
	for _, e := range evs {
		switch e.what {
		case "beg":
			for k := range running {
				res[k], res[e.id] = true, true
			}
			running[e.id] = true
		case "fin":
			delete(running, e.id)
		}
	}
	return res
}

// ---------------------------------------------------------------------------------------------
// Generator

var ordLegacy = []string{protocolVersion20251125, protocolVersion20250618, protocolVersion20250326, protocolVersion20241105}

// ordDur draws a handler duration (virtual ms): none, a few ms, up to 15 ms, or — one handler in sixteen — a
// LONG-running one, 1 s to 90 s ("all handler durations": longer than any bound a transport might put on an
// exchange, a write or a wait).
func ordDur(rng *rand.Rand) int {
	switch r := rng.Intn(16); {
	case r < 4:
		return 0
	case r < 8:
		return 1 + rng.Intn(3)
	case r == 15:
		return 1000 + rng.Intn(89001)
	default:
		return 1 + rng.Intn(15)
	}
}

// ordSessionless: every POST of the client is served by a temporary session of its own — a stateless
// StreamableHTTPHandler (sl, slj) or a stateful one whose server hands out no session ids
// (ServerOptions.GetSessionID returns "": sn, snj).
func ordSessionless(tr string) bool {
	return strings.HasPrefix(tr, "sl") || strings.HasPrefix(tr, "sn") || tr == "rs" || tr == "rn"
}

// ordGenRaw: a raw streamable peer.  After the handshake 2-5 (thorough 2-8) POSTs: a JSON-RPC batch of
// 1..16 messages (mostly notifications; sometimes with calls among them) or a single message, each
// POST issued after the previous one was answered (single calls also from goroutines of their own).
// On rw/rwj the session's reader pauses after PRNG-chosen messages — for a body of 12 or more, in half
// of the cases, after one of its first members, so that the intake channel (10 slots) fills up while
// the body is handed over.
func ordGenRaw(rng *rand.Rand, tr string, maxLen int) *ordCase {
	c := &ordCase{tr: tr, dir: "c2s", pv: ordLegacy[rng.Intn(len(ordLegacy))]}
	gated := tr == "rw" || tr == "rwj"
	batchOK := gated || c.pv < protocolVersion20250618
	dur := func() int { return ordDur(rng) }
	c.msgs = append(c.msgs, ordMsg{dir: "c2s", kind: 'i', meth: "initialize", d: dur()}, ordMsg{dir: "c2s", kind: 'n', meth: "initialized", d: dur()})
	units := 2 + rng.Intn(4)
	if maxLen > 8 {
		units = 2 + rng.Intn(7)
	}
	note := func() ordMsg {
		return ordMsg{dir: "c2s", kind: 'n', meth: []string{"prog", "roots"}[rng.Intn(2)], d: dur()}
	}
	call := func() ordMsg {
		return ordMsg{dir: "c2s", kind: 'c', meth: []string{"tool", "tool", "ping", "ltools", "lres", "lprompts", "level"}[rng.Intn(7)], d: dur()}
	}
	for u := 1; u <= units; u++ {
		if batchOK && rng.Intn(5) < 3 {
			n := 1 + rng.Intn(16)
			withCalls := rng.Intn(2) == 0 // every second body mixes calls and notifications
			start := len(c.msgs)
			for k := 0; k < n; k++ {
				m := note()
				if withCalls && rng.Intn(5) == 0 {
					m = call()
				}
				m.b = u
				c.msgs = append(c.msgs, m)
			}
			if gated && n >= 12 && rng.Intn(2) == 0 {
				c.msgs[start+rng.Intn(n-11)].rs = 20 + rng.Intn(200)
			}
		} else {
			m := note()
			if rng.Intn(2) == 0 {
				m = call()
				m.kind = []byte{'c', 'c', 'c', 'g', 'r'}[rng.Intn(5)]
			}
			c.msgs = append(c.msgs, m)
		}
		if rng.Intn(4) == 0 {
			c.msgs[len(c.msgs)-1].gap = 1 + rng.Intn(9)
		}
	}
	{
		// the session's reader pauses now and then: on rw/rwj through the wrapping connection, elsewhere at site A1
		for i := 1; i < len(c.msgs); i++ {
			if c.msgs[i].rs == 0 && rng.Intn(12) == 0 {
				c.msgs[i].rs = 1 + rng.Intn(60)
			}
		}
	}
	return c
}

func ordGen(rng *rand.Rand, tr string, maxLen int) *ordCase {
	if strings.HasPrefix(tr, "r") && tr != "run" {
		return ordGenRaw(rng, tr, maxLen)
	}
	c := &ordCase{tr: tr}
	stateless := ordSessionless(tr)
	c.pv = ordLegacy[rng.Intn(len(ordLegacy))]
	if (tr == "mem" || tr == "io" || strings.HasPrefix(tr, "sl")) && rng.Intn(4) == 0 {
		c.pv = protocolVersion20260728
	}
	isNew := c.pv >= protocolVersion20260728
	switch r := rng.Intn(10); {
	case r < 6 || isNew:
		c.dir = "c2s"
	case r < 8 && !stateless:
		c.dir = "s2c"
	default:
		c.dir = "s2ci"
	}
	dur := func() int { return ordDur(rng) }
	gap := func() int {
		if rng.Intn(3) == 0 {
			return 1 + rng.Intn(9)
		}
		return 0
	}
	if isNew {
		c.msgs = append(c.msgs, ordMsg{dir: "c2s", kind: 'c', meth: "discover", d: dur()})
	} else {
		c.msgs = append(c.msgs, ordMsg{dir: "c2s", kind: 'i', meth: "initialize", d: dur()}, ordMsg{dir: "c2s", kind: 'n', meth: "initialized", d: dur()})
	}
	if c.dir == "s2ci" {
		c.msgs = append(c.msgs, ordMsg{dir: "c2s", kind: 'c', meth: "drive", d: dur()})
	}
	n := 1 + rng.Intn(maxLen)
	pn := []int{30, 50, 70}[rng.Intn(3)]
	for k := 0; k < n; k++ {
		m := ordMsg{d: dur(), gap: gap()}
		note := rng.Intn(100) < pn
		if c.dir == "c2s" {
			m.dir = "c2s"
			if note && isNew && stateless && rng.Intn(8) != 0 {
				note = false // the SDK's stateless server answers the SDK client's 2026-07-28 notifications with 400
			}
			if note {
				m.kind = 'n'
				m.meth = []string{"roots", "prog"}[rng.Intn(2)]
				if isNew {
					m.meth = "prog"
				}
			} else {
				m.meth = []string{"tool", "tool", "ping", "ltools", "lres", "lprompts", "level"}[rng.Intn(7)]
				if isNew && (m.meth == "ping" || m.meth == "level") {
					m.meth = "tool"
				}
			}
		} else {
			m.dir = "s2c"
			if note || stateless || (c.dir == "s2ci" && strings.Contains(tr, "j")) {
				m.kind = 'n'
				m.meth = []string{"log", "prog"}[rng.Intn(2)]
			} else {
				m.meth = []string{"lroots", "sample", "elicit", "ping", "samplet"}[rng.Intn(5)]
			}
		}
		if m.kind == 0 {
			m.kind = []byte{'c', 'c', 'g', 'g', 'r', 'c', 'g', 'x'}[rng.Intn(8)]
			if m.kind == 'x' {
				// the caller gives up: at once, after a few ms, or after a while
				m.cx = []int{0, 1 + rng.Intn(5), 1 + rng.Intn(30), 1 + rng.Intn(2000)}[rng.Intn(4)]
			}
		}
		if m.kind == 'n' && rng.Intn(3) == 0 {
			m.cb = true
			if m.d == 0 {
				m.d = 1 + rng.Intn(1000) // the handler keeps working after its outgoing call
			}
		}
		c.msgs = append(c.msgs, m)
	}
	if (tr == "she" || tr == "shje") && !isNew && (c.dir == "s2c" || rng.Intn(3) == 0) && rng.Intn(2) == 0 {
		c.dir = "s2c"
		// resume scenario (event store): some notifications arrive; the client's hanging GET is cut; the server goroutine
		// sends 1-4 notifications while the stream is detached (stored only); the client resumes with Last-Event-ID over a
		// slow connection (the first replayed frame takes `stall` ms) and the same goroutine sends its next message the
		// instant the replay begins; then 0-2 more messages
		c.msgs = c.msgs[:2]
		c.stall = 50 + rng.Intn(150) // hundreds of scheduler yields the first replayed frame is held back at most
		s2cNote := func() ordMsg {
			return ordMsg{dir: "s2c", kind: 'n', meth: []string{"log", "prog"}[rng.Intn(2)], d: dur()}
		}
		for k := 1 + rng.Intn(2); k > 0; k-- {
			c.msgs = append(c.msgs, s2cNote())
		}
		first := s2cNote()
		first.cut = true
		c.msgs = append(c.msgs, first)
		s2cCall := func(kinds string) ordMsg {
			return ordMsg{dir: "s2c", kind: kinds[rng.Intn(len(kinds))], meth: []string{"lroots", "sample", "elicit", "ping", "samplet"}[rng.Intn(5)], d: dur()}
		}
		round := func() {
			for k := rng.Intn(4); k > 0; k-- {
				if rng.Intn(5) == 0 {
					// a call issued while the stream is detached: stored, replayed after the resume, answered by a POST
					c.msgs = append(c.msgs, s2cCall("r"))
				} else {
					c.msgs = append(c.msgs, s2cNote())
				}
			}
			next := s2cNote()
			if rng.Intn(10) < 3 {
				next = s2cCall("cg")
			}
			next.rsm = true
			c.msgs = append(c.msgs, next)
			for k := rng.Intn(3); k > 0; k-- {
				m := s2cNote()
				m.gap = gap()
				c.msgs = append(c.msgs, m)
			}
		}
		round()
		if rng.Intn(3) == 0 {
			// the stream breaks a second time: order must hold across every reconnect
			again := s2cNote()
			again.cut = true
			c.msgs = append(c.msgs, again)
			round()
		}
	}
	if c.stall == 0 && rng.Intn(2) == 0 {
		c.ck = 1 + rng.Intn(25)
	}
	if !isNew && rng.Intn(4) == 0 {
		c.msgs[1].cb = true // the server's `initialized` handler calls back, too
		if c.msgs[1].d == 0 {
			c.msgs[1].d = 1 + rng.Intn(50)
		}
	}
	return c
}

// ordBodyCase: handshake, one body of n members (bit k of mask set: member k is a call), then a single
// notification and a single call.  Handler durations differ so that a re-ordering shows in the handler order too.
func ordBodyCase(tr string, n, mask, salt int) *ordCase {
	c := &ordCase{tr: tr, dir: "c2s", pv: []string{protocolVersion20250326, protocolVersion20241105}[salt%2]}
	c.msgs = append(c.msgs, ordMsg{dir: "c2s", kind: 'i', meth: "initialize", d: 1}, ordMsg{dir: "c2s", kind: 'n', meth: "initialized", d: salt % 3})
	if salt%4 == 3 {
		c.msgs = append(c.msgs, ordMsg{dir: "c2s", kind: 'n', meth: "prog", d: 1}) // an odd number of messages: rh sends no version header
	}
	calls := []string{"tool", "ping", "ltools", "lres"}
	for k := 0; k < n; k++ {
		m := ordMsg{dir: "c2s", kind: 'n', meth: []string{"prog", "roots"}[(k+salt)%2], d: 2 + (k+salt)%4, b: 1}
		if mask&(1<<k) != 0 {
			m = ordMsg{dir: "c2s", kind: 'c', meth: calls[(k+salt)%4], d: 1 + (k+salt)%3, b: 1}
		}
		c.msgs = append(c.msgs, m)
	}
	c.msgs = append(c.msgs, ordMsg{dir: "c2s", kind: 'n', meth: "prog", d: 1}, ordMsg{dir: "c2s", kind: 'c', meth: "tool", d: 1})
	return c
}

var ordTransports = []string{"mem", "io", "sse", "sh", "shj", "she", "shje", "sl", "slj", "rw", "rwj", "rh", "run", "sn", "snj", "rs", "rn", "rp"}

func ordParse(lines []string) (*ordCase, bool) {
	c := &ordCase{}
	kv := func(f []string, k string) string {
		for _, t := range f {
			if strings.HasPrefix(t, k+"=") {
				return t[len(k)+1:]
			}
		}
		return ""
	}
	for _, ln := range lines {
		f := strings.Fields(ln)
		if len(f) == 0 {
			continue
		}
		switch f[0] {
		case "cfg":
			c.tr, c.dir, c.pv = kv(f, "tr"), kv(f, "dir"), kv(f, "pv")
			c.stall, _ = strconv.Atoi(kv(f, "stall"))
			c.ck, _ = strconv.Atoi(kv(f, "ck"))
			if np, _ := strconv.Atoi(kv(f, "np")); np > 1 {
				c.np = np
				c.pvs = strings.Split(c.pv, ",")
				for len(c.pvs) < np {
					c.pvs = append(c.pvs, c.pvs[0])
				}
				for _, ch := range kv(f, "sub") {
					c.sub = append(c.sub, ch == '1')
				}
				for len(c.sub) < np {
					c.sub = append(c.sub, true)
				}
			}
		case "f":
			if len(f) < 2 {
				return nil, false
			}
			g, _ := strconv.Atoi(f[1])
			c.fans = append(c.fans, ordFan{g: g, meth: kv(f, "meth"), detached: kv(f, "mode") == "detached"})
		case "m":
			d, _ := strconv.Atoi(kv(f, "d"))
			g, _ := strconv.Atoi(kv(f, "gap"))
			k := kv(f, "kind")
			if k == "" {
				return nil, false
			}
			b, _ := strconv.Atoi(kv(f, "b"))
			rs, _ := strconv.Atoi(kv(f, "rs"))
			to, _ := strconv.Atoi(kv(f, "to"))
			of, _ := strconv.Atoi(kv(f, "of"))
			lat, _ := strconv.Atoi(kv(f, "lat"))
			cx, _ := strconv.Atoi(kv(f, "cx"))
			c.msgs = append(c.msgs, ordMsg{dir: kv(f, "dir"), kind: k[0], meth: kv(f, "meth"), d: d, gap: g, cb: kv(f, "cb") == "1", b: b, rs: rs, to: to, of: of, lat: lat, cut: kv(f, "cut") == "1", rsm: kv(f, "rsm") == "1", cx: cx})
		}
	}
	return c, c.tr != "" && len(c.msgs) > 0
}

func TestVerifOrder(t *testing.T) {
	out := verifOpen(t)
	defer out.close()
	replay := func(path, cs string) {
		b, err := os.ReadFile(path)
		if err != nil {
			t.Fatal(err)
		}
		var cur []string
		n := 0
		run := func() {
			if c, ok := ordParse(cur); ok {
				ordRunCase(t, out, fmt.Sprintf("%s-%d", cs, n), c)
				n++
			}
			cur = nil
		}
		for _, ln := range strings.Split(string(b), "\n") {
			ln = strings.TrimSpace(ln)
			if ln == "" || strings.HasPrefix(ln, "#") {
				continue
			}
			if ln == "reset" {
				run()
				continue
			}
			cur = append(cur, ln)
		}
		run()
	}
	if p := os.Getenv("VERIF_REPLAY"); p != "" {
		replay(p, "replay")
		return
	}
	if p := os.Getenv("VERIF_CORPUS"); p != "" {
		ents, _ := os.ReadDir(p)
		sort.Slice(ents, func(i, j int) bool { return ents[i].Name() < ents[j].Name() })
		for _, e := range ents {
			if strings.HasSuffix(e.Name(), ".ops") {
				replay(p+"/"+e.Name(), "corpus-"+strings.TrimSuffix(e.Name(), ".ops"))
			}
		}
	}
	// exhaustive: a raw streamable peer POSTs ONE batch of every composition of calls and notifications up to four
	// members (pre-2025-06-18 batching; Mcp-Protocol-Version absent or present on rh), then a notification and a call
	ci := 0
	for _, tr := range []string{"rw", "rwj", "rh", "rs", "rn", "rp"} {
		for n := 1; n <= 4; n++ {
			for mask := 0; mask < 1<<n; mask++ {
				ordRunCase(t, out, fmt.Sprintf("x%d", ci), ordBodyCase(tr, n, mask, ci))
				ci++
			}
		}
	}
	rng := verifRng(31)
	n := verifN(2400, 20000) // quick: ≈140 single-pair cases per transport + 800 fan-out cases, besides the corpus and the exhaustive block
	maxLen := 8
	if verifThorough() {
		maxLen = 14
	}
	frng := verifRng(37)
	for i := 0; i < n; i++ {
		tr := ordTransports[i%len(ordTransports)]
		ordRunCase(t, out, fmt.Sprintf("g%d", i), ordGen(rng, tr, maxLen))
		if i%3 == 2 {
			// every third step also a fan-out case: one sender, 2-3 receiving peers
			k := i / 3
			ordRunCase(t, out, fmt.Sprintf("f%d", k), ordGenFan(frng, ordFanTransports[k%len(ordFanTransports)], maxLen))
		}
	}
}
