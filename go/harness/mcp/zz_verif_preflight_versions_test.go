// E8 Preflight correspondence harness (C12, C06), stream `versions`: THE VERSION MATRIX, exhaustively.
//
// Whole requests (records of kind `http`, as in the main stream) that are what a correct client sends EXCEPT for the
// protocol version they name: every header-version value of {absent, each known version, unknown older than every known
// one, unknown between known ones, unknown just below 2026-07-28, unknown future} x every `_meta` version of {absent,
// equal to the header, each class again} x {tools/list, tools/call, server/discover} x the stateless handler and the
// stateful handler (no session / a known session) x SSE or JSON responses.  The `_meta` is otherwise complete (client
// info and capabilities).  What must happen in each row is the ordered table of the model (`violation_status`); for the
// rows whose header and `_meta` agree on a version this SDK does not implement and that is not older than 2026-07-28 the
// monitor demands the structured answer - JSON-RPC -32022 listing the supported versions (or -32602), no handler run -
// under a clause that C06 and C12 share ("C06+C12: …").
package mcp

import (
	"encoding/json"
	"fmt"
	"net/http"
	"os"
	"testing"
)

type pfVRow struct {
	kind   string // sl, sf
	sess   string // n, k
	method string
	hv     string // header version ("" absent)
	mv     string // _meta version ("-" no _meta at all)
	json   bool   // StreamableHTTPOptions.JSONResponse
}

// pfVHeader / pfVMeta: the values of each class.
var pfVUnknown = []string{"1999", "2024-01-01", "2025-01-01", "2025-07-15", "2026-07-27", "2026-07-29", "2027-01-15", "2099-12-31", "garbage"}

func pfVersionRows() []pfVRow {
	headers := append([]string{"", protocolVersion20260728}, pfOldVersions...)
	headers = append(headers, pfVUnknown...)
	var rows []pfVRow
	for _, kind := range []string{"sl", "sf:n", "sf:k"} {
		for _, method := range []string{"tools/list", "tools/call", "server/discover"} {
			for _, hv := range headers {
				metas := []string{"-", "=", protocolVersion20260728, protocolVersion20251125, protocolVersion20250326}
				metas = append(metas, pfVUnknown...)
				for _, mv := range metas {
					if mv == "=" {
						if hv == "" {
							continue
						}
						mv = hv
					} else if mv == hv {
						continue // the "equal" row
					}
					for _, js := range []bool{false, true} {
						if js && kind != "sl" && mv != hv {
							continue // the response format matters where a session answers
						}
						r := pfVRow{kind: kind[:2], sess: "n", method: method, hv: hv, mv: mv, json: js}
						if len(kind) > 2 {
							r.sess = kind[3:]
						}
						rows = append(rows, r)
					}
				}
			}
		}
	}
	return rows
}

func (r pfVRow) tags() []string {
	class := func(v string) string {
		switch {
		case v == "" || v == "-":
			return "absent"
		case v == protocolVersion20260728:
			return "new"
		}
		for _, o := range pfOldVersions {
			if v == o {
				return "legacy"
			}
		}
		if v >= protocolVersion20260728 {
			return "unknown-future"
		}
		if v < protocolVersion20241105 {
			return "unknown-old"
		}
		return "unknown-between"
	}
	rel := "differ"
	switch {
	case r.mv == "-":
		rel = "header-only"
	case r.hv == "":
		rel = "meta-only"
	case r.hv == r.mv:
		rel = "equal"
	}
	return []string{"vm", "vm-h-" + class(r.hv), "vm-m-" + class(r.mv), "vm-" + rel, "vm-" + r.method, "vm-" + r.kind + r.sess}
}

// build: a client-correct request apart from the versions it names.
func (r pfVRow) build(g *pfGen) *pfHTTPCase {
	c := &pfHTTPCase{method: "POST", ctype: "application/json", hasCT: true, accept: []string{"application/json, text/event-stream"},
		localAddr: "127.0.0.1:8080", host: "localhost:8080", sess: r.sess, paramHdr: http.Header{}, toolName: "tool",
		kind: r.kind, jsonResp: r.json, bodyMode: "cl", sizeClass: "size-default", version: r.hv}
	c.schema = g.validSchema()
	meta := ""
	if r.mv != "-" {
		meta = pfMeta(r.mv, true)
	}
	name := ""
	var text string
	switch r.method {
	case "tools/call":
		name = c.toolName
		params := g.callParams(name, c.schema, true, meta)
		text = `{"jsonrpc":"2.0","id":1,"method":"tools/call","params":` + string(params) + `}`
		nn := name
		c.mcpName = &nn
		tool := &Tool{Name: c.toolName, InputSchema: json.RawMessage(pfSchemaJSON(c.schema))}
		for k, v := range generateParamHeaders(tool, params) {
			c.paramHdr.Set(k, v)
		}
	default:
		p := "{}"
		if meta != "" {
			p = `{"_meta":` + meta + `}`
		}
		text = fmt.Sprintf(`{"jsonrpc":"2.0","id":1,"method":%q,"params":%s}`, r.method, p)
	}
	mm := r.method
	c.mcpMethod = &mm
	c.body = []byte(text)
	c.famTags = r.tags()
	return c
}

func pfRunVersionRow(out *verifOut, idx int, extraTag string) {
	rows := pfVersionRows()
	if idx < 0 || idx >= len(rows) {
		return
	}
	g := &pfGen{rng: pfRngFor(0, "vm", idx), epoch: pfEpoch}
	op, obs, tags := rows[idx].build(g).run()
	if extraTag != "" {
		tags = append(tags, extraTag)
	}
	out.line(fmt.Sprintf("vm%d", idx), fmt.Sprintf("@vm:0:%d:%d ", idx, pfEpoch)+op, obs, tags...)
}

func TestVerifPreflightVersions(t *testing.T) {
	out := verifOpen(t)
	defer out.close()
	if p := os.Getenv("VERIF_REPLAY"); p != "" {
		pfReplay(t, out, p, "replay")
		return
	}
	for i := range pfVersionRows() {
		pfRunVersionRow(out, i, "")
	}
}
