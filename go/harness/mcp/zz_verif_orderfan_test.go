// Engine `order` (C03, end-to-end half) — fan-out cases: ONE sender, 2-3 receiving peers.
//
// Topology A (dir=c2s): one mcp.Client connected to np servers.  The script's goroutine calls
// Client.AddRoots / RemoveRoots (notifications/roots/list_changed to EVERY session: one notifying method,
// np per-session sends) and directed messages to one of the servers (NotifyProgress, CallTool, Ping, …).
// Topology B (dir=s2c): one mcp.Server with np client sessions (legacy protocol versions, a PRNG-chosen
// subset subscribed to one resource).  The script's goroutine calls Server.ResourceUpdated (to every
// subscribed session), Server.AddTool / AddPrompt / AddResource (debounced list_changed to every session, sent
// 10 ms later on the timer's goroutine: `detached`) and directed messages with the background context —
// the session's shared stream, the one the fan-out copies travel on — to one of the clients (NotifyProgress,
// Log, ListRoots, CreateMessage, Elicit, Ping).
//
// Every per-session copy of a fan-out is a message of its own in the records (own id, `of=<g>`, `to=<p>`, own
// handler duration, own callback flag); the notifying method is the record `f <g>` with `call`/`done`.  A
// sending middleware on the sender adds `lat` virtual ms to the send path of chosen copies (a slow session:
// tracing middleware, slow transport) — under a sequential fan-out this only delays the method, under a
// fan-out that returns before its sends are over it makes the overtaking deterministic.
//
// A debounced list_changed has no notifying method a caller could see returning: the ordering clause of
// C03 applies to each of its per-session sends from the instant that send has returned (its `ret`), as for
// any directed message; the record `f … mode=detached` is evidence only.
//
// Transports: mem io sse sh shj she shje (both topologies), sl slj sn snj (topology A; a sessionless server has no
// session to send from).  The raw streamable peer (rw rwj rh) is a hand-written client and has no notifying
// method.  Not part of the repository; grafted into package mcp by -overlay.
package mcp

import (
	"context"
	"fmt"
	"io"
	"math/rand"
	"net/http"
	"strings"
	"sync"
	"testing"
	"testing/synctest"
	"time"

	"github.com/modelcontextprotocol/go-sdk/internal/jsonrpc2"
)

const ordFanURI = "file:///fan"

var ordFanTransports = []string{"mem", "io", "sse", "sh", "shj", "she", "shje", "sl", "slj", "sn", "snj"}

var ordFanMethod = map[string]string{
	notificationRootsListChanged:    "roots",
	notificationResourceUpdated:     "resupd",
	notificationToolListChanged:     "tools",
	notificationPromptListChanged:   "prompts",
	notificationResourceListChanged: "resources",
}

type ordFanState struct {
	peerOfCS map[*ClientSession]int
	peerOfSS map[*ServerSession]int
	pending  map[string][]int // per fan-out method: fan-outs called whose params have not been seen yet
	grpOfPtr map[Params]int   // params value of a notifying method -> fan-out
	copyID   map[int]map[int]int
	roots    []string
}

// fanTag resolves the message id of a send made without a tagged context: a per-session send of a
// notifying method.  One notifying method hands the same params value to every session.
func (h *ordH) fanTag(method string, req Request) int {
	meth, ok := ordFanMethod[method]
	if !ok {
		return -1
	}
	h.mu.Lock()
	defer h.mu.Unlock()
	f := h.fan
	peer := -1
	switch s := req.GetSession().(type) {
	case *ClientSession:
		if p, ok := f.peerOfCS[s]; ok {
			peer = p
		}
	case *ServerSession:
		if p, ok := f.peerOfSS[s]; ok {
			peer = p
		}
	}
	g, seen := f.grpOfPtr[req.GetParams()]
	if !seen {
		q := f.pending[meth]
		if len(q) == 0 {
			return -1
		}
		g = q[0]
		f.pending[meth] = q[1:]
		f.grpOfPtr[req.GetParams()] = g
	}
	if id, ok := f.copyID[g][peer]; ok {
		return id
	}
	return -1
}

// fanStamp returns a request that carries the tag.  The params of a fan-out are shared by all its
// per-session sends, so they are not written to: every send gets a request with params of its own.
func fanStamp(req Request, tag int) Request {
	meta := Meta{"vtag": tag}
	switch r := req.(type) {
	case *ClientRequest[*RootsListChangedParams]:
		return &ClientRequest[*RootsListChangedParams]{Session: r.Session, Params: &RootsListChangedParams{Meta: meta}}
	case *ServerRequest[*ResourceUpdatedNotificationParams]:
		cp := *r.Params
		cp.Meta = meta
		return &ServerRequest[*ResourceUpdatedNotificationParams]{Session: r.Session, Params: &cp, Extra: r.Extra}
	case *ServerRequest[Params]:
		var p Params
		switch r.Params.(type) {
		case *ToolListChangedParams:
			p = &ToolListChangedParams{Meta: meta}
		case *PromptListChangedParams:
			p = &PromptListChangedParams{Meta: meta}
		case *ResourceListChangedParams:
			p = &ResourceListChangedParams{Meta: meta}
		default:
			return nil
		}
		return &ServerRequest[Params]{Session: r.Session, Params: p, Extra: r.Extra}
	}
	return nil
}

// fanSendMW is the sending middleware of the one sender of a fan-out case.
func (h *ordH) fanSendMW(next MethodHandler) MethodHandler {
	return func(ctx context.Context, method string, req Request) (Result, error) {
		tag, ok := ctx.Value(ordTagKey{}).(int)
		fresh := false
		if !ok {
			tag = h.fanTag(method, req)
			fresh = true
		} else if tag != ordIgnore && method == notificationInitialized {
			tag++
		}
		if fresh {
			if r := fanStamp(req, tag); r != nil {
				req = r
			}
		} else if p := req.GetParams(); p != nil && !p.isNil() {
			m := p.GetMeta()
			if m == nil {
				m = map[string]any{}
			}
			m["vtag"] = tag
			p.SetMeta(m)
		}
		if tag == ordIgnore {
			return next(ctx, method, req)
		}
		h.log("snd", tag)
		if tag >= 0 && tag < len(h.c.msgs) && h.c.msgs[tag].lat > 0 {
			time.Sleep(time.Duration(h.c.msgs[tag].lat) * time.Millisecond)
		}
		res, err := next(ctx, method, req)
		if err != nil {
			h.log("err", tag)
		} else {
			h.log("ret", tag)
		}
		return res, err
	}
}

// issueFanout calls the notifying method of fan-out f from the calling goroutine.
func (h *ordH) issueFanout(f ordFan, client *Client, server *Server) {
	h.mu.Lock()
	var params *ResourceUpdatedNotificationParams
	if f.meth == "resupd" {
		params = &ResourceUpdatedNotificationParams{URI: ordFanURI}
		h.fan.grpOfPtr[params] = f.g
	} else {
		h.fan.pending[f.meth] = append(h.fan.pending[f.meth], f.g)
	}
	var remove string
	if f.meth == "roots" && f.g%3 == 0 && len(h.fan.roots) > 0 {
		remove = h.fan.roots[len(h.fan.roots)-1]
		h.fan.roots = h.fan.roots[:len(h.fan.roots)-1]
	} else if f.meth == "roots" {
		h.fan.roots = append(h.fan.roots, fmt.Sprintf("file:///g%d", f.g))
	}
	h.mu.Unlock()
	h.log("call", f.g)
	switch f.meth {
	case "roots":
		if remove != "" {
			client.RemoveRoots(remove)
		} else {
			client.AddRoots(&Root{URI: fmt.Sprintf("file:///g%d", f.g)})
		}
	case "resupd":
		server.ResourceUpdated(context.Background(), params)
	case "tools":
		server.AddTool(&Tool{Name: fmt.Sprintf("x%d", f.g), InputSchema: map[string]any{"type": "object"}}, func(context.Context, *CallToolRequest) (*CallToolResult, error) {
			return &CallToolResult{}, nil
		})
	case "prompts":
		server.AddPrompt(&Prompt{Name: fmt.Sprintf("x%d", f.g)}, func(context.Context, *GetPromptRequest) (*GetPromptResult, error) {
			return &GetPromptResult{}, nil
		})
	case "resources":
		server.AddResource(&Resource{URI: fmt.Sprintf("file:///x%d", f.g), Name: fmt.Sprintf("x%d", f.g)}, func(context.Context, *ReadResourceRequest) (*ReadResourceResult, error) {
			return &ReadResourceResult{}, nil
		})
	}
	h.log("done", f.g)
}

// runFanScript issues the script of a fan-out case from the calling goroutine.
func (h *ordH) runFanScript(from int, css []*ClientSession, sss []*ServerSession, client *Client, server *Server) {
	issued := map[int]bool{}
	fanOf := map[int]ordFan{}
	for _, f := range h.c.fans {
		fanOf[f.g] = f
	}
	var wg sync.WaitGroup
	for i := from; i < len(h.c.msgs); i++ {
		m := h.c.msgs[i]
		if m.of != 0 {
			if issued[m.of] {
				continue
			}
			issued[m.of] = true
			h.issueFanout(fanOf[m.of], client, server)
		} else {
			var cs *ClientSession
			var ss *ServerSession
			if m.dir == "c2s" {
				cs = css[m.to]
			} else {
				ss = sss[m.to]
			}
			switch m.kind {
			case 'n', 'c':
				h.issue(context.Background(), i, cs, ss, client)
			case 'g', 'r', 'x':
				wg.Add(1)
				go func() {
					defer wg.Done()
					h.issue(context.Background(), i, cs, ss, client)
				}()
				if m.kind == 'g' {
					synctest.Wait()
				}
			}
		}
		if m.gap > 0 {
			time.Sleep(time.Duration(m.gap) * time.Millisecond)
		}
	}
	wg.Wait()
}

// ordFanLink connects one more session of server over transport tr and returns the client side.
type ordFanLink struct {
	tr      string
	hd      map[*Server]http.Handler
	cleanup []func()
}

func (l *ordFanLink) connect(server *Server) (Transport, *ServerSession, error) {
	url := "http://verif.invalid/mcp"
	getServer := func(*http.Request) *Server { return server }
	switch l.tr {
	case "mem":
		a, b := NewInMemoryTransports()
		s, err := server.Connect(context.Background(), a, nil)
		return b, s, err
	case "io":
		r1, w1 := io.Pipe()
		r2, w2 := io.Pipe()
		s, err := server.Connect(context.Background(), &IOTransport{Reader: r1, Writer: w2}, nil)
		return &IOTransport{Reader: r2, Writer: w1}, s, err
	case "sse":
		hd := l.hd[server]
		if hd == nil {
			hd = NewSSEHandler(getServer, nil)
			l.hd[server] = hd
		}
		return &SSEClientTransport{Endpoint: url, HTTPClient: &http.Client{Transport: &ordRT{h: hd}}}, nil, nil
	default:
		hd := l.hd[server]
		if hd == nil {
			o := &StreamableHTTPOptions{}
			rest := l.tr[2:]
			o.Stateless = strings.HasPrefix(l.tr, "sl")
			o.JSONResponse = strings.Contains(rest, "j")
			if strings.Contains(rest, "e") {
				o.EventStore = NewMemoryEventStore(nil)
			}
			sh := NewStreamableHTTPHandler(getServer, o)
			l.cleanup = append(l.cleanup, sh.closeAll)
			hd = sh
			l.hd[server] = hd
		}
		return &StreamableClientTransport{Endpoint: url, HTTPClient: &http.Client{Transport: &ordRT{h: hd}}}, nil, nil
	}
}

func ordFanServer(h *ordH) *Server {
	sopts := &ServerOptions{
		RootsListChangedHandler:     func(context.Context, *RootsListChangedRequest) {},
		ProgressNotificationHandler: func(context.Context, *ProgressNotificationServerRequest) {},
		SubscribeHandler:            func(context.Context, *SubscribeRequest) error { return nil },
		UnsubscribeHandler:          func(context.Context, *UnsubscribeRequest) error { return nil },
	}
	if strings.HasPrefix(h.c.tr, "sn") {
		sopts.GetSessionID = func() string { return "" } // no session ids: every POST gets a temporary session
	}
	server := NewServer(&Implementation{Name: "s", Version: "1"}, sopts)
	server.AddTool(&Tool{Name: "t", InputSchema: map[string]any{"type": "object"}}, func(ctx context.Context, req *CallToolRequest) (*CallToolResult, error) {
		return &CallToolResult{Content: []Content{&TextContent{Text: "ok"}}}, nil
	})
	server.AddPrompt(&Prompt{Name: "p"}, func(context.Context, *GetPromptRequest) (*GetPromptResult, error) {
		return &GetPromptResult{}, nil
	})
	server.AddResource(&Resource{URI: ordFanURI, Name: "fan"}, func(context.Context, *ReadResourceRequest) (*ReadResourceResult, error) {
		return &ReadResourceResult{Contents: []*ResourceContents{{URI: ordFanURI, Text: "x"}}}, nil
	})
	return server
}

func ordFanClient(h *ordH) *Client {
	client := NewClient(&Implementation{Name: "c", Version: "1"}, &ClientOptions{
		CreateMessageHandler: func(context.Context, *CreateMessageRequest) (*CreateMessageResult, error) {
			return &CreateMessageResult{Model: "m", Role: "assistant", Content: &TextContent{Text: "y"}}, nil
		},
		ElicitationHandler: func(context.Context, *ElicitRequest) (*ElicitResult, error) {
			return &ElicitResult{Action: "decline"}, nil
		},
		LoggingMessageHandler:       func(context.Context, *LoggingMessageRequest) {},
		ProgressNotificationHandler: func(context.Context, *ProgressNotificationClientRequest) {},
		ToolListChangedHandler:      func(context.Context, *ToolListChangedRequest) {},
		PromptListChangedHandler:    func(context.Context, *PromptListChangedRequest) {},
		ResourceListChangedHandler:  func(context.Context, *ResourceListChangedRequest) {},
		ResourceUpdatedHandler:      func(context.Context, *ResourceUpdatedNotificationRequest) {},
	})
	client.AddRoots(&Root{URI: "file:///base"})
	return client
}

func ordRunFanCase(t *testing.T, out *verifOut, id string, c *ordCase) {
	var recs [][3]string
	recs = append(recs, [3]string{"reset", "ok", "reset"})
	flushed := false
	flush := func() {
		if flushed {
			return
		}
		flushed = true
		for _, r := range recs {
			out.line(id, r[0], r[1], r[2])
		}
		out.flush()
	}
	defer flush()
	synctest.Test(t, func(t *testing.T) {
		h := &ordH{t0: time.Now(), c: c, carrier: -1, mainTag: ordIgnore, cbres: map[int]string{}}
		h.fan = &ordFanState{peerOfCS: map[*ClientSession]int{}, peerOfSS: map[*ServerSession]int{}, pending: map[string][]int{},
			grpOfPtr: map[Params]int{}, copyID: map[int]map[int]int{}}
		h.hookEnq()
		defer func() { jsonrpc2.VerifHook = nil }()
		for i, m := range c.msgs {
			if m.of != 0 {
				if h.fan.copyID[m.of] == nil {
					h.fan.copyID[m.of] = map[int]int{}
				}
				h.fan.copyID[m.of][m.to] = i
			}
		}
		status := "ok"
		defer func() {
			if r := recover(); r != nil {
				status = "panic"
				recs = append(recs, [3]string{c.cfgOp(), "panic", "panic"})
				flush()
			}
		}()
		link := &ordFanLink{tr: c.tr, hd: map[*Server]http.Handler{}}
		css := make([]*ClientSession, c.np)
		sss := make([]*ServerSession, c.np)
		var client *Client
		var server *Server
		var servers []*Server
		ig := ordCtx(ordIgnore)
		if c.dir == "c2s" {
			// topology A: one client, np servers
			client = ordFanClient(h)
			client.AddReceivingMiddleware(h.recvMWp(-1))
			client.AddSendingMiddleware(h.fanSendMW)
			for p := 0; p < c.np && status == "ok"; p++ {
				srv := ordFanServer(h)
				srv.AddReceivingMiddleware(h.recvMWp(p))
				srv.AddSendingMiddleware(h.sendMW)
				servers = append(servers, srv)
				ct, ss, err := link.connect(srv)
				if err != nil {
					status = "connect-fail"
					break
				}
				cs, err := client.Connect(ordCtx(2*p), ct, &ClientSessionOptions{ProtocolVersion: c.pvs[p]})
				if err != nil {
					status = "connect-fail"
					break
				}
				h.mu.Lock()
				h.fan.peerOfCS[cs] = p
				h.mu.Unlock()
				css[p], sss[p] = cs, ss
				synctest.Wait()
			}
		} else {
			// topology B: one server, np clients
			server = ordFanServer(h)
			server.AddReceivingMiddleware(h.recvMWp(-1))
			server.AddSendingMiddleware(h.fanSendMW)
			servers = append(servers, server)
			for p := 0; p < c.np && status == "ok"; p++ {
				cl := ordFanClient(h)
				cl.AddReceivingMiddleware(h.recvMWp(p))
				cl.AddSendingMiddleware(h.sendMW)
				before := map[*ServerSession]bool{}
				for s := range server.Sessions() {
					before[s] = true
				}
				ct, ss, err := link.connect(server)
				if err != nil {
					status = "connect-fail"
					break
				}
				cs, err := cl.Connect(ordCtx(2*p), ct, &ClientSessionOptions{ProtocolVersion: c.pvs[p]})
				if err != nil {
					status = "connect-fail"
					break
				}
				synctest.Wait()
				if ss == nil {
					for s := range server.Sessions() {
						if !before[s] {
							ss = s
						}
					}
				}
				if ss == nil {
					status = "no-server-session"
					break
				}
				h.mu.Lock()
				h.fan.peerOfSS[ss] = p
				h.mu.Unlock()
				css[p], sss[p] = cs, ss
				if err := cs.SetLoggingLevel(ig, &SetLoggingLevelParams{Level: "debug"}); err != nil {
					status = "setup-fail"
				}
				if c.sub[p] {
					if err := cs.Subscribe(ig, &SubscribeParams{URI: ordFanURI}); err != nil {
						status = "setup-fail"
					}
				}
				synctest.Wait()
			}
		}
		if status == "ok" {
			h.runFanScript(2*c.np, css, sss, client, server)
			synctest.Wait()
			settle := 2 * time.Second // every handler still queued gets the time it needs; a pending debounce timer fires
			for _, m := range c.msgs {
				settle += time.Duration(m.d+m.lat) * time.Millisecond
			}
			time.Sleep(settle)
			synctest.Wait()
		}
		h.mu.Lock()
		evs := append([]ordEv(nil), h.evs...)
		h.mu.Unlock()
		total := time.Since(h.t0).Milliseconds()
		// teardown (not observed)
		for _, cs := range css {
			if cs != nil {
				cs.Close()
			}
		}
		synctest.Wait()
		for _, srv := range servers {
			for s := range srv.Sessions() {
				s.Close()
			}
		}
		for _, f := range link.cleanup {
			f()
		}
		synctest.Wait()

		topo := "topo=A"
		if c.dir != "c2s" {
			topo = "topo=B"
		}
		recs = append(recs, [3]string{c.cfgOp(), status, strings.Join([]string{"tr=" + c.tr, "dir=" + c.dir, "fancase", topo, fmt.Sprintf("np=%d", c.np), "fan:tr=" + c.tr + "/" + topo, status}, ",")})
		extra := 0
		per := make([]map[string]string, len(c.msgs))
		cnt := make([]int, len(c.msgs))
		for i := range per {
			per[i] = map[string]string{}
		}
		fanAt := map[int]map[string]string{}
		for seq, e := range evs {
			if e.what == "call" || e.what == "done" {
				if fanAt[e.id] == nil {
					fanAt[e.id] = map[string]string{}
				}
				fanAt[e.id][e.what] = fmt.Sprintf("%d@%d", seq, e.ms)
				continue
			}
			if e.id < 0 || e.id >= len(c.msgs) {
				extra++
				continue
			}
			if e.what == "beg" {
				cnt[e.id]++
			}
			if _, dup := per[e.id][e.what]; dup {
				continue
			}
			per[e.id][e.what] = fmt.Sprintf("%d@%d", seq, e.ms)
		}
		get := func(i int, k string) string {
			if v, ok := per[i][k]; ok {
				return v
			}
			return "-"
		}
		overlap := ordOverlaps(evs)
		fanOf := map[int]ordFan{}
		for _, f := range c.fans {
			fanOf[f.g] = f
		}
		emitted := map[int]bool{}
		prevSyncFan := -1 // peer whose copy of the preceding synchronous fan-out was slowed down (-1: none / not a fan-out)
		for i, m := range c.msgs {
			if m.of != 0 && !emitted[m.of] {
				emitted[m.of] = true
				f := fanOf[m.of]
				at := func(k string) string {
					if v, ok := fanAt[f.g][k]; ok {
						return v
					}
					return "-"
				}
				n := 0
				for _, x := range c.msgs {
					if x.of == f.g {
						n++
					}
				}
				mode := "fanout-sync"
				if f.detached {
					mode = "fanout-detached"
				}
				recs = append(recs, [3]string{f.op(), fmt.Sprintf("call=%s done=%s", at("call"), at("done")),
					strings.Join([]string{"fanout", mode, "fan:" + f.meth, fmt.Sprintf("copies=%d", n)}, ",")})
			}
			ret, e := get(i, "ret"), "0"
			if v, ok := per[i]["err"]; ok {
				ret, e = v, "1"
			}
			obs := fmt.Sprintf("snd=%s ret=%s err=%s beg=%s fin=%s n=%d enq=%s", get(i, "snd"), ret, e, get(i, "beg"), get(i, "fin"), cnt[i], get(i, "enq"))
			tags := []string{"kind=" + string(m.kind), m.dir + ":" + m.meth, "tr=" + c.tr + "/" + string(m.kind)}
			if e == "1" {
				tags = append(tags, "senderr")
			}
			if overlap[i] {
				tags = append(tags, "overlapped")
			}
			if m.kind == 'x' {
				switch {
				case e == "0":
					tags = append(tags, "cancel-too-late")
				case cnt[i] == 0:
					tags = append(tags, "cancelled-unhandled")
				default:
					tags = append(tags, "cancelled-running")
				}
				if c.ck > 0 {
					tags = append(tags, "cancel-goroutine-late")
				}
			}
			if m.cb {
				tags = append(tags, "callback", h.cbres[i])
			}
			if m.of != 0 {
				tags = append(tags, "copy")
				if fanOf[m.of].detached {
					tags = append(tags, "copy-detached")
				}
			}
			if m.lat != 0 {
				tags = append(tags, "latency")
			}
			if i >= 2*c.np {
				if m.of == 0 && prevSyncFan == m.to {
					tags = append(tags, "after-slow-copy") // sent to the peer whose copy was slowed down, right after the notifying method returned
				}
				if m.of != 0 && !fanOf[m.of].detached {
					if m.lat != 0 {
						prevSyncFan = m.to
					} else if i > 0 && c.msgs[i-1].of != m.of {
						prevSyncFan = -1
					}
				} else {
					prevSyncFan = -1
				}
			}
			if b, s := per[i]["beg"], per[i]["snd"]; b != "" && s != "" && b[strings.Index(b, "@"):] != s[strings.Index(s, "@"):] {
				tags = append(tags, "waited")
			}
			recs = append(recs, [3]string{m.fanOp(i), obs, strings.Join(tags, ",")})
		}
		recs = append(recs, [3]string{"end", fmt.Sprintf("extra=%d t=%d", extra, total), "end"})
		flush()
	})
}

// ordGenFan: a fan-out case.  After the np handshakes 1..maxLen units: a notifying method that addresses
// several sessions (about 40%), or a directed message to one peer.  After a synchronous fan-out one of
// whose copies was slowed down, the next unit is — in half of the cases — a directed message to that very
// peer, issued without a pause.
func ordGenFan(rng *rand.Rand, tr string, maxLen int) *ordCase {
	c := &ordCase{tr: tr, np: 2 + rng.Intn(2)}
	stateless := ordSessionless(tr)
	c.dir = "c2s"
	if !stateless && rng.Intn(2) == 0 {
		c.dir = "s2c"
	}
	for p := 0; p < c.np; p++ {
		c.pvs = append(c.pvs, ordLegacy[rng.Intn(len(ordLegacy))])
		c.sub = append(c.sub, rng.Intn(4) != 0)
	}
	c.pv = strings.Join(c.pvs, ",")
	if c.dir == "c2s" {
		c.sub = nil
	} else {
		n := 0
		for _, b := range c.sub {
			if b {
				n++
			}
		}
		if n < 2 && rng.Intn(3) != 0 {
			for p := range c.sub {
				c.sub[p] = true
			}
		}
	}
	dur := func() int { return ordDur(rng) }
	gap := func() int {
		if rng.Intn(3) == 0 {
			return 1 + rng.Intn(9)
		}
		return 0
	}
	for p := 0; p < c.np; p++ {
		c.msgs = append(c.msgs, ordMsg{dir: "c2s", kind: 'i', meth: "initialize", d: dur(), to: p}, ordMsg{dir: "c2s", kind: 'n', meth: "initialized", d: dur(), to: p})
	}
	dir := c.dir
	n := 1 + rng.Intn(maxLen)
	pn := []int{30, 50, 70}[rng.Intn(3)]
	detachedLeft := []string{"tools", "prompts", "resources"}
	slow := -1 // the peer whose copy of the preceding synchronous fan-out was slowed down
	for k := 0; k < n; k++ {
		if slow < 0 && rng.Intn(5) < 2 {
			f := ordFan{g: len(c.fans) + 1}
			var peers []int
			switch {
			case dir == "c2s":
				f.meth = "roots"
			case rng.Intn(3) == 0 && len(detachedLeft) > 0:
				j := rng.Intn(len(detachedLeft))
				f.meth, f.detached = detachedLeft[j], true
				detachedLeft = append(detachedLeft[:j], detachedLeft[j+1:]...)
			default:
				f.meth = "resupd"
			}
			for p := 0; p < c.np; p++ {
				if f.meth != "resupd" || c.sub[p] {
					peers = append(peers, p)
				}
			}
			if len(peers) == 0 {
				continue
			}
			c.fans = append(c.fans, f)
			slowPeer := -1
			if rng.Intn(3) != 0 {
				slowPeer = peers[rng.Intn(len(peers))]
			}
			g := gap()
			for x, p := range peers {
				m := ordMsg{dir: dir, kind: 'n', meth: f.meth, d: dur(), to: p, of: f.g}
				if p == slowPeer {
					m.lat = 1 + rng.Intn(30)
				} else if rng.Intn(6) == 0 {
					m.lat = 1 + rng.Intn(5)
				}
				if rng.Intn(4) == 0 {
					m.cb = true
					if m.d == 0 {
						m.d = 1 + rng.Intn(200)
					}
				}
				if x == 0 {
					m.gap = g // the pause after the notifying method: the script issues the method at the first copy it meets
				}
				c.msgs = append(c.msgs, m)
			}
			first := len(c.msgs) - len(peers)
			if !f.detached && slowPeer >= 0 && len(peers) >= 2 && rng.Intn(2) == 0 {
				slow = slowPeer
				c.msgs[first].gap = 0
			}
			continue
		}
		m := ordMsg{dir: dir, d: dur(), gap: gap(), to: rng.Intn(c.np)}
		if slow >= 0 {
			m.to, slow = slow, -1
		}
		note := rng.Intn(100) < pn
		if dir == "c2s" {
			if note {
				m.kind, m.meth = 'n', "prog"
			} else {
				m.meth = []string{"tool", "tool", "ping", "ltools", "lres", "lprompts", "level"}[rng.Intn(7)]
			}
		} else {
			if note {
				m.kind = 'n'
				m.meth = []string{"log", "prog"}[rng.Intn(2)]
			} else {
				m.meth = []string{"lroots", "sample", "elicit", "ping", "samplet"}[rng.Intn(5)]
			}
		}
		if m.kind == 0 {
			m.kind = []byte{'c', 'c', 'g', 'g', 'r', 'c', 'g', 'x'}[rng.Intn(8)]
			if m.kind == 'x' {
				m.cx = []int{0, 1 + rng.Intn(5), 1 + rng.Intn(30), 1 + rng.Intn(2000)}[rng.Intn(4)]
			}
		}
		if m.kind == 'n' && rng.Intn(3) == 0 {
			m.cb = true
			if m.d == 0 {
				m.d = 1 + rng.Intn(1000)
			}
		}
		c.msgs = append(c.msgs, m)
	}
	if rng.Intn(2) == 0 {
		c.ck = 1 + rng.Intn(25) // the receiving connection's Cancel goroutine is scheduled late
	}
	return c
}
