// E12 correspondence harness (C16): typed tools through a real in-memory client/server pair.
//
// A case = a history of servers (each on one of the case's shared SchemaCaches, or on none) and
// typed tools registered on them (Go In/Out types from a fixed family, derived or explicit schemas from
// the family grammar, explicit schemas handed over raw or as — possibly re-used — *jsonschema.Schema
// pointers), interleaved with tools/call requests with generated arguments and handler behaviours
// addressed to any tool of the current server. Every record is produced by interpreting an op line (ttRun), so that generated
// cases, corpus files and replays go through the same code.
package mcp

import (
	"runtime"
	"bufio"
	"bytes"
	"context"
	"encoding/hex"
	"encoding/json"
	"errors"
	"fmt"
	"math/big"
	"math/rand"
	"net"
	"os"
	"path/filepath"
	"reflect"
	"sort"
	"strconv"
	"strings"
	"sync"
	"testing"
	"time"
	"unicode"

	"github.com/google/jsonschema-go/jsonschema"
	"github.com/modelcontextprotocol/go-sdk/jsonrpc"
)

// ---------------------------------------------------------------- the Go type family

type ttDeep struct {
	X     int64  `json:"x"`
	Label string `json:"label,omitempty"`
}
type ttInner struct {
	Kind  string  `json:"kind"`
	Level int64   `json:"level,omitempty"`
	Deep  *ttDeep `json:"deep,omitempty"`
}

// scalars: required and optional members, omitempty, a pointer
type ttInA struct {
	Name  string  `json:"name"`
	Count int64   `json:"count"`
	Ratio float64 `json:"ratio,omitempty"`
	Flag  bool    `json:"flag,omitempty"`
	Note  *string `json:"note,omitempty"`
}

// nesting (depth 3), slices, maps, any, a required nullable pointer
type ttInB struct {
	ID    int64            `json:"id"`
	Inner ttInner          `json:"inner"`
	Opt   *ttInner         `json:"opt,omitempty"`
	Tags  []string         `json:"tags,omitempty"`
	Nums  []int64          `json:"nums"`
	Attrs map[string]int64 `json:"attrs,omitempty"`
	Any   any              `json:"any,omitempty"`
	P     *int64           `json:"p"`
}

// enums via schema override; optional members without omitempty
type ttInE struct {
	Color string `json:"color"`
	Size  int64  `json:"size,omitempty"`
	Mode  string `json:"mode,omitempty"`
	Limit int64  `json:"limit,omitempty"`
}

// camelCase / Capitalised / untagged member names, nested: a member of the arguments whose name differs
// from these only in case is a DIFFERENT member (JSON names are case-sensitive; the schema validates it
// as an additional property, the typed decode must drop it)
type ttSubC struct {
	HostName string `json:"hostName"`
	PortNo   int64  `json:"PortNo,omitempty"`
}
type ttInC struct {
	Query    string  `json:"query"`
	MaxItems int64   `json:"maxItems"`
	PageSize int64   `json:"PageSize,omitempty"`
	UserID   string  `json:"userID,omitempty"`
	DryRun   bool    `json:"dryRun,omitempty"`
	SubOpts  ttSubC  `json:"subOpts"`
	OptSub   *ttSubC `json:"OptSub,omitempty"`
	Verbose  bool    // no tag: the JSON name is the Go name
}
type ttOutC struct {
	TotalCount int64  `json:"totalCount"`
	NextPage   string `json:"NextPage,omitempty"`
}

// unsigned members: a uint64 holds [0, 2^64), twice as far up as an int64; the server's decode of the
// arguments / of an object output must keep that half exact too
type ttInU struct {
	N     uint64            `json:"n"`
	Opt   uint64            `json:"opt,omitempty"`
	P     *uint64           `json:"p,omitempty"`
	List  []uint64          `json:"list,omitempty"`
	Attrs map[string]uint64 `json:"attrs,omitempty"`
	S     int64             `json:"s,omitempty"`
	Any   any               `json:"any,omitempty"`
}
type ttOutU struct {
	Total uint64   `json:"total"`
	Parts []uint64 `json:"parts,omitempty"`
	Delta int64    `json:"delta,omitempty"`
	Any   any      `json:"any,omitempty"`
}

type ttOutA struct {
	Sum   int64    `json:"sum"`
	Msg   string   `json:"msg,omitempty"`
	Items []string `json:"items"`
	Score float64  `json:"score,omitempty"`
}
type ttOutB struct {
	Inner ttInner          `json:"inner"`
	Meta  map[string]int64 `json:"meta,omitempty"`
	Deep  *ttDeep          `json:"deep,omitempty"`
	Big   int64            `json:"big,omitempty"`
}

// an output type with its own MarshalJSON: the JSON is not what the Go type suggests (an array, a string,
// null), or marshalling fails
type ttOutMJ struct {
	Mode string `json:"mode"`
	V    int64  `json:"v"`
}

func (o ttOutMJ) MarshalJSON() ([]byte, error) {
	switch o.Mode {
	case "arr":
		return []byte(fmt.Sprintf("[%d]", o.V)), nil
	case "str":
		return []byte(fmt.Sprintf("%q", strconv.FormatInt(o.V, 10))), nil
	case "null":
		return []byte("null"), nil
	case "err":
		return nil, errors.New("ttOutMJ: cannot be marshalled")
	}
	type plain ttOutMJ
	return json.Marshal(plain(o))
}

// what the handler has been told to do for the current call, and what it saw
type ttCallSpec struct {
	out     string // "nilptr" | "nilany" | raw JSON to unmarshal into Out
	anyx    bool   // the handler puts int64/uint64 (not float64) into the `any` positions of its output
	content string // n N 0 1 2
	herr    int
	// members of the *CallToolResult the handler sets ITSELF, next to its typed output (hise=1, hsc=x<json>)
	hise bool
	hsc  string
}
type ttObs struct {
	inv  int
	who  string // name of the tool whose handler ran
	seen []byte
	hout []byte // json.Marshal(out) as the handler returned it (nil pointer: zero value of the element type)
	bad  string
}
type ttCtl struct {
	cur *ttCallSpec
	obs *ttObs
	mu  sync.Mutex
	// armed: the next handler that runs is held back at its entry — it holds its typed input, has not looked
	// at it yet — until released (overlapping calls held inside the handler: hold=h)
	hpark *ttPark
}

func (c *ttCtl) takePark() *ttPark {
	c.mu.Lock()
	defer c.mu.Unlock()
	p := c.hpark
	c.hpark = nil
	return p
}

type ttReg struct {
	name      string
	inTy, out reflect.Type
	add       func(s *Server, name string, isch, osch any, ctl *ttCtl) error
}

func ttHandle[In, Out any](ctl *ttCtl, name string, in In) (res *CallToolResult, out Out, err error) {
	o, c := ctl.obs, ctl.cur
	o.inv++
	o.who = name
	if p := ctl.takePark(); p != nil {
		close(p.parked)
		<-p.release
	}
	// what the handler sees when it looks at its input (after a hold: after the calls that overlapped it)
	o.seen, _ = json.Marshal(in)
	switch c.herr {
	case 1:
		return nil, out, errors.New("boom")
	case 2:
		return nil, out, &jsonrpc.Error{Code: -32050, Message: "rpc boom"}
	}
	switch c.content {
	case "N":
		res = &CallToolResult{}
	case "0":
		res = &CallToolResult{Content: []Content{}}
	case "1":
		res = &CallToolResult{Content: []Content{&TextContent{Text: "c0"}}}
	case "2":
		res = &CallToolResult{Content: []Content{&TextContent{Text: "c0"}, &TextContent{Text: "c1"}}}
	}
	if c.hise || c.hsc != "" {
		if res == nil {
			res = &CallToolResult{}
		}
		res.IsError = c.hise
		if c.hsc != "" {
			res.StructuredContent = json.RawMessage(c.hsc)
		}
	}
	rt := reflect.TypeFor[Out]()
	switch c.out {
	case "nilany":
		o.hout = []byte("null")
	case "nilptr":
		if rt.Kind() == reflect.Pointer {
			o.hout, _ = json.Marshal(reflect.Zero(rt.Elem()).Interface())
		} else {
			o.bad = "nilptr on non-pointer Out"
		}
	default:
		if e := ttDecodeOut([]byte(c.out), &out, c.anyx); e != nil {
			o.bad = "handler cannot build its output: " + e.Error()
		}
		if v := reflect.ValueOf(&out).Elem(); rt.Kind() == reflect.Pointer && v.IsNil() {
			o.hout, _ = json.Marshal(reflect.Zero(rt.Elem()).Interface()) // JSON null decoded into a pointer: typed nil
		} else {
			o.hout, _ = json.Marshal(out)
		}
	}
	return res, out, nil
}

// ttDecodeOut builds the handler's output value (p points to a value of the Out type) from JSON text.
// exact=false: encoding/json's own choice, float64 in every `any` position. exact=true: a handler that
// computes with integers — plain integer literals become int64 (uint64 above MaxInt64) in the `any`
// positions, other numbers float64; typed members are exact either way.
func ttDecodeOut(text []byte, p any, exact bool) error {
	if !exact {
		return json.Unmarshal(text, p)
	}
	dec := json.NewDecoder(bytes.NewReader(text))
	dec.UseNumber()
	if err := dec.Decode(p); err != nil {
		return err
	}
	ttExactAny(reflect.ValueOf(p).Elem())
	return nil
}

func ttExactAny(v reflect.Value) {
	switch v.Kind() {
	case reflect.Interface:
		if !v.IsNil() {
			if nv := ttExactIface(v.Interface()); nv != nil {
				v.Set(reflect.ValueOf(nv))
			}
		}
	case reflect.Pointer:
		if !v.IsNil() {
			ttExactAny(v.Elem())
		}
	case reflect.Struct:
		for i := 0; i < v.NumField(); i++ {
			ttExactAny(v.Field(i))
		}
	case reflect.Slice:
		for i := 0; i < v.Len(); i++ {
			ttExactAny(v.Index(i))
		}
	case reflect.Map:
		for _, k := range v.MapKeys() {
			nv := reflect.New(v.Type().Elem()).Elem()
			nv.Set(v.MapIndex(k))
			ttExactAny(nv)
			v.SetMapIndex(k, nv)
		}
	}
}

func ttExactIface(x any) any {
	switch y := x.(type) {
	case json.Number:
		return ttExact(ttNum(y))
	case []any:
		for i := range y {
			y[i] = ttExactIface(y[i])
		}
	case map[string]any:
		for k := range y {
			y[k] = ttExactIface(y[k])
		}
	}
	return x
}

func ttMk[In, Out any](name string) ttReg {
	return ttReg{name: name, inTy: reflect.TypeFor[In](), out: reflect.TypeFor[Out](),
		add: func(s *Server, name string, isch, osch any, ctl *ttCtl) (err error) {
			defer func() {
				if r := recover(); r != nil {
					err = fmt.Errorf("panic: %v", r)
				}
			}()
			h := func(ctx context.Context, req *CallToolRequest, in In) (*CallToolResult, Out, error) {
				return ttHandle[In, Out](ctl, name, in)
			}
			// the registration under test: the public generic API (it panics when the schemas do not resolve)
			AddTool(s, &Tool{Name: name, InputSchema: isch, OutputSchema: osch}, h)
			return nil
		}}
}

var ttRegs = []ttReg{
	ttMk[ttInA, ttOutA]("A/A"), ttMk[ttInB, ttOutA]("B/A"), ttMk[ttInE, ttOutA]("E/A"),
	ttMk[map[string]any, ttOutA]("M/A"), ttMk[any, ttOutA]("Y/A"), ttMk[map[string]int64, ttOutA]("MI/A"),
	ttMk[*ttInA, ttOutA]("PA/A"),
	ttMk[ttInA, *ttOutA]("A/PA"), ttMk[ttInA, ttOutB]("A/B"), ttMk[ttInA, *ttOutB]("A/PB"),
	ttMk[ttInA, []int64]("A/SI"), ttMk[ttInA, []ttDeep]("A/SD"), ttMk[ttInA, string]("A/S"),
	ttMk[ttInA, int64]("A/I"), ttMk[ttInA, float64]("A/F"), ttMk[ttInA, bool]("A/BO"),
	ttMk[ttInA, map[string]any]("A/M"), ttMk[ttInA, map[string]int64]("A/MI"), ttMk[ttInA, any]("A/Y"),
	ttMk[ttInA, *int64]("A/PI"), ttMk[ttInA, ttOutMJ]("A/MJ"),
	ttMk[ttInB, ttOutB]("B/B"), ttMk[map[string]any, any]("M/Y"), ttMk[ttInE, map[string]any]("E/M"),
	ttMk[any, any]("Y/Y"), ttMk[ttInB, []int64]("B/SI"),
	ttMk[ttInC, ttOutA]("C/A"), ttMk[*ttInC, ttOutA]("PC/A"), ttMk[ttInC, ttOutC]("C/C"), ttMk[ttInC, *ttOutC]("C/PC"),
	ttMk[ttInC, any]("C/Y"), ttMk[ttInA, ttOutC]("A/C"),
	ttMk[ttInU, ttOutA]("U/A"), ttMk[ttInU, ttOutU]("U/U"), ttMk[ttInA, ttOutU]("A/U"), ttMk[ttInA, *ttOutU]("A/PU"),
	ttMk[*ttInU, ttOutU]("PU/U"), ttMk[ttInU, any]("U/Y"), ttMk[ttInA, uint64]("A/UI"), ttMk[ttInA, []uint64]("A/SU"),
	ttMk[ttInA, map[string]uint64]("A/MU"), ttMk[map[string]uint64, ttOutU]("MU/U"), ttMk[ttInB, ttOutU]("B/U"),
}

func ttRegByName(n string) *ttReg {
	for i := range ttRegs {
		if ttRegs[i].name == n {
			return &ttRegs[i]
		}
	}
	return nil
}

// ---------------------------------------------------------------- Go type description (reflection)

type ttTy struct {
	K      string // int64 uint64 float64 string bool any ptr slice map struct
	Elem   *ttTy
	Fields []ttField
}
type ttField struct {
	N  string
	OE bool
	T  *ttTy
}

func ttDescribe(t reflect.Type) *ttTy {
	switch t.Kind() {
	case reflect.Int64:
		return &ttTy{K: "int64"}
	case reflect.Uint64:
		return &ttTy{K: "uint64"}
	case reflect.Float64:
		return &ttTy{K: "float64"}
	case reflect.String:
		return &ttTy{K: "string"}
	case reflect.Bool:
		return &ttTy{K: "bool"}
	case reflect.Interface:
		return &ttTy{K: "any"}
	case reflect.Pointer:
		return &ttTy{K: "ptr", Elem: ttDescribe(t.Elem())}
	case reflect.Slice:
		return &ttTy{K: "slice", Elem: ttDescribe(t.Elem())}
	case reflect.Map:
		return &ttTy{K: "map", Elem: ttDescribe(t.Elem())}
	case reflect.Struct:
		ty := &ttTy{K: "struct"}
		for i := 0; i < t.NumField(); i++ {
			f := t.Field(i)
			tag := strings.Split(f.Tag.Get("json"), ",")
			oe := false
			for _, o := range tag[1:] {
				if o == "omitempty" {
					oe = true
				}
			}
			name := tag[0]
			if name == "" {
				name = f.Name
			}
			ty.Fields = append(ty.Fields, ttField{N: name, OE: oe, T: ttDescribe(f.Type)})
		}
		return ty
	}
	panic("ttDescribe: type outside the family: " + t.String())
}

func (t *ttTy) json() any {
	switch t.K {
	case "ptr", "slice", "map":
		return map[string]any{t.K: t.Elem.json()}
	case "struct":
		fs := []any{}
		for _, f := range t.Fields {
			fs = append(fs, map[string]any{"n": f.N, "oe": f.OE, "t": f.T.json()})
		}
		return map[string]any{"struct": fs}
	}
	return t.K
}

// ---------------------------------------------------------------- JSON values with exact numbers

type ttNum string // a JSON number literal

// ttParse decodes JSON text keeping number literals.
func ttParse(b []byte) (any, error) {
	dec := json.NewDecoder(bytes.NewReader(b))
	dec.UseNumber()
	var v any
	if err := dec.Decode(&v); err != nil {
		return nil, err
	}
	if dec.More() {
		return nil, errors.New("trailing data")
	}
	return ttNumify(v), nil
}

func ttNumify(v any) any {
	switch x := v.(type) {
	case json.Number:
		return ttNum(x)
	case []any:
		for i := range x {
			x[i] = ttNumify(x[i])
		}
	case map[string]any:
		for k := range x {
			x[k] = ttNumify(x[k])
		}
	}
	return v
}

// ttEnc serialises a value built from nil/bool/ttNum/string/[]any/map[string]any (sorted keys).
func ttEnc(v any) string {
	var b strings.Builder
	ttEncTo(&b, v)
	return b.String()
}

func ttEncTo(b *strings.Builder, v any) {
	switch x := v.(type) {
	case nil:
		b.WriteString("null")
	case bool:
		if x {
			b.WriteString("true")
		} else {
			b.WriteString("false")
		}
	case ttNum:
		b.WriteString(string(x))
	case int:
		b.WriteString(strconv.Itoa(x))
	case string:
		q, _ := json.Marshal(x)
		b.Write(q)
	case []any:
		b.WriteByte('[')
		for i, e := range x {
			if i > 0 {
				b.WriteByte(',')
			}
			ttEncTo(b, e)
		}
		b.WriteByte(']')
	case []string:
		b.WriteByte('[')
		for i, e := range x {
			if i > 0 {
				b.WriteByte(',')
			}
			ttEncTo(b, e)
		}
		b.WriteByte(']')
	case map[string]any:
		ks := make([]string, 0, len(x))
		for k := range x {
			ks = append(ks, k)
		}
		sort.Strings(ks)
		b.WriteByte('{')
		for i, k := range ks {
			if i > 0 {
				b.WriteByte(',')
			}
			ttEncTo(b, k)
			b.WriteByte(':')
			ttEncTo(b, x[k])
		}
		b.WriteByte('}')
	default:
		panic(fmt.Sprintf("ttEnc: %T", v))
	}
}

// ttCanonNum renders a number literal by value: integer digits, or <mantissa>e-<k>.
func ttCanonNum(lit string) string {
	r, ok := new(big.Rat).SetString(lit)
	if !ok {
		return "?" + lit
	}
	if r.IsInt() {
		return r.Num().String()
	}
	// denominator is 2^a 5^b: scale to a power of ten
	k := 0
	m := new(big.Rat).Set(r)
	ten := big.NewRat(10, 1)
	for !m.IsInt() && k < 2000 {
		m.Mul(m, ten)
		k++
	}
	return m.Num().String() + "e-" + strconv.Itoa(k)
}

// ttCanon renders the blank-free canonical value form shared with the Lean driver.
func ttCanon(v any) string {
	var b strings.Builder
	ttCanonTo(&b, v)
	return b.String()
}

func ttCanonTo(b *strings.Builder, v any) {
	switch x := v.(type) {
	case nil:
		b.WriteByte('z')
	case bool:
		if x {
			b.WriteByte('t')
		} else {
			b.WriteByte('f')
		}
	case ttNum:
		b.WriteByte('n')
		b.WriteString(ttCanonNum(string(x)))
	case string:
		b.WriteByte('s')
		b.WriteString(hxs(x))
	case []any:
		b.WriteByte('[')
		for i, e := range x {
			if i > 0 {
				b.WriteByte(',')
			}
			ttCanonTo(b, e)
		}
		b.WriteByte(']')
	case map[string]any:
		ks := make([]string, 0, len(x))
		for k := range x {
			ks = append(ks, k)
		}
		sort.Strings(ks)
		b.WriteByte('{')
		for i, k := range ks {
			if i > 0 {
				b.WriteByte(',')
			}
			b.WriteByte('s')
			b.WriteString(hxs(k))
			b.WriteByte(':')
			ttCanonTo(b, x[k])
		}
		b.WriteByte('}')
	default:
		panic(fmt.Sprintf("ttCanon: %T", v))
	}
}

func ttCanonBytes(raw []byte) string {
	v, err := ttParse(raw)
	if err != nil {
		return "!" + hx(raw)
	}
	return ttCanon(v)
}

// ttExact converts to the value jsonschema-go validates exactly: plain integer literals become int64 /
// uint64, other numbers float64.
func ttExact(v any) any {
	switch x := v.(type) {
	case ttNum:
		s := string(x)
		if !strings.ContainsAny(s, ".eE") {
			if i, err := strconv.ParseInt(s, 10, 64); err == nil {
				return i
			}
			if u, err := strconv.ParseUint(s, 10, 64); err == nil {
				return u
			}
		}
		f, _ := strconv.ParseFloat(s, 64)
		return f
	case []any:
		o := make([]any, len(x))
		for i := range x {
			o[i] = ttExact(x[i])
		}
		return o
	case map[string]any:
		o := make(map[string]any, len(x))
		for k, e := range x {
			o[k] = ttExact(e)
		}
		return o
	}
	return v
}

// ttLib is jsonschema-go's own verdict (defaults, then validation) on an exactly decoded instance.
func ttLib(rs *jsonschema.Resolved, inst any) (verdict string) {
	defer func() {
		if r := recover(); r != nil {
			verdict = "p"
		}
	}()
	if rs == nil {
		return "-"
	}
	if _, ok := inst.(map[string]any); ok {
		if err := rs.ApplyDefaults(&inst); err != nil {
			return "i"
		}
	}
	if err := rs.Validate(&inst); err != nil {
		return "i"
	}
	return "v"
}

// ---------------------------------------------------------------- schema generator (family grammar)

type ttGen struct {
	r        *rand.Rand
	lax      bool // drop some type constraints (schema laxer than the Go type)
	bigbound bool // bounds / enum members beyond 2^53 (jsonschema-go holds them as float64)
	feat     map[string]bool
	variants bool // argument objects may carry extra members that are case variants of declared properties
	topMuts  int  // number of whole-value replacements at the head of the last mutation list
	depthMut int
}

var ttExtremes = []string{
	"9007199254740991", "9007199254740992", "9007199254740993", "9007199254740994", "9007199254740995",
	"-9007199254740991", "-9007199254740992", "-9007199254740993", "-9007199254740994",
	"9223372036854775806", "9223372036854775807", "9223372036854775808", "9223372036854775809",
	"-9223372036854775807", "-9223372036854775808", "-9223372036854775809", "-9223372036854775810",
	"18446744073709551615", "18446744073709551616", "18446744073709551617", "123456789012345678", "-4611686018427387905",
	// the unsigned half of the exact range, (MaxInt64, MaxUint64]: boundaries and values float64 does not hold
	"9223372036854775810", "9223372036854777857", "12345678901234567890", "13835058055282163713", "18446744073709549569",
	"18446744073709551614",
}

func (g *ttGen) coin(p float64) bool      { return g.r.Float64() < p }
func (g *ttGen) pick(xs ...string) string { return xs[g.r.Intn(len(xs))] }

var ttWords = []string{"", "a", "red", "green", "blue", "x y", "héllo", "日本", "q\"uote", "back\\slash", "<&>", "tab\there", "longer-string-value", "0", "null"}

func (g *ttGen) word() string { return ttWords[g.r.Intn(len(ttWords))] }

func (g *ttGen) smallInt() int { return g.r.Intn(41) - 20 }

// decorate a scalar schema
func (g *ttGen) intSchema() map[string]any {
	s := map[string]any{"type": "integer"}
	if g.lax && g.coin(0.5) {
		delete(s, "type")
	}
	switch g.r.Intn(7) {
	case 0:
		lo := g.smallInt()
		s["minimum"] = ttNum(strconv.Itoa(lo))
		if g.coin(0.6) {
			s["maximum"] = ttNum(strconv.Itoa(lo + g.r.Intn(30)))
		}
		g.feat["bounds"] = true
	case 1:
		s["maximum"] = ttNum(strconv.Itoa(g.smallInt()))
		g.feat["bounds"] = true
	case 2:
		s["enum"] = []any{ttNum(strconv.Itoa(g.smallInt())), ttNum(strconv.Itoa(g.smallInt())), ttNum("7")}
		g.feat["enum"] = true
	case 3:
		if g.coin(0.3) {
			s["const"] = ttNum(strconv.Itoa(g.smallInt()))
			g.feat["const"] = true
		}
	}
	if g.bigbound && g.coin(0.5) {
		switch g.r.Intn(3) {
		case 0:
			s["maximum"] = ttNum(g.pick("9007199254740993", "9223372036854775807", "18446744073709551615"))
		case 1:
			s["minimum"] = ttNum(g.pick("-9007199254740993", "9007199254740993", "-9223372036854775807"))
		case 2:
			s["enum"] = []any{ttNum("9007199254740993"), ttNum("-9223372036854775807"), ttNum("1")}
		}
		delete(s, "const")
		g.feat["bigbound"] = true
	}
	return s
}

// uintSchema: a schema for an unsigned integer member. What jsonschema.ForType infers (minimum 0, no
// maximum) most of the time; else with a maximum (small, or at the top of the uint64 / int64 range), a
// large minimum, or no bounds at all (the Go type is then the only limit).
func (g *ttGen) uintSchema() map[string]any {
	s := map[string]any{"type": "integer"}
	if g.lax && g.coin(0.5) {
		delete(s, "type")
	}
	switch g.r.Intn(10) {
	case 0, 1, 2, 3:
		s["minimum"] = ttNum("0")
	case 4:
		lo := g.r.Intn(20)
		s["minimum"] = ttNum(strconv.Itoa(lo))
		if g.coin(0.6) {
			s["maximum"] = ttNum(strconv.Itoa(lo + g.r.Intn(30)))
		}
		g.feat["bounds"] = true
	case 5, 6:
		s["minimum"] = ttNum("0")
		s["maximum"] = ttNum(g.pick("18446744073709551615", "18446744073709551615", "9223372036854775808", "18446744073709551614", "9223372036854775807"))
		g.feat["bounds"], g.feat["u64-bound"] = true, true
	case 7:
		s["minimum"] = ttNum(g.pick("9223372036854775808", "9007199254740992"))
		if g.coin(0.5) {
			s["maximum"] = ttNum("18446744073709551615")
		}
		g.feat["bounds"], g.feat["u64-bound"] = true, true
	case 8:
		s["enum"] = []any{ttNum(strconv.Itoa(g.r.Intn(20))), ttNum(strconv.Itoa(g.r.Intn(20))), ttNum("7")}
		g.feat["enum"] = true
	}
	return s
}

func (g *ttGen) numSchema() map[string]any {
	s := map[string]any{"type": "number"}
	switch g.r.Intn(5) {
	case 0:
		s["minimum"] = ttNum(g.pick("0", "-1.5", "0.25", "10"))
		g.feat["bounds"] = true
	case 1:
		s["maximum"] = ttNum(g.pick("100", "2.5", "0.75", "1e3"))
		g.feat["bounds"] = true
	case 2:
		s["minimum"] = ttNum("-2.5")
		s["maximum"] = ttNum("2.5")
		g.feat["bounds"] = true
	}
	return s
}

func (g *ttGen) strSchema() map[string]any {
	s := map[string]any{"type": "string"}
	if g.lax && g.coin(0.5) {
		delete(s, "type")
	}
	switch g.r.Intn(6) {
	case 0:
		s["minLength"] = ttNum(strconv.Itoa(g.r.Intn(4)))
		g.feat["length"] = true
	case 1:
		s["maxLength"] = ttNum(strconv.Itoa(1 + g.r.Intn(8)))
		g.feat["length"] = true
	case 2:
		lo := g.r.Intn(3)
		s["minLength"] = ttNum(strconv.Itoa(lo))
		s["maxLength"] = ttNum(strconv.Itoa(lo + g.r.Intn(6)))
		g.feat["length"] = true
	case 3:
		s["enum"] = []any{"red", "green", "blue", g.word()}
		g.feat["enum"] = true
	case 4:
		if g.coin(0.3) {
			s["const"] = g.word()
			g.feat["const"] = true
		}
	}
	return s
}

func ttWiden(s map[string]any) map[string]any {
	if t, ok := s["type"].(string); ok {
		s["type"] = []any{"null", t}
	}
	return s
}

// schemaFor builds an explicit schema compatible with the Go type (so that schema-valid values decode),
// decorated with constraints and defaults. depth counts object nesting.
func (g *ttGen) schemaFor(t *ttTy, depth int) any {
	switch t.K {
	case "int64":
		return g.intSchema()
	case "uint64":
		return g.uintSchema()
	case "float64":
		return g.numSchema()
	case "string":
		return g.strSchema()
	case "bool":
		return map[string]any{"type": "boolean"}
	case "any":
		if depth >= 3 || g.coin(0.4) {
			if g.coin(0.5) {
				return true
			}
			return map[string]any{}
		}
		return g.freeSchema(depth+1, false)
	case "ptr":
		s := g.schemaFor(t.Elem, depth)
		if m, ok := s.(map[string]any); ok && g.coin(0.75) {
			g.feat["nullable"] = true
			return ttWiden(m)
		}
		return s
	case "slice":
		s := map[string]any{"type": "array", "items": g.schemaFor(t.Elem, depth)}
		if g.coin(0.6) {
			ttWiden(s)
		}
		g.feat["items"] = true
		return s
	case "map":
		s := map[string]any{"type": "object", "additionalProperties": g.schemaFor(t.Elem, depth+1)}
		g.feat["ap-schema"] = true
		if g.coin(0.4) && depth < 3 {
			props := map[string]any{}
			for _, k := range []string{"k1", "k2"} {
				if g.coin(0.7) {
					ps := g.schemaFor(t.Elem, depth+1)
					if m, ok := ps.(map[string]any); ok && g.coin(0.6) {
						g.addDefault(m)
					}
					props[k] = ps
				}
			}
			s["properties"] = props
			if g.coin(0.3) {
				s["required"] = []any{"k1"}
			}
		}
		return s
	case "struct":
		props := map[string]any{}
		req := []any{}
		for _, f := range t.Fields {
			ps := g.schemaFor(f.T, depth+1)
			isReq := !f.OE
			if g.coin(0.2) {
				isReq = !isReq
			}
			if !isReq {
				if m, ok := ps.(map[string]any); ok && g.coin(0.45) {
					g.addDefault(m)
				}
			}
			if isReq {
				req = append(req, f.N)
			}
			props[f.N] = ps
		}
		if g.coin(0.15) {
			props["extra"] = g.strSchema() // a declared member the Go type does not have
		}
		s := map[string]any{"type": "object", "properties": props}
		if len(req) > 0 {
			s["required"] = req
		}
		switch g.r.Intn(5) {
		case 0, 1:
			s["additionalProperties"] = false
			g.feat["ap-false"] = true
		case 2:
			s["additionalProperties"] = true
		case 3:
			s["additionalProperties"] = g.strSchema()
			g.feat["ap-schema"] = true
		}
		return s
	}
	panic("schemaFor: " + t.K)
}

// addDefault gives schema m a default that is valid for it.
func (g *ttGen) addDefault(m map[string]any) {
	if _, has := m["default"]; has {
		return
	}
	v, ok := g.valid(m, 2)
	if !ok {
		return
	}
	if ttHasBigNum(v) {
		return // defaults are decoded by the library as float64; keep them exactly representable
	}
	m["default"] = v
	g.feat["default"] = true
}

// freeSchema: a schema from the grammar not tied to a Go type (for map[string]any / any positions).
func (g *ttGen) freeSchema(depth int, rootObject bool) any {
	k := g.r.Intn(9)
	if rootObject {
		k = 8
	}
	if depth >= 3 && k >= 6 {
		k = g.r.Intn(5)
	}
	switch k {
	case 0:
		if g.coin(0.3) {
			return g.uintSchema()
		}
		return g.intSchema()
	case 1:
		return g.numSchema()
	case 2, 3:
		return g.strSchema()
	case 4:
		return map[string]any{"type": "boolean"}
	case 5:
		return map[string]any{"type": []any{"null", g.pick("integer", "string", "boolean")}}
	case 6:
		g.feat["items"] = true
		return map[string]any{"type": "array", "items": g.freeSchema(depth+1, false)}
	case 7:
		g.feat["ap-schema"] = true
		return map[string]any{"type": "object", "additionalProperties": g.freeSchema(depth+1, false)}
	default:
		props := map[string]any{}
		req := []any{}
		n := 1 + g.r.Intn(4)
		for i := 0; i < n; i++ {
			name := g.pick("a", "b", "c", "d", "e", "näme", "x-y")
			ps := g.freeSchema(depth+1, false)
			if g.coin(0.4) {
				req = append(req, name)
			} else if m, ok := ps.(map[string]any); ok && g.coin(0.5) {
				g.addDefault(m)
			}
			props[name] = ps
		}
		// required may list a name more than once only through dedup
		seen := map[string]bool{}
		var req2 []any
		for _, r := range req {
			if !seen[r.(string)] {
				seen[r.(string)] = true
				req2 = append(req2, r)
			}
		}
		s := map[string]any{"type": "object", "properties": props}
		if len(req2) > 0 {
			s["required"] = req2
		}
		switch g.r.Intn(5) {
		case 0, 1:
			s["additionalProperties"] = false
			g.feat["ap-false"] = true
		case 2:
			s["additionalProperties"] = g.freeSchema(depth+1, false)
			g.feat["ap-schema"] = true
		}
		return s
	}
}

func ttHasBigNum(v any) bool {
	switch x := v.(type) {
	case ttNum:
		r, ok := new(big.Rat).SetString(string(x))
		if !ok || !r.IsInt() {
			return false
		}
		lim := new(big.Int).Lsh(big.NewInt(1), 53)
		return new(big.Int).Abs(r.Num()).Cmp(lim) > 0
	case []any:
		for _, e := range x {
			if ttHasBigNum(e) {
				return true
			}
		}
	case map[string]any:
		for _, e := range x {
			if ttHasBigNum(e) {
				return true
			}
		}
	}
	return false
}

// ---------------------------------------------------------------- value generator

func ttTypes(s map[string]any) []string {
	switch t := s["type"].(type) {
	case string:
		return []string{t}
	case []any:
		var o []string
		for _, e := range t {
			o = append(o, e.(string))
		}
		return o
	}
	return nil
}

func ttRat(v any) *big.Rat {
	if n, ok := v.(ttNum); ok {
		if r, ok := new(big.Rat).SetString(string(n)); ok {
			return r
		}
	}
	return nil
}

func (g *ttGen) anyValue(depth int) any {
	switch g.r.Intn(7) {
	case 0:
		return nil
	case 1:
		return g.coin(0.5)
	case 2:
		return ttNum(strconv.Itoa(g.smallInt()))
	case 3:
		return g.word()
	case 4:
		return ttNum(g.pick("1.5", "0.25", "-2.75", "1e2", "3.0"))
	case 5:
		if depth > 1 {
			return []any{}
		}
		return []any{g.anyValue(depth + 1)}
	default:
		if depth > 1 {
			return map[string]any{}
		}
		return map[string]any{"u": g.anyValue(depth + 1)}
	}
}

// caseVariant returns a spelling of name that differs from it only in the case of letters (upper, lower,
// title, first letter flipped, random mix); ok=false when the name has no letters.
func (g *ttGen) caseVariant(name string) (string, bool) {
	rs := []rune(name)
	flip := func(r rune) rune {
		if unicode.IsUpper(r) {
			return unicode.ToLower(r)
		}
		return unicode.ToUpper(r)
	}
	var cands []string
	add := func(v string) {
		if v == name {
			return
		}
		for _, c := range cands {
			if c == v {
				return
			}
		}
		cands = append(cands, v)
	}
	add(strings.ToUpper(name))
	add(strings.ToLower(name))
	if len(rs) > 0 {
		add(string(unicode.ToUpper(rs[0])) + strings.ToLower(string(rs[1:]))) // Title
		add(string(flip(rs[0])) + string(rs[1:]))                             // first letter flipped
		last := append([]rune(nil), rs...)
		last[len(last)-1] = flip(last[len(last)-1])
		add(string(last)) // last letter flipped
	}
	for try := 0; try < 2; try++ {
		mix := append([]rune(nil), rs...)
		for i := range mix {
			if g.coin(0.4) {
				mix[i] = flip(mix[i])
			}
		}
		add(string(mix))
	}
	if len(cands) == 0 {
		return "", false
	}
	return cands[g.r.Intn(len(cands))], true
}

// variantMembers adds to the object out (an instance of a schema with these properties) one or two extra
// members whose names are case variants of declared properties. They are ADDITIONAL properties: what
// they hold is constrained by additionalProperties only (apSchema, when that is a schema), so the
// value is drawn valid for that, or — when anything goes — valid for the property of the similar
// name, invalid for it (one mutation), or arbitrary.
func (g *ttGen) variantMembers(out map[string]any, props map[string]any, names []string, apSchema any, depth int) bool {
	added := false
	for n := 1 + g.r.Intn(3)/2; n > 0; n-- {
		k := names[g.r.Intn(len(names))]
		vn, ok := g.caseVariant(k)
		if !ok {
			continue
		}
		if _, declared := props[vn]; declared {
			continue
		}
		if _, there := out[vn]; there {
			continue
		}
		var v any
		if m, isMap := apSchema.(map[string]any); isMap && len(m) > 0 {
			if v, ok = g.valid(apSchema, depth+1); !ok {
				continue
			}
		} else {
			switch x := g.r.Intn(100); {
			case x < 45:
				if v, ok = g.valid(props[k], depth+1); !ok {
					continue
				}
			case x < 85:
				if v, ok = g.valid(props[k], depth+1); !ok {
					continue
				}
				root := v
				var muts []ttMut
				sd, st := g.depthMut, g.topMuts
				g.depthMut = 0
				g.mutations(props[k], root, func(nv any) { root = nv }, &muts)
				g.depthMut, g.topMuts = sd, st
				if len(muts) > 0 {
					muts[g.r.Intn(len(muts))].apply()
					v = root
				}
			default:
				v = g.anyValue(depth + 1)
			}
		}
		out[vn] = v
		added = true
	}
	if added {
		g.feat["variant"] = true
	}
	return added
}

// valid builds an instance valid for schema s by construction (ok=false when it gives up).
func (g *ttGen) valid(sv any, depth int) (any, bool) {
	s, isMap := sv.(map[string]any)
	if !isMap || len(s) == 0 {
		return g.anyValue(depth), true
	}
	if c, ok := s["const"]; ok {
		return c, true
	}
	if e, ok := s["enum"].([]any); ok && len(e) > 0 {
		// a member that also satisfies the bounds, if any
		lo, hi := ttRat(s["minimum"]), ttRat(s["maximum"])
		var okm []any
		for _, m := range e {
			if r := ttRat(m); r != nil && ((lo != nil && r.Cmp(lo) < 0) || (hi != nil && r.Cmp(hi) > 0)) {
				continue
			}
			okm = append(okm, m)
		}
		if len(okm) == 0 {
			return nil, false
		}
		return okm[g.r.Intn(len(okm))], true
	}
	types := ttTypes(s)
	var ty string
	if len(types) > 0 {
		ty = types[g.r.Intn(len(types))]
		if ty == "null" && len(types) > 1 && g.coin(0.6) {
			ty = types[1]
		}
	} else {
		switch {
		case s["properties"] != nil || s["additionalProperties"] != nil || s["required"] != nil:
			ty = "object"
		case s["items"] != nil:
			ty = "array"
		case s["minimum"] != nil || s["maximum"] != nil:
			ty = "integer"
		case s["minLength"] != nil || s["maxLength"] != nil:
			ty = "string"
		default:
			return g.anyValue(depth), true
		}
	}
	switch ty {
	case "null":
		return nil, true
	case "boolean":
		return g.coin(0.5), true
	case "integer", "number":
		lo, hi := ttRat(s["minimum"]), ttRat(s["maximum"])
		if lo == nil && hi == nil {
			if ty == "integer" || g.coin(0.4) {
				if g.coin(0.12) {
					g.feat["extreme"] = true
					return ttNum(ttExtremes[g.r.Intn(len(ttExtremes))]), true
				}
				n := g.r.Intn(2001) - 1000
				if n != 0 && g.coin(0.06) {
					return ttNum(strconv.Itoa(n) + g.pick(".0", "e0", "00e-2", ".000")), true
				}
				return ttNum(strconv.Itoa(n)), true
			}
			return ttNum(g.pick("1.5", "0.25", "-2.75", "12.125", "1e-3", "99.5")), true
		}
		// pick inside the bounds
		one := big.NewRat(1, 1)
		if ty == "integer" {
			var lo2, hi2 *big.Int
			if lo != nil {
				lo2 = ttCeil(lo)
			}
			if hi != nil {
				hi2 = ttFloor(hi)
			}
			switch {
			case lo2 != nil && hi2 != nil:
				if lo2.Cmp(hi2) > 0 {
					return nil, false
				}
				w := new(big.Int).Sub(hi2, lo2)
				if w.Cmp(big.NewInt(1000)) > 0 {
					w = big.NewInt(1000)
				}
				return ttNum(new(big.Int).Add(lo2, big.NewInt(int64(g.r.Intn(int(w.Int64())+1)))).String()), true
			case lo2 != nil:
				return ttNum(new(big.Int).Add(lo2, big.NewInt(int64(g.r.Intn(5)))).String()), true
			default:
				return ttNum(new(big.Int).Sub(hi2, big.NewInt(int64(g.r.Intn(5)))).String()), true
			}
		}
		var base *big.Rat
		switch {
		case lo != nil && hi != nil:
			if lo.Cmp(hi) > 0 {
				return nil, false
			}
			base = new(big.Rat).Set(lo)
			if g.coin(0.5) {
				base.Set(hi)
			}
		case lo != nil:
			base = new(big.Rat).Add(lo, new(big.Rat).Mul(one, big.NewRat(int64(g.r.Intn(9)), 4)))
		default:
			base = new(big.Rat).Sub(hi, new(big.Rat).Mul(one, big.NewRat(int64(g.r.Intn(9)), 4)))
		}
		return ttNum(ttRatLit(base)), true
	case "string":
		lo, hi := 0, 12
		if r := ttRat(s["minLength"]); r != nil {
			lo = int(r.Num().Int64())
		}
		if r := ttRat(s["maxLength"]); r != nil {
			hi = int(r.Num().Int64())
		}
		if lo > hi {
			return nil, false
		}
		w := []rune(g.word())
		for len(w) < lo {
			w = append(w, []rune(g.pick("a", "é", "z", "日"))...)
		}
		if len(w) > hi {
			w = w[:hi]
		}
		return string(w), true
	case "array":
		n := g.r.Intn(4)
		out := []any{}
		for i := 0; i < n; i++ {
			e, ok := g.valid(s["items"], depth+1)
			if !ok {
				break
			}
			out = append(out, e)
		}
		return out, true
	case "object":
		out := map[string]any{}
		props, _ := s["properties"].(map[string]any)
		reqd := map[string]bool{}
		if r, ok := s["required"].([]any); ok {
			for _, n := range r {
				reqd[n.(string)] = true
			}
		}
		names := make([]string, 0, len(props))
		for k := range props {
			names = append(names, k)
		}
		sort.Strings(names)
		for _, k := range names {
			if reqd[k] || g.coin(0.5) {
				v, ok := g.valid(props[k], depth+1)
				if !ok {
					if reqd[k] {
						return nil, false
					}
					continue
				}
				out[k] = v
			}
		}
		ap, hasAP := s["additionalProperties"]
		for k := range reqd {
			if _, ok := props[k]; !ok {
				if b, isB := ap.(bool); hasAP && isB && !b {
					return nil, false
				}
				v, ok := g.valid(ap, depth+1)
				if !ok {
					return nil, false
				}
				out[k] = v
			}
		}
		if b, isB := ap.(bool); !(hasAP && isB && !b) && g.coin(0.3) {
			v, ok := g.valid(ap, depth+1)
			if ok {
				out[g.pick("zz", "extra2", "k9")] = v
			}
		}
		if b, isB := ap.(bool); g.variants && len(names) > 0 && !(hasAP && isB && !b) && g.coin(0.3) {
			g.variantMembers(out, props, names, ap, depth)
		}
		return out, true
	}
	return nil, false
}

func ttFloor(r *big.Rat) *big.Int {
	q := new(big.Int).Div(r.Num(), r.Denom()) // Euclidean: rounds toward -inf for a positive denominator
	return q
}
func ttCeil(r *big.Rat) *big.Int {
	q := ttFloor(r)
	if !r.IsInt() {
		q.Add(q, big.NewInt(1))
	}
	return q
}

// ttRatLit prints a decimal rational as a JSON number literal.
func ttRatLit(r *big.Rat) string {
	if r.IsInt() {
		return r.Num().String()
	}
	s := r.FloatString(12)
	s = strings.TrimRight(s, "0")
	return strings.TrimSuffix(s, ".")
}

// a candidate single mutation: apply() edits the value tree in place (through the setter of its parent)
type ttMut struct {
	kind  string
	apply func()
}

// mutations collects the single edits that should make v (valid for s) invalid.
func (g *ttGen) mutations(sv any, v any, set func(any), out *[]ttMut) {
	s, isMap := sv.(map[string]any)
	if !isMap || len(s) == 0 {
		return
	}
	add := func(kind string, nv any) { *out = append(*out, ttMut{kind, func() { set(nv) }}) }
	types := ttTypes(s)
	has := func(t string) bool {
		for _, x := range types {
			if x == t {
				return true
			}
		}
		return false
	}
	if len(types) > 0 {
		// a value of a type not listed
		for _, cand := range []struct {
			t string
			v any
		}{{"string", "wrong"}, {"integer", ttNum("3")}, {"boolean", true}, {"null", nil}, {"array", []any{}}, {"object", map[string]any{}}, {"number", ttNum("0.5")}} {
			if !has(cand.t) && !(cand.t == "integer" && has("number")) {
				add("type", cand.v)
				break
			}
		}
		if has("integer") && !has("number") {
			add("type-fraction", ttNum("1.5"))
		}
	}
	if e, ok := s["enum"].([]any); ok {
		_ = e
		add("enum", "not-in-enum-"+strconv.Itoa(g.r.Intn(100)))
		add("enum", ttNum("424242"))
	}
	if _, ok := s["const"]; ok {
		add("const", "not-the-const")
	}
	if lo := ttRat(s["minimum"]); lo != nil {
		if _, isNum := v.(ttNum); isNum {
			add("minimum", ttNum(ttRatLit(new(big.Rat).Sub(lo, big.NewRat(1, 1)))))
		}
	}
	if hi := ttRat(s["maximum"]); hi != nil {
		if _, isNum := v.(ttNum); isNum {
			add("maximum", ttNum(ttRatLit(new(big.Rat).Add(hi, big.NewRat(1, 1)))))
		}
	}
	if str, ok := v.(string); ok {
		if r := ttRat(s["minLength"]); r != nil && r.Num().Int64() > 0 {
			add("minLength", string([]rune(str + "aaaaaaaa")[:r.Num().Int64()-1]))
		}
		if r := ttRat(s["maxLength"]); r != nil {
			add("maxLength", strings.Repeat("é", int(r.Num().Int64())+1))
		}
	}
	if g.depthMut == 0 {
		g.topMuts = 0
		for _, m := range *out {
			if m.kind != "required" && m.kind != "additional" {
				g.topMuts++
			}
		}
	}
	g.depthMut++
	defer func() { g.depthMut-- }()
	if arr, ok := v.([]any); ok {
		for i := range arr {
			i := i
			g.mutations(s["items"], arr[i], func(nv any) { arr[i] = nv }, out)
		}
	}
	if obj, ok := v.(map[string]any); ok {
		props, _ := s["properties"].(map[string]any)
		if r, ok := s["required"].([]any); ok {
			for _, n := range r {
				n := n.(string)
				if _, present := obj[n]; present {
					*out = append(*out, ttMut{"required", func() { delete(obj, n) }})
				}
			}
		}
		ap, hasAP := s["additionalProperties"]
		if b, isB := ap.(bool); hasAP && isB && !b {
			*out = append(*out, ttMut{"additional", func() { obj["unexpected"] = ttNum("1") }})
			if pn := make([]string, 0, len(props)); g.variants && len(props) > 0 {
				for k := range props {
					pn = append(pn, k)
				}
				sort.Strings(pn)
				// a closed object refuses a case variant of a declared property like any other extra member
				*out = append(*out, ttMut{"additional-variant", func() { g.variantMembers(obj, props, pn, nil, 1) }})
			}
		}
		keys := make([]string, 0, len(obj))
		for k := range obj {
			keys = append(keys, k)
		}
		sort.Strings(keys)
		for _, k := range keys {
			k := k
			if ps, ok := props[k]; ok {
				g.mutations(ps, obj[k], func(nv any) { obj[k] = nv }, out)
			} else if hasAP {
				g.mutations(ap, obj[k], func(nv any) { obj[k] = nv }, out)
			}
		}
	}
}

// instance returns JSON text for schema s: valid by construction (60 %) or with one mutation (40 %).
func (g *ttGen) instance(s any) (text string, tag string) {
	v, ok := g.valid(s, 0)
	if !ok {
		v = map[string]any{}
		tag = "gen:gaveup"
	} else {
		tag = "gen:valid"
	}
	if g.coin(0.4) {
		root := v
		var muts []ttMut
		g.mutations(s, root, func(nv any) { root = nv }, &muts)
		if len(muts) > 0 {
			// replacing the whole value is the least interesting mutation: usually prefer a deeper one
			var deep []ttMut
			for _, m := range muts[g.topMuts:] {
				deep = append(deep, m)
			}
			pool := muts
			if len(deep) > 0 && g.coin(0.8) {
				pool = deep
			}
			m := pool[g.r.Intn(len(pool))]
			m.apply()
			v = root
			tag = "gen:mut-" + m.kind
		}
	}
	return ttEnc(v), tag
}

// ---------------------------------------------------------------- the client/server pair

type ttTap struct {
	mu   sync.Mutex
	last json.RawMessage
	err  error
}
type ttTapTransport struct {
	Transport
	tap *ttTap
}
type ttTapConn struct {
	Connection
	tap *ttTap
}

func (t *ttTapTransport) Connect(ctx context.Context) (Connection, error) {
	c, err := t.Transport.Connect(ctx)
	if err != nil {
		return nil, err
	}
	return &ttTapConn{c, t.tap}, nil
}
func (c *ttTapConn) Read(ctx context.Context) (jsonrpc.Message, error) {
	m, err := c.Connection.Read(ctx)
	if r, ok := m.(*jsonrpc.Response); ok {
		c.tap.mu.Lock()
		c.tap.last = append(json.RawMessage(nil), r.Result...)
		c.tap.err = r.Error
		c.tap.mu.Unlock()
	}
	return m, err
}

// raw tools/call params (lets "arguments" be absent)
type ttRawParams struct{ raw json.RawMessage }

func (p *ttRawParams) MarshalJSON() ([]byte, error) { return p.raw, nil }
func (p *ttRawParams) isParams()                    {}
func (p *ttRawParams) isNil() bool                  { return p == nil }
func (p *ttRawParams) GetMeta() map[string]any      { return nil }
func (p *ttRawParams) SetMeta(map[string]any)       {}
func (p *ttRawParams) GetProgressToken() any        { return nil }
func (p *ttRawParams) SetProgressToken(any)         {}

// a tool registered on the current server
type ttToolInfo struct {
	probe  ToolHandler          // the handler the server holds (the wrapper built by AddTool)
	inRS   *jsonschema.Resolved // the ADVERTISED schemas, resolved by the harness: jsonschema-go's own verdicts
	outRS  *jsonschema.Resolved
	outObj bool
	outPtr bool
	hasOut bool
	outTy  reflect.Type
}

type ttPtr struct {
	s    *jsonschema.Schema
	text string // json.Marshal(s) when it was first handed over
}

type ttWorld struct {
	t   *testing.T
	ctx context.Context
	srv *Server
	cs  *ClientSession // peer=sdk: the SDK client session
	raw *ttRawPeer     // peer=raw: a hand-written foreign peer on a pipe
	ss  *ServerSession
	tap *ttTap
	ctl *ttCtl
	mw  *ttMW
	unanswered int // overlapping calls of this run that were never answered
	ver string // the protocol version the current pair runs at ("" before the first server)
	// per case
	caches map[int]*SchemaCache
	ptrs   map[string]*ttPtr
	tools  map[string]*ttToolInfo
	last   string
}

func ttNewWorld(t *testing.T) *ttWorld {
	return &ttWorld{t: t, ctx: context.Background(), tap: &ttTap{}, ctl: &ttCtl{}, mw: &ttMW{}}
}

// ttMW is the state of the receiving middleware every server of the harness carries (see middleware).
type ttMW struct {
	mu       sync.Mutex
	park     *ttPark // armed: the next tools/call is held back after its handler chain has returned
	panicked bool    // the handler chain of the last tools/call panicked
}
type ttPark struct{ parked, release chan struct{} }

// middleware is a receiving middleware (Server.AddReceivingMiddleware, the SDK's public hook) that leaves
// every request and result alone and does two things around tools/call: (1) it recovers a panic of the
// handler chain — the request is answered by a JSON-RPC error and the harness observes res=panic instead
// of losing the process —, so that every call op is exactly ONE invocation of the typed wrapper (no
// separate crash probe: histories of calls on one tool are what the ops say); (2) when a park is armed it
// holds the request back AFTER next has returned (the wrapper is done, the result not yet serialised)
// until released: the way the harness overlaps calls (callGroup) — what an auditing / logging middleware
// that looks at results does for as long as it takes.
func (w *ttWorld) middleware() Middleware {
	return func(next MethodHandler) MethodHandler {
		return func(ctx context.Context, method string, req Request) (res Result, err error) {
			if method != methodCallTool {
				return next(ctx, method, req)
			}
			defer func() {
				if r := recover(); r != nil {
					w.mw.mu.Lock()
					w.mw.panicked = true
					w.mw.mu.Unlock()
					res, err = nil, &jsonrpc.Error{Code: -32098, Message: "tt: the handler chain panicked"}
				}
			}()
			res, err = next(ctx, method, req)
			w.mw.mu.Lock()
			p := w.mw.park
			w.mw.park = nil
			w.mw.mu.Unlock()
			if p != nil {
				close(p.parked)
				<-p.release
			}
			return res, err
		}
	}
}

// reset starts a case: no caches, no schema pointers, no server (one without a cache is made on demand).
func (w *ttWorld) reset() {
	w.closeServer()
	w.caches, w.ptrs = map[int]*SchemaCache{}, map[string]*ttPtr{}
}

func (w *ttWorld) closeServer() {
	if w.cs != nil {
		w.cs.Close()
		w.ss.Wait()
	}
	if w.raw != nil {
		w.raw.close()
		w.ss.Wait()
	}
	w.srv, w.cs, w.raw, w.ss = nil, nil, nil, nil
	w.tools, w.last, w.ver = map[string]*ttToolInfo{}, "", ""
}

// ---------------------------------------------------------------- a foreign peer: raw JSON-RPC on a pipe

// ttRawPeer is a hand-written (non-SDK) MCP client: newline delimited JSON-RPC over a net.Pipe whose other
// end the server is connected to. Legacy versions: the classic initialize handshake at a version of its
// choosing; from 2026-07-28 on: no handshake, every request carries the per-request _meta (SEP-2575).
type ttRawPeer struct {
	conn   net.Conn
	ver    string
	modern bool
	mu     sync.Mutex
	next   int
	wait   map[int]chan ttRawReply
	done   chan struct{}
}

type ttRawReply struct {
	result json.RawMessage
	rpcErr json.RawMessage
}

func ttNewRawPeer(conn net.Conn, ver string) *ttRawPeer {
	p := &ttRawPeer{conn: conn, ver: ver, modern: ver >= protocolVersion20260728, wait: map[int]chan ttRawReply{}, done: make(chan struct{})}
	go p.readLoop()
	return p
}

// readLoop hands responses to their callers, drops notifications and refuses the server's own requests.
func (p *ttRawPeer) readLoop() {
	defer close(p.done)
	r := bufio.NewReaderSize(p.conn, 1<<16)
	for {
		line, err := r.ReadBytes('\n')
		if err != nil {
			p.mu.Lock()
			for id, ch := range p.wait {
				close(ch)
				delete(p.wait, id)
			}
			p.wait = nil
			p.mu.Unlock()
			return
		}
		var msg struct {
			ID     *json.RawMessage `json:"id"`
			Method string           `json:"method"`
			Result json.RawMessage  `json:"result"`
			Error  json.RawMessage  `json:"error"`
		}
		if json.Unmarshal(line, &msg) != nil {
			continue
		}
		if msg.Method != "" {
			if msg.ID != nil { // a request of the server: this peer implements nothing
				p.write(fmt.Sprintf(`{"jsonrpc":"2.0","id":%s,"error":{"code":-32601,"message":"not implemented by this peer"}}`, *msg.ID))
			}
			continue
		}
		if msg.ID == nil {
			continue
		}
		id, err := strconv.Atoi(string(*msg.ID))
		if err != nil {
			continue
		}
		p.mu.Lock()
		ch := p.wait[id]
		delete(p.wait, id)
		p.mu.Unlock()
		if ch != nil {
			ch <- ttRawReply{msg.Result, msg.Error}
		}
	}
}

func (p *ttRawPeer) write(line string) error {
	p.conn.SetWriteDeadline(time.Now().Add(30 * time.Second))
	_, err := p.conn.Write([]byte(line + "\n"))
	return err
}

// meta is the per-request _meta of the sessionless protocol.
func (p *ttRawPeer) meta() string {
	return fmt.Sprintf(`{%q:%q,%q:{"name":"tt-foreign-peer","version":"1"},%q:{}}`,
		MetaKeyProtocolVersion, p.ver, MetaKeyClientInfo, MetaKeyClientCapabilities)
}

// rpc sends one request whose params are the given members (the text between the braces) and waits for
// its response. A modern peer adds its _meta to every request.
func (p *ttRawPeer) rpc(method, members string) (ttRawReply, error) {
	return p.rpcCancel(method, members, nil)
}

var errTTAbandoned = errors.New("abandoned by the harness")

// rpcCancel: rpc that gives up (errTTAbandoned) when cancel is closed.
func (p *ttRawPeer) rpcCancel(method, members string, cancel <-chan struct{}) (ttRawReply, error) {
	if p.modern {
		if members != "" {
			members += ","
		}
		members += `"_meta":` + p.meta()
	}
	p.mu.Lock()
	if p.wait == nil {
		p.mu.Unlock()
		return ttRawReply{}, errors.New("peer connection closed")
	}
	p.next++
	id := p.next
	ch := make(chan ttRawReply, 1)
	p.wait[id] = ch
	p.mu.Unlock()
	mj, _ := json.Marshal(method)
	if err := p.write(fmt.Sprintf(`{"jsonrpc":"2.0","id":%d,"method":%s,"params":{%s}}`, id, mj, members)); err != nil {
		return ttRawReply{}, err
	}
	select {
	case rep, ok := <-ch:
		if !ok {
			return ttRawReply{}, errors.New("peer connection closed")
		}
		return rep, nil
	case <-cancel:
		return ttRawReply{}, errTTAbandoned
	case <-time.After(60 * time.Second):
		return ttRawReply{}, errors.New("no response within 60 s")
	}
}

// handshake: initialize + notifications/initialized at a legacy version; nothing for a modern one. Returns
// the version the server answered with.
func (p *ttRawPeer) handshake() (string, error) {
	if p.modern {
		return p.ver, nil
	}
	rep, err := p.rpc("initialize", fmt.Sprintf(`"protocolVersion":%q,"capabilities":{},"clientInfo":{"name":"tt-foreign-peer","version":"1"}`, p.ver))
	if err != nil {
		return "", err
	}
	if rep.rpcErr != nil {
		return "", fmt.Errorf("initialize refused: %s", rep.rpcErr)
	}
	var init struct {
		ProtocolVersion string `json:"protocolVersion"`
	}
	if err := json.Unmarshal(rep.result, &init); err != nil {
		return "", err
	}
	if err := p.write(`{"jsonrpc":"2.0","method":"notifications/initialized"}`); err != nil {
		return "", err
	}
	return init.ProtocolVersion, nil
}

func (p *ttRawPeer) close() {
	p.conn.Close()
	<-p.done
}

// server makes a new Server on cache k of the case (0: no cache) and a peer connected to it: the SDK
// client (peer=sdk) asked to run at protocol version ver ("default": ClientSessionOptions left alone), or
// a foreign peer speaking raw JSON-RPC over a pipe at that version (peer=raw). Returns the version the
// pair ended up with.
func (w *ttWorld) server(k int, ver, peer string) (string, error) {
	w.closeServer()
	var opts *ServerOptions
	if k > 0 {
		if w.caches[k] == nil {
			w.caches[k] = NewSchemaCache()
		}
		opts = &ServerOptions{SchemaCache: w.caches[k]}
	}
	w.srv = NewServer(&Implementation{Name: "tt-server", Version: "1"}, opts)
	w.srv.AddReceivingMiddleware(w.middleware())
	if peer == "raw" {
		if ver == "default" {
			ver = latestProtocolVersion
		}
		c1, c2 := net.Pipe()
		ss, err := w.srv.Connect(w.ctx, &InMemoryTransport{c2}, nil)
		if err != nil {
			w.t.Fatal(err)
		}
		w.ss = ss
		w.raw = ttNewRawPeer(c1, ver)
		nv, err := w.raw.handshake()
		if err != nil {
			return "", err
		}
		w.ver = nv
		return nv, nil
	}
	ct, st := NewInMemoryTransports()
	ss, err := w.srv.Connect(w.ctx, st, nil)
	if err != nil {
		w.t.Fatal(err)
	}
	w.ss = ss
	c := NewClient(&Implementation{Name: "tt-client", Version: "1"}, nil)
	var co *ClientSessionOptions
	if ver != "default" {
		co = &ClientSessionOptions{ProtocolVersion: ver}
	}
	cs, err := c.Connect(w.ctx, &ttTapTransport{ct, w.tap}, co)
	if err != nil {
		ss.Close()
		ss.Wait()
		w.ss = nil
		return "", err
	}
	w.cs = cs
	if ir := cs.InitializeResult(); ir != nil {
		w.ver = ir.ProtocolVersion
	}
	return w.ver, nil
}

func ttKV(toks []string, k string) string {
	for _, t := range toks {
		if strings.HasPrefix(t, k+"=") {
			return t[len(k)+1:]
		}
	}
	return ""
}

func ttUnhex(tok string) ([]byte, bool) {
	if !strings.HasPrefix(tok, "x") {
		return nil, false
	}
	b, err := hex.DecodeString(tok[1:])
	return b, err == nil
}

func ttResolve(schemaJSON []byte) (*jsonschema.Resolved, *jsonschema.Schema, error) {
	var s jsonschema.Schema
	if err := json.Unmarshal(schemaJSON, &s); err != nil {
		return nil, nil, err
	}
	rs, err := s.Resolve(&jsonschema.ResolveOptions{ValidateDefaults: true})
	return rs, &s, err
}

// elemType strips one pointer, like setSchema does.
func ttElem(t reflect.Type) reflect.Type {
	if t.Kind() == reflect.Pointer {
		return t.Elem()
	}
	return t
}

// ttDerived is jsonschema-go's inference for the Go type (pointers stripped) as a token; "-" for `any`.
func ttDerived(t reflect.Type) string {
	t = ttElem(t)
	if t.Kind() == reflect.Interface {
		return "-"
	}
	s, err := jsonschema.ForType(t, &jsonschema.ForOptions{})
	if err != nil {
		return "-"
	}
	b, _ := json.Marshal(s)
	return "x" + hx(b)
}

// advertised fetches tools/list from the server through the peer's connection (no client-side cache)
// and returns the raw inputSchema / outputSchema of the named tool.
func (w *ttWorld) advertised(name string) (in, out json.RawMessage, err error) {
	var raw json.RawMessage
	if w.raw != nil {
		rep, err := w.raw.rpc(methodListTools, "")
		if err != nil {
			return nil, nil, err
		}
		if rep.rpcErr != nil {
			return nil, nil, fmt.Errorf("tools/list refused: %s", rep.rpcErr)
		}
		raw = rep.result
	} else {
		w.tap.mu.Lock()
		w.tap.last, w.tap.err = nil, nil
		w.tap.mu.Unlock()
		if _, err = handleSend[*ListToolsResult](w.ctx, methodListTools, newClientRequest(w.cs, Params(&ListToolsParams{}))); err != nil {
			return nil, nil, err
		}
		w.tap.mu.Lock()
		raw = w.tap.last
		w.tap.mu.Unlock()
	}
	var lr struct {
		Tools []struct {
			Name         string          `json:"name"`
			InputSchema  json.RawMessage `json:"inputSchema"`
			OutputSchema json.RawMessage `json:"outputSchema"`
		} `json:"tools"`
	}
	if err = json.Unmarshal(raw, &lr); err != nil {
		return nil, nil, err
	}
	for _, t := range lr.Tools {
		if t.Name == name {
			return t.InputSchema, t.OutputSchema, nil
		}
	}
	return nil, nil, errors.New("tool not listed")
}

// tool registers the tool described by the op on the current server. Returns the op as it is recorded
// (with the facts about the Go types filled in: ity oty ikey okey ider oder, and the declared schemas as
// they were actually handed over), the observation and tags.
func (w *ttWorld) tool(toks []string) (op string, obs string, tags []string) {
	if w.srv == nil {
		if _, err := w.server(0, "default", "sdk"); err != nil {
			return strings.Join(toks, " "), "connect-error " + hxs(err.Error()), nil
		}
	}
	reg := ttRegByName(ttKV(toks, "reg"))
	if reg == nil {
		return strings.Join(toks, " "), "bad-reg", nil
	}
	name := ttKV(toks, "name")
	if name == "" {
		name = "t"
	}
	form := ttKV(toks, "form") // how a declared schema is handed to AddTool: raw | schema
	// mk builds the value for Tool.InputSchema / Tool.OutputSchema and the text of what it declares
	mk := func(src, tok, ptr string) (any, string, error) {
		if src != "e" {
			return nil, "-", nil
		}
		b, ok := ttUnhex(tok)
		if !ok {
			return nil, "", errors.New("bad hex")
		}
		if form == "schema" {
			if p := w.ptrs[ptr]; p != nil && ptr != "-" && ptr != "" {
				return p.s, p.text, nil // the same *jsonschema.Schema again
			}
			var s jsonschema.Schema
			if err := json.Unmarshal(b, &s); err != nil {
				return nil, "", err
			}
			// what is declared is the content of the struct (a float64 bound is what it is)
			sb, err := json.Marshal(&s)
			if err != nil {
				return nil, "", err
			}
			text := "x" + hx(sb)
			if ptr != "-" && ptr != "" {
				w.ptrs[ptr] = &ttPtr{&s, text}
			}
			return &s, text, nil
		}
		return json.RawMessage(b), "x" + hx(b), nil
	}
	isrc, osrc := ttKV(toks, "isrc"), ttKV(toks, "osrc")
	iptr, optr := ttKV(toks, "iptr"), ttKV(toks, "optr")
	if iptr == "" {
		iptr = "-"
	}
	if optr == "" {
		optr = "-"
	}
	isch, itext, err1 := mk(isrc, ttKV(toks, "isch"), iptr)
	osch, otext, err2 := mk(osrc, ttKV(toks, "osch"), optr)
	if err1 != nil || err2 != nil {
		return strings.Join(toks, " "), "bad-schema-token", nil
	}
	ity, _ := json.Marshal(ttDescribe(reg.inTy).json())
	oty, _ := json.Marshal(ttDescribe(reg.out).json())
	op = fmt.Sprintf("tool name=%s reg=%s form=%s isrc=%s osrc=%s isch=%s osch=%s iptr=%s optr=%s ity=x%s oty=x%s ikey=%s okey=%s ider=%s oder=%s",
		name, reg.name, form, isrc, osrc, itext, otext, iptr, optr, hx(ity), hx(oty),
		hxs(ttElem(reg.inTy).String()), hxs(ttElem(reg.out).String()), ttDerived(reg.inTy), ttDerived(reg.out))
	tags = []string{"tool", "reg:" + reg.name, "isrc:" + isrc, "osrc:" + osrc}
	if w.srv.opts.SchemaCache != nil {
		tags = append(tags, "cache")
	}
	if _, again := w.tools[name]; again {
		tags = append(tags, "replace")
	}
	if err := reg.add(w.srv, name, isch, osch, w.ctl); err != nil {
		return op, "addtool-error", append(tags, "addtool-error")
	}
	w.srv.mu.Lock()
	st, ok := w.srv.tools.get(name)
	w.srv.mu.Unlock()
	if !ok {
		return op, "not-registered", tags
	}
	info := &ttToolInfo{probe: st.handler, outPtr: reg.out.Kind() == reflect.Pointer, outTy: reg.out}
	ib, ob, err := w.advertised(name)
	if err != nil {
		return op, "list-error", tags
	}
	if info.inRS, _, err = ttResolve(ib); err != nil {
		return op, "harness-resolve-error", tags
	}
	po := "-"
	info.hasOut = len(ob) > 0
	if info.hasOut {
		var os *jsonschema.Schema
		if info.outRS, os, err = ttResolve(ob); err != nil {
			return op, "harness-resolve-error", tags
		}
		info.outObj = os.Type == "object"
		po = "x" + hx(ob)
	}
	w.tools[name], w.last = info, name
	return op, fmt.Sprintf("ok pi=x%s po=%s", hx(ib), po), tags
}

// ttVariantTags reports the members of v that are not declared properties but differ from one only in
// case: next to the property (sorting before / after it) or without it.
func ttVariantTags(s *jsonschema.Schema, v any, out map[string]bool) {
	obj, ok := v.(map[string]any)
	if !ok || s == nil {
		return
	}
	for k, e := range obj {
		if ps, declared := s.Properties[k]; declared {
			ttVariantTags(ps, e, out)
			continue
		}
		for p := range s.Properties {
			if strings.EqualFold(p, k) {
				if _, both := obj[p]; !both {
					out["cv-alone"] = true
				} else if k > p {
					out["cv-after"] = true
				} else {
					out["cv-before"] = true
				}
			}
		}
	}
}

// ttHasU64 reports a plain integer in (MaxInt64, MaxUint64]: a value only an unsigned type holds.
func ttHasU64(v any) bool {
	switch x := v.(type) {
	case ttNum:
		if strings.ContainsAny(string(x), ".eE-") {
			return false
		}
		_, e1 := strconv.ParseInt(string(x), 10, 64)
		_, e2 := strconv.ParseUint(string(x), 10, 64)
		return e1 != nil && e2 == nil
	case []any:
		for _, e := range x {
			if ttHasU64(e) {
				return true
			}
		}
	case map[string]any:
		for _, e := range x {
			if ttHasU64(e) {
				return true
			}
		}
	}
	return false
}

// ttCall performs one tools/call described by the op. The op is recorded with the token hout= filled in:
// the JSON of the value the handler is going to return (encoding/json's rendering of the Out value the
// harness builds from out= and anyx=), computed here, outside the SDK.
func (w *ttWorld) call(toks []string) (op string, obs string, tags []string) {
	r := w.callGroup([][]string{toks})[0]
	return r.op, r.obs, r.tags
}

// ttCallRun is one tools/call of a group of overlapping calls, from its preparation to its observation.
type ttCallRun struct {
	op, obs string
	tags    []string
	early   bool // obs was decided before anything ran (bad op, unknown tool ...)
	name    string
	ti      *ttToolInfo
	spec    *ttCallSpec
	a       string // the args= token
	lib     string
	ob      *ttObs
	// the round trip
	raw             json.RawMessage
	rpcErr, nilRes  bool
	peerErr         error
	panicked        bool
	park            *ttPark
	done            chan struct{}
	ctx             context.Context
	cancel          context.CancelFunc
	hold            string // a: held after the handler chain has returned; h: held inside the handler
	unanswered      bool // no response arrived within the harness's patience (the call was then abandoned)
}

// callGroup performs the tools/call requests described by the ops. One op: an ordinary call. Several
// (ovl=1, ovl=2, ...): OVERLAPPING calls on the current session — call i (i < n) is held back by the server's
// receiving middleware after its handler chain has returned (the typed wrapper is done, the result has not
// been serialised yet), then call i+1 is started; the last call runs to completion, then the held calls
// are let go in reverse order, each response awaited before the next release. Every handler still runs
// alone (call i+1 is sent only when call i is parked), so what each handler was told to return and what it
// saw is unambiguous; every call of the group is judged like any other call: by C16, on its own
// arguments, its own handler output and the result that arrived for it.
func (w *ttWorld) callGroup(group [][]string) []*ttCallRun {
	runs := make([]*ttCallRun, len(group))
	for i, toks := range group {
		runs[i] = w.callPrep(toks)
	}
	var live []*ttCallRun
	for _, r := range runs {
		if !r.early {
			live = append(live, r)
		}
	}
	if len(live) > 1 {
		// one P: the goroutines of the overlapping requests take turns on it (per-P caches such as
		// sync.Pool's are shared by them, as they are whenever two requests happen to run on the same P)
		defer runtime.GOMAXPROCS(runtime.GOMAXPROCS(1))
	}
	for i, r := range live {
		r.ob = &ttObs{}
		r.done = make(chan struct{})
		r.ctx, r.cancel = context.WithCancel(w.ctx)
		defer r.cancel()
		w.ctl.cur, w.ctl.obs = r.spec, r.ob
		w.mw.mu.Lock()
		w.mw.panicked = false
		w.mw.park = nil
		w.ctl.mu.Lock()
		w.ctl.hpark = nil
		if i < len(live)-1 {
			r.park = &ttPark{parked: make(chan struct{}), release: make(chan struct{})}
			if r.hold == "h" {
				w.ctl.hpark = r.park
			} else {
				w.mw.park = r.park
			}
		}
		w.ctl.mu.Unlock()
		w.mw.mu.Unlock()
		if r.park == nil {
			w.callDo(r)
			close(r.done)
		} else {
			go func() {
				defer close(r.done)
				w.callDo(r)
			}()
			select {
			case <-r.park.parked:
			case <-r.done: // answered without reaching the parking place (a panic under the middleware)
			case <-time.After(30 * time.Second):
				r.unanswered = true
			}
		}
		w.mw.mu.Lock()
		r.panicked, w.mw.panicked = w.mw.panicked, false
		w.mw.park = nil
		w.mw.mu.Unlock()
		w.ctl.takePark() // a call that never reached its parking place leaves nothing armed
	}
	for i := len(live) - 2; i >= 0; i-- {
		r := live[i]
		// how long a released call may take to be answered: 10 s — and 100 ms once three calls of this run
		// were never answered (each of them is a failing input already; the run goes on exploring)
		patience := 10 * time.Second
		if w.unanswered >= 3 {
			patience = 100 * time.Millisecond
		}
		close(r.park.release)
		select {
		case <-r.done:
		case <-time.After(patience):
			// released, and no response: the observation of this call (res=unanswered)
			r.unanswered = true
		}
		if r.unanswered {
			w.unanswered++
			r.cancel()
			<-r.done
		}
		// a call held inside its handler runs the rest of the wrapper only now
		w.mw.mu.Lock()
		if w.mw.panicked {
			r.panicked, w.mw.panicked = true, false
		}
		w.mw.mu.Unlock()
	}
	for _, r := range live {
		w.callFinish(r)
	}
	return runs
}

// callPrep reads one call op. The op is recorded with the token hout= filled in.
func (w *ttWorld) callPrep(toks []string) (run *ttCallRun) {
	run = &ttCallRun{early: true}
	run.op, run.obs, run.tags = w.callPrep1(toks, run)
	return run
}

func (w *ttWorld) callPrep1(toks []string, run *ttCallRun) (op string, obs string, tags []string) {
	var keep []string
	for _, t := range toks {
		if !strings.HasPrefix(t, "hout=") {
			keep = append(keep, t)
		}
	}
	toks = keep
	op = strings.Join(toks, " ")
	name := ttKV(toks, "tool")
	if name == "" {
		name = w.last
	}
	ti := w.tools[name]
	if ti == nil {
		return op, "no-tool", nil
	}
	if name != w.last {
		tags = append(tags, "earlier-tool")
	}
	spec := &ttCallSpec{content: ttKV(toks, "content"), anyx: ttKV(toks, "anyx") == "1"}
	spec.herr, _ = strconv.Atoi(ttKV(toks, "herr"))
	spec.hise = ttKV(toks, "hise") == "1"
	if hb, ok := ttUnhex(ttKV(toks, "hsc")); ok {
		spec.hsc = string(hb)
	}
	if spec.hise || spec.hsc != "" {
		tags = append(tags, "hset", fmt.Sprintf("hset:ise=%v,sc=%v", spec.hise, spec.hsc != ""))
	}
	o := ttKV(toks, "out")
	if o == "nilptr" || o == "nilany" {
		spec.out = o
		tags = append(tags, "out:"+o)
	} else if b, ok := ttUnhex(o); ok {
		spec.out = string(b)
		tags = append(tags, "out:json")
		pv := reflect.New(ti.outTy)
		if e := ttDecodeOut(b, pv.Interface(), spec.anyx); e != nil {
			return op, "harness-error " + hxs("cannot build the output: "+e.Error()), tags
		}
		hb, e := json.Marshal(pv.Elem().Interface())
		if e != nil {
			// json.Marshal refuses the value the handler is going to return
			hb = nil
			op += " hout=!"
			tags = append(tags, "out:marshal-error")
		} else {
			op += " hout=x" + hx(hb)
		}
		if hv, e := ttParse(hb); e == nil && ttHasU64(hv) {
			tags = append(tags, "u64-out")
		}
		if spec.anyx {
			tags = append(tags, "anyx")
		}
	} else {
		return op, "bad-out-token", nil
	}
	a := ttKV(toks, "args")
	var argsVal any
	argShape := "obj"
	if a == "absent" {
		argShape = "absent"
		argsVal = map[string]any{}
	} else if b, ok := ttUnhex(a); ok {
		v, err := ttParse(b)
		if err != nil {
			return op, "bad-args-json", nil
		}
		switch v.(type) {
		case nil:
			argShape = "null"
			argsVal = map[string]any{}
		case map[string]any:
			argsVal = v
		default:
			argShape = "nonobj"
		}
		if ttHasBigNum(v) {
			tags = append(tags, "big-arg")
		}
		if ttHasU64(v) {
			tags = append(tags, "u64-arg")
		}
	} else {
		return op, "bad-args-token", nil
	}
	tags = append(tags, "args:"+argShape, "content:"+spec.content, fmt.Sprintf("herr:%d", spec.herr))
	peerKind := "sdk"
	if w.raw != nil {
		peerKind = "raw"
	}
	// which session, and — the dimension a default-version client never exercises — which JSON kind of
	// arguments / of structured content on a session older than 2026-07-28
	era := "modern"
	if w.ver < protocolVersion20260728 {
		era = "legacy"
	}
	tags = append(tags, "ver:"+w.ver, "peer:"+peerKind, "akind:"+ttJSONKind(a), era+"-"+peerKind+"-args:"+ttJSONKind(a))
	if gt := ttKV(toks, "gen"); gt != "" {
		tags = append(tags, "gen:"+gt)
	}
	if ti.inRS != nil {
		cv := map[string]bool{}
		ttVariantTags(ti.inRS.Schema(), argsVal, cv)
		for _, k := range []string{"cv-after", "cv-alone", "cv-before"} {
			if cv[k] {
				tags = append(tags, k)
			}
		}
	}
	lib := "-"
	if argShape != "nonobj" {
		lib = ttLib(ti.inRS, ttExact(argsVal))
	}
	tags = append(tags, "lib:"+lib)

	if k := ttKV(toks, "ovl"); k != "" {
		run.hold = ttKV(toks, "hold")
		if run.hold != "h" {
			run.hold = "a"
		}
		tags = append(tags, "overlap", "ovl:"+k, "hold:"+run.hold)
	}
	run.early, run.name, run.ti, run.spec, run.a, run.lib = false, name, ti, spec, a, lib
	return op, "", tags
}

// callDo is the round trip of one call: through the SDK client or the raw peer of the current session.
// A panic of the wrapper is caught by the server's receiving middleware (ttWorld.middleware): the request
// is then answered by a JSON-RPC error and the call is observed as res=panic.
func (w *ttWorld) callDo(r *ttCallRun) {
	a, name := r.a, r.name
	nameJSON, _ := json.Marshal(name)
	w.tap.mu.Lock()
	w.tap.last, w.tap.err = nil, nil
	w.tap.mu.Unlock()
	// raw: the result member of the response as it arrived at the peer; rpcErr: a JSON-RPC error arrived
	if w.raw != nil {
		members := fmt.Sprintf(`"name":%s`, nameJSON)
		if a != "absent" {
			rawArgs, _ := ttUnhex(a)
			members += `,"arguments":` + string(rawArgs)
		}
		rep, err := w.raw.rpcCancel(methodCallTool, members, r.ctx.Done())
		if err != nil {
			r.peerErr = err
			return
		}
		r.raw, r.rpcErr = rep.result, rep.rpcErr != nil
		r.nilRes = !r.rpcErr && (len(r.raw) == 0 || string(r.raw) == "null")
	} else {
		var res *CallToolResult
		var err error
		if a == "absent" {
			params := json.RawMessage(fmt.Sprintf(`{"name":%s}`, nameJSON))
			res, err = handleSend[*CallToolResult](r.ctx, methodCallTool, newClientRequest(w.cs, Params(&ttRawParams{params})))
		} else {
			rawArgs, _ := ttUnhex(a)
			res, err = w.cs.CallTool(r.ctx, &CallToolParams{Name: name, Arguments: json.RawMessage(rawArgs)})
		}
		r.rpcErr, r.nilRes = err != nil, err == nil && res == nil
		w.tap.mu.Lock()
		r.raw = w.tap.last
		w.tap.mu.Unlock()
	}
}

// callFinish turns what arrived for the call into its observation.
func (w *ttWorld) callFinish(r *ttCallRun) {
	r.obs, r.tags = w.callFinish1(r)
}

func (w *ttWorld) callFinish1(r *ttCallRun) (obs string, tags []string) {
	op, tags := r.op, r.tags
	ob, name, ti, spec, lib := r.ob, r.name, r.ti, r.spec, r.lib
	raw, rpcErr, nilRes := r.raw, r.rpcErr, r.nilRes
	if r.peerErr != nil && !r.unanswered {
		return "peer-error " + hxs(r.peerErr.Error()), tags
	}
	if r.panicked {
		return fmt.Sprintf("inv=%d seen=- res=panic sc=- content=- lib=%s olib=- rt=-", ob.inv, lib), append(tags, "res:panic")
	}
	peerKind, era := "sdk", "modern"
	if w.raw != nil {
		peerKind = "raw"
	}
	if w.ver < protocolVersion20260728 {
		era = "legacy"
	}
	_ = op
	if ob.bad != "" {
		return "harness-error " + hxs(ob.bad), tags
	}
	if ob.inv > 0 && ob.who != name {
		return "wrong-handler " + hxs(ob.who), tags
	}
	seen := "-"
	if ob.inv > 0 {
		seen = ttCanonBytes(ob.seen)
	}
	olib := "-"
	// the output that is validated: the typed output; for a nil `any` the structured content the handler set
	// itself, else (no error result declared) JSON null
	effOut := ob.hout
	if spec.out == "nilany" || (ti.outTy.Kind() == reflect.Interface && string(ob.hout) == "null") {
		switch {
		case spec.hsc != "":
			effOut = []byte(spec.hsc)
		case spec.hise:
			effOut = nil
		}
	}
	if ob.inv > 0 && spec.herr == 0 && effOut != nil && ti.hasOut {
		hv, perr := ttParse(effOut)
		if perr == nil {
			if hv == nil && ti.outObj {
				hv = map[string]any{}
			}
			if ttHasBigNum(hv) {
				tags = append(tags, "big-out")
			}
			olib = ttLib(ti.outRS, ttExact(hv))
		}
	}
	tags = append(tags, "olib:"+olib)
	kind, sc, content, rt := "", "-", "-", "-"
	switch {
	case r.unanswered:
		kind = "unanswered"
		tags = append(tags, "res:unanswered")
	case rpcErr:
		kind = "rpcerr"
		tags = append(tags, "res:rpcerr")
	case nilRes:
		kind = "nil-result"
	default:
		var wire struct {
			Content []struct {
				Type string `json:"type"`
				Text string `json:"text"`
			} `json:"content"`
			IsError bool `json:"isError"`
		}
		var members map[string]json.RawMessage
		if e := json.Unmarshal(raw, &wire); e != nil {
			return "bad-wire-result", tags
		}
		if e := json.Unmarshal(raw, &members); e != nil {
			return "bad-wire-result", tags
		}
		if rtRaw, has := members["resultType"]; has {
			var rs string
			if json.Unmarshal(rtRaw, &rs) == nil && (rs == "complete" || rs == "input_required") {
				rt = rs
			} else {
				rt = "x" + hx(rtRaw)
			}
		}
		structured, hasSC := members["structuredContent"]
		var scCanon string
		if hasSC {
			scCanon = ttCanonBytes(structured)
			sc = scCanon
		}
		// the content blocks one by one: a handler's own text (t<hex>), the serialised structured content (=sc)
		blocks := func() string {
			var bl []string
			for _, c := range wire.Content {
				if c.Type != "text" {
					bl = append(bl, "k"+hxs(c.Type))
					continue
				}
				if hasSC {
					if tv, e := ttParse([]byte(c.Text)); e == nil && ttCanon(tv) == scCanon {
						bl = append(bl, "=sc")
						continue
					}
				}
				bl = append(bl, "t"+hxs(c.Text))
			}
			if len(bl) == 0 {
				return "-"
			}
			return strings.Join(bl, ";")
		}
		if wire.IsError && spec.hise && ob.inv > 0 && spec.herr == 0 {
			// an error result the HANDLER declared (IsError set on the result it returned): its content is the
			// handler's own, observed block by block
			kind = "toolerr"
			tags = append(tags, "res:toolerr-hset")
			content = blocks()
		} else if wire.IsError {
			kind = "toolerr"
			ek := "other"
			if len(wire.Content) == 1 {
				txt := wire.Content[0].Text
				switch {
				case strings.HasPrefix(txt, `validating "arguments": unmarshaling arguments`):
					ek = "argshape"
				case strings.HasPrefix(txt, `validating "arguments":`):
					ek = "validate"
				case txt == "boom":
					ek = "handler"
				default:
					ek = "decode"
				}
			}
			tags = append(tags, "res:toolerr-"+ek)
			if len(wire.Content) == 1 && wire.Content[0].Type == "text" && wire.Content[0].Text != "" {
				content = "err"
			} else if len(wire.Content) > 0 {
				content = fmt.Sprintf("blocks%d", len(wire.Content))
			}
		} else {
			kind = "ok"
			tags = append(tags, "res:ok")
			content = blocks()
			if sc != "-" {
				tags = append(tags, "structured", "sc:"+ttJSONKind("x"+hx(structured)), era+"-"+peerKind+"-sc:"+ttJSONKind("x"+hx(structured)))
			}
		}
	}
	return fmt.Sprintf("inv=%d seen=%s res=%s sc=%s content=%s lib=%s olib=%s rt=%s", ob.inv, seen, kind, sc, content, lib, olib, rt), tags
}

// ttJSONKind names the JSON kind of an args=/out= token: absent, null, object, array, string, number, boolean.
func ttJSONKind(tok string) string {
	if tok == "absent" {
		return "absent"
	}
	b, ok := ttUnhex(tok)
	if !ok {
		return "bad"
	}
	t := strings.TrimLeft(string(b), " \t\r\n")
	if t == "" {
		return "bad"
	}
	switch t[0] {
	case '{':
		return "object"
	case '[':
		return "array"
	case '"':
		return "string"
	case 't', 'f':
		return "boolean"
	case 'n':
		return "null"
	}
	return "number"
}

// ttOvlGroup: the number of leading lines that form a group of overlapping calls (`call` ops carrying
// ovl=1, ovl=2, ... in this order); 0 or 1: no group (a lone ovl=1 is an ordinary call).
func ttOvlGroup(ops []string) int {
	n := 0
	for _, l := range ops {
		toks := strings.Fields(l)
		if len(toks) == 0 || toks[0] != "call" || ttKV(toks, "ovl") != strconv.Itoa(n+1) {
			break
		}
		n++
	}
	return n
}

// ttRun interprets one op line.
func (w *ttWorld) run(line string) (op, obs string, tags []string) {
	toks := strings.Fields(line)
	if len(toks) == 0 {
		return line, "bad-op", nil
	}
	switch toks[0] {
	case "reset":
		w.reset()
		return "reset", "ok", []string{"reset"}
	case "server":
		k, err := strconv.Atoi(ttKV(toks, "cache"))
		if err != nil || k < 0 {
			return line, "bad-op", nil
		}
		ver, peer := ttKV(toks, "ver"), ttKV(toks, "peer")
		if ver == "" {
			ver = "default"
		}
		if peer == "" {
			peer = "sdk"
		}
		if peer != "sdk" && peer != "raw" {
			return line, "bad-op", nil
		}
		op := fmt.Sprintf("server cache=%d ver=%s peer=%s", k, ver, peer)
		tg := []string{"server", "server-ver:" + ver, "server-peer:" + peer}
		if k > 0 {
			tg = append(tg, "server-cache")
		}
		nv, cerr := w.server(k, ver, peer)
		if cerr != nil {
			return op, "connect-error " + hxs(cerr.Error()), tg
		}
		return op, "ok nv=" + nv, tg
	case "tool":
		return w.tool(toks)
	case "call":
		return w.call(toks)
	case "f64":
		if len(toks) == 2 {
			if n, ok := new(big.Int).SetString(toks[1], 10); ok {
				f, _ := new(big.Float).SetInt(n).Float64()
				b, _ := json.Marshal(f)
				return line, ttCanonNum(string(b)), []string{"f64"}
			}
		}
	}
	return line, "bad-op", nil
}

// ---------------------------------------------------------------- generator

// a tool of the case under generation
type ttGenTool struct {
	name         string
	reg          *ttReg
	outTy        *ttTy
	ischV, oschV any // the schemas values are generated against: declared, else the derived one
}

// an explicit schema generated earlier in the case, for handing the same *jsonschema.Schema over again
type ttGenPtr struct {
	id   int
	tok  string
	elem reflect.Type
	out  bool
}

type ttCaseGen struct {
	hset  bool // the next call's handler sets a StructuredContent of its own
	g     *ttGen
	lines []string
	ptrs  []ttGenPtr
	nptr  int
}

func ttDerive(t reflect.Type) any {
	t = ttElem(t)
	if t.Kind() == reflect.Interface {
		return map[string]any{"type": "object"}
	}
	s, err := jsonschema.ForType(t, &jsonschema.ForOptions{})
	if err != nil {
		return map[string]any{}
	}
	b, _ := json.Marshal(s)
	v, _ := ttParse(b)
	return v
}

// addTool emits one `tool` op: schemas derived or declared, declared ones raw or as a *Schema, which
// may be one handed over earlier in the case for the same Go type and side.
func (c *ttCaseGen) addTool(name string, reg *ttReg, pExplicitIn, pExplicitOut float64) *ttGenTool {
	g := c.g
	inTy, outTy := ttDescribe(reg.inTy), ttDescribe(reg.out)
	var isch, osch any
	if g.coin(pExplicitIn) {
		switch inTy.K {
		case "struct":
			isch = g.schemaFor(inTy, 0)
		case "ptr":
			isch = g.schemaFor(inTy.Elem, 0)
		case "map":
			if inTy.Elem.K == "any" && g.coin(0.7) {
				isch = g.freeSchema(0, true)
			} else {
				isch = g.schemaFor(inTy, 0)
			}
		default: // any
			isch = g.freeSchema(0, true)
		}
	}
	if g.coin(pExplicitOut) {
		switch outTy.K {
		case "any":
			osch = g.freeSchema(0, g.coin(0.6))
		case "ptr":
			osch = g.schemaFor(outTy.Elem, 0)
		default:
			osch = g.schemaFor(outTy, 0)
		}
		if m, ok := osch.(map[string]any); ok {
			if tl, isList := m["type"].([]any); isList && len(tl) == 2 && g.coin(0.5) {
				m["type"] = tl[1] // un-widen the root sometimes
			}
		} else {
			osch = map[string]any{} // boolean root schemas are not sent as explicit output schemas
		}
	}
	return c.emitTool(name, reg, isch, osch)
}

// emitTool emits the `tool` op for the declared schemas isch / osch (nil: that side is derived from the
// Go type — or, for an `any` output, there is no output schema).
func (c *ttCaseGen) emitTool(name string, reg *ttReg, isch, osch any) *ttGenTool {
	g := c.g
	outTy := ttDescribe(reg.out)
	isrc, osrc := "d", "d"
	if isch != nil {
		isrc = "e"
	}
	if outTy.K == "any" {
		osrc = "none"
	}
	if osch != nil {
		osrc = "e"
	}
	form := g.pick("raw", "schema")
	// one side at a time: a fresh pointer, or one handed over before for the same Go type and side
	side := func(src string, sch any, elem reflect.Type, out bool) (tok, ptr string, used any) {
		if src != "e" {
			return "-", "-", sch
		}
		tok = "x" + hxs(ttEnc(sch))
		if form != "schema" {
			return tok, "-", sch
		}
		if g.coin(0.35) {
			var cand []ttGenPtr
			for _, p := range c.ptrs {
				if p.elem == elem && p.out == out {
					cand = append(cand, p)
				}
			}
			if len(cand) > 0 {
				p := cand[g.r.Intn(len(cand))]
				b, _ := ttUnhex(p.tok)
				v, _ := ttParse(b)
				g.feat["ptr-again"] = true
				return p.tok, strconv.Itoa(p.id), v
			}
		}
		c.nptr++
		c.ptrs = append(c.ptrs, ttGenPtr{c.nptr, tok, elem, out})
		return tok, strconv.Itoa(c.nptr), sch
	}
	itok, iptr, isch := side(isrc, isch, ttElem(reg.inTy), false)
	otok, optr, osch := side(osrc, osch, ttElem(reg.out), true)
	c.lines = append(c.lines, fmt.Sprintf("tool name=%s reg=%s form=%s isrc=%s osrc=%s isch=%s osch=%s iptr=%s optr=%s",
		name, reg.name, form, isrc, osrc, itok, otok, iptr, optr))
	t := &ttGenTool{name: name, reg: reg, outTy: outTy, ischV: isch, oschV: osch}
	if isrc != "e" {
		t.ischV = ttDerive(reg.inTy)
	}
	if osrc != "e" {
		if outTy.K == "any" {
			t.oschV = true
		} else {
			t.oschV = ttDerive(reg.out)
		}
	}
	return t
}

// the values of `arguments` that are no objects: every other JSON kind (and the empty array)
var ttNonObjArgs = []string{"[1]", `"str"`, "5", "true", "[]", "false", `"{\"name\":\"al\"}"`, "-0.5"}

// addCall emits one `call` op addressed to tool t.
func (c *ttCaseGen) addCall(t *ttGenTool) { c.addCallWith(t, "", "", "") }

// addCallWith emits one `call` op addressed to tool t. args / out other than "": the given tokens instead
// of generated ones (atag names how the arguments were chosen).
func (c *ttCaseGen) addCallWith(t *ttGenTool, args, atag, out string) {
	g := c.g
	if args == "" {
		switch x := g.r.Intn(100); {
		case x < 3:
			args, atag = "absent", "gen:absent"
		case x < 7:
			args, atag = "x"+hxs("null"), "gen:null"
		case x < 10:
			args, atag = "x"+hxs(g.pick(ttNonObjArgs...)), "gen:nonobj"
		default:
			g.variants = true
			tx, tg := g.instance(t.ischV)
			g.variants = false
			args, atag = "x"+hxs(tx), tg
		}
	}
	switch {
	case out != "":
	case t.reg.name == "A/MJ" && g.coin(0.7):
		out = "x" + hxs(fmt.Sprintf(`{"mode":%q,"v":%d}`, g.pick("arr", "str", "null", "err", "obj"), g.smallInt()))
	case t.outTy.K == "ptr" && g.coin(0.3):
		out = "nilptr"
	case t.outTy.K == "any" && g.coin(0.2):
		out = "nilany"
	default:
		// an output the Out type can hold
		for try := 0; try < 4 && out == ""; try++ {
			tx, _ := g.instance(t.oschV)
			if try == 3 {
				v, _ := g.valid(ttDerive(t.reg.out), 0)
				tx = ttEnc(v)
			}
			p := reflect.New(t.reg.out)
			if json.Unmarshal([]byte(tx), p.Interface()) == nil {
				out = "x" + hxs(tx)
			}
		}
		if out == "" {
			out = "x" + hxs("null")
		}
	}
	content := g.pick("n", "n", "n", "N", "0", "1", "1", "2")
	herr := 0
	if g.coin(0.05) {
		herr = 1 + g.r.Intn(2)
	}
	anyx := 0
	if g.coin(0.5) {
		anyx = 1
	}
	line := fmt.Sprintf("call tool=%s args=%s out=%s anyx=%d content=%s herr=%d gen=%s", t.name, args, out, anyx, content, herr, strings.TrimPrefix(atag, "gen:"))
	// 8 % (and always when asked for): the handler ALSO sets members of the result it returns itself: IsError,
	// and/or a StructuredContent of its own — an instance generated against the tool's output schema (valid
	// or one-mutation-invalid) or an arbitrary value
	if c.hset || g.coin(0.08) {
		hise, hsc := 0, "-"
		if !c.hset && g.coin(0.5) {
			hise = 1
		}
		if c.hset || hise == 0 || g.coin(0.5) {
			tx, _ := g.instance(t.oschV)
			if g.coin(0.15) {
				tx = ttEnc(g.anyValue(0))
			}
			hsc = "x" + hxs(tx)
		}
		line += fmt.Sprintf(" hise=%d hsc=%s", hise, hsc)
	}
	c.lines = append(c.lines, line)
}

// addOverlap emits a group of overlapping calls (ovl=1..n), one per given tool: generated like any other
// call; the harness holds each but the last one back after its handler chain has returned (callGroup).
func (c *ttCaseGen) addOverlap(ts ...*ttGenTool) {
	for i, t := range ts {
		c.addCall(t)
		// where the call is held while the next one runs: after its handler chain has returned (a), or inside
		// its handler, before the handler looks at its input (h)
		c.lines[len(c.lines)-1] += fmt.Sprintf(" ovl=%d hold=%s", i+1, c.g.pick("a", "a", "h"))
	}
}

// input schemas Server.AddTool refuses: the root type is not (the single string) "object"
var ttNonObjectInputSchemas = []string{`{"type":"array"}`, `{"type":"string"}`, `{}`, `{"type":["object","null"]}`,
	`{"type":"integer"}`, `{"properties":{"name":{"type":"string"}}}`}

// addRefused emits a registration that AddTool must refuse (toolForErr succeeds — the SchemaCache may be
// written —, Server.AddTool panics): a declared input schema whose root type is not "object", under the
// given name (a new one, or the name of a registered tool, which must stay as it is).
func (c *ttCaseGen) addRefused(name string, reg *ttReg) {
	v, _ := ttParse([]byte(c.g.pick(ttNonObjectInputSchemas...)))
	var osch any
	if c.g.coin(0.3) && ttDescribe(reg.out).K != "any" {
		osch = ttDerive(reg.out)
	}
	// no pointer handed over earlier is re-used here (it would bring its own, object-rooted schema along), and
	// the pointers of a refused registration are not offered to later registrations
	keep := c.ptrs
	c.ptrs = nil
	c.emitTool(name, reg, v, osch)
	c.ptrs = keep
}

// session draws the protocol version and the kind of peer of a server of the case: the SDK client left
// alone (its default version) or told to run at one of the SDK's supported versions, or a foreign peer
// speaking raw JSON-RPC at one of them.
func (g *ttGen) session() string {
	vs := append([]string{"default", "default"}, supportedProtocolVersions...)
	peer := "sdk"
	if g.coin(0.4) {
		peer = "raw"
	}
	return fmt.Sprintf("ver=%s peer=%s", vs[g.r.Intn(len(vs))], peer)
}

// the registrations of the version matrix: one per kind of output (object, nil pointer to an object,
// array, array of objects, string, number — signed, unsigned, float —, boolean, nil pointer to a number,
// map, `any`)
var ttMatrixRegs = []string{"A/A", "A/PA", "A/SI", "A/SD", "A/S", "A/I", "A/UI", "A/F", "A/BO", "A/PI", "A/M", "A/MJ", "A/Y"}

// the explicit output schemas of the matrix for Out = any: one per JSON root type
var ttMatrixAnySchemas = []string{`{"type":"object"}`, `{"type":"array"}`, `{"type":"string"}`, `{"type":"number"}`,
	`{"type":"integer"}`, `{"type":"boolean"}`, `{"type":"null"}`, `{"type":["null","array"],"items":{"type":"integer"}}`, `{}`}

// ttMatrixCase is the deterministic part of the stream for one (version, peer): on one server, a typed
// tool per kind of output — each with the schema derived from its Out type and with a declared one —, and
// Out = any under a declared schema of every root type; each tool is called with generated arguments
// (valid and one-mutation-invalid), with `arguments` of every JSON kind in turn (absent, null, array,
// string, number, boolean: all invalid under an input schema of type object, none may reach the handler,
// each must be answered by a tool-level error result), and — where the Out type has one — with a nil
// pointer / nil `any` / JSON null output.
func ttMatrixCase(r *rand.Rand, ver, peer string) []string {
	g := &ttGen{r: r, feat: map[string]bool{}}
	c := &ttCaseGen{g: g, lines: []string{"reset", fmt.Sprintf("server cache=%d ver=%s peer=%s", r.Intn(2), ver, peer)}}
	kinds := append([]string{"absent", "x" + hxs("null")}, func() (o []string) {
		for _, a := range ttNonObjArgs {
			o = append(o, "x"+hxs(a))
		}
		return
	}()...)
	n, k := 0, r.Intn(len(kinds))
	calls := func(t *ttGenTool) {
		c.addCall(t)
		c.addCall(t)
		tag := "nonobj"
		switch kinds[k%len(kinds)] {
		case "absent":
			tag = "absent"
		case "x" + hxs("null"):
			tag = "null"
		}
		c.addCallWith(t, kinds[k%len(kinds)], "gen:"+tag, "")
		k++
		c.addOverlap(t, t) // two overlapping calls: every kind of output, at every version, with either peer
		switch t.outTy.K {
		case "ptr":
			c.addCallWith(t, "", "", "nilptr")
		case "any":
			c.addCallWith(t, "", "", "nilany")
			// a nil output, and the handler sets the structured content itself (twice)
			c.hset = true
			c.addCallWith(t, "", "", "nilany")
			c.addCallWith(t, "", "", "nilany")
			c.hset = false
		case "slice", "map":
			c.addCallWith(t, "", "", "x"+hxs("null")) // a nil slice / map: JSON null
		}
	}
	for _, rn := range ttMatrixRegs {
		reg := ttRegByName(rn)
		if reg == nil {
			continue
		}
		if reg.out.Kind() == reflect.Interface {
			for _, sj := range ttMatrixAnySchemas {
				n++
				v, _ := ttParse([]byte(sj))
				calls(c.emitTool(fmt.Sprintf("t%d", n), reg, nil, v))
			}
			n++
			calls(c.emitTool(fmt.Sprintf("t%d", n), reg, nil, nil))
			continue
		}
		n++
		first := c.emitTool(fmt.Sprintf("t%d", n), reg, nil, nil) // both sides derived
		calls(first)
		if n == 1 {
			// a refused registration under the name of the tool just registered; the tool stays what it was
			c.addRefused(first.name, ttRegByName("B/A"))
			c.addCall(first)
			c.addRefused("r0", reg)
		}
		n++
		calls(c.addTool(fmt.Sprintf("t%d", n), reg, 0.5, 1)) // a declared output schema
	}
	return c.lines
}

// ttRelated lists the registrations sharing the In or the Out Go type (pointers stripped) with reg.
func ttRelated(reg *ttReg) []*ttReg {
	var o []*ttReg
	for i := range ttRegs {
		q := &ttRegs[i]
		if ttElem(q.inTy) == ttElem(reg.inTy) && q.inTy.Kind() != reflect.Interface ||
			ttElem(q.out) == ttElem(reg.out) && q.out.Kind() != reflect.Interface ||
			ttElem(q.inTy) == ttElem(reg.out) || ttElem(q.out) == ttElem(reg.inTy) {
			o = append(o, q)
		}
	}
	return o
}

// ttGenCase generates one case. 45 %: one tool on one server (as a program with a single AddTool);
// 55 %: a history — one or two servers, each on cache 0 (none), 1 or 2 of the case, two to four tools
// in all whose Go types mostly overlap (so that the type entries of a shared cache are hit), each side
// of each tool independently derived or declared, names sometimes re-used (replacement), calls after
// every registration addressed to the newest or to an earlier tool of the current server.
func ttGenCase(r *rand.Rand, nCalls int) []string {
	g := &ttGen{r: r, feat: map[string]bool{}}
	c := &ttCaseGen{g: g, lines: []string{"reset"}}
	g.lax = g.coin(0.06)
	g.bigbound = g.coin(0.04)
	pivot := &ttRegs[r.Intn(len(ttRegs))]
	if g.coin(0.45) {
		c.lines = append(c.lines, fmt.Sprintf("server cache=%d %s", g.r.Intn(2), g.session()))
		t := c.addTool("t1", pivot, 0.7, 0.65)
		for i := 0; i < nCalls; i++ {
			if g.coin(0.12) { // overlapping calls on the one tool
				if g.coin(0.3) {
					c.addOverlap(t, t, t)
					i++
				} else {
					c.addOverlap(t, t)
				}
				i++
				continue
			}
			c.addCall(t)
		}
		return c.lines
	}
	related := ttRelated(pivot)
	nServers := 1 + g.r.Intn(2)
	nTools := 2 + g.r.Intn(3)
	left := nCalls + 2
	n := 0
	for sv := 0; sv < nServers; sv++ {
		c.lines = append(c.lines, fmt.Sprintf("server cache=%d %s", []int{0, 1, 1, 1, 2}[g.r.Intn(5)], g.session()))
		var cur []*ttGenTool
		k := nTools / nServers
		if sv == nServers-1 {
			k = nTools - n
		}
		if k < 1 {
			k = 1
		}
		for i := 0; i < k; i++ {
			n++
			reg := pivot
			if n > 1 {
				if x := g.r.Float64(); x < 0.2 {
					reg = pivot // the same Go types again: both type entries of a shared cache are hit
				} else if x < 0.75 {
					reg = related[g.r.Intn(len(related))]
				} else {
					reg = &ttRegs[r.Intn(len(ttRegs))]
				}
			}
			name := fmt.Sprintf("t%d", n)
			if len(cur) > 0 && g.coin(0.1) {
				name = cur[g.r.Intn(len(cur))].name // replaces that tool
				for j, t := range cur {
					if t.name == name {
						cur = append(cur[:j], cur[j+1:]...)
						break
					}
				}
			}
			if g.coin(0.08) {
				// a refused registration first: under a new name, or under the name of a tool of this server,
				// which is then called (it must be the tool it was)
				if len(cur) > 0 && g.coin(0.6) {
					old := cur[g.r.Intn(len(cur))]
					c.addRefused(old.name, reg)
					c.addCall(old)
				} else {
					c.addRefused(fmt.Sprintf("r%d", n), reg)
				}
			}
			t := c.addTool(name, reg, 0.5, 0.5)
			cur = append(cur, t)
			// calls: more to the tools registered later in the history
			q := 1 + g.r.Intn(3)
			if n == nTools {
				q = left
			}
			for ; q > 0 && left > 0; q-- {
				left--
				tgt := t
				if g.coin(0.3) {
					tgt = cur[g.r.Intn(len(cur))]
				}
				if g.coin(0.12) { // overlapping calls: on one tool, or on two tools of the server
					left--
					q--
					other := tgt
					if g.coin(0.4) {
						other = cur[g.r.Intn(len(cur))]
					}
					c.addOverlap(tgt, other)
					continue
				}
				c.addCall(tgt)
			}
		}
	}
	return c.lines
}

func TestVerifTypedTool(t *testing.T) {
	out := verifOpen(t)
	defer out.close()
	w := ttNewWorld(t)
	caseNo := 0
	runCase := func(lines []string, extra ...string) {
		caseNo++
		cs := fmt.Sprintf("c%d", caseNo)
		var ops []string
		for _, l := range lines {
			if strings.HasPrefix(l, "#") || strings.TrimSpace(l) == "" {
				continue
			}
			ops = append(ops, l)
		}
		for i := 0; i < len(ops); i++ {
			// a group of overlapping calls: `call ... ovl=1`, `call ... ovl=2`, ... on consecutive lines
			if n := ttOvlGroup(ops[i:]); n > 1 {
				var group [][]string
				for _, l := range ops[i : i+n] {
					group = append(group, strings.Fields(l))
				}
				for _, r := range w.callGroup(group) {
					out.line(cs, r.op, r.obs, append(r.tags, extra...)...)
				}
				i += n - 1
				continue
			}
			op, obs, tags := w.run(ops[i])
			out.line(cs, op, obs, append(tags, extra...)...)
		}
	}
	readOps := func(p string) []string {
		b, err := os.ReadFile(p)
		if err != nil {
			t.Fatal(err)
		}
		return strings.Split(string(b), "\n")
	}
	if rp := os.Getenv("VERIF_REPLAY"); rp != "" {
		runCase(readOps(rp), "replay")
		return
	}
	if dir := os.Getenv("VERIF_CORPUS"); dir != "" {
		files, _ := filepath.Glob(filepath.Join(dir, "*.ops"))
		sort.Strings(files)
		for _, f := range files {
			runCase(readOps(f), "corpus")
		}
	}
	// float64 rendering self-test of the model's rounding function
	r := verifRng(16)
	f64 := []string{"reset"}
	for _, e := range ttExtremes {
		f64 = append(f64, "f64 "+e)
	}
	for i := 0; i < 150; i++ {
		n := new(big.Int).Rand(r, new(big.Int).Lsh(big.NewInt(1), uint(54+r.Intn(12))))
		if r.Intn(2) == 0 {
			n.Neg(n)
		}
		f64 = append(f64, "f64 "+n.String())
	}
	runCase(f64)
	// the version matrix: every supported protocol version (and the SDK client's default) x both kinds of peer
	for _, ver := range append([]string{"default"}, supportedProtocolVersions...) {
		for _, peer := range []string{"sdk", "raw"} {
			runCase(ttMatrixCase(r, ver, peer), "matrix")
		}
	}
	n := verifN(1100, 20000)
	for i := 0; i < n; i++ {
		runCase(ttGenCase(r, 8))
	}
}
