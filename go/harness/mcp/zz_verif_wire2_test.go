// E2 (wire) harness, second file: frames that carry no message (empty array, array of blanks, null,
// nested empty arrays, arrays with null members …) through EVERY reader of peer data — ioConn.Read,
// readBatch, the POST bodies of the streamable handler (stateless and stateful) and of the legacy SSE
// transport, a live server session on an io transport and a live streamable client (both in a child
// process: their goroutines are the SDK's, a panic there cannot be recovered) — frames in several
// white-space layouts, and the decode fuzz of the protocol types (null / wrong-typed / wrong-case
// members at every position; InputRequestMap entries against the Lean model).
package mcp

import (
	"bufio"
	"bytes"
	"context"
	"encoding/json"
	"errors"
	"fmt"
	"io"
	"math/rand"
	"net/http"
	"net/http/httptest"
	"os"
	"os/exec"
	"reflect"
	"sort"
	"strings"
	"time"

	internaljson "github.com/modelcontextprotocol/go-sdk/internal/json"
	"github.com/modelcontextprotocol/go-sdk/jsonrpc"
)

// ------------------------------------------------------------------ frames and layouts

// layoutText renders v with insignificant white space: 0 compact; 1 blanks after every structural
// character and in front; 2 tabs (the io paths end such a frame with CRLF); 3 line breaks and
// indentation inside (HTTP bodies only: a frame on a newline-delimited stream has no line break inside).
// No white space is put behind the value: ioConn's reader accepts nothing but the line end there.
func layoutText(v jv, k int) string {
	t := v.text()
	if k <= 0 || k > 3 {
		return t
	}
	ws := []string{"", " ", "\t", "\n  "}[k]
	var b strings.Builder
	b.WriteString(strings.TrimLeft(ws, "\n"))
	inStr, esc := false, false
	for i := 0; i < len(t); i++ {
		c := t[i]
		if inStr {
			b.WriteByte(c)
			switch {
			case esc:
				esc = false
			case c == '\\':
				esc = true
			case c == '"':
				inStr = false
			}
			continue
		}
		switch c {
		case '"':
			inStr = true
			b.WriteByte(c)
		case '[', '{', ',', ':':
			b.WriteByte(c)
			b.WriteString(ws)
		case ']', '}':
			b.WriteString(ws)
			b.WriteByte(c)
		default:
			b.WriteByte(c)
		}
	}
	return b.String()
}

// frameArg parses "<jv> [L<k>]".
func (p *tokStream) frameArg() (v jv, layout int, ok bool) {
	v, ok = p.jv()
	if !ok {
		return
	}
	if t := p.peek(); strings.HasPrefix(t, "L") && len(t) > 1 {
		p.next()
		if _, err := fmt.Sscanf(t[1:], "%d", &layout); err != nil {
			return v, 0, false
		}
	}
	return v, layout, p.done()
}

func lineEnd(layout int) string {
	if layout == 2 {
		return "\r\n"
	}
	return "\n"
}

var (
	okNotif = wireReq(nil, "notifications/progress", nil)
	okPing  = func() jv { id := jStr("p1"); return wireReq(&id, "ping", nil) }()
)

// degenerateFrames: JSON values that are well-formed texts but carry no message, or carry a
// non-message next to messages. (`[ ]`, ` null` etc. are these in another layout.)
func degenerateFrames() []jv {
	return []jv{
		jArr(), jNull(), jArr(jArr()), jArr(jArr(), jArr()), jArr(jNull()), jArr(jNull(), jNull()), jArr(jArr(jNull())),
		jArr(jObj()), jObj(), jInt(0), jStr(""), jBool(true), jBool(false), jArr(jInt(0)), jArr(jStr("a")), jDec("15", -1),
		jArr(jNull(), okNotif), jArr(okNotif, jNull()), jArr(jArr(okNotif)), jArr(okNotif, jArr()), jArr(jArr(), okPing),
		jObj(jmem{"jsonrpc", jNull()}), jArr(jObj(jmem{"jsonrpc", jStr("2.0")}, jmem{"id", jNull()})),
	}
}

// ------------------------------------------------------------------ running something that may panic or hang

// guarded runs f on its own goroutine under recover and waits at most d for it.
func guarded(d time.Duration, f func() string) string {
	ch := make(chan string, 1)
	go func() {
		defer func() {
			if r := recover(); r != nil {
				ch <- "panic"
			}
		}()
		ch <- f()
	}()
	select {
	case obs := <-ch:
		return obs
	case <-time.After(d):
		return "hang"
	}
}

// ------------------------------------------------------------------ child processes for several ops

// inChildren runs the ops in child processes of this test binary (one child as long as it lives; a
// child that dies or is killed on an op is that op's observation, the rest goes to a fresh child).
func inChildren(ops []string) map[string]string {
	out := map[string]string{}
	rest := append([]string(nil), ops...)
	for len(rest) > 0 {
		ctx, cancel := context.WithTimeout(context.Background(), time.Duration(20+8*len(rest))*time.Second)
		cmd := exec.CommandContext(ctx, os.Args[0], "-test.run", "^TestVerifWireChild$", "-test.count=1")
		cmd.Env = append(os.Environ(), "VERIF_CHILD_OPS="+strings.Join(rest, "\n"), "VERIF_CHILD_OP=")
		raw, err := cmd.CombinedOutput()
		killed := ctx.Err() != nil
		cancel()
		done := 0
		for _, l := range strings.Split(string(raw), "\n") {
			if r, ok := strings.CutPrefix(l, "CHILD-OBS "); ok && done < len(rest) {
				out[rest[done]] = strings.TrimSpace(r)
				done++
			}
		}
		if done >= len(rest) {
			break
		}
		// the child ended on op rest[done]
		switch {
		case killed:
			out[rest[done]] = "hang"
		case err != nil && (strings.Contains(string(raw), "panic:") || strings.Contains(string(raw), "fatal error:")):
			out[rest[done]] = "panic"
		default:
			out[rest[done]] = "child-failed"
		}
		rest = rest[done+1:]
	}
	return out
}

// ------------------------------------------------------------------ live sessions (run in the child)

func liveServer() *Server {
	s := NewServer(&Implementation{Name: "verif", Version: "0"}, nil)
	s.AddTool(&Tool{Name: "t", InputSchema: json.RawMessage(`{"type":"object"}`)}, func(ctx context.Context, req *CallToolRequest) (*CallToolResult, error) {
		return &CallToolResult{Content: []Content{}}, nil
	})
	return s
}

// hasID: does a line written by the server hold a response with that string id (on its own or in a batch)?
func hasID(line string, id string) bool {
	v, err := parseJSON([]byte(line))
	if err != nil {
		return false
	}
	is := func(e jv) bool {
		x, ok := e.get("id")
		return ok && x.k == 's' && x.s == id
	}
	if v.k == 'a' {
		for _, e := range v.a {
			if is(e) {
				return true
			}
		}
		return false
	}
	return is(v)
}

// liveIO: a server session over an io transport is initialized at the given protocol generation, then
// gets the frame, then a ping. alive: the ping was answered; closed: the session ended (Read
// reported an error); hang: neither within the time limit. A panic of the reader takes the process.
func liveIO(ver string, text string) string {
	inR, inW := io.Pipe()
	outR, outW := io.Pipe()
	ctx, cancel := context.WithTimeout(context.Background(), 4*time.Second)
	defer cancel()
	ss, err := liveServer().Connect(ctx, &IOTransport{Reader: inR, Writer: outW}, nil)
	if err != nil {
		return "setup-error"
	}
	lines := make(chan string, 256)
	go func() {
		sc := bufio.NewScanner(outR)
		sc.Buffer(make([]byte, 1<<16), 1<<24)
		for sc.Scan() {
			lines <- sc.Text()
		}
		close(lines)
	}()
	ended := make(chan struct{})
	go func() { ss.Wait(); close(ended) }()
	send := func(s string) {
		go inW.Write([]byte(s))
	}
	waitFor := func(id string) string {
		for {
			select {
			case l, ok := <-lines:
				if !ok {
					return "closed"
				}
				if hasID(l, id) {
					return "alive"
				}
			case <-ended:
				return "closed"
			case <-ctx.Done():
				return "hang"
			}
		}
	}
	pv := protocolVersion20250326
	if ver == "new" {
		pv = protocolVersion20250618
	}
	send(`{"jsonrpc":"2.0","id":"verif-init","method":"initialize","params":{"protocolVersion":"` + pv + `","capabilities":{},"clientInfo":{"name":"verif","version":"0"}}}` + "\n")
	if r := waitFor("verif-init"); r != "alive" {
		return "setup-" + r
	}
	// one write: the notification, the frame under test, the ping
	send(`{"jsonrpc":"2.0","method":"notifications/initialized"}` + "\n" + text + `{"jsonrpc":"2.0","id":"verif-after","method":"ping"}` + "\n")
	obs := waitFor("verif-after")
	inW.Close()
	return obs
}

// fakeStreamable answers a streamable client: initialize properly, notifications with 202, and the
// ping under test with the frame — as the JSON body, or as the data of one SSE event.
type fakeStreamable struct {
	kind, frame string
}

func (f *fakeStreamable) resp(req *http.Request, status int, ctype, body string) *http.Response {
	h := http.Header{}
	if ctype != "" {
		h.Set("Content-Type", ctype)
	}
	h.Set(sessionIDHeader, "sess")
	return &http.Response{StatusCode: status, Status: http.StatusText(status), Header: h, Body: io.NopCloser(strings.NewReader(body)), Request: req,
		Proto: "HTTP/1.1", ProtoMajor: 1, ProtoMinor: 1}
}

func (f *fakeStreamable) RoundTrip(req *http.Request) (*http.Response, error) {
	switch req.Method {
	case http.MethodDelete:
		return f.resp(req, http.StatusNoContent, "", ""), nil
	case http.MethodPost:
		body, _ := io.ReadAll(req.Body)
		msg, err := jsonrpc.DecodeMessage(body)
		if err != nil {
			return f.resp(req, 400, "", ""), nil
		}
		r, ok := msg.(*jsonrpc.Request)
		if !ok || !r.IsCall() {
			return f.resp(req, http.StatusAccepted, "", ""), nil
		}
		idb, _ := json.Marshal(r.ID.Raw())
		switch r.Method {
		case methodInitialize:
			res, _ := json.Marshal(&InitializeResult{Capabilities: &ServerCapabilities{}, ProtocolVersion: protocolVersion20250618, ServerInfo: &Implementation{Name: "verif", Version: "0"}})
			return f.resp(req, 200, "application/json", fmt.Sprintf(`{"jsonrpc":"2.0","id":%s,"result":%s}`, idb, res)), nil
		case methodPing:
			frame := strings.ReplaceAll(f.frame, `"@"`, string(idb))
			if f.kind == "sse" {
				return f.resp(req, 200, "text/event-stream", "event: message\ndata: "+frame+"\n\n"), nil
			}
			if how, ok := strings.CutPrefix(f.kind, "sse."); ok {
				// the event stream as a foreign server or a proxy may frame it
				return f.resp(req, 200, "text/event-stream", sseFraming(how, frame)), nil
			}
			return f.resp(req, 200, "application/json", frame), nil
		}
		return f.resp(req, 400, "", ""), nil
	}
	return f.resp(req, http.StatusMethodNotAllowed, "", ""), nil
}

// liveCli: a streamable client session whose ping is answered with the frame.
func liveCli(kind, text string) string {
	ctx, cancel := context.WithTimeout(context.Background(), 6*time.Second)
	defer cancel()
	c := NewClient(&Implementation{Name: "verif", Version: "0"}, nil)
	cs, err := c.Connect(ctx, &StreamableClientTransport{Endpoint: "http://verif.invalid/mcp", HTTPClient: &http.Client{Transport: &fakeStreamable{kind: kind, frame: text}},
		DisableStandaloneSSE: true, MaxRetries: -1}, nil)
	if err != nil {
		return "setup-error"
	}
	pctx, pcancel := context.WithTimeout(ctx, 3*time.Second)
	defer pcancel()
	err = cs.Ping(pctx, nil)
	go cs.Close()
	switch {
	case err == nil:
		return "ok"
	case errors.Is(err, context.DeadlineExceeded) || pctx.Err() != nil:
		return "hang"
	}
	return "error"
}

// ------------------------------------------------------------------ POST bodies

type postWorld struct {
	stateless, stateful http.Handler
	sse                 *SSEServerTransport
}

func (w *postWorld) init() {
	if w.stateless != nil {
		return
	}
	srv := liveServer()
	get := func(*http.Request) *Server { return srv }
	w.stateless = NewStreamableHTTPHandler(get, &StreamableHTTPOptions{Stateless: true})
	w.stateful = NewStreamableHTTPHandler(get, nil)
	w.sse = &SSEServerTransport{Endpoint: "/m", Response: httptest.NewRecorder()}
	if _, err := srv.Connect(context.Background(), w.sse, nil); err != nil {
		w.sse = nil
	}
}

func (w *postWorld) post(path string, body string) string {
	w.init()
	return guarded(10*time.Second, func() string {
		req := httptest.NewRequest(http.MethodPost, "/m", strings.NewReader(body))
		req.Header.Set("Content-Type", "application/json")
		req.Header.Set("Accept", "application/json, text/event-stream")
		ctx, cancel := context.WithTimeout(context.Background(), 5*time.Second)
		defer cancel()
		req = req.WithContext(ctx)
		rec := httptest.NewRecorder()
		switch path {
		case "stateless":
			w.stateless.ServeHTTP(rec, req)
		case "stateful":
			w.stateful.ServeHTTP(rec, req)
		case "sse":
			if w.sse == nil {
				return "setup-error"
			}
			w.sse.ServeHTTP(rec, req)
		default:
			return "bad-op"
		}
		txt := rec.Body.String()
		if rec.Code == http.StatusBadRequest && (strings.HasPrefix(txt, "malformed payload") || strings.HasPrefix(txt, "failed to parse body")) {
			return "malformed"
		}
		return fmt.Sprintf("status %d", rec.Code)
	})
}

// ------------------------------------------------------------------ decode fuzz of the protocol types

// fuzzTypes: the registry of the method tables plus the types that only occur nested or behind
// interfaces (every type with an UnmarshalJSON of its own is here or reachable from here).
func fuzzTypes() (map[string]reflect.Type, []string) {
	types, _ := wireRegistry()
	out := map[string]reflect.Type{}
	for n, t := range types {
		out[n] = t
	}
	for _, x := range []any{&Tool{}, &Prompt{}, &Resource{}, &ResourceTemplate{}, &Root{}, &CompleteReference{}, &ResourceContents{}, &Annotations{},
		&ElicitParams{}, &ElicitResult{}, &UnsupportedProtocolVersionData{}, &ModelPreferences{}, &ToolAnnotations{}, &PromptArgument{}, &Implementation{},
		&ClientCapabilities{}, &ServerCapabilities{}, &Icon{}} {
		t := reflect.TypeOf(x).Elem()
		out[t.Name()] = t
	}
	var names []string
	for n := range out {
		names = append(names, n)
	}
	sort.Strings(names)
	return out, names
}

type jpath []int

func jvPaths(v jv, cur jpath, out *[]jpath) {
	*out = append(*out, append(jpath(nil), cur...))
	switch v.k {
	case 'a':
		for i, e := range v.a {
			jvPaths(e, append(cur, i), out)
		}
	case 'o':
		for i, m := range v.o {
			jvPaths(m.v, append(cur, i), out)
		}
	}
}

// jvEdit returns a copy of v in which the node at p is replaced by f(node); drop removes it from its parent.
func jvEdit(v jv, p jpath, f func(jv) (jv, bool)) jv {
	if len(p) == 0 {
		n, _ := f(v)
		return n
	}
	i := p[0]
	switch v.k {
	case 'a':
		if i >= len(v.a) {
			return v
		}
		out := jv{k: 'a'}
		for j, e := range v.a {
			if j != i {
				out.a = append(out.a, e)
				continue
			}
			if len(p) == 1 {
				if n, keep := f(e); keep {
					out.a = append(out.a, n)
				}
			} else {
				out.a = append(out.a, jvEdit(e, p[1:], f))
			}
		}
		return out
	case 'o':
		if i >= len(v.o) {
			return v
		}
		out := jv{k: 'o'}
		for j, m := range v.o {
			if j != i {
				out.o = append(out.o, m)
				continue
			}
			if len(p) == 1 {
				if n, keep := f(m.v); keep {
					out.o = append(out.o, jmem{m.k, n})
				}
			} else {
				out.o = append(out.o, jmem{m.k, jvEdit(m.v, p[1:], f)})
			}
		}
		return out
	}
	return v
}

// jvRename renames the member at p (p ends in a member index of an object).
func jvRename(v jv, p jpath, name string) jv {
	if len(p) == 0 || v.k == 0 {
		return v
	}
	i := p[0]
	switch v.k {
	case 'a':
		if i >= len(v.a) {
			return v
		}
		out := jv{k: 'a', a: append([]jv(nil), v.a...)}
		out.a[i] = jvRename(v.a[i], p[1:], name)
		return out
	case 'o':
		if i >= len(v.o) {
			return v
		}
		out := jv{k: 'o', o: append([]jmem(nil), v.o...)}
		if len(p) == 1 {
			out.o[i] = jmem{name, v.o[i].v}
		} else {
			out.o[i] = jmem{v.o[i].k, jvRename(v.o[i].v, p[1:], name)}
		}
		return out
	}
	return v
}

// memberAt: the name of the member p points to, if p ends at a member of an object.
func memberAt(v jv, p jpath) (string, bool) {
	for len(p) > 1 {
		switch v.k {
		case 'a':
			if p[0] >= len(v.a) {
				return "", false
			}
			v = v.a[p[0]]
		case 'o':
			if p[0] >= len(v.o) {
				return "", false
			}
			v = v.o[p[0]].v
		default:
			return "", false
		}
		p = p[1:]
	}
	if len(p) == 1 && v.k == 'o' && p[0] < len(v.o) {
		return v.o[p[0]].k, true
	}
	return "", false
}

func pathTok(p jpath) string {
	parts := make([]string, len(p))
	for i, x := range p {
		parts[i] = fmt.Sprint(x)
	}
	return strings.Join(parts, ".")
}

// jvParent: the object (or array) that holds the node p points to.
func jvParent(v jv, p jpath) jv {
	for len(p) > 1 {
		switch v.k {
		case 'a':
			v = v.a[p[0]]
		case 'o':
			v = v.o[p[0]].v
		}
		p = p[1:]
	}
	return v
}

// renamedAt: v with the member at p renamed, in canonical member order, and the path of the renamed
// member there (renaming moves it among its siblings); not ok if the new name is taken.
func renamedAt(v jv, p jpath, name string) (jv, jpath, bool) {
	if _, clash := jvParent(v, p).get(name); clash {
		return v, nil, false
	}
	a := canonJ(jvRename(v, p, name))
	parent := jvParent(a, p)
	if parent.k != 'o' {
		return v, nil, false
	}
	for i, m := range parent.o {
		if m.k == name {
			ap := append(append(jpath(nil), p[:len(p)-1]...), i)
			return a, ap, true
		}
	}
	return v, nil, false
}

func flipCase(s string) (string, bool) {
	b := []byte(s)
	for i, c := range b {
		switch {
		case c >= 'a' && c <= 'z':
			b[i] = c - 32
			return string(b), true
		case c >= 'A' && c <= 'Z':
			b[i] = c + 32
			return string(b), true
		}
	}
	return s, false
}

var wrongValues = []jv{jNull(), jBool(true), jInt(7), jDec("15", -1), jStr(""), jStr("x"), jArr(), jArr(jNull()), jArr(jArr()), jObj(), jObj(jmem{"a", jNull()}),
	jObj(jmem{"type", jNull()}), jObj(jmem{"method", jNull()}), jArr(jObj()), jBig("9223372036854775808")}

// hasEmptyKey: the token form cannot carry a member with the empty name.
func hasEmptyKey(v jv) bool {
	for _, e := range v.a {
		if hasEmptyKey(e) {
			return true
		}
	}
	for _, m := range v.o {
		if m.k == "" || hasEmptyKey(m.v) {
			return true
		}
	}
	return false
}

// canonJ: the value as the harness side of an op will see it (members sorted by name).
func canonJ(v jv) jv {
	c, ok := newToks(v.tok()).jv()
	if !ok {
		return v
	}
	return c
}

// mutateJ: one structural mutation at a random position.
func mutateJ(r *rand.Rand, v jv) (jv, string) {
	var ps []jpath
	jvPaths(v, nil, &ps)
	p := ps[r.Intn(len(ps))]
	switch r.Intn(6) {
	case 0, 1:
		return jvEdit(v, p, func(jv) (jv, bool) { return jNull(), true }), "mut:null"
	case 2:
		return jvEdit(v, p, func(jv) (jv, bool) { return wrongValues[r.Intn(len(wrongValues))], true }), "mut:wrong-type"
	case 3:
		return jvEdit(v, p, func(n jv) (jv, bool) { return n, false }), "mut:drop"
	case 4:
		if name, ok := memberAt(v, p); ok {
			if fl, ok := flipCase(name); ok {
				return jvRename(v, p, fl), "mut:case"
			}
		}
		return jvEdit(v, p, func(jv) (jv, bool) { return jNull(), true }), "mut:null"
	default:
		// a null / wrong entry added to an object (maps keyed by request id, _meta, arguments …)
		return jvEdit(v, p, func(n jv) (jv, bool) {
			if n.k != 'o' {
				return jObj(jmem{"k", jNull()}), true
			}
			out := jv{k: 'o', o: append(append([]jmem(nil), n.o...), jmem{"zz", wrongValues[r.Intn(len(wrongValues))]})}
			return out, true
		}), "mut:entry"
	}
}

func decodeInto(t reflect.Type, data []byte) string {
	x := reflect.New(t).Interface()
	if err := internaljson.Unmarshal(data, x); err != nil {
		return "err"
	}
	out, err := json.Marshal(x)
	if err != nil {
		return "err-marshal"
	}
	return tokJSON(out)
}

// inputRequestsTok: the decoded map as "ok <hexkey> s<hexmethod> …" sorted by key.
func inputRequestsTok(m InputRequestMap) string {
	keys := make([]string, 0, len(m))
	for k := range m {
		keys = append(keys, k)
	}
	sort.Strings(keys)
	parts := []string{"ok"}
	for _, k := range keys {
		method := "?"
		switch m[k].(type) {
		case *ElicitParams:
			method = methodElicit
		case *CreateMessageParams, *CreateMessageWithToolsParams:
			method = methodCreateMessage
		case *ListRootsParams:
			method = methodListRoots
		}
		parts = append(parts, hxs(k), "s"+hxs(method))
	}
	return strings.Join(parts, " ")
}

// genInputRequests: an inputRequests object: entries valid, null, wrong-typed, with members missing,
// wrong-typed or in another case.
func genInputRequests(r *rand.Rand) jv {
	if r.Intn(25) == 0 {
		return []jv{jNull(), jArr(), jStr("x"), jInt(1), jObj()}[r.Intn(5)]
	}
	methods := []string{methodElicit, methodCreateMessage, methodListRoots, methodListRoots, "tools/call", "", "Roots/List"}
	out := jv{k: 'o'}
	for i, n := 0, 1+r.Intn(3); i < n; i++ {
		key := fmt.Sprintf("r%d", i)
		var e jv
		switch x := r.Intn(20); {
		case x < 2:
			e = jNull()
		case x < 3:
			e = []jv{jArr(), jStr("x"), jInt(3), jBool(true)}[r.Intn(4)]
		default:
			var mem []jmem
			mname, pname := "method", "params"
			if r.Intn(10) == 0 {
				mname = []string{"Method", "METHOD", "methoD"}[r.Intn(3)]
			}
			if r.Intn(12) == 0 {
				pname = []string{"Params", "PARAMS"}[r.Intn(2)]
			}
			if r.Intn(12) > 0 {
				var mv jv = jStr(methods[r.Intn(len(methods))])
				if r.Intn(15) == 0 {
					mv = []jv{jNull(), jInt(1), jArr(), jObj()}[r.Intn(4)]
				}
				mem = append(mem, jmem{mname, mv})
			}
			if r.Intn(10) > 0 {
				pv := jObj()
				switch r.Intn(8) {
				case 0:
					pv = jNull()
				case 1:
					pv = []jv{jArr(), jStr("x"), jInt(3), jBool(false)}[r.Intn(4)]
				}
				mem = append(mem, jmem{pname, pv})
			}
			if r.Intn(6) == 0 {
				mem = append(mem, jmem{"extra", genSafeJ(r, 1)})
			}
			e = jObj(mem...)
		}
		out.o = append(out.o, jmem{key, e})
	}
	return out
}

// ------------------------------------------------------------------ the ops

func (w *wireWorld) apply2(kind string, p *tokStream, op string) string {
	switch kind {
	case "io.rb":
		v, layout, ok := p.frameArg()
		if !ok {
			return "bad-op"
		}
		msgs, batch, err := readBatch([]byte(layoutText(v, layout)))
		if err != nil {
			return "err " + readErrTok(err)
		}
		if batch {
			return fmt.Sprintf("ok %d batch", len(msgs))
		}
		return fmt.Sprintf("ok %d single", len(msgs))
	case "h.post":
		path := p.next()
		v, layout, ok := p.frameArg()
		if !ok {
			return "bad-op"
		}
		body := layoutText(v, layout)
		if layout == 3 {
			body += "\n"
		}
		return w.posts.post(path, body)
	case "live.io":
		ver := p.next()
		v, layout, ok := p.frameArg()
		if !ok || (ver != "old" && ver != "new") || layout == 3 {
			return "bad-op"
		}
		if !w.child {
			if obs, ok := w.childCache[op]; ok {
				return obs
			}
			return inChildren([]string{op})[op]
		}
		return liveIO(ver, layoutText(v, layout)+lineEnd(layout))
	case "live.cli":
		k := p.next()
		v, layout, ok := p.frameArg()
		if !ok || (k != "json" && k != "sse" && !strings.HasPrefix(k, "sse.")) || layout > 1 {
			return "bad-op"
		}
		if !w.child {
			if obs, ok := w.childCache[op]; ok {
				return obs
			}
			return inChildren([]string{op})[op]
		}
		return liveCli(k, layoutText(v, layout))
	case "r.fuzz":
		name := p.next()
		types, _ := fuzzTypes()
		t, ok1 := types[name]
		v, ok2 := p.jv()
		if !ok1 || !ok2 || !p.done() {
			return "bad-op"
		}
		data := []byte(v.text())
		internaljson.Unmarshal(data, reflect.New(t).Interface())
		json.Unmarshal(data, reflect.New(t).Interface())
		return "nopanic"
	case "r.case":
		name := p.next()
		types, _ := fuzzTypes()
		t, ok1 := types[name]
		var path jpath
		for _, s := range strings.Split(p.next(), ".") {
			var i int
			if _, err := fmt.Sscanf(s, "%d", &i); err != nil {
				return "bad-op"
			}
			path = append(path, i)
		}
		key, ok2 := p.str()
		a, ok3 := p.jv()
		if !ok1 || !ok2 || !ok3 || !p.done() {
			return "bad-op"
		}
		if got, ok := memberAt(a, path); !ok || got != key {
			return "bad-op"
		}
		b := jvEdit(a, path, func(n jv) (jv, bool) { return n, false })
		c := jvRename(a, path, "zzq_"+key)
		da, db, dc := decodeInto(t, []byte(a.text())), decodeInto(t, []byte(b.text())), decodeInto(t, []byte(c.text()))
		if dc != db {
			return "map" // a position where a foreign member name is data (a map, an any-typed member)
		}
		if da == db {
			return "struct same"
		}
		return "struct differ"
	case "r.irm":
		v, ok := p.jv()
		if !ok || !p.done() {
			return "bad-op"
		}
		// through the result type that carries it, as the client decodes a tools/call result
		var res CallToolResult
		data := []byte(jObj(jmem{"content", jArr()}, jmem{"inputRequests", v}).text())
		if err := internaljson.Unmarshal(data, &res); err != nil {
			return "err"
		}
		return inputRequestsTok(res.InputRequests)
	}
	return w.apply3(kind, p, op)
}

// prefetch runs the child-process ops of a case list ahead of time, all in one child.
func (w *wireWorld) prefetch(ops []string) {
	if w.childCache == nil {
		w.childCache = map[string]string{}
	}
	var need []string
	for _, op := range ops {
		if _, ok := w.childCache[op]; !ok {
			need = append(need, op)
		}
	}
	for op, obs := range inChildren(need) {
		w.childCache[op] = obs
	}
}

var _ = bytes.NewReader
