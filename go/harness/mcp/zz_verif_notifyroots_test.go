// E14 correspondence harness, client side (C18): ONE real Client, connected to 0-4 real Servers over
// in-memory transports (each connection is one ClientSession of that client), its roots changed through
// AddRoots / RemoveRoots under every configuration of the roots capability. Observed: which servers'
// RootsListChangedHandler ran because of a call. Model and monitor: lean/McpModel/Notify/Roots.lean.
//
// Op grammar (cases r<n> of the stream `sessions`; every op starts with `roots`):
//   roots config <nil|empty|v2on|v2off|v1on|v1off|v2on+v1off|v2off+v1on>   => ok   (ClientOptions.Capabilities; first op of a case)
//   roots connect <sid> legacy|modern                                     => ok   (a new server; the client connects to it)
//   roots close <sid>                                                     => ok   (that ClientSession is closed)
//   roots add u<j>…      (AddRoots, possibly with no root)                => got <sid>… | got -
//   roots remove u<j>…   (ONE RemoveRoots call)                           => got <sid>… | got -
package mcp

import (
	"context"
	"fmt"
	"math/rand"
	"sort"
	"strconv"
	"strings"
	"sync"
	"testing"
	"testing/synctest"
)

type nfRootsWorld struct {
	c    *Client
	mu   sync.Mutex
	got  []int
	cs   map[int]*ClientSession
	ss   map[int]*ServerSession
	conn []int
}

func nfRootsCaps(tok string) (*ClientCapabilities, bool) {
	switch tok {
	case "nil":
		return nil, true
	case "empty": // Capabilities set, roots not mentioned
		return &ClientCapabilities{}, true
	}
	caps := &ClientCapabilities{}
	for _, part := range strings.Split(tok, "+") {
		switch part {
		case "v2on":
			caps.RootsV2 = &RootCapabilities{ListChanged: true}
		case "v2off":
			caps.RootsV2 = &RootCapabilities{ListChanged: false}
		case "v1on":
			caps.Roots.ListChanged = true
		case "v1off":
			caps.Roots.ListChanged = false
		default:
			return nil, false
		}
	}
	return caps, true
}

func (w *nfRootsWorld) apply(toks []string) (obs string) {
	defer func() {
		if r := recover(); r != nil {
			obs = "panic"
		}
	}()
	if len(toks) < 2 || toks[0] != "roots" {
		return "bad-op"
	}
	if toks[1] != "config" && w.c == nil {
		return "bad-op"
	}
	uris := func(ts []string) ([]int, bool) {
		var us []int
		for _, t := range ts {
			n, err := strconv.Atoi(strings.TrimPrefix(t, "u"))
			if err != nil || !strings.HasPrefix(t, "u") {
				return nil, false
			}
			us = append(us, n)
		}
		return us, true
	}
	take := func() string {
		synctest.Wait()
		w.mu.Lock()
		g := w.got
		w.got = nil
		w.mu.Unlock()
		if len(g) == 0 {
			return "got -"
		}
		sort.Ints(g)
		s := "got"
		for _, x := range g {
			s += fmt.Sprintf(" %d", x)
		}
		return s
	}
	switch toks[1] {
	case "config":
		if len(toks) != 3 || w.c != nil {
			return "bad-op"
		}
		caps, ok := nfRootsCaps(toks[2])
		if !ok {
			return "bad-op"
		}
		w.c = NewClient(&Implementation{Name: "verif-roots-client", Version: "1"}, &ClientOptions{Capabilities: caps})
		return "ok"
	case "connect":
		if len(toks) != 4 {
			return "bad-op"
		}
		sid, err := strconv.Atoi(toks[2])
		if err != nil {
			return "bad-op"
		}
		if w.cs[sid] != nil {
			return "ok"
		}
		srv := NewServer(&Implementation{Name: fmt.Sprintf("verif-roots-server-%d", sid), Version: "1"}, &ServerOptions{
			RootsListChangedHandler: func(context.Context, *RootsListChangedRequest) {
				w.mu.Lock()
				w.got = append(w.got, sid)
				w.mu.Unlock()
			},
		})
		ct, st := NewInMemoryTransports()
		ss, err := srv.Connect(context.Background(), st, nil)
		if err != nil {
			return "err"
		}
		ver := protocolVersion20251125
		if toks[3] == "modern" {
			ver = protocolVersion20260728
		}
		cs, err := w.c.Connect(context.Background(), ct, &ClientSessionOptions{ProtocolVersion: ver})
		if err != nil {
			return "err"
		}
		synctest.Wait()
		w.cs[sid], w.ss[sid] = cs, ss
		w.conn = append(w.conn, sid)
		return "ok"
	case "close":
		if len(toks) != 3 {
			return "bad-op"
		}
		sid, err := strconv.Atoi(toks[2])
		if err != nil {
			return "bad-op"
		}
		cs := w.cs[sid]
		if cs == nil {
			return "ok"
		}
		cs.Close()
		synctest.Wait()
		w.ss[sid].Wait()
		delete(w.cs, sid)
		delete(w.ss, sid)
		for i, x := range w.conn {
			if x == sid {
				w.conn = append(w.conn[:i:i], w.conn[i+1:]...)
				break
			}
		}
		return "ok"
	case "add":
		us, ok := uris(toks[2:])
		if !ok {
			return "bad-op"
		}
		var roots []*Root
		for _, u := range us {
			roots = append(roots, &Root{URI: fmt.Sprintf("file:///root/%d", u), Name: fmt.Sprintf("root%d", u)})
		}
		w.c.AddRoots(roots...)
		return take()
	case "remove":
		us, ok := uris(toks[2:])
		if !ok {
			return "bad-op"
		}
		var names []string
		for _, u := range us {
			names = append(names, fmt.Sprintf("file:///root/%d", u))
		}
		w.c.RemoveRoots(names...)
		return take()
	}
	return "bad-op"
}

func (w *nfRootsWorld) cleanup() {
	for sid, cs := range w.cs {
		cs.Close()
		synctest.Wait()
		w.ss[sid].Wait()
	}
}

func nfRootsTag(toks []string, obs string) string {
	if len(toks) < 2 {
		return "roots-bad"
	}
	t := "roots-" + toks[1]
	if toks[1] == "add" || toks[1] == "remove" {
		if obs == "got -" {
			t += "-nobody"
		} else {
			t += "-delivered"
		}
	}
	if toks[1] == "config" && len(toks) == 3 {
		t += "-" + toks[2]
	}
	return t
}

// nfRootsRun runs one client-side case in its own bubble.
func nfRootsRun(t *testing.T, emit nfEmit, next func(w *nfRootsWorld, step int) string) {
	synctest.Test(t, func(t *testing.T) {
		w := &nfRootsWorld{cs: map[int]*ClientSession{}, ss: map[int]*ServerSession{}}
		emit("reset", "ok", "reset")
		for step := 0; ; step++ {
			op := next(w, step)
			if op == "" {
				break
			}
			toks := strings.Fields(op)
			obs := w.apply(toks)
			emit(op, obs, nfRootsTag(toks, obs))
		}
		w.cleanup()
	})
}

// nfRootsIs reports whether an op list (corpus / replay file) is a client-side case.
func nfRootsIs(ops []string) bool {
	for _, op := range ops {
		f := strings.Fields(op)
		if len(f) == 0 || f[0] == "reset" || strings.HasPrefix(op, "#") {
			continue
		}
		return f[0] == "roots"
	}
	return false
}

func nfRootsRunOps(t *testing.T, emit nfEmit, ops []string) {
	i := 0
	nfRootsRun(t, emit, func(w *nfRootsWorld, step int) string {
		for i < len(ops) {
			op := ops[i]
			i++
			f := strings.Fields(op)
			if len(f) == 0 || f[0] == "reset" || strings.HasPrefix(op, "#") {
				continue
			}
			return op
		}
		return ""
	})
}

var nfRootsConfigs = []string{"nil", "empty", "v2on", "v2off", "v1on", "v1off", "v2on+v1off", "v2off+v1on", "v2on+v1on", "v2off+v1off"}

// nfRootsScripted: every configuration against the same short history.
func nfRootsScripted(cfg string) []string {
	return []string{"roots config " + cfg, "roots add u1", "roots connect 1 legacy", "roots connect 2 modern", "roots add u2 u3", "roots add u2",
		"roots connect 3 legacy", "roots remove u9", "roots remove u9 u2 u9", "roots add", "roots close 1", "roots remove u1 u1", "roots remove u1",
		"roots connect 4 legacy", "roots add u5", "roots close 3", "roots close 4", "roots remove u5 u3", "roots close 2", "roots add u7"}
}

func nfRootsGen(rng *rand.Rand) func(w *nfRootsWorld, step int) string {
	n := 8 + rng.Intn(18)
	nextSid := 0
	cfg := nfRootsConfigs[rng.Intn(len(nfRootsConfigs))]
	if rng.Intn(3) == 0 {
		cfg = []string{"nil", "v2on", "v1on"}[rng.Intn(3)]
	}
	names := func() string {
		s := ""
		for k := rng.Intn(4); k >= 0; k-- {
			s += fmt.Sprintf(" u%d", rng.Intn(5))
		}
		return s
	}
	return func(w *nfRootsWorld, step int) string {
		if step == 0 {
			return "roots config " + cfg
		}
		if step > n {
			return ""
		}
		switch r := rng.Intn(100); {
		case r < 22 && len(w.conn) < 4:
			nextSid++
			gen := "legacy"
			if rng.Intn(4) == 0 {
				gen = "modern"
			}
			return fmt.Sprintf("roots connect %d %s", nextSid, gen)
		case r < 34 && len(w.conn) > 0:
			return fmt.Sprintf("roots close %d", w.conn[rng.Intn(len(w.conn))])
		case r < 64:
			if rng.Intn(12) == 0 {
				return "roots add"
			}
			return "roots add" + names()
		default:
			return "roots remove" + names()
		}
	}
}
